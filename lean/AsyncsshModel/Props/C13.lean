import AsyncsshModel.Lemmas.Path
import AsyncsshModel.Lemmas.PathGlob
import AsyncsshModel.Gen.C13
/-
  C13 — File serving and downloading never leave their directory.
  Property theorems only (helper lemmas live in Lemmas/Path.lean).
-/
namespace AsyncsshModel.C13
open AsyncsshModel AsyncsshModel.Path AsyncsshModel.PathMap

/-- the chroot followed by exactly one separator -/
def rootDir (root : Bytes) : Bytes :=
  if root.getLast? = some slash then root else root ++ [slash]

/-- **map_path is confined, for every byte string** sent as a path and every non-empty root:
    the mapped path is the root, a separator, and a `/`-joined list of components none of which is
    empty, `.`, `..` or contains a `/` — so no lexical walk of it can climb above the root. -/
theorem map_path_confined (root p : Bytes) (hroot : root ≠ []) :
    ∃ comps : List Bytes, (∀ c ∈ comps, SafeComp c) ∧
      mapPath root p = rootDir root ++ joinSlash comps := by
  let q := join [slash] p
  have hq : q.head? = some slash := head_join_slash p
  have hqne : q ≠ [] := by intro h; rw [h] at hq; simp at hq
  have hi : initialSlashes q ≠ 0 := by
    rcases initialSlashes_pos_of_head q hq with h | h <;> omega
  have hsafe := normComps_safe q hi
  refine ⟨normComps q, hsafe, ?_⟩
  have hnorm : lstripSlash (normpath q) = joinSlash (normComps q) := by
    unfold normpath
    simp only [hqne, if_false]
    have hne : List.replicate (initialSlashes q) slash ++ joinSlash (normComps q) ≠ [] := by
      rcases initialSlashes_pos_of_head q hq with h | h <;> simp [h, List.replicate]
    simp only [hne, if_false]
    rw [lstripSlash_replicate]
    exact lstripSlash_of_head _ (joinSlash_safe_head _ hsafe)
  show join root (lstripSlash (normpath q)) = _
  rw [hnorm]
  have hh := joinSlash_safe_head _ hsafe
  unfold join rootDir
  simp only [hh, hroot, or_self, if_false]
  split <;> simp

/-- the mapped path always starts with the root -/
theorem map_path_prefix (root p : Bytes) (hroot : root ≠ []) :
    root.isPrefixOf (mapPath root p) = true := by
  obtain ⟨comps, _, h⟩ := map_path_confined root p hroot
  rw [h, List.isPrefixOf_iff_prefix]
  unfold rootDir
  split
  · exact List.prefix_append _ _
  · rw [List.append_assoc]; exact List.prefix_append _ _

/-- Witness of defect F4 (repaired by a `fix:` commit): the code before the fix, which dropped one
    character instead of all leading slashes, maps `//etc/passwd` under root `/srv` to `/etc/passwd`. -/
theorem map_path_old_escapes :
    mapPathOld (strBytes "/srv") (strBytes "//etc/passwd") = strBytes "/etc/passwd" := by
  decide +kernel

/-- and the repaired mapping sends the same input below the root (non-vacuity of the fix) -/
theorem map_path_fixed_example :
    mapPath (strBytes "/srv") (strBytes "//etc/../../passwd") = strBytes "/srv/passwd" := by
  decide +kernel

/-- a mapped path reverse-maps to an absolute client path (round trip through the chroot) -/
theorem reverse_map_of_map (root p : Bytes) (hroot : root ≠ []) (hr : root.getLast? ≠ some slash) :
    ∃ q, reverseMapPath root (mapPath root p) = some q ∧ q.head? = some slash := by
  obtain ⟨comps, _, h⟩ := map_path_confined root p hroot
  have hrd : rootDir root = root ++ [slash] := by simp [rootDir, hr]
  rw [hrd] at h
  refine ⟨slash :: joinSlash comps, ?_, by simp⟩
  unfold reverseMapPath
  rw [h]
  have h1 : ¬ (root ++ [slash] ++ joinSlash comps = root) := by
    intro hc
    have := congrArg List.length hc
    simp at this
  simp only [h1, if_false]
  have h2 : (root ++ [slash]).isPrefixOf (root ++ [slash] ++ joinSlash comps) = true := by
    rw [List.isPrefixOf_iff_prefix]; exact List.prefix_append _ _
  simp only [h2, if_true]
  simp [List.append_assoc]

/-! ### SCP sink -/

/-- raw SCP records as a hostile source can send them -/
inductive RawRec where
  | cd (isDir : Bool) (name : Bytes)
  | e
  | t

def classifyRec : RawRec → ScpRec
  | .cd d n => classify d n
  | .e => .endDir
  | .t => .time

theorem scpNameOk_safe (n : Bytes) (h : scpNameOk n = true) : n ≠ dotdot ∧ slash ∉ n := by
  unfold scpNameOk at h
  simp at h
  exact ⟨h.2, h.1.1⟩

theorem sink_confined_aux (recs : List RawRec) (stack : List Bytes)
    (hs : ∀ c ∈ stack, scpNameOk c = true) :
    ∀ path ∈ sink (recs.map classifyRec) stack, path ≠ [] ∧ ∀ c ∈ path, scpNameOk c = true := by
  induction recs generalizing stack with
  | nil => simp [sink]
  | cons r rs ih =>
    cases r with
    | cd d n =>
      simp only [List.map_cons, classifyRec, classify]
      by_cases hn : scpNameOk n = true
      · simp only [hn, if_true]
        cases d
        · simp only [Bool.false_eq_true, if_false, sink]
          intro path hp
          simp at hp
          rcases hp with rfl | hp
          · refine ⟨by simp, ?_⟩
            intro c hc
            simp at hc
            rcases hc with hc | rfl
            · exact hs c hc
            · exact hn
          · exact ih stack hs path hp
        · simp only [if_true, sink]
          intro path hp
          simp at hp
          rcases hp with rfl | hp
          · refine ⟨by simp, ?_⟩
            intro c hc
            simp at hc
            rcases hc with hc | rfl
            · exact hs c hc
            · exact hn
          · refine ih (n :: stack) ?_ path hp
            intro c hc
            simp at hc
            rcases hc with rfl | hc
            · exact hn
            · exact hs c hc
      · simp only [hn]
        exact ih stack hs
    | e =>
      simp only [List.map_cons, classifyRec, sink]
      cases stack with
      | nil => simp
      | cons s up =>
        simp only
        exact ih up (fun c hc => hs c (by simp [hc]))
    | t =>
      simp only [List.map_cons, classifyRec, sink]
      exact ih stack hs

/-- **SCP sink is confined, for every record sequence**: every path the sink creates or writes is
    a non-empty list of components below the destination, none of them `..` or containing `/`;
    in particular 'E' records can never take it above the destination. -/
theorem scp_sink_confined (recs : List RawRec) :
    ∀ path ∈ sink (recs.map classifyRec) [], path ≠ [] ∧ ∀ c ∈ path, c ≠ dotdot ∧ slash ∉ c := by
  intro path hp
  obtain ⟨h1, h2⟩ := sink_confined_aux recs [] (by simp) path hp
  exact ⟨h1, fun c hc => scpNameOk_safe c (h2 c hc)⟩

theorem sinkO_confined_aux (recs : List RawRec) (stack : List (Option Bytes))
    (hs : ∀ c, some c ∈ stack → scpNameOk c = true) :
    ∀ path ∈ sinkO (recs.map classifyRec) stack, ∀ c ∈ path, scpNameOk c = true := by
  have hpre : ∀ (st : List (Option Bytes)), (∀ c, some c ∈ st → scpNameOk c = true) →
      ∀ c ∈ st.reverse.filterMap id, scpNameOk c = true := by
    intro st h c hc
    simp only [List.mem_filterMap, List.mem_reverse, id] at hc
    obtain ⟨a, ha, rfl⟩ := hc
    exact h c ha
  induction recs generalizing stack with
  | nil => simp [sinkO]
  | cons r rs ih =>
    cases r with
    | cd d n =>
      simp only [List.map_cons, classifyRec, classify]
      by_cases hn : scpNameOk n = true
      · simp only [hn, if_true]
        cases d
        · simp only [Bool.false_eq_true, if_false, sinkO]
          intro path hp
          simp only [List.mem_cons] at hp
          rcases hp with rfl | hp
          · intro c hc
            simp only [List.mem_append, List.mem_singleton] at hc
            rcases hc with hc | rfl
            · exact hpre stack hs c hc
            · exact hn
          · exact ih stack hs path hp
        · simp only [if_true, sinkO]
          intro path hp
          simp only [List.mem_cons] at hp
          rcases hp with rfl | hp
          · intro c hc
            simp only [List.mem_append, List.mem_singleton] at hc
            rcases hc with hc | rfl
            · exact hpre stack hs c hc
            · exact hn
          · refine ih (some n :: stack) ?_ path hp
            intro c hc
            simp only [List.mem_cons, Option.some.injEq] at hc
            rcases hc with rfl | hc
            · exact hn
            · exact hs c hc
      · simp only [hn]
        exact ih stack hs
    | e =>
      simp only [List.map_cons, classifyRec, sinkO]
      cases stack with
      | nil => simp
      | cons s up =>
        simp only
        exact ih up (fun c hc => hs c (by simp [hc]))
    | t =>
      simp only [List.map_cons, classifyRec, sinkO]
      exact ih stack hs

/-- **… also when the destination path does not exist yet or is a file** (`scp -r host:tree newname`): the first
    'D' record creates the destination itself and its name is dropped, so one level of the sink's directory stack
    carries no path component; still every path written is the destination itself (`[]`) or a list of components
    below it, none of them `..` or containing `/`, for every record sequence. -/
theorem scp_sink_new_destination_confined (recs : List RawRec) (isFile : Bool) :
    ∀ path ∈ sinkNew (recs.map classifyRec) isFile, ∀ c ∈ path, c ≠ dotdot ∧ slash ∉ c := by
  induction recs generalizing isFile with
  | nil => simp [sinkNew]
  | cons r rs ih =>
    cases r with
    | cd d n =>
      simp only [List.map_cons, classifyRec, classify]
      by_cases hn : scpNameOk n = true
      · simp only [hn, if_true]
        cases d
        · simp only [Bool.false_eq_true, if_false, sinkNew]
          intro path hp
          simp only [List.mem_cons] at hp
          rcases hp with rfl | hp
          · intro c hc; cases hc
          · exact ih true path hp
        · cases isFile
          · simp only [if_true, sinkNew]
            intro path hp
            simp only [List.mem_cons] at hp
            rcases hp with rfl | hp
            · intro c hc; cases hc
            · intro c hc
              have := sinkO_confined_aux rs [none] (by intro c hc; simp at hc) path hp c hc
              exact scpNameOk_safe c this
          · simp only [if_true, sinkNew]
            exact ih true
      · simp only [hn, Bool.false_eq_true, if_false, sinkNew]
        exact ih isFile
    | e => simp [classifyRec, sinkNew]
    | t =>
      simp only [List.map_cons, classifyRec, sinkNew]
      exact ih isFile

/-! ### recursive SFTP get -/

theorem getName_use_safe (n : Bytes) (h : getNameVerdict n = .use) :
    n ≠ dot ∧ n ≠ dotdot ∧ slash ∉ n := by
  unfold getNameVerdict at h
  split at h
  · cases h
  · rename_i h1
    split at h
    · cases h
    · rename_i h2
      simp at h2
      exact ⟨fun x => h1 (Or.inl x), fun x => h1 (Or.inr x), h2⟩

def GetSafe (c : Bytes) : Prop := c ≠ dot ∧ c ≠ dotdot ∧ slash ∉ c

theorem copyEntries_confined_aux (pre : List Bytes) (es : List Entry) :
    (∀ c ∈ pre, GetSafe c) →
    ∀ path ∈ (copyEntries pre es).1, path ≠ [] ∧ ∀ c ∈ path, GetSafe c := by
  induction pre, es using copyEntries.induct with
  | case1 pre => intro _; simp [copyEntries]
  | case2 pre n rest hv ih => intro hpre; simp only [copyEntries, hv]; exact ih hpre
  | case3 pre n rest hv => intro _; simp [copyEntries, hv]
  | case4 pre n rest hv ps ab heq ih =>
    intro hpre path hp
    simp only [copyEntries, hv, heq] at hp
    simp at hp
    rcases hp with rfl | hp
    · refine ⟨by simp, ?_⟩
      intro c hc
      simp at hc
      rcases hc with hc | rfl
      · exact hpre c hc
      · exact getName_use_safe c hv
    · have := ih hpre path (by rw [heq]; exact hp)
      exact this
  | case5 pre n ch rest hv ih => intro hpre; simp only [copyEntries, hv]; exact ih hpre
  | case6 pre n ch rest hv => intro _; simp [copyEntries, hv]
  | case7 pre n ch rest hv ps heq ih =>
    intro hpre path hp
    have hpre' : ∀ c ∈ n :: pre, GetSafe c := by
      intro c hc; simp at hc
      rcases hc with rfl | hc
      · exact getName_use_safe c hv
      · exact hpre c hc
    simp only [copyEntries, hv, heq] at hp
    simp at hp
    rcases hp with rfl | hp
    · refine ⟨by simp, ?_⟩
      intro c hc
      simp at hc
      rcases hc with hc | rfl
      · exact hpre c hc
      · exact getName_use_safe c hv
    · exact ih hpre' path (by rw [heq]; exact hp)
  | case8 pre n ch rest hv ps1 ab1 heq1 hab ps2 ab2 heq2 ih1 ih2 =>
    intro hpre path hp
    have hpre' : ∀ c ∈ n :: pre, GetSafe c := by
      intro c hc; simp at hc
      rcases hc with rfl | hc
      · exact getName_use_safe c hv
      · exact hpre c hc
    simp only [copyEntries, hv, heq1, heq2, hab] at hp
    simp at hp
    rcases hp with rfl | hp | hp
    · refine ⟨by simp, ?_⟩
      intro c hc
      simp at hc
      rcases hc with hc | rfl
      · exact hpre c hc
      · exact getName_use_safe c hv
    · exact ih1 hpre' path (by rw [heq1]; exact hp)
    · exact ih2 hpre path (by rw [heq2]; exact hp)

/-- **recursive SFTP get is confined, for every tree of names a server can present**: each path
    created locally is a non-empty list of components below the destination, none of which is
    `.`, `..` or contains a `/`. -/
theorem sftp_get_confined (es : List Entry) :
    ∀ path ∈ (copyEntries [] es).1, path ≠ [] ∧ ∀ c ∈ path, c ≠ dotdot ∧ slash ∉ c := by
  intro path hp
  obtain ⟨h1, h2⟩ := copyEntries_confined_aux [] es (by simp) path hp
  exact ⟨h1, fun c hc => ⟨(h2 c hc).2.1, (h2 c hc).2.2⟩⟩

/-- non-vacuity: a hostile listing with `../x`, `..`, and a nested good entry -/
theorem sftp_get_example :
    copyEntries [] [.dir [100] [.file [46, 46], .file [97]], .file [46, 46, 47, 120], .file [98]]
      = ([[[100]], [[100], [97]]], true) := by
  simp [copyEntries, getNameVerdict, dot, dotdot, slash]

/-! ### glob downloads (`mget`) -/

theorem beginCopy_confined (dir : Bytes) (ms : List Entry) (hs : ∀ e ∈ ms, GetSafe e.name) :
    ∀ path ∈ (beginCopy dir ms).1, path ≠ [] ∧ ∀ c ∈ path, GetSafe c := by
  induction ms with
  | nil => simp [beginCopy]
  | cons e rest ih =>
    have hrest : ∀ e ∈ rest, GetSafe e.name := fun e' he' => hs e' (by simp [he'])
    have he : GetSafe e.name := hs e (by simp)
    cases e with
    | file n =>
      have htop : basename (join dir n) = n := basename_join_noslash dir n he.2.2
      intro path hp
      simp only [beginCopy, htop, List.mem_cons] at hp
      rcases hp with rfl | hp
      · exact ⟨by simp, fun c hc => by simp at hc; subst hc; exact he⟩
      · exact ih hrest path hp
    | dir n ch =>
      have htop : basename (join dir n) = n := basename_join_noslash dir n he.2.2
      have hpre : ∀ c ∈ [n], GetSafe c := fun c hc => by simp at hc; subst hc; exact he
      have hch := copyEntries_confined_aux [n] ch hpre
      intro path hp
      simp only [beginCopy, htop] at hp
      split at hp
      · simp only [List.mem_cons] at hp
        rcases hp with rfl | hp
        · exact ⟨by simp, hpre⟩
        · exact hch path hp
      · simp only [List.mem_cons, List.mem_append] at hp
        rcases hp with (rfl | hp) | hp
        · exact ⟨by simp, hpre⟩
        · exact hch path hp
        · exact ih hrest path hp

/-- **Witness of the `mget` defect (repaired by a `fix:` commit)**: before the repair (`fixed = false`) the glob
    accepts the listing name `x/..`; `_begin_copy` takes the basename of the match `/src/x/..` — `..` — as the
    local name, and the directory the server presents under that name is merged into the PARENT of the
    destination the caller named: the file `pwn` is written to `dest/../pwn`. -/
theorem old_mget_dotdot_basename_escapes :
    let src : Bytes := [47, 115, 114, 99]        -- "/src"
    let name : Bytes := [120, 47, 46, 46]        -- "x/.."
    let pwn : Bytes := [112, 119, 110]           -- "pwn"
    globNameVerdict false name = .use ∧ basename (join src name) = dotdot ∧
    mget false src [.dir name [.file pwn]] = ([[dotdot], [dotdot, pwn]], false) ∧
    mget true src [.dir name [.file pwn]] = ([], true) := by
  refine ⟨by decide, by decide, ?_, ?_⟩
  · simp [mget, globMatches, globNameVerdict, beginCopy, copyEntries, getNameVerdict, basename, join, splitSlash,
      Entry.name, dot, dotdot, slash]
  · simp [mget, globMatches, globNameVerdict, Entry.name, dot, dotdot, slash]

/-- **glob downloads are confined, for every listing a server can present** ("a download … creates or modifies
    nothing outside the destination the caller named, whatever file names the remote side supplies"): with the
    check found in `SFTPGlob._match_pattern` by the translator (`Gen.C13.globRejectsSlash`), every path
    `mget(dir/*, dest, recurse=True)` creates is a non-empty list of components below the destination, none of
    which is `.`, `..` or contains a `/` — at the top level (the basename of the match is the listed name) and
    below it.  Stops building if the check goes away. -/
theorem mget_confined (dir : Bytes) (es : List Entry) :
    ∀ path ∈ (mget Gen.C13.globRejectsSlash dir es).1, path ≠ [] ∧ ∀ c ∈ path, c ≠ dotdot ∧ slash ∉ c := by
  have hflag : Gen.C13.globRejectsSlash = true := rfl
  rw [hflag]
  intro path hp
  unfold mget at hp
  cases hm : globMatches true es with
  | none => rw [hm] at hp; simp at hp
  | some ms =>
    rw [hm] at hp
    obtain ⟨h1, h2⟩ := beginCopy_confined dir ms (globMatches_safe es ms hm) path hp
    exact ⟨h1, fun c hc => ⟨(h2 c hc).2.1, (h2 c hc).2.2⟩⟩

/-- non-vacuity: a listing with a skipped `..`, a file and a directory is downloaded below the destination -/
theorem mget_example :
    mget true [47, 115, 114, 99] [.file dotdot, .file [97], .dir [100] [.file [98]]]
      = ([[[97]], [[100]], [[100], [98]]], false) := by
  simp [mget, globMatches, globNameVerdict, beginCopy, copyEntries, getNameVerdict, basename, join, splitSlash,
    Entry.name, dot, dotdot, slash]

/-! ### `readlink` under a chroot -/

/-- **Witness of the `readlink` defect (repaired by a `fix:` commit)**: before the repair the relative target of
    a link is resolved as it stands, i.e. from the current directory of the server process: the same link gives
    different paths to resolve — none of them below the chroot — for different server directories. -/
theorem old_readlink_depends_on_server_cwd :
    let root : Bytes := [47, 115]                -- chroot "/s"
    let link : Bytes := [47, 115, 47, 108]       -- the client's path "/s/l" of a link whose target is "f"
    let lp := mapPath root link
    readlinkBase false [47, 97] lp [102] = [47, 97, 47, 102] ∧          -- server cwd "/a": resolves "/a/f"
    readlinkBase false [47, 98] lp [102] = [47, 98, 47, 102] ∧          -- server cwd "/b": resolves "/b/f"
    readlinkAnswer false root [47, 97] link [102] = none ∧              -- … outside the chroot: "File not found"
    readlinkAnswer true root [47, 97] link [102] = some [47, 115, 47, 102] := by   -- repaired: "/s/f"
  decide +kernel

/-- **readlink does not consult the server's current directory** ("touches no file or directory outside that
    root"): with the repair found by the translator (`Gen.C13.readlinkFromLinkDir`) the path that is resolved for a
    link is determined by the link's own (mapped) path and its target; for a relative target it is the target
    joined onto the directory of the link.  Stops building if the repair goes away. -/
theorem readlink_independent_of_cwd (cwd cwd' lp t : Bytes) :
    readlinkBase Gen.C13.readlinkFromLinkDir cwd lp t = readlinkBase Gen.C13.readlinkFromLinkDir cwd' lp t ∧
    readlinkBase Gen.C13.readlinkFromLinkDir cwd lp t = join (dirname lp) t := by
  have hflag : Gen.C13.readlinkFromLinkDir = true := rfl
  rw [hflag]
  exact ⟨rfl, rfl⟩

end AsyncsshModel.C13
