import AsyncsshModel.Lemmas.ForwardHist
import AsyncsshModel.Lemmas.ForwardListen
import AsyncsshModel.Lemmas.ForwardSocks
import AsyncsshModel.Gen.C20
/-
  C20 — Forwarded connections relay faithfully and only where permitted.
  Property theorems only (helper lemmas: Lemmas/Forward.lean, ForwardHist.lean, ForwardListen.lean,
  ForwardSocks.lean).

  Vocabulary (Model/Forward.lean): a relay is the pair of `SSHForwarder` objects of one forwarded connection,
  `sock` holding the TCP/UNIX socket transport and `chan` the SSH channel; `run v initListener evs` feeds it the
  events `evs` (data / EOF / connection_lost / pause_writing / resume_writing from either transport, confirmation
  or failure of the channel open) starting from a freshly accepted connection, and returns the final state and the
  calls made on the two transports.  `legalRun` says that the event sequence is one the two transports can
  produce (no data after EOF or after the relay closed the transport, `connection_lost` once, the open
  completes once).  `sent x outs` are the bytes written to transport x, `recvd x evs` the bytes that arrived
  from it.  A `Variant` says which of the two repairs proposed in the C20 report the code contains
  (`fixEof`, `fixEarly`); `Variant.asIs` is the code as it stands, `Variant.fixed` the code with both.  `r.early` records that the socket transport was already lost when the channel open completed.
-/
namespace AsyncsshModel.C20
open AsyncsshModel AsyncsshModel.Forward

/-! ## the relay -/

/-- **relay_faithful** (clause "comes out of the other end complete and in order", both variants, every
    interleaving): at every moment the bytes written to the channel followed by the early-data buffer are exactly
    the bytes that arrived from the socket — nothing lost, duplicated or reordered, whatever was sent before the
    channel was confirmed included; once the channel is confirmed the buffer is empty (it was flushed, in
    order, ahead of all later data); and, unless the socket was lost before the confirmation, the bytes written
    to the socket are exactly the bytes that arrived from the channel. -/
theorem relay_faithful (v : Variant) (evs : List Ev) (hl : legalRun v initListener evs = true) :
    sent .chan (run v initListener evs).2 ++ (run v initListener evs).1.s.buf = recvd .sock evs ∧
    (evs.contains .confirm = true → ((run v initListener evs).1.early = false ∨ v.fixEarly = false) →
      sent .chan (run v initListener evs).2 = recvd .sock evs) ∧
    ((run v initListener evs).1.early = false →
      sent .sock (run v initListener evs).2 = recvd .chan evs) := by
  have hr := reach_run v evs hl
  have hh := reach_hist hr
  have hs := reach_shape hr
  refine ⟨hh.s2c, ?_, hh.c2s⟩
  intro hc he
  have hlk : (run v initListener evs).1.phase = .linked := by
    have := hh.linked
    rw [hc] at this
    exact eq_of_beq this
  have hb := hs.sbuf hlk he
  have := hh.s2c
  rw [hb, List.append_nil] at this
  exact this

/-- `early` only ever means "the socket transport called connection_lost before the channel was confirmed" -/
theorem early_only_after_socket_loss (v : Variant) (evs : List Ev) (hl : legalRun v initListener evs = true)
    (he : (run v initListener evs).1.early = true) :
    ∃ pre post, evs = pre ++ .confirm :: post ∧ lostIn .sock pre = true :=
  (reach_hist (reach_run v evs hl)).earlyWhy he

/-- **relay_faithful with the early-loss repair**: the channel-to-socket direction holds without the side
    condition. -/
theorem relay_faithful_fixed (v : Variant) (hv : v.fixEarly = true) (evs : List Ev)
    (hl : legalRun v initListener evs = true) :
    sent .sock (run v initListener evs).2 = recvd .chan evs := by
  have key : ∀ {r evs outs}, Reach v r evs outs → sent .sock outs = recvd .chan evs := by
    intro r evs outs h
    induction h with
    | init => rfl
    | step e hr hl ih =>
      rw [sent_append, recvd_append, recvd_single, ih, step_c2s_fixed v hv _ e (reach_shape hr) hl]
  exact key (reach_run v evs hl)

/-- **the side condition is needed for the code as it stands** (witness, replayed on the real code by the
    oracle): the local client sends two bytes and resets its socket before the channel open completes; the open
    then succeeds, the early data is written to the channel, data coming back from the destination is dropped
    without a trace, the channel is never closed, and a `pause_writing` from the channel (early data beyond the
    send window) runs into `assert self._transport is not None`. -/
theorem early_loss_witness :
    let evs := [Ev.data .sock [1, 2], .lost .sock, .confirm, .data .chan [9], .pauseW .chan]
    legalRun .asIs initListener evs = true ∧
    (run .asIs initListener evs).2 = [.close .sock, .write .chan [1, 2], .assertFail] ∧
    (run .asIs initListener evs).1.c.tr = true ∧
    sent .sock (run .asIs initListener evs).2 ≠ recvd .chan evs := by
  decide

/-- in that situation nothing but the far end can ever close the channel: under every further legal event other
    than the channel's own `connection_lost` the channel-side half stays up and no `close` is issued on it -/
theorem early_loss_stuck (v : Variant) (hv : v.fixEof = false) (evs : List Ev) : ∀ (r : Relay), Shape v r →
    Stuck r → legalRun v r evs = true → Ev.lost .chan ∉ evs →
    Stuck (run v r evs).1 ∧ closeOut .chan (run v r evs).2 = false := by
  induction evs with
  | nil => intro r _ hs _ _; exact ⟨hs, rfl⟩
  | cons e es ih =>
    intro r hsh hs hl hn
    simp only [legalRun, Bool.and_eq_true] at hl
    have hne : e ≠ .lost .chan := fun h => hn (by rw [h]; simp)
    obtain ⟨h1, h2⟩ := step_stuck v hv r e hsh hs hl.1 hne
    obtain ⟨h3, h4⟩ := ih _ (shape_step v r e hsh hl.1) h1 hl.2 (fun h => hn (List.mem_cons_of_mem _ h))
    simp only [run]
    refine ⟨h3, ?_⟩
    rw [closeOut_append, h2, h4]
    rfl

/-- **half_close** (clause "half-close is propagated in each direction while the other keeps flowing"): with the
    channel confirmed and no early loss, EOF has been written to the channel exactly if EOF arrived from the
    socket and vice versa; EOF alone never takes the relay down — if the socket transport is gone then a
    transport reported its loss (or, in the repaired variant, EOF has been seen in both directions). -/
theorem half_close (v : Variant) (evs : List Ev) (hl : legalRun v initListener evs = true)
    (hc : evs.contains .confirm = true) (he : (run v initListener evs).1.early = false) :
    eofOut .chan (run v initListener evs).2 = eofIn .sock evs ∧
    eofOut .sock (run v initListener evs).2 = eofIn .chan evs ∧
    ((run v initListener evs).1.s.tr = false →
      lostIn .sock evs = true ∨ lostIn .chan evs = true ∨
        (v.fixEof = true ∧ eofIn .sock evs = true ∧ eofIn .chan evs = true)) := by
  have hh := reach_hist (reach_run v evs hl)
  have hlk : ((run v initListener evs).1.phase == .linked) = true := by rw [hh.linked]; exact hc
  refine ⟨?_, ?_, ?_⟩
  · rw [hh.eofOutC, hlk, he, ← hh.eofS]; simp
  · rw [hh.eofOutS, he, ← hh.eofC]; simp
  · intro hd
    rcases hh.down hd with h | h | h | ⟨h1, h2, h3⟩
    · exact Or.inl h
    · exact Or.inr (Or.inl h)
    · have := hh.failed
      rw [h] at this
      have hp : (run v initListener evs).1.phase = .failed := eq_of_beq this
      rw [hp] at hlk
      cases hlk
    · exact Or.inr (Or.inr ⟨h1, by rw [← hh.eofS]; exact h2, by rw [← hh.eofC]; exact h3⟩)

/-- **the other direction keeps flowing**: in a confirmed relay without early loss every chunk a transport may
    still deliver — in particular from the side that has *not* sent EOF, after the other side has — is written to
    the opposite transport at once and unchanged. -/
theorem half_close_keeps_flowing (v : Variant) (evs : List Ev) (hl : legalRun v initListener evs = true)
    (hc : evs.contains .confirm = true) (he : (run v initListener evs).1.early = false)
    (x : Side) (d : Bytes) (hd : legal (run v initListener evs).1 (.data x d) = true) :
    (step v (run v initListener evs).1 (.data x d)).2 = [.write x.other d] := by
  have hr := reach_run v evs hl
  have hh := reach_hist hr
  have hlk : (run v initListener evs).1.phase = .linked := by
    have := hh.linked
    rw [hc] at this
    exact eq_of_beq this
  rw [step_flow v _ x d (reach_shape hr) hd hlk he]

/-- **close_closes_both** (clause "closing either end closes both"): once either transport has reported
    `connection_lost`, both transports have been closed — provided the socket was not lost before the channel was
    confirmed.  Before the confirmation a lost socket or a failed open closes the socket side. -/
theorem close_closes_both (v : Variant) (evs : List Ev) (hl : legalRun v initListener evs = true)
    (hc : evs.contains .confirm = true) (he : (run v initListener evs).1.early = false)
    (hlost : lostIn .sock evs = true ∨ lostIn .chan evs = true) :
    closeOut .sock (run v initListener evs).2 = true ∧ closeOut .chan (run v initListener evs).2 = true ∧
    (run v initListener evs).1.s.tr = false ∧ (run v initListener evs).1.c.tr = false := by
  have hr := reach_run v evs hl
  have hh := reach_hist hr
  have hs := reach_shape hr
  have hlk : (run v initListener evs).1.phase = .linked := by
    have := hh.linked
    rw [hc] at this
    exact eq_of_beq this
  have e1 := hs.str hlk he
  have e2 := hs.peers
  have e3 := hs.ctr
  have both : (run v initListener evs).1.s.tr = false ∧ (run v initListener evs).1.c.tr = false := by
    rcases hlost with h | h
    · have := hh.lostS h
      refine ⟨this, ?_⟩
      rw [e3, ← e2, ← e1]; exact this
    · have := hh.lostC h
      refine ⟨?_, this⟩
      rw [e1, e2, ← e3]; exact this
  refine ⟨?_, ?_, both.1, both.2⟩
  · rw [hh.closeS, both.1]; rfl
  · rw [hh.closeC, both.2, hlk]; rfl

theorem close_before_confirm (v : Variant) (evs : List Ev) (hl : legalRun v initListener evs = true)
    (h : lostIn .sock evs = true ∨ evs.contains .fail = true) :
    closeOut .sock (run v initListener evs).2 = true ∧ (run v initListener evs).1.s.tr = false := by
  have hr := reach_run v evs hl
  have hh := reach_hist hr
  have hs := reach_shape hr
  have : (run v initListener evs).1.s.tr = false := by
    rcases h with h | h
    · exact hh.lostS h
    · have := hh.failed
      rw [h] at this
      exact hs.failedTr (eq_of_beq this)
  exact ⟨by rw [hh.closeS, this]; rfl, this⟩

/-- **close_closes_both with the early-loss repair**: no side condition. -/
theorem close_closes_both_fixed (v : Variant) (hv : v.fixEarly = true) (evs : List Ev)
    (hl : legalRun v initListener evs = true)
    (hc : evs.contains .confirm = true) (hlost : lostIn .sock evs = true ∨ lostIn .chan evs = true) :
    closeOut .sock (run v initListener evs).2 = true ∧ closeOut .chan (run v initListener evs).2 = true := by
  cases he : (run v initListener evs).1.early
  · exact ⟨(close_closes_both v evs hl hc he hlost).1, (close_closes_both v evs hl hc he hlost).2.1⟩
  · have hr := reach_run v evs hl
    have hh := reach_hist hr
    have hs := reach_shape hr
    have hlk : (run v initListener evs).1.phase = .linked := by
      have := hh.linked
      rw [hc] at this
      exact eq_of_beq this
    have h1 := hs.earlyTr he
    have h2 := hs.fixedEarly hv he
    have h3 := hs.ctr
    refine ⟨by rw [hh.closeS, h1]; rfl, ?_⟩
    rw [hh.closeC, hlk, h3, h2]; rfl

/-- no `assert self._transport is not None` of the relay can fail, except in the code as it stands after an
    early loss of the socket -/
theorem relay_no_assertion (v : Variant) (evs : List Ev) (hl : legalRun v initListener evs = true)
    (h : (run v initListener evs).2.contains .assertFail = true) :
    v.fixEarly = false ∧ (run v initListener evs).1.early = true :=
  (reach_hist (reach_run v evs hl)).noAssert h

/-- **EOF in both directions, code as it stands** (witness): when EOF from the socket is handled before EOF from
    the channel, `eof_received` returns False to the *channel*, which only means "send EOF" there; nothing is
    closed and both transports stay open — forever, if the same order occurred in the relay at the other end of
    the channel (the two EOFs crossed on the SSH link), since a socket transport that has seen EOF no longer
    reports that its peer closed. -/
theorem both_eof_socket_first_stuck :
    let evs := [Ev.confirm, .eof .sock, .eof .chan]
    legalRun .asIs initListener evs = true ∧
    (run .asIs initListener evs).2 =
      [.writeEof .chan, .eofRet .sock true, .writeEof .sock, .eofRet .chan false] ∧
    (run .asIs initListener evs).1.s.tr = true ∧ (run .asIs initListener evs).1.c.tr = true := by
  decide

/-- in the other order the socket transport is told to close (`eof_received` returns False), reports
    `connection_lost`, and everything is closed -/
theorem both_eof_channel_first_closes :
    (run .asIs initListener [.confirm, .eof .chan, .eof .sock, .lost .sock]).2 =
      [.writeEof .sock, .eofRet .chan true, .writeEof .chan, .eofRet .sock false, .close .sock, .close .chan] := by
  decide

/-- **EOF in both directions with the EOF repair**: whatever the order, once both directions have seen EOF on a
    confirmed relay the socket transport is closed, and so is the channel (unless the socket was lost early and
    the early-loss repair is absent). -/
theorem both_eof_closes_fixed (v : Variant) (hv : v.fixEof = true) (evs : List Ev)
    (hl : legalRun v initListener evs = true)
    (hc : evs.contains .confirm = true) (h1 : eofIn .sock evs = true) (h2 : eofIn .chan evs = true) :
    (run v initListener evs).1.s.tr = false ∧
    ((run v initListener evs).1.early = false ∨ v.fixEarly = true → (run v initListener evs).1.c.tr = false) := by
  have hr := reach_run v evs hl
  have hh := reach_hist hr
  have hs := reach_shape hr
  have hlk : (run v initListener evs).1.phase = .linked := by
    have := hh.linked
    rw [hc] at this
    exact eq_of_beq this
  have hst := hh.bothEof hv hlk (by rw [hh.eofS]; exact h1) (by rw [hh.eofC]; exact h2)
  refine ⟨hst, ?_⟩
  intro hcond
  cases he : (run v initListener evs).1.early
  · have e1 := hs.str hlk he
    rw [hs.ctr, ← hs.peers, ← e1]; exact hst
  · rcases hcond with h | h
    · rw [he] at h; cases h
    · rw [hs.ctr]; exact hs.fixedEarly h he

/-- non-vacuity: early data, EOF before confirmation, data and EOF back, close from the channel -/
theorem relay_example :
    (run .asIs initListener [.data .sock [1, 2], .eof .sock, .confirm, .data .chan [9], .eof .chan, .lost .chan]).2 =
      [.eofRet .sock true, .write .chan [1, 2], .writeEof .chan, .write .sock [9], .writeEof .sock,
       .eofRet .chan false, .close .chan, .close .sock] := by
  decide

/-! ## the permission decision

  OpenSSH (sshd(8), AUTHORIZED_KEYS FILE FORMAT; ssh-keygen(1), CERTIFICATES): `no-port-forwarding` forbids TCP
  forwarding for the key; `permitopen="host:port"` limits local (`ssh -L`, i.e. direct-tcpip) forwarding to
  the listed destinations, no pattern matching on the host, `*` as port matches any port, several options
  accumulate; a user certificate allows port forwarding only if it carries the `permit-port-forwarding`
  extension.  asyncssh decides exactly by that rule (`permitted_iff_openssh_rule`).  Two OpenSSH restrictions have
  no counterpart in the code and hence none in the model: `permitlisten` (it would limit tcpip-forward) and
  `restrict` (it would imply no-port-forwarding) are parsed as unknown options and ignored.
-/

/-- what the checked tree's handlers test, in the form the model mirrors (regenerated table) -/
theorem handlers_check_credentials :
    Gen.C20.checksOf .directTcpip = ⟨true, true, true⟩ ∧
    Gen.C20.checksOf .tcpipForward = ⟨true, true, false⟩ ∧
    Gen.C20.checksOf .directStreamlocal = ⟨true, true, false⟩ ∧
    Gen.C20.checksOf .streamlocalForward = ⟨true, true, false⟩ ∧
    (∀ k, Gen.C20.appAskedAfterChecks k = true) ∧
    Gen.C20.permitopenWildcardPort = true := by
  refine ⟨rfl, rfl, rfl, rfl, ?_, rfl⟩
  intro k; cases k <;> rfl

/-- how the two permission lookups read the options (regenerated from their source):
    `not key_options.get('no-' + p, False)`; `cert_options.get('permit-' + p, False)` under the guard
    `cert_options is not None` — a presence test, so that a certificate carrying no option at all (the empty
    dictionary) is still a certificate — and `True` without a certificate -/
theorem permission_lookup_rules :
    Gen.C20.keyOptionPrefix = "no-" ∧ Gen.C20.keyOptionDefault = false ∧ Gen.C20.keyOptionRevokes = true ∧
    Gen.C20.certOptionPrefix = "permit-" ∧ Gen.C20.certOptionDefault = false ∧
    Gen.C20.certAbsentPermits = true ∧ Gen.C20.certGuardIsPresenceTest = true := by
  decide

/-- the lookups of the checked tree, as the decision model uses them -/
theorem lookup_semantics (k : KeyOpts) (c : Option CertOpts) :
    keyPermits Gen.C20.lookup k = !k.noPortForwarding ∧
    (certPermits Gen.C20.lookup c = true ↔ ∀ co, c = some co → co.permitPortForwarding = true) := by
  refine ⟨?_, ?_⟩
  · cases h : k.noPortForwarding <;> simp [keyPermits, Gen.C20.lookup, h] <;> decide
  · cases c with
    | none => simp [certPermits, Gen.C20.lookup]; decide
    | some co =>
      cases h : co.permitPortForwarding <;>
        simp [certPermits, Gen.C20.lookup, Gen.C20.certGuardIsPresenceTest, Gen.C20.certOptionDefault, h]

/-- **forward_only_if_permitted** (clause "served only if the server application and the credential's restrictions
    permit that destination"): for every request kind, key options, certificate options — including the
    certificate that carries no option at all —, destination and application answer, a channel or listener is
    created only if the key does not carry no-port-forwarding, the certificate (if one was used) carries
    permit-port-forwarding, the destination of a direct-tcpip open is covered by permitopen (if present), and the
    application said yes. -/
theorem forward_only_if_permitted (kind : ReqKind) (k : KeyOpts) (c : Option CertOpts) (d : Dest) (app : Bool)
    (h : (decideReq Gen.C20.lookup (Gen.C20.checksOf kind) k c d app).1 = .created) :
    k.noPortForwarding = false ∧ (∀ co, c = some co → co.permitPortForwarding = true) ∧
    (kind = .directTcpip → permitopenAllows k d = true) ∧ app = true := by
  have hk := (lookup_semantics k c).1
  have hc := (lookup_semantics k c).2
  cases hcp : certPermits Gen.C20.lookup c
  · cases kind <;> simp [decideReq, permittedBy, Gen.C20.checksOf, hcp] at h
  · have hc' := hc.mp hcp
    cases kind <;>
      simp [decideReq, permittedBy, Gen.C20.checksOf, hk, hcp] at h ⊢ <;>
      (repeat' split at h) <;> simp_all

/-- **denied requests create nothing and are not shown to the application**; a refusal by the application
    creates nothing either. -/
theorem denied_creates_nothing (kind : ReqKind) (k : KeyOpts) (c : Option CertOpts) (d : Dest) (app : Bool) :
    (permittedBy Gen.C20.lookup (Gen.C20.checksOf kind) k c d = false →
      decideReq Gen.C20.lookup (Gen.C20.checksOf kind) k c d app = (.prohibited, false)) ∧
    (app = false → (decideReq Gen.C20.lookup (Gen.C20.checksOf kind) k c d app).1 ≠ .created) ∧
    (permittedBy Gen.C20.lookup (Gen.C20.checksOf kind) k c d = true → app = true →
      decideReq Gen.C20.lookup (Gen.C20.checksOf kind) k c d app = (.created, true)) := by
  refine ⟨?_, ?_, ?_⟩
  · intro h; simp [decideReq, h]
  · intro h; subst h; simp only [decideReq]; split <;> simp
  · intro h1 h2; simp [decideReq, h1, h2]

/-- OpenSSH's documented rule, stated declaratively -/
def opensshRule (kind : ReqKind) (k : KeyOpts) (c : Option CertOpts) (d : Dest) : Prop :=
  k.noPortForwarding = false ∧ (∀ co, c = some co → co.permitPortForwarding = true) ∧
  (kind = .directTcpip → k.permitopen = [] ∨
    ∃ e ∈ k.permitopen, e.1 = d.host ∧ (e.2 = none ∨ e.2 = some d.port))

/-- **the decision is OpenSSH's rule** for `no-port-forwarding`, `permit-port-forwarding` and `permitopen`. -/
theorem permitted_iff_openssh_rule (kind : ReqKind) (k : KeyOpts) (c : Option CertOpts) (d : Dest) :
    permittedBy Gen.C20.lookup (Gen.C20.checksOf kind) k c d = true ↔ opensshRule kind k c d := by
  have hpo : permitopenAllows k d = true ↔
      (k.permitopen = [] ∨ ∃ e ∈ k.permitopen, e.1 = d.host ∧ (e.2 = none ∨ e.2 = some d.port)) := by
    unfold permitopenAllows
    simp only [Bool.or_eq_true, List.isEmpty_iff, List.contains_iff_mem]
    constructor
    · rintro ((h | h) | h)
      · exact Or.inl h
      · exact Or.inr ⟨_, h, rfl, Or.inr rfl⟩
      · exact Or.inr ⟨_, h, rfl, Or.inl rfl⟩
    · rintro (h | ⟨⟨eh, ep⟩, hm, h1, h2⟩)
      · exact Or.inl (Or.inl h)
      · simp only at h1 h2
        subst h1
        rcases h2 with h2 | h2 <;> subst h2
        · exact Or.inr hm
        · exact Or.inl (Or.inr hm)
  have hk := (lookup_semantics k c).1
  have hc := (lookup_semantics k c).2
  cases kind <;>
    simp only [permittedBy, Gen.C20.checksOf, opensshRule, hk, Bool.not_true, Bool.false_or,
      Bool.not_false, Bool.true_or, Bool.and_true, Bool.and_eq_true, Bool.not_eq_true', hc, hpo] <;>
    simp [and_assoc]

/-- **a certificate that grants nothing is still a certificate**: the certificate carrying no option at all (its
    options decode to the empty dictionary) and the one carrying only critical options or other permits are
    refused every kind of forwarding request, without the application being asked -/
theorem empty_certificate_refused (kind : ReqKind) (k : KeyOpts) (d : Dest) (app other : Bool) :
    decideReq Gen.C20.lookup (Gen.C20.checksOf kind) k (some ⟨false, other⟩) d app = (.prohibited, false) := by
  have h : permittedBy Gen.C20.lookup (Gen.C20.checksOf kind) k (some ⟨false, other⟩) d = false := by
    cases hp : permittedBy Gen.C20.lookup (Gen.C20.checksOf kind) k (some ⟨false, other⟩) d
    · rfl
    · have := ((permitted_iff_openssh_rule kind k (some ⟨false, other⟩) d).mp hp).2.1 _ rfl
      cases this
  exact (denied_creates_nothing kind k _ d app).1 h

/-- non-vacuity: `permitopen="a:80",permitopen="b:*"` admits a:80 and b:9 but not a:81; no-port-forwarding and a
    certificate without the extension deny; the application is not asked then -/
theorem permission_example :
    let k : KeyOpts := { permitopen := [([97], some 80), ([98], none)] }
    let l := Gen.C20.lookup
    decideReq l (Gen.C20.checksOf .directTcpip) k none ⟨[97], 80⟩ true = (.created, true) ∧
    decideReq l (Gen.C20.checksOf .directTcpip) k none ⟨[98], 9⟩ true = (.created, true) ∧
    decideReq l (Gen.C20.checksOf .directTcpip) k none ⟨[97], 81⟩ true = (.prohibited, false) ∧
    decideReq l (Gen.C20.checksOf .tcpipForward) k none ⟨[97], 81⟩ false = (.refusedByApp, true) ∧
    decideReq l (Gen.C20.checksOf .tcpipForward) { noPortForwarding := true } none ⟨[97], 81⟩ true = (.prohibited, false) ∧
    decideReq l (Gen.C20.checksOf .directStreamlocal) {} (some ⟨false, true⟩) ⟨[97], 0⟩ true = (.prohibited, false) ∧
    decideReq l (Gen.C20.checksOf .tcpipForward) {} (some ⟨false, false⟩) ⟨[97], 0⟩ true = (.prohibited, false) ∧
    decideReq l (Gen.C20.checksOf .tcpipForward) {} (some ⟨true, false⟩) ⟨[97], 0⟩ true = (.created, true) := by
  decide

/-- `permitopen` values: last colon splits, brackets are dropped, `*` is the wildcard -/
theorem permitopen_parse_example :
    parsePermitopen (strBytes "[::1]:80") = some (strBytes "::1", .port 80) ∧
    parsePermitopen (strBytes "a.example:*") = some (strBytes "a.example", .any) ∧
    parsePermitopen (strBytes "a.example") = none ∧
    parsePermitopen (strBytes "a:b") = none := by
  decide +kernel

/-! ## listeners -/

/-- **listeners_released** (clause "all listeners ... are released when their connection ends"): whatever requests,
    cancellations and closes came before, right after `_cleanup` the listener table is empty and no listening
    socket of the connection is open. -/
theorem listeners_released (fix : Bool) (evs : List LEv) :
    (lrun fix {} (evs ++ [.cleanup])).table = [] ∧ (lrun fix {} (evs ++ [.cleanup])).listening = [] := by
  have h := linv_run fix evs {} linv_init
  have : lrun fix {} (evs ++ [.cleanup]) = lstep fix (lrun fix {} evs) .cleanup := by
    have aux : ∀ (l : List LEv) (s : LState), lrun fix s (l ++ [.cleanup]) = lstep fix (lrun fix s l) .cleanup := by
      intro l
      induction l with
      | nil => intro s; rfl
      | cons e es ih => intro s; simp only [List.cons_append, lrun]; exact ih _
    exact aux evs {}
  rw [this]
  exact ⟨(cleanup_empty fix _ h).1, (cleanup_empty fix _ h).2.1⟩

/-- ... and it stays so, as long as no listener-creation task that was in flight at cleanup completes afterwards
    (code as it stands), or unconditionally (repaired variant). -/
theorem listeners_stay_released (fix : Bool) (evs after : List LEv)
    (h : fix = true ∨ ∀ id, LEv.created id ∉ after) :
    (lrun fix {} (evs ++ [.cleanup] ++ after)).table = [] ∧
    (lrun fix {} (evs ++ [.cleanup] ++ after)).listening = [] := by
  have aux : ∀ (l m : List LEv) (s : LState), lrun fix s (l ++ m) = lrun fix (lrun fix s l) m := by
    intro l
    induction l with
    | nil => intro m s; rfl
    | cons e es ih => intro m s; simp only [List.cons_append, lrun]; exact ih _ _
  rw [aux]
  have hrel := listeners_released fix evs
  have hcl : (lrun fix {} (evs ++ [.cleanup])).cleaned = true := by
    rw [aux]
    simp only [lrun]
    exact (cleanup_empty fix _ (linv_run fix evs {} linv_init)).2.2.1
  exact released_run fix after _ hrel hcl h

/-- **the side condition is needed for the code as it stands** (witness, replayed on the real code by the oracle):
    a forward request is granted, the connection is cleaned up while the listener is still being created
    (`getaddrinfo`/`create_server` pending), the task then completes, registers the listener in the dead
    connection's table and leaves its socket listening. -/
theorem listener_leak_witness :
    (lrun false {} [.request ([1], 0) true, .cleanup, .created 0]).listening = [0] ∧
    (lrun true {} [.request ([1], 0) true, .cleanup, .created 0]).listening = [] := by
  decide

/-- non-vacuity: two listeners, one cancelled by the peer, one closed by cleanup -/
theorem listeners_example :
    (lrun false {} [.request ([1], 0) true, .created 0, .request ([2], 0) true, .created 1]).listening = [1, 0] ∧
    (lrun false {} [.request ([1], 0) true, .created 0, .request ([2], 0) true, .created 1,
      .cancel ([1], 0)]).listening = [1] ∧
    (lrun false {} [.request ([1], 0) true, .created 0, .request ([2], 0) true, .created 1,
      .cancel ([1], 0), .cleanup]).listening = [] := by
  decide

/-! ## the SOCKS parser -/

open AsyncsshModel.Socks in
/-- the constants the parser model uses are those of the checked tree (regenerated) -/
theorem socks_constants :
    Gen.C20.SOCKS4 = Socks.SOCKS4 ∧ Gen.C20.SOCKS5 = Socks.SOCKS5 ∧ Gen.C20.SOCKS_CONNECT = Socks.SOCKS_CONNECT ∧
    Gen.C20.SOCKS5_AUTH_NONE = Socks.SOCKS5_AUTH_NONE ∧ Gen.C20.SOCKS5_ADDR_IPV4 = Socks.SOCKS5_ADDR_IPV4 ∧
    Gen.C20.SOCKS5_ADDR_HOSTNAME = Socks.SOCKS5_ADDR_HOSTNAME ∧ Gen.C20.SOCKS5_ADDR_IPV6 = Socks.SOCKS5_ADDR_IPV6 ∧
    Gen.C20.SOCKS4_OK_RESPONSE = Socks.SOCKS4_OK_RESPONSE ∧
    Gen.C20.SOCKS5_OK_RESPONSE_HDR = Socks.SOCKS5_OK_RESPONSE_HDR ∧
    Gen.C20.socks5AddrLen = Socks.socks5AddrLen ∧ Gen.C20.SOCKS4_OK = 0x5a ∧ Gen.C20.SOCKS5_OK = 0 := by
  decide

/-- **socks_total** (both variants, every byte string, every chunking): feeding any chunks to a fresh parser
    terminates (the fuel of the `while` loop is never exhausted), never indexes outside the data it cut off and
    never misses a key of the address-length table; the parser is then in one of its proper states (`status`:
    connect / need-more / closed).  The only exception that can leave `data_received` is the failed
    `assert self._transport`, only in the code as it stands, and only after the parser has closed its transport. -/
theorem socks_total (v : Socks.Variant) (chunks : List Bytes) :
    Socks.Out.outOfFuel ∉ (Socks.feedAll v Socks.init chunks).2 ∧
    Socks.wf (Socks.feedAll v Socks.init chunks).1 ∧
    (∀ e, Socks.Out.raised e ∈ (Socks.feedAll v Socks.init chunks).2 →
      e = .assertion ∧ v = .asIs ∧ Socks.Out.close ∈ (Socks.feedAll v Socks.init chunks).2) := by
  have h := Socks.feedAll_ok v chunks Socks.init [] (Socks.runOk_init v)
  simp only [List.nil_append] at h
  refine ⟨h.clean.1, h.wf, ?_⟩
  intro e he
  have := h.raised e he
  refine ⟨?_, this.1, this.2⟩
  cases e
  · rfl
  · exact absurd he h.clean.2.1
  · exact absurd he h.clean.2.2

/-- **socks_total, repaired variant**: nothing is ever raised. -/
theorem socks_total_fixed (chunks : List Bytes) (e : Socks.Exc) :
    Socks.Out.raised e ∉ (Socks.feedAll .fixed Socks.init chunks).2 := by
  intro he
  have := (socks_total .fixed chunks).2.2 e he
  cases this.2.1

/-- **the code as it stands raises** (candidate F11; witness replayed on the real code by the oracle): the two
    bytes `05 00` (SOCKS5, zero authentication methods) make the parser close its transport and then, still
    inside the same `data_received`, call the method-list handler again, whose `assert self._transport is not
    None` fails. -/
theorem socks_raises_witness :
    (Socks.feedAll .asIs Socks.init [[5, 0]]).2 = [.close, .raised .assertion] ∧
    (Socks.feedAll .fixed Socks.init [[5, 0]]).2 = [.close] := by
  decide

/-- non-vacuity: a SOCKS5 request for the name "AB" port 80 split across two chunks, followed by two bytes of
    early data; a SOCKS4a request; a SOCKS4 request in one-byte chunks -/
theorem socks_example :
    Socks.status (Socks.feedAll .asIs Socks.init [[5, 1, 0, 5, 1, 0, 3, 2, 65], [66, 0, 80, 7, 7]]).1
      (Socks.feedAll .asIs Socks.init [[5, 1, 0, 5, 1, 0, 3, 2, 65], [66, 0, 80, 7, 7]]).2
      = .connect (.name [65, 66]) 80 [7, 7] ∧
    (Socks.feedAll .asIs Socks.init [[5, 1, 0, 5, 1, 0, 3, 2, 65], [66, 0, 80, 7, 7]]).2
      = [.write [5, 0], .write [5, 0, 0, 1, 0, 0, 0, 0, 0, 0], .connect (.name [65, 66]) 80] ∧
    Socks.status (Socks.feedAll .asIs Socks.init [[4, 1, 0, 80, 0, 0, 0, 1, 117, 0, 104, 0, 9]]).1
      (Socks.feedAll .asIs Socks.init [[4, 1, 0, 80, 0, 0, 0, 1, 117, 0, 104, 0, 9]]).2
      = .connect (.name [104]) 80 [9] ∧
    Socks.status (Socks.feedAll .asIs Socks.init [[4], [1], [1], [187], [10], [0], [0], [1], [0]]).1
      (Socks.feedAll .asIs Socks.init [[4], [1], [1], [187], [10], [0], [0], [1], [0]]).2
      = .connect (.ip [10, 0, 0, 1]) 443 [] ∧
    Socks.status (Socks.feedAll .asIs Socks.init [[5, 1]]).1 (Socks.feedAll .asIs Socks.init [[5, 1]]).2 = .needMore ∧
    Socks.status (Socks.feedAll .asIs Socks.init [[6, 1]]).1 (Socks.feedAll .asIs Socks.init [[6, 1]]).2 = .closed := by
  decide

end AsyncsshModel.C20
