import AsyncsshModel.Lemmas.ForwardHist
import AsyncsshModel.Lemmas.ForwardListen
import AsyncsshModel.Lemmas.ForwardSocks
import AsyncsshModel.Gen.C20
/-
  C20 — Forwarded connections relay faithfully and only where permitted.
  Property theorems only (helper lemmas: Lemmas/Forward.lean, ForwardHist.lean, ForwardListen.lean,
  ForwardSocks.lean).

  Vocabulary (Model/Forward.lean): a relay is the pair of `SSHForwarder` objects of one forwarded connection,
  `sock` holding the TCP/UNIX socket transport and `chan` the SSH channel; `run v initListener evs` feeds it the
  events `evs` (data / EOF / connection_lost / pause_writing / resume_writing from either transport, confirmation
  or failure of the channel open) starting from a freshly accepted connection, and returns the final state and the
  calls made on the two transports.  `legalRun` says that the event sequence is one the two transports can
  produce (no data after EOF or after the relay closed the transport, `connection_lost` once, the open
  completes once).  `sent x outs` are the bytes written to transport x, `recvd x evs` the bytes that arrived
  from it.  A `Variant` says which of the two repairs proposed in the C20 report the code contains
  (`fixEof`, `fixEarly`); `Variant.asIs` is the code as it stands, `Variant.fixed` the code with both.  `r.early` records that the socket transport was already lost when the channel open completed.
-/
namespace AsyncsshModel.C20
open AsyncsshModel AsyncsshModel.Forward

/-! ## the relay -/

/-- **relay_faithful** (clause "comes out of the other end complete and in order", both variants, every
    interleaving): at every moment the bytes written to the channel followed by the early-data buffer are exactly
    the bytes that arrived from the socket — nothing lost, duplicated or reordered, whatever was sent before the
    channel was confirmed included; once the channel is confirmed the buffer is empty (it was flushed, in
    order, ahead of all later data); and, unless the socket was lost before the confirmation, the bytes written
    to the socket are exactly the bytes that arrived from the channel. -/
theorem relay_faithful (v : Variant) (evs : List Ev) (hl : legalRun v initListener evs = true) :
    sent .chan (run v initListener evs).2 ++ (run v initListener evs).1.s.buf = recvd .sock evs ∧
    (evs.contains .confirm = true → ((run v initListener evs).1.early = false ∨ v.fixEarly = false) →
      sent .chan (run v initListener evs).2 = recvd .sock evs) ∧
    ((run v initListener evs).1.early = false →
      sent .sock (run v initListener evs).2 = recvd .chan evs) := by
  have hr := reach_run v evs hl
  have hh := reach_hist hr
  have hs := reach_shape hr
  refine ⟨hh.s2c, ?_, hh.c2s⟩
  intro hc he
  have hlk : (run v initListener evs).1.phase = .linked := by
    have := hh.linked
    rw [hc] at this
    exact eq_of_beq this
  have hb := hs.sbuf hlk he
  have := hh.s2c
  rw [hb, List.append_nil] at this
  exact this

/-- `early` only ever means "the socket transport called connection_lost before the channel was confirmed" -/
theorem early_only_after_socket_loss (v : Variant) (evs : List Ev) (hl : legalRun v initListener evs = true)
    (he : (run v initListener evs).1.early = true) :
    ∃ pre post, evs = pre ++ .confirm :: post ∧ lostIn .sock pre = true :=
  (reach_hist (reach_run v evs hl)).earlyWhy he

/-- **relay_faithful with the early-loss repair**: the channel-to-socket direction holds without the side
    condition. -/
theorem relay_faithful_fixed (v : Variant) (hv : v.fixEarly = true) (evs : List Ev)
    (hl : legalRun v initListener evs = true) :
    sent .sock (run v initListener evs).2 = recvd .chan evs := by
  have key : ∀ {r evs outs}, Reach v r evs outs → sent .sock outs = recvd .chan evs := by
    intro r evs outs h
    induction h with
    | init => rfl
    | step e hr hl ih =>
      rw [sent_append, recvd_append, recvd_single, ih, step_c2s_fixed v hv _ e (reach_shape hr) hl]
  exact key (reach_run v evs hl)

/-- **the side condition is needed for the code as it stands** (witness, replayed on the real code by the
    oracle): the local client sends two bytes and resets its socket before the channel open completes; the open
    then succeeds, the early data is written to the channel, data coming back from the destination is dropped
    without a trace, the channel is never closed, and a `pause_writing` from the channel (early data beyond the
    send window) runs into `assert self._transport is not None`. -/
theorem early_loss_witness :
    let evs := [Ev.data .sock [1, 2], .lost .sock, .confirm, .data .chan [9], .pauseW .chan]
    legalRun .asIs initListener evs = true ∧
    (run .asIs initListener evs).2 = [.close .sock, .write .chan [1, 2], .assertFail] ∧
    (run .asIs initListener evs).1.c.tr = true ∧
    sent .sock (run .asIs initListener evs).2 ≠ recvd .chan evs := by
  decide

/-- in that situation nothing but the far end can ever close the channel: under every further legal event other
    than the channel's own `connection_lost` the channel-side half stays up and no `close` is issued on it -/
theorem early_loss_stuck (v : Variant) (hv : v.fixEof = false) (evs : List Ev) : ∀ (r : Relay), Shape v r →
    Stuck r → legalRun v r evs = true → Ev.lost .chan ∉ evs →
    Stuck (run v r evs).1 ∧ closeOut .chan (run v r evs).2 = false := by
  induction evs with
  | nil => intro r _ hs _ _; exact ⟨hs, rfl⟩
  | cons e es ih =>
    intro r hsh hs hl hn
    simp only [legalRun, Bool.and_eq_true] at hl
    have hne : e ≠ .lost .chan := fun h => hn (by rw [h]; simp)
    obtain ⟨h1, h2⟩ := step_stuck v hv r e hsh hs hl.1 hne
    obtain ⟨h3, h4⟩ := ih _ (shape_step v r e hsh hl.1) h1 hl.2 (fun h => hn (List.mem_cons_of_mem _ h))
    simp only [run]
    refine ⟨h3, ?_⟩
    rw [closeOut_append, h2, h4]
    rfl

/-- **half_close** (clause "half-close is propagated in each direction while the other keeps flowing"): with the
    channel confirmed and no early loss, EOF has been written to the channel exactly if EOF arrived from the
    socket and vice versa; EOF alone never takes the relay down — if the socket transport is gone then a
    transport reported its loss (or, in the repaired variant, EOF has been seen in both directions). -/
theorem half_close (v : Variant) (evs : List Ev) (hl : legalRun v initListener evs = true)
    (hc : evs.contains .confirm = true) (he : (run v initListener evs).1.early = false) :
    eofOut .chan (run v initListener evs).2 = eofIn .sock evs ∧
    eofOut .sock (run v initListener evs).2 = eofIn .chan evs ∧
    ((run v initListener evs).1.s.tr = false →
      lostIn .sock evs = true ∨ lostIn .chan evs = true ∨
        (v.fixEof = true ∧ eofIn .sock evs = true ∧ eofIn .chan evs = true)) := by
  have hh := reach_hist (reach_run v evs hl)
  have hlk : ((run v initListener evs).1.phase == .linked) = true := by rw [hh.linked]; exact hc
  refine ⟨?_, ?_, ?_⟩
  · rw [hh.eofOutC, hlk, he, ← hh.eofS]; simp
  · rw [hh.eofOutS, he, ← hh.eofC]; simp
  · intro hd
    rcases hh.down hd with h | h | h | ⟨h1, h2, h3⟩
    · exact Or.inl h
    · exact Or.inr (Or.inl h)
    · have := hh.failed
      rw [h] at this
      have hp : (run v initListener evs).1.phase = .failed := eq_of_beq this
      rw [hp] at hlk
      cases hlk
    · exact Or.inr (Or.inr ⟨h1, by rw [← hh.eofS]; exact h2, by rw [← hh.eofC]; exact h3⟩)

/-- **the other direction keeps flowing**: in a confirmed relay without early loss every chunk a transport may
    still deliver — in particular from the side that has *not* sent EOF, after the other side has — is written to
    the opposite transport at once and unchanged. -/
theorem half_close_keeps_flowing (v : Variant) (evs : List Ev) (hl : legalRun v initListener evs = true)
    (hc : evs.contains .confirm = true) (he : (run v initListener evs).1.early = false)
    (x : Side) (d : Bytes) (hd : legal (run v initListener evs).1 (.data x d) = true) :
    (step v (run v initListener evs).1 (.data x d)).2 = [.write x.other d] := by
  have hr := reach_run v evs hl
  have hh := reach_hist hr
  have hlk : (run v initListener evs).1.phase = .linked := by
    have := hh.linked
    rw [hc] at this
    exact eq_of_beq this
  rw [step_flow v _ x d (reach_shape hr) hd hlk he]

/-- **close_closes_both** (clause "closing either end closes both"): once either transport has reported
    `connection_lost`, both transports have been closed — provided the socket was not lost before the channel was
    confirmed.  Before the confirmation a lost socket or a failed open closes the socket side. -/
theorem close_closes_both (v : Variant) (evs : List Ev) (hl : legalRun v initListener evs = true)
    (hc : evs.contains .confirm = true) (he : (run v initListener evs).1.early = false)
    (hlost : lostIn .sock evs = true ∨ lostIn .chan evs = true) :
    closeOut .sock (run v initListener evs).2 = true ∧ closeOut .chan (run v initListener evs).2 = true ∧
    (run v initListener evs).1.s.tr = false ∧ (run v initListener evs).1.c.tr = false := by
  have hr := reach_run v evs hl
  have hh := reach_hist hr
  have hs := reach_shape hr
  have hlk : (run v initListener evs).1.phase = .linked := by
    have := hh.linked
    rw [hc] at this
    exact eq_of_beq this
  have e1 := hs.str hlk he
  have e2 := hs.peers
  have e3 := hs.ctr
  have both : (run v initListener evs).1.s.tr = false ∧ (run v initListener evs).1.c.tr = false := by
    rcases hlost with h | h
    · have := hh.lostS h
      refine ⟨this, ?_⟩
      rw [e3, ← e2, ← e1]; exact this
    · have := hh.lostC h
      refine ⟨?_, this⟩
      rw [e1, e2, ← e3]; exact this
  refine ⟨?_, ?_, both.1, both.2⟩
  · rw [hh.closeS, both.1]; rfl
  · rw [hh.closeC, both.2, hlk]; rfl

theorem close_before_confirm (v : Variant) (evs : List Ev) (hl : legalRun v initListener evs = true)
    (h : lostIn .sock evs = true ∨ evs.contains .fail = true) :
    closeOut .sock (run v initListener evs).2 = true ∧ (run v initListener evs).1.s.tr = false := by
  have hr := reach_run v evs hl
  have hh := reach_hist hr
  have hs := reach_shape hr
  have : (run v initListener evs).1.s.tr = false := by
    rcases h with h | h
    · exact hh.lostS h
    · have := hh.failed
      rw [h] at this
      exact hs.failedTr (eq_of_beq this)
  exact ⟨by rw [hh.closeS, this]; rfl, this⟩

/-- **close_closes_both with the early-loss repair**: no side condition. -/
theorem close_closes_both_fixed (v : Variant) (hv : v.fixEarly = true) (evs : List Ev)
    (hl : legalRun v initListener evs = true)
    (hc : evs.contains .confirm = true) (hlost : lostIn .sock evs = true ∨ lostIn .chan evs = true) :
    closeOut .sock (run v initListener evs).2 = true ∧ closeOut .chan (run v initListener evs).2 = true := by
  cases he : (run v initListener evs).1.early
  · exact ⟨(close_closes_both v evs hl hc he hlost).1, (close_closes_both v evs hl hc he hlost).2.1⟩
  · have hr := reach_run v evs hl
    have hh := reach_hist hr
    have hs := reach_shape hr
    have hlk : (run v initListener evs).1.phase = .linked := by
      have := hh.linked
      rw [hc] at this
      exact eq_of_beq this
    have h1 := hs.earlyTr he
    have h2 := hs.fixedEarly hv he
    have h3 := hs.ctr
    refine ⟨by rw [hh.closeS, h1]; rfl, ?_⟩
    rw [hh.closeC, hlk, h3, h2]; rfl

/-- no `assert self._transport is not None` of the relay can fail, except in the code as it stands after an
    early loss of the socket -/
theorem relay_no_assertion (v : Variant) (evs : List Ev) (hl : legalRun v initListener evs = true)
    (h : (run v initListener evs).2.contains .assertFail = true) :
    v.fixEarly = false ∧ (run v initListener evs).1.early = true :=
  (reach_hist (reach_run v evs hl)).noAssert h

/-- **EOF in both directions, code as it stands** (witness): when EOF from the socket is handled before EOF from
    the channel, `eof_received` returns False to the *channel*, which only means "send EOF" there; nothing is
    closed and both transports stay open — forever, if the same order occurred in the relay at the other end of
    the channel (the two EOFs crossed on the SSH link), since a socket transport that has seen EOF no longer
    reports that its peer closed. -/
theorem both_eof_socket_first_stuck :
    let evs := [Ev.confirm, .eof .sock, .eof .chan]
    legalRun .asIs initListener evs = true ∧
    (run .asIs initListener evs).2 =
      [.writeEof .chan, .eofRet .sock true, .writeEof .sock, .eofRet .chan false] ∧
    (run .asIs initListener evs).1.s.tr = true ∧ (run .asIs initListener evs).1.c.tr = true := by
  decide

/-- in the other order the socket transport is told to close (`eof_received` returns False), reports
    `connection_lost`, and everything is closed -/
theorem both_eof_channel_first_closes :
    (run .asIs initListener [.confirm, .eof .chan, .eof .sock, .lost .sock]).2 =
      [.writeEof .sock, .eofRet .chan true, .writeEof .chan, .eofRet .sock false, .close .sock, .close .chan] := by
  decide

/-- **EOF in both directions with the EOF repair**: whatever the order, once both directions have seen EOF on a
    confirmed relay the socket transport is closed, and so is the channel (unless the socket was lost early and
    the early-loss repair is absent). -/
theorem both_eof_closes_fixed (v : Variant) (hv : v.fixEof = true) (evs : List Ev)
    (hl : legalRun v initListener evs = true)
    (hc : evs.contains .confirm = true) (h1 : eofIn .sock evs = true) (h2 : eofIn .chan evs = true) :
    (run v initListener evs).1.s.tr = false ∧
    ((run v initListener evs).1.early = false ∨ v.fixEarly = true → (run v initListener evs).1.c.tr = false) := by
  have hr := reach_run v evs hl
  have hh := reach_hist hr
  have hs := reach_shape hr
  have hlk : (run v initListener evs).1.phase = .linked := by
    have := hh.linked
    rw [hc] at this
    exact eq_of_beq this
  have hst := hh.bothEof hv hlk (by rw [hh.eofS]; exact h1) (by rw [hh.eofC]; exact h2)
  refine ⟨hst, ?_⟩
  intro hcond
  cases he : (run v initListener evs).1.early
  · have e1 := hs.str hlk he
    rw [hs.ctr, ← hs.peers, ← e1]; exact hst
  · rcases hcond with h | h
    · rw [he] at h; cases h
    · rw [hs.ctr]; exact hs.fixedEarly h he

/-- non-vacuity: early data, EOF before confirmation, data and EOF back, close from the channel -/
theorem relay_example :
    (run .asIs initListener [.data .sock [1, 2], .eof .sock, .confirm, .data .chan [9], .eof .chan, .lost .chan]).2 =
      [.eofRet .sock true, .write .chan [1, 2], .writeEof .chan, .write .sock [9], .writeEof .sock,
       .eofRet .chan false, .close .chan, .close .sock] := by
  decide

/-! ### the open fails in some other way; the destination side

  `crashStep` and `destOpen` (Model/Forward.lean) are the two places where a relayed socket exists while the SSH
  side of its relay is not (yet) there.  Both were found by an audit of the model against the code and are
  replayed on the real code by the oracle (signatures `relay-sockets-leak:open-raises-other-exception`,
  `relay-sockets-leak:connection-lost-while-connecting`). -/

/-- **an exception other than ChannelOpenError is a failed open** (code after the repair): whatever the state,
    `crashStep true` is the step of the event `.fail`, so every theorem about legal event sequences — in
    particular `close_before_confirm`: the socket is closed — covers this outcome too. -/
theorem crash_is_fail (v : Variant) (r : Relay) : crashStep true r = step v r .fail := by
  simp only [crashStep, step]
  split <;> simp_all

/-- ... spelled out: whatever happened on the socket before, the crash of the open closes it -/
theorem crash_closes_socket (v : Variant) (evs : List Ev) (hl : legalRun v initListener evs = true)
    (ho : (run v initListener evs).1.phase = .opening) :
    (crashStep true (run v initListener evs).1).1.s.tr = false ∧
    closeOut .sock ((run v initListener evs).2 ++ (crashStep true (run v initListener evs).1).2) = true := by
  have hleg : legalRun v initListener (evs ++ [.fail]) = true := by
    have aux : ∀ (l : List Ev) (r : Relay), legalRun v r l = true → (run v r l).1.phase = .opening →
        legalRun v r (l ++ [.fail]) = true := by
      intro l
      induction l with
      | nil => intro r _ h; simp [legalRun, legal, run] at h ⊢; exact h
      | cons e es ih =>
        intro r h1 h2
        simp only [legalRun, Bool.and_eq_true, List.cons_append, run] at h1 h2 ⊢
        exact ⟨h1.1, ih _ h1.2 h2⟩
    exact aux evs _ hl ho
  have hrun : run v initListener (evs ++ [.fail]) =
      ((step v (run v initListener evs).1 .fail).1,
       (run v initListener evs).2 ++ (step v (run v initListener evs).1 .fail).2) := by
    have aux : ∀ (l : List Ev) (r : Relay), run v r (l ++ [.fail]) =
        ((step v (run v r l).1 .fail).1, (run v r l).2 ++ (step v (run v r l).1 .fail).2) := by
      intro l
      induction l with
      | nil => intro r; simp [run]
      | cons e es ih => intro r; simp only [List.cons_append, run, ih, List.append_assoc]
    exact aux evs _
  have h := close_before_confirm v (evs ++ [.fail]) hleg (Or.inr (by simp))
  rw [hrun] at h
  rw [crash_is_fail v]
  exact ⟨h.2, h.1⟩

/-- **the code before the repair left the socket open** (witness, replayed on the real code by the oracle): the
    local client has connected and sent a byte, the open ends with, say, a PacketDecodeError: nothing is closed,
    the relay has no channel side and never will have, and the socket transport stays up. -/
theorem crash_leak_witness :
    let r := (run .fixed initListener [.data .sock [1]]).1
    (crashStepPreFix r).2 = [] ∧ (crashStepPreFix r).1.s.tr = true ∧ (crashStepPreFix r).1.phase = .failed ∧
    (crashStep true r).2 = [.close .sock] ∧ (crashStep true r).1.s.tr = false := by
  decide

/-- **destination side, connection still there**: the pair made by `forward_connection` once the destination
    is connected is exactly the listener-side relay right after its channel was confirmed (no early data), so
    all relay theorems apply to it with `evs = .confirm :: rest`. -/
theorem dest_open_is_confirmed_relay (fix : Bool) (v : Variant) :
    destOpen fix true = run v initListener [.confirm] := by
  rcases v with ⟨_ | _, _ | _⟩ <;> cases fix <;> decide

/-- **destination side, SSH connection lost while the connect was in flight** (clause "all ... relayed sockets are
    released when their connection ends"; code after the repair): the freshly connected socket is closed. -/
theorem dest_conn_lost_closes :
    (destOpen true false).2 = [.close .sock] ∧ (destOpen true false).1.s.tr = false ∧
    (destOpen true false).1.c.tr = false := by
  decide

/-- **the code before the repair kept that socket for ever** (witness, replayed on the real code by the oracle):
    no call is made on the socket transport, it stays up, the channel-side half has no transport and the relay is
    not linked, so that no event of the channel can ever reach it (`legal` admits none): only the destination
    itself can end the connection. -/
theorem dest_conn_lost_witness :
    (destOpenPreFix false).2 = [] ∧ (destOpenPreFix false).1.s.tr = true ∧ (destOpenPreFix false).1.c.tr = false ∧
    (∀ e, legal (destOpenPreFix false).1 e = true → e = .lost .sock ∨ e = .pauseW .sock ∨ e = .resumeW .sock ∨
      (∃ d, e = .data .sock d) ∨ e = .eof .sock) := by
  refine ⟨by decide, by decide, by decide, ?_⟩
  intro e he
  cases e with
  | data x d => cases x <;> simp_all [legal, destOpenPreFix, destOpen, Relay.get]
  | eof x => cases x <;> simp_all [legal, destOpenPreFix, destOpen, Relay.get]
  | lost x => cases x <;> simp_all [legal, destOpenPreFix, destOpen, Relay.get, Relay.has]
  | pauseW x => cases x <;> simp_all [legal, destOpenPreFix, destOpen, Relay.get]
  | resumeW x => cases x <;> simp_all [legal, destOpenPreFix, destOpen, Relay.get]
  | confirm => simp [legal, destOpenPreFix, destOpen] at he
  | fail => simp [legal, destOpenPreFix, destOpen] at he

/-! ## the permission decision

  OpenSSH (sshd(8), AUTHORIZED_KEYS FILE FORMAT; ssh-keygen(1), CERTIFICATES): `no-port-forwarding` forbids TCP
  forwarding for the key; `permitopen="host:port"` limits local (`ssh -L`, i.e. direct-tcpip) forwarding to
  the listed destinations, no pattern matching on the host, `*` as port matches any port, several options
  accumulate; a user certificate allows port forwarding only if it carries the `permit-port-forwarding`
  extension.  asyncssh decides exactly by that rule (`permitted_iff_openssh_rule`).  Two OpenSSH restrictions have
  no counterpart in the code and hence none in the model: `permitlisten` (it would limit tcpip-forward) and
  `restrict` (it would imply no-port-forwarding) are parsed as unknown options and ignored.
-/

/-- what the checked tree's handlers test, in the form the model mirrors (regenerated table) -/
theorem handlers_check_credentials :
    Gen.C20.checksOf .directTcpip =
      { key := true, cert := true, permitopen := true, maxPort := some 65535, pathNul := false } ∧
    Gen.C20.checksOf .tcpipForward =
      { key := true, cert := true, permitopen := false, maxPort := some 65535, pathNul := false } ∧
    Gen.C20.checksOf .directStreamlocal =
      { key := true, cert := true, permitopen := false, maxPort := none, pathNul := true } ∧
    Gen.C20.checksOf .streamlocalForward =
      { key := true, cert := true, permitopen := false, maxPort := none, pathNul := false } ∧
    (∀ k, Gen.C20.appAskedAfterChecks k = true) ∧
    Gen.C20.permitopenWildcardPort = true := by
  refine ⟨rfl, rfl, rfl, rfl, ?_, rfl⟩
  intro k; cases k <;> rfl

/-- how the two permission lookups read the options (regenerated from their source):
    `not key_options.get('no-' + p, False)`; `cert_options.get('permit-' + p, False)` under the guard
    `cert_options is not None` — a presence test, so that a certificate carrying no option at all (the empty
    dictionary) is still a certificate — and `True` without a certificate -/
theorem permission_lookup_rules :
    Gen.C20.keyOptionPrefix = "no-" ∧ Gen.C20.keyOptionDefault = false ∧ Gen.C20.keyOptionRevokes = true ∧
    Gen.C20.certOptionPrefix = "permit-" ∧ Gen.C20.certOptionDefault = false ∧
    Gen.C20.certAbsentPermits = true ∧ Gen.C20.certGuardIsPresenceTest = true := by
  decide

/-- the lookups of the checked tree, as the decision model uses them -/
theorem lookup_semantics (k : KeyOpts) (c : Option CertOpts) :
    keyPermits Gen.C20.lookup k = !k.noPortForwarding ∧
    (certPermits Gen.C20.lookup c = true ↔ ∀ co, c = some co → co.permitPortForwarding = true) := by
  refine ⟨?_, ?_⟩
  · cases h : k.noPortForwarding <;> simp [keyPermits, Gen.C20.lookup, h] <;> decide
  · cases c with
    | none => simp [certPermits, Gen.C20.lookup]; decide
    | some co =>
      cases h : co.permitPortForwarding <;>
        simp [certPermits, Gen.C20.lookup, Gen.C20.certGuardIsPresenceTest, Gen.C20.certOptionDefault, h]

/-- **forward_only_if_permitted** (clause "served only if the server application and the credential's restrictions
    permit that destination"): for every request kind, key options, certificate options — including the
    certificate that carries no option at all —, destination and application answer, a channel or listener is
    created only if the key does not carry no-port-forwarding, the certificate (if one was used) carries
    permit-port-forwarding, the destination of a direct-tcpip open is covered by permitopen (if present), and the
    application said yes. -/
theorem forward_only_if_permitted (kind : ReqKind) (k : KeyOpts) (c : Option CertOpts) (d : Dest) (app : Bool)
    (h : (decideReq Gen.C20.lookup (Gen.C20.checksOf kind) k c d app).1 = .created) :
    k.noPortForwarding = false ∧ (∀ co, c = some co → co.permitPortForwarding = true) ∧
    (kind = .directTcpip → permitopenAllows k d = true) ∧ app = true := by
  have hk := (lookup_semantics k c).1
  have hc := (lookup_semantics k c).2
  cases hcp : certPermits Gen.C20.lookup c
  · cases kind <;> simp [decideReq, permittedBy, Gen.C20.checksOf, hcp] at h
  · have hc' := hc.mp hcp
    cases kind <;>
      simp [decideReq, permittedBy, Gen.C20.checksOf, hk, hcp] at h ⊢ <;>
      (repeat' split at h) <;> simp_all

/-- **denied requests create nothing and are not shown to the application**; a refusal by the application
    creates nothing either; neither does a request whose address the handler finds malformed. -/
theorem denied_creates_nothing (kind : ReqKind) (k : KeyOpts) (c : Option CertOpts) (d : Dest) (app : Bool) :
    (permittedBy Gen.C20.lookup (Gen.C20.checksOf kind) k c d = false →
      decideReq Gen.C20.lookup (Gen.C20.checksOf kind) k c d app = (.prohibited, false)) ∧
    (wellFormed (Gen.C20.checksOf kind) d = false →
      decideReq Gen.C20.lookup (Gen.C20.checksOf kind) k c d app = (.prohibited, false)) ∧
    (app = false → (decideReq Gen.C20.lookup (Gen.C20.checksOf kind) k c d app).1 ≠ .created) ∧
    (permittedBy Gen.C20.lookup (Gen.C20.checksOf kind) k c d = true →
      wellFormed (Gen.C20.checksOf kind) d = true → app = true →
      decideReq Gen.C20.lookup (Gen.C20.checksOf kind) k c d app = (.created, true)) := by
  refine ⟨?_, ?_, ?_, ?_⟩
  · intro h; simp only [decideReq, h]; split <;> simp
  · intro h; simp [decideReq, h]
  · intro h; subst h; simp only [decideReq]; (repeat' split) <;> simp_all
  · intro h1 h2 h3; simp [decideReq, h1, h2, h3]

/-! ### the address served is the address asked about

  Ports travel as 32-bit numbers, the resolver reduces them modulo 2^16; the kernel cuts a socket path name at
  its first NUL (`sockDest`, Model/Forward.lean).  The credential (permitopen) and the application are asked
  about the address in the request, so a request may be served only if the socket layer takes that address
  literally.  (A streamlocal-forward request whose path name has a NUL inside is shown to the application and
  then fails in `create_unix_server` — ValueError from `os.stat`, reported as a failed request since the
  repair of the listener creation —, nothing being created: the `createFailed` event of the listener table.) -/

/-- **served_where_asked** (clause "served only if the server application and the credential's restrictions permit
    *that destination*"): whenever a direct-tcpip, tcpip-forward or direct-streamlocal request is served, the
    address the socket layer acts on is the address in the request, the one the credential checks and the
    application decided about. -/
theorem served_where_asked (kind : ReqKind) (hk : kind ≠ .streamlocalForward) (k : KeyOpts) (c : Option CertOpts)
    (d : Dest) (app : Bool)
    (h : (decideReq Gen.C20.lookup (Gen.C20.checksOf kind) k c d app).1 = .created) :
    sockDest kind d = d := by
  have hw : wellFormed (Gen.C20.checksOf kind) d = true := by
    cases hwf : wellFormed (Gen.C20.checksOf kind) d
    · rw [(denied_creates_nothing kind k c d app).2.1 hwf] at h; cases h
    · rfl
  obtain ⟨host, port⟩ := d
  cases kind with
  | directTcpip =>
    simp only [wellFormed, Gen.C20.checksOf, Bool.and_eq_true, decide_eq_true_eq] at hw
    simp only [sockDest, ReqKind.isTcp, if_true]
    congr 1
    exact Nat.mod_eq_of_lt (by omega)
  | tcpipForward =>
    simp only [wellFormed, Gen.C20.checksOf, Bool.and_eq_true, decide_eq_true_eq] at hw
    simp only [sockDest, ReqKind.isTcp, if_true]
    congr 1
    exact Nat.mod_eq_of_lt (by omega)
  | directStreamlocal =>
    simp only [wellFormed, Gen.C20.checksOf, nulInPathName, Bool.true_and, Bool.not_eq_true',
      Bool.and_eq_false_iff] at hw
    simp only [sockDest, ReqKind.isTcp, Bool.false_eq_true, if_false]
    split
    · rfl
    · rename_i hh
      rcases hw with hw | hw
      · congr 1
        apply takeWhile_self_of_all
        intro x hx
        simp only [bne_iff_ne, ne_eq]
        intro hx0
        subst hx0
        have : host.contains 0 = true := by simpa using hx
        rw [hw] at this
        cases this
      · simp only [bne_eq_false_iff_eq] at hw
        exact absurd hw hh
  | streamlocalForward => exact absurd rfl hk

/-- ... in particular a served TCP request names a port that exists -/
theorem served_port_in_range (kind : ReqKind) (hk : kind.isTcp = true) (k : KeyOpts) (c : Option CertOpts)
    (d : Dest) (app : Bool)
    (h : (decideReq Gen.C20.lookup (Gen.C20.checksOf kind) k c d app).1 = .created) : d.port < 65536 := by
  have hne : kind ≠ .streamlocalForward := by intro hh; subst hh; cases hk
  have := served_where_asked kind hne k c d app h
  cases kind <;> simp [ReqKind.isTcp] at hk <;>
    (simp only [sockDest, ReqKind.isTcp, if_true] at this
     have hp : d.port % 65536 = d.port := congrArg Dest.port this
     have := Nat.mod_lt d.port (show 65536 > 0 by decide)
     omega)

/-- **the handlers before the repair served another address than the one asked about** (witnesses, replayed on
    the real code by the oracle): with `permitopen="h:65558"` — or an application that refuses port 22 and only
    port 22 — a direct-tcpip open for port 65558 was served and the connection made to port 22; a
    direct-streamlocal open for `s\0.public` was served and the connection made to `s`. -/
theorem address_rewritten_witness :
    let k : KeyOpts := { permitopen := [([104], some 65558)] }
    decideReqPreFix Gen.C20.lookup (Gen.C20.checksOf .directTcpip) k none ⟨[104], 65558⟩ true = (.created, true) ∧
    sockDest .directTcpip ⟨[104], 65558⟩ = ⟨[104], 22⟩ ∧
    decideReq Gen.C20.lookup (Gen.C20.checksOf .directTcpip) k none ⟨[104], 65558⟩ true = (.prohibited, false) ∧
    decideReqPreFix Gen.C20.lookup (Gen.C20.checksOf .tcpipForward) {} none ⟨[104], 65536 + 12345⟩ true
      = (.created, true) ∧
    sockDest .tcpipForward ⟨[104], 65536 + 12345⟩ = ⟨[104], 12345⟩ ∧
    decideReqPreFix Gen.C20.lookup (Gen.C20.checksOf .directStreamlocal) {} none ⟨[115, 0, 46, 112], 0⟩ true
      = (.created, true) ∧
    sockDest .directStreamlocal ⟨[115, 0, 46, 112], 0⟩ = ⟨[115], 0⟩ ∧
    decideReq Gen.C20.lookup (Gen.C20.checksOf .directStreamlocal) {} none ⟨[115, 0, 46, 112], 0⟩ true
      = (.prohibited, false) ∧
    -- the name of an abstract socket (leading NUL) is used in full and still served
    decideReq Gen.C20.lookup (Gen.C20.checksOf .directStreamlocal) {} none ⟨[0, 115, 0, 112], 0⟩ true
      = (.created, true) ∧
    sockDest .directStreamlocal ⟨[0, 115, 0, 112], 0⟩ = ⟨[0, 115, 0, 112], 0⟩ := by
  decide

/-- OpenSSH's documented rule, stated declaratively -/
def opensshRule (kind : ReqKind) (k : KeyOpts) (c : Option CertOpts) (d : Dest) : Prop :=
  k.noPortForwarding = false ∧ (∀ co, c = some co → co.permitPortForwarding = true) ∧
  (kind = .directTcpip → k.permitopen = [] ∨
    ∃ e ∈ k.permitopen, e.1 = d.host ∧ (e.2 = none ∨ e.2 = some d.port))

/-- **the decision is OpenSSH's rule** for `no-port-forwarding`, `permit-port-forwarding` and `permitopen`. -/
theorem permitted_iff_openssh_rule (kind : ReqKind) (k : KeyOpts) (c : Option CertOpts) (d : Dest) :
    permittedBy Gen.C20.lookup (Gen.C20.checksOf kind) k c d = true ↔ opensshRule kind k c d := by
  have hpo : permitopenAllows k d = true ↔
      (k.permitopen = [] ∨ ∃ e ∈ k.permitopen, e.1 = d.host ∧ (e.2 = none ∨ e.2 = some d.port)) := by
    unfold permitopenAllows
    simp only [Bool.or_eq_true, List.isEmpty_iff, List.contains_iff_mem]
    constructor
    · rintro ((h | h) | h)
      · exact Or.inl h
      · exact Or.inr ⟨_, h, rfl, Or.inr rfl⟩
      · exact Or.inr ⟨_, h, rfl, Or.inl rfl⟩
    · rintro (h | ⟨⟨eh, ep⟩, hm, h1, h2⟩)
      · exact Or.inl (Or.inl h)
      · simp only at h1 h2
        subst h1
        rcases h2 with h2 | h2 <;> subst h2
        · exact Or.inr hm
        · exact Or.inl (Or.inr hm)
  have hk := (lookup_semantics k c).1
  have hc := (lookup_semantics k c).2
  cases kind <;>
    simp only [permittedBy, Gen.C20.checksOf, opensshRule, hk, Bool.not_true, Bool.false_or,
      Bool.not_false, Bool.true_or, Bool.and_true, Bool.and_eq_true, Bool.not_eq_true', hc, hpo] <;>
    simp [and_assoc]

/-- **a certificate that grants nothing is still a certificate**: the certificate carrying no option at all (its
    options decode to the empty dictionary) and the one carrying only critical options or other permits are
    refused every kind of forwarding request, without the application being asked -/
theorem empty_certificate_refused (kind : ReqKind) (k : KeyOpts) (d : Dest) (app other : Bool) :
    decideReq Gen.C20.lookup (Gen.C20.checksOf kind) k (some ⟨false, other⟩) d app = (.prohibited, false) := by
  have h : permittedBy Gen.C20.lookup (Gen.C20.checksOf kind) k (some ⟨false, other⟩) d = false := by
    cases hp : permittedBy Gen.C20.lookup (Gen.C20.checksOf kind) k (some ⟨false, other⟩) d
    · rfl
    · have := ((permitted_iff_openssh_rule kind k (some ⟨false, other⟩) d).mp hp).2.1 _ rfl
      cases this
  exact (denied_creates_nothing kind k _ d app).1 h

/-- non-vacuity: `permitopen="a:80",permitopen="b:*"` admits a:80 and b:9 but not a:81; no-port-forwarding and a
    certificate without the extension deny; the application is not asked then -/
theorem permission_example :
    let k : KeyOpts := { permitopen := [([97], some 80), ([98], none)] }
    let l := Gen.C20.lookup
    decideReq l (Gen.C20.checksOf .directTcpip) k none ⟨[97], 80⟩ true = (.created, true) ∧
    decideReq l (Gen.C20.checksOf .directTcpip) k none ⟨[98], 9⟩ true = (.created, true) ∧
    decideReq l (Gen.C20.checksOf .directTcpip) k none ⟨[97], 81⟩ true = (.prohibited, false) ∧
    decideReq l (Gen.C20.checksOf .tcpipForward) k none ⟨[97], 81⟩ false = (.refusedByApp, true) ∧
    decideReq l (Gen.C20.checksOf .tcpipForward) { noPortForwarding := true } none ⟨[97], 81⟩ true = (.prohibited, false) ∧
    decideReq l (Gen.C20.checksOf .directStreamlocal) {} (some ⟨false, true⟩) ⟨[97], 0⟩ true = (.prohibited, false) ∧
    decideReq l (Gen.C20.checksOf .tcpipForward) {} (some ⟨false, false⟩) ⟨[97], 0⟩ true = (.prohibited, false) ∧
    decideReq l (Gen.C20.checksOf .tcpipForward) {} (some ⟨true, false⟩) ⟨[97], 0⟩ true = (.created, true) := by
  decide

/-- `permitopen` values: last colon splits, brackets are dropped, `*` is the wildcard -/
theorem permitopen_parse_example :
    parsePermitopen (strBytes "[::1]:80") = some (strBytes "::1", .port 80) ∧
    parsePermitopen (strBytes "a.example:*") = some (strBytes "a.example", .any) ∧
    parsePermitopen (strBytes "a.example") = none ∧
    parsePermitopen (strBytes "a:b") = none := by
  decide +kernel

/-! ## listeners

  `llegalRun` (Model/Forward.lean): two creations for the same UNIX path are never in flight at once on one
  connection, and — only for the code before the duplicate-path repair — no request names a UNIX path that is
  already being forwarded.  TCP requests are unrestricted (the kernel refuses the second bind). -/

/-- **listeners_released** (clause "all listeners ... are released when their connection ends"): whatever requests,
    cancellations and closes came before, right after `_cleanup` the listener table is empty and no listening
    socket of the connection is open. -/
theorem listeners_released (v : LVariant) (evs : List LEv) (hl : llegalRun v {} evs = true) :
    (lrun v {} (evs ++ [.cleanup])).table = [] ∧ (lrun v {} (evs ++ [.cleanup])).listening = [] := by
  have h := linv_run v evs {} linv_init hl
  have : lrun v {} (evs ++ [.cleanup]) = lstep v (lrun v {} evs) .cleanup := by
    rw [lrun_append]; rfl
  rw [this]
  exact ⟨(cleanup_empty v _ h).1, (cleanup_empty v _ h).2.1⟩

/-- ... and it stays so, as long as no listener-creation task that was in flight at cleanup completes afterwards
    (code before the repair of that race), or unconditionally (repaired variant). -/
theorem listeners_stay_released (v : LVariant) (evs after : List LEv) (hl : llegalRun v {} evs = true)
    (h : v.fixRace = true ∨ ∀ id, LEv.created id ∉ after) :
    (lrun v {} (evs ++ [.cleanup] ++ after)).table = [] ∧
    (lrun v {} (evs ++ [.cleanup] ++ after)).listening = [] := by
  rw [lrun_append]
  have hrel := listeners_released v evs hl
  have hcl : (lrun v {} (evs ++ [.cleanup])).cleaned = true := by
    rw [lrun_append]
    simp only [lrun]
    exact (cleanup_empty v _ (linv_run v evs {} linv_init hl)).2.2.1
  exact released_run v after _ hrel hcl h

/-- **the repaired code needs no assumption about repeated UNIX paths**: a history in which requests are served
    one at a time (each request finds no creation in flight — the server's global request queue) is legal for the
    repaired variant, whatever paths it names and however often. -/
theorem serial_history_legal (v : LVariant) (hv : v.fixDup = true) (evs : List LEv) : ∀ s,
    (∀ pre k post, evs = pre ++ .request k true :: post → (lrun v s pre).pending = []) →
    llegalRun v s evs = true := by
  induction evs with
  | nil => intro s _; rfl
  | cons e es ih =>
    intro s h
    simp only [llegalRun, Bool.and_eq_true]
    refine ⟨?_, ih _ ?_⟩
    · cases e with
      | request k g =>
        cases g
        · rfl
        · have := h [] k es rfl
          simp only [lrun] at this
          simp [llegal, this, hv]
      | _ => rfl
    · intro pre k post hpre
      have := h (e :: pre) k post (by rw [hpre]; rfl)
      simpa [lrun] using this

/-- **the side condition is needed for the code as it stood** (witness, replayed on the real code by the oracle):
    a forward request is granted, the connection is cleaned up while the listener is still being created
    (`getaddrinfo`/`create_server` pending), the task then completes, registers the listener in the dead
    connection's table and leaves its socket listening. -/
theorem listener_leak_witness :
    (lrun ⟨false, true⟩ {} [.request (.tcp [1] 0) true, .cleanup, .created 0]).listening = [0] ∧
    (lrun ⟨true, true⟩ {} [.request (.tcp [1] 0) true, .cleanup, .created 0]).listening = [] := by
  decide

/-- **the same UNIX path forwarded twice, code before the repair** (witness, replayed on the real code by the
    oracle): both requests are served one after the other, the second bind succeeds because asyncio removes the
    socket file of the first, the table entry is overwritten, and after `_cleanup` the first listener is still
    listening.  The history is not `llegalRun` for that variant — this is the assumption it states — and it is for
    the repaired one, which refuses the second request. -/
theorem unix_twice_leak_witness :
    let evs := [LEv.request (.unix [47, 115]) true, .created 0, .request (.unix [47, 115]) true, .created 1]
    (lrun ⟨true, false⟩ {} (evs ++ [.cleanup])).listening = [0] ∧
    (lrun ⟨true, false⟩ {} (evs ++ [.cleanup])).table = [] ∧
    llegalRun ⟨true, false⟩ {} evs = false ∧
    llegalRun ⟨true, true⟩ {} evs = true ∧
    (lrun ⟨true, true⟩ {} evs).listening = [0] ∧
    (lrun ⟨true, true⟩ {} (evs ++ [.cleanup])).listening = [] := by
  decide

/-- non-vacuity: two listeners, one cancelled by the peer, one closed by cleanup; a TCP address requested twice
    (the second bind fails); a UNIX path forwarded again after its first listener was cancelled -/
theorem listeners_example :
    (lrun .asIs {} [.request (.tcp [1] 0) true, .created 0, .request (.tcp [2] 0) true, .created 1]).listening
      = [1, 0] ∧
    (lrun .asIs {} [.request (.tcp [1] 0) true, .created 0, .request (.tcp [2] 0) true, .created 1,
      .cancel (.tcp [1] 0)]).listening = [1] ∧
    (lrun .asIs {} [.request (.tcp [1] 0) true, .created 0, .request (.tcp [2] 0) true, .created 1,
      .cancel (.tcp [1] 0), .cleanup]).listening = [] ∧
    (lrun .fixed {} [.request (.tcp [1] 7) true, .created 0, .request (.tcp [1] 7) true, .created 1]).listening
      = [0] ∧
    (lrun .fixed {} [.request (.unix [47]) true, .created 0, .cancel (.unix [47]), .request (.unix [47]) true,
      .created 1]).listening = [1] := by
  decide

/-! ## the SOCKS parser -/

open AsyncsshModel.Socks in
/-- the constants the parser model uses are those of the checked tree (regenerated) -/
theorem socks_constants :
    Gen.C20.SOCKS4 = Socks.SOCKS4 ∧ Gen.C20.SOCKS5 = Socks.SOCKS5 ∧ Gen.C20.SOCKS_CONNECT = Socks.SOCKS_CONNECT ∧
    Gen.C20.SOCKS5_AUTH_NONE = Socks.SOCKS5_AUTH_NONE ∧ Gen.C20.SOCKS5_ADDR_IPV4 = Socks.SOCKS5_ADDR_IPV4 ∧
    Gen.C20.SOCKS5_ADDR_HOSTNAME = Socks.SOCKS5_ADDR_HOSTNAME ∧ Gen.C20.SOCKS5_ADDR_IPV6 = Socks.SOCKS5_ADDR_IPV6 ∧
    Gen.C20.SOCKS4_OK_RESPONSE = Socks.SOCKS4_OK_RESPONSE ∧
    Gen.C20.SOCKS5_OK_RESPONSE_HDR = Socks.SOCKS5_OK_RESPONSE_HDR ∧
    Gen.C20.socks5AddrLen = Socks.socks5AddrLen ∧ Gen.C20.SOCKS4_OK = 0x5a ∧ Gen.C20.SOCKS5_OK = 0 := by
  decide

/-- **socks_total** (both variants, every byte string, every chunking): feeding any chunks to a fresh parser
    terminates (the fuel of the `while` loop is never exhausted), never indexes outside the data it cut off and
    never misses a key of the address-length table; the parser is then in one of its proper states (`status`:
    connect / need-more / closed).  The only exception that can leave `data_received` is the failed
    `assert self._transport`, only in the code as it stands, and only after the parser has closed its transport. -/
theorem socks_total (v : Socks.Variant) (chunks : List Bytes) :
    Socks.Out.outOfFuel ∉ (Socks.feedAll v Socks.init chunks).2 ∧
    Socks.wf (Socks.feedAll v Socks.init chunks).1 ∧
    (∀ e, Socks.Out.raised e ∈ (Socks.feedAll v Socks.init chunks).2 →
      e = .assertion ∧ v = .asIs ∧ Socks.Out.close ∈ (Socks.feedAll v Socks.init chunks).2) := by
  have h := Socks.feedAll_ok v chunks Socks.init [] (Socks.runOk_init v)
  simp only [List.nil_append] at h
  refine ⟨h.clean.1, h.wf, ?_⟩
  intro e he
  have := h.raised e he
  refine ⟨?_, this.1, this.2⟩
  cases e
  · rfl
  · exact absurd he h.clean.2.1
  · exact absurd he h.clean.2.2

/-- **socks_total, repaired variant**: nothing is ever raised. -/
theorem socks_total_fixed (chunks : List Bytes) (e : Socks.Exc) :
    Socks.Out.raised e ∉ (Socks.feedAll .fixed Socks.init chunks).2 := by
  intro he
  have := (socks_total .fixed chunks).2.2 e he
  cases this.2.1

/-- **the code as it stands raises** (candidate F11; witness replayed on the real code by the oracle): the two
    bytes `05 00` (SOCKS5, zero authentication methods) make the parser close its transport and then, still
    inside the same `data_received`, call the method-list handler again, whose `assert self._transport is not
    None` fails. -/
theorem socks_raises_witness :
    (Socks.feedAll .asIs Socks.init [[5, 0]]).2 = [.close, .raised .assertion] ∧
    (Socks.feedAll .fixed Socks.init [[5, 0]]).2 = [.close] := by
  decide

/-- non-vacuity: a SOCKS5 request for the name "AB" port 80 split across two chunks, followed by two bytes of
    early data; a SOCKS4a request; a SOCKS4 request in one-byte chunks -/
theorem socks_example :
    Socks.status (Socks.feedAll .asIs Socks.init [[5, 1, 0, 5, 1, 0, 3, 2, 65], [66, 0, 80, 7, 7]]).1
      (Socks.feedAll .asIs Socks.init [[5, 1, 0, 5, 1, 0, 3, 2, 65], [66, 0, 80, 7, 7]]).2
      = .connect (.name [65, 66]) 80 [7, 7] ∧
    (Socks.feedAll .asIs Socks.init [[5, 1, 0, 5, 1, 0, 3, 2, 65], [66, 0, 80, 7, 7]]).2
      = [.write [5, 0], .write [5, 0, 0, 1, 0, 0, 0, 0, 0, 0], .connect (.name [65, 66]) 80] ∧
    Socks.status (Socks.feedAll .asIs Socks.init [[4, 1, 0, 80, 0, 0, 0, 1, 117, 0, 104, 0, 9]]).1
      (Socks.feedAll .asIs Socks.init [[4, 1, 0, 80, 0, 0, 0, 1, 117, 0, 104, 0, 9]]).2
      = .connect (.name [104]) 80 [9] ∧
    Socks.status (Socks.feedAll .asIs Socks.init [[4], [1], [1], [187], [10], [0], [0], [1], [0]]).1
      (Socks.feedAll .asIs Socks.init [[4], [1], [1], [187], [10], [0], [0], [1], [0]]).2
      = .connect (.ip [10, 0, 0, 1]) 443 [] ∧
    Socks.status (Socks.feedAll .asIs Socks.init [[5, 1]]).1 (Socks.feedAll .asIs Socks.init [[5, 1]]).2 = .needMore ∧
    Socks.status (Socks.feedAll .asIs Socks.init [[6, 1]]).1 (Socks.feedAll .asIs Socks.init [[6, 1]]).2 = .closed := by
  decide

end AsyncsshModel.C20
