import AsyncsshModel.Lemmas.Transport
import AsyncsshModel.Gen.C01
/-
  C01 — Encrypted transport is tamper-evident in both directions.
  The receiver model is `Transport.feedAll` (asyncssh/connection.py `_recv_data`/`_recv_pkthdr`/`_recv_packet`),
  for one key epoch of one direction.  The cipher/MAC shim is a parameter; the idealisation is `IntCtxt`
  (ciphertext integrity), carried as a hypothesis — never an axiom.  ALL byte strings and ALL chunkings that an
  on-path attacker can present are quantified over: `chunks` is arbitrary.
-/
namespace AsyncsshModel.C01
open AsyncsshModel AsyncsshModel.Transport

variable {p : Params} {sh : Shim} {enc : Nat → Bytes → Bytes} {s0 : Nat} {pkts : List Bytes}

/-- **Whatever is presented to the receiver, what it hands on is an unmodified prefix of what was sent**:
    the payloads delivered are those of the first `k` sealed packets, and the byte stream presented starts with
    exactly the wire bytes of those `k` packets.  Nothing derived from altered, duplicated, reordered, spliced
    or foreign bytes is ever delivered. -/
theorem recv_only_unmodified (hs : Setting p sh enc s0 pkts) (hint : IntCtxt p sh enc (sentOf s0 pkts))
    (e : Bool) (chunks : List Bytes) :
    ∃ done todo, pkts = done ++ todo ∧
      (feedAll p sh e (RState.init s0) chunks).2 = done.map payloadOf ∧
      wire enc s0 done <+: chunks.flatten := by
  have hinv := inv_feedAll hs e chunks (RState.init s0) [] [] (Or.inl hint) (inv_init p sh enc s0 pkts)
  simp only [List.nil_append] at hinv
  obtain ⟨done, todo, B, hp, ho, hT, _, _⟩ := hinv
  exact ⟨done, todo, hp, ho, by rw [hT]; exact List.prefix_append _ _⟩

/-- delivered payloads are a prefix of the sent payloads: in order, no loss in the middle, no duplicates -/
theorem recv_outputs_prefix (hs : Setting p sh enc s0 pkts) (hint : IntCtxt p sh enc (sentOf s0 pkts))
    (e : Bool) (chunks : List Bytes) :
    (feedAll p sh e (RState.init s0) chunks).2 <+: pkts.map payloadOf := by
  obtain ⟨done, todo, hp, ho, _⟩ := recv_only_unmodified hs hint e chunks
  rw [ho, hp]; simp

theorem wire_prefix_of_prefix (enc : Nat → Bytes → Bytes) (s : Nat) {a b : List Bytes} (h : a <+: b) :
    wire enc s a <+: wire enc s b := by
  obtain ⟨t, rfl⟩ := h
  rw [wire_append]; exact List.prefix_append _ _

/-- **Detection**: if the presented stream does not begin with the exact wire bytes of the first `j+1` packets
    (a bit was flipped in packet ≤ j, bytes were removed, inserted, swapped, or the stream was cut inside it),
    then at most `j` payloads are delivered — the altered packet and everything after it never reach the
    application. -/
theorem recv_detects (hs : Setting p sh enc s0 pkts) (hint : IntCtxt p sh enc (sentOf s0 pkts))
    (e : Bool) (chunks : List Bytes) (pre post : List Bytes) (hpp : pkts = pre ++ post)
    (hmod : ¬ (wire enc s0 pre <+: chunks.flatten)) :
    (feedAll p sh e (RState.init s0) chunks).2.length < pre.length := by
  obtain ⟨done, todo, hp, ho, hw⟩ := recv_only_unmodified hs hint e chunks
  rw [ho, List.length_map]
  rcases Nat.lt_or_ge done.length pre.length with hlt | hge
  · exact hlt
  exfalso
  have h1 : pre <+: pkts := ⟨post, hpp.symm⟩
  have h2 : done <+: pkts := ⟨todo, hp.symm⟩
  have : pre <+: done := by
    rcases List.prefix_or_prefix_of_prefix h1 h2 with h | h
    · exact h
    · have := List.IsPrefix.eq_of_length_le h (by omega)
      rw [this]; exact List.prefix_refl _
  exact hmod (List.IsPrefix.trans (wire_prefix_of_prefix enc s0 this) hw)

/-- **Everything sent before the first altered byte is still delivered intact** (and tampering later in the
    stream cannot retract it): if the presented stream starts with the wire bytes of the first packets `pre`,
    their payloads are delivered, whatever follows and however the stream is chunked. -/
theorem recv_intact_before (hs : Setting p sh enc s0 pkts) (hint : IntCtxt p sh enc (sentOf s0 pkts))
    (e : Bool) (chunks : List Bytes) (pre post : List Bytes) (hpp : pkts = pre ++ post)
    (hok : wire enc s0 pre <+: chunks.flatten) :
    pre.map payloadOf <+: (feedAll p sh e (RState.init s0) chunks).2 := by
  have hinv := inv_feedAll hs e chunks (RState.init s0) [] [] (Or.inl hint) (inv_init p sh enc s0 pkts)
  simp only [List.nil_append] at hinv
  have hq : Quiet p sh e (feedAll p sh e (RState.init s0) chunks).1 :=
    feedAll_quiet hs.bs_pos chunks _ (Or.inl rfl)
  exact quiet_complete hs e hinv hq pre post hpp hok

/-- once the receiver has closed the connection nothing more is ever delivered.  (`closed` is the state the receive
    loop enters itself when a packet fails its integrity or framing checks: in the code the exception leaves
    `_recv_data`'s loop.  A close made from inside a packet handler — the peer's DISCONNECT, the application calling
    `abort()` — is not this state: the loop goes on through the segment it is working on, which then holds
    authentic packets only; found by the faithfulness audit, harmless for C01.) -/
theorem closed_is_final (e : Bool) (st : RState) (h : st.closed ≠ none) (chunks : List Bytes) :
    (feedAll p sh e st chunks).2 = [] ∧ (feedAll p sh e st chunks).1.closed = st.closed := by
  induction chunks generalizing st with
  | nil => simp [feedAll]
  | cons c cs ih =>
    have hstep : ∀ st' : RState, st'.closed ≠ none → stepOnce p sh e st' = none := by
      intro st' h'
      unfold stepOnce
      cases hc : st'.closed with
      | none => exact absurd hc h'
      | some _ => rfl
    have hdrain : ∀ fuel (st' : RState), st'.closed ≠ none → drain p sh e fuel st' = (st', []) := by
      intro fuel st' h'
      cases fuel with
      | zero => rfl
      | succ n =>
        unfold drain
        split
        · rfl
        · rw [hstep st' h']
    simp only [feedAll, feed]
    rw [hdrain _ _ (by simpa using h)]
    have := ih { st with buf := st.buf ++ c } (by simpa using h)
    simp only [List.nil_append]
    exact this

/-- every negotiable cipher/MAC pair of the regenerated table authenticates its packets with at least 8 bytes
    of MAC or AEAD tag -/
theorem every_pair_authenticated : ∀ t ∈ Gen.C01.pairs, 8 ≤ t.2.2.2.1 := by
  decide +kernel

/-- **Each direction has its own keys**: `send_newkeys` derives the six keys with the six letters of RFC 4253 §7.2
    (IV, encryption key and integrity key client→server with A, C, E; server→client with B, D, F), all different,
    and gives each direction's cipher object the keys of that direction — the `IntCtxt` hypothesis is about ONE
    direction's context; a key shared between the directions would let a packet of the opposite direction pass
    (regenerated from the AST of `send_newkeys` on every run). -/
theorem key_letters_rfc :
    Gen.C01.keyLetters = [("enc_key_cs", 67), ("enc_key_sc", 68), ("iv_cs", 65), ("iv_sc", 66),
                          ("mac_key_cs", 69), ("mac_key_sc", 70)] ∧
    (Gen.C01.keyLetters.map (·.2)).Nodup ∧
    Gen.C01.cipherKeys = [("next_enc_cs", "enc_key_cs", "iv_cs", "mac_key_cs"),
                          ("next_enc_sc", "enc_key_sc", "iv_sc", "mac_key_sc")] := by
  refine ⟨by decide, by decide, by decide⟩

/-! ### non-vacuity: the ideal channel meets every hypothesis -/

/-- the ideal authenticated channel over a toy sealed form satisfies ciphertext integrity by construction -/
theorem ideal_intctxt (enc : Nat → Bytes → Bytes) (sent : Nat → Option Bytes) (lenOf : Nat → Bytes → Nat)
    (p : Params) : IntCtxt p (idealShim enc sent lenOf) enc sent := by
  intro s fb rest mac pd _ h
  simp only [idealShim] at h
  cases hs : sent s with
  | none => simp [hs] at h
  | some pd0 =>
    simp only [hs] at h
    split at h
    · rename_i heq
      simp only [Option.some.injEq] at h
      subst h
      exact ⟨rfl, heq⟩
    · cases h

theorem toy_wire_len (mac s : Nat) (pd : Bytes) : (toyEnc mac s pd).length = 4 + pd.length + mac := by
  simp [toyEnc, be32_length]; omega

/-- … and the decoding laws, for block size 8 and any tag size -/
theorem ideal_correct (mac : Nat) (sent : Nat → Option Bytes) :
    Correct ⟨8, mac⟩ (idealShim (toyEnc mac) sent (fun _ fb => beNat (fb.take 4))) (toyEnc mac) sent := by
  refine ⟨toy_wire_len mac, ?_, ?_⟩
  · intro s pd _ hsmall hfb
    simp only [idealShim, toyEnc]
    rw [List.take_take, List.append_assoc, List.take_append_of_le_length (by simp [be32_length])]
    rw [List.take_of_length_le (by simp [be32_length])]
    exact beNat_be32 _ hsmall
  · intro s pd hsent _ hfb
    simp only [idealShim, hsent]
    have hl := toy_wire_len mac s pd
    simp only at hfb
    have : (toyEnc mac s pd).take 8 ++ ((toyEnc mac s pd).drop 8).take (4 + pd.length - 8) ++
        (toyEnc mac s pd).drop (4 + pd.length) = toyEnc mac s pd := by
      rw [List.append_assoc]
      have e : (toyEnc mac s pd).drop (4 + pd.length) = ((toyEnc mac s pd).drop 8).drop (4 + pd.length - 8) := by
        rw [List.drop_drop]; congr 1; omega
      rw [e, List.take_append_drop, List.take_append_drop]
    rw [this]; simp

/-- a concrete tampering run on the ideal channel: two packets sealed, a bit of the second flipped; the first
    payload is delivered, the second is not, the receiver ends closed with a MAC error -/
theorem tamper_example :
    let pkts : List Bytes := [packetBody [50] [0,0,0,0,0,0], packetBody [51, 7] [1,1,1,1,1]]
    let sh := idealShim (toyEnc 4) (sentOf 3 pkts) (fun _ fb => beNat (fb.take 4))
    let w := wire (toyEnc 4) 3 pkts
    let w' := w.set 20 (w[20]! ^^^ 1)
    ((feedAll ⟨8, 4⟩ sh true (RState.init 3) [w']).2 = [[50]] ∧
     (feedAll ⟨8, 4⟩ sh true (RState.init 3) [w']).1.closed = some Err.mac) ∧
    (feedAll ⟨8, 4⟩ sh true (RState.init 3) [w]).2 = [[50], [51, 7]] := by
  decide +kernel

end AsyncsshModel.C01
