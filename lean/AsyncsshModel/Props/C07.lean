import AsyncsshModel.Lemmas.ChannelReach
import AsyncsshModel.Lemmas.ChannelMux
import AsyncsshModel.Lemmas.ChannelCodec
import AsyncsshModel.Lemmas.ChannelText
import AsyncsshModel.Gen.C07
/-
  C07 — Channel data arrives complete, in order, once, with EOF last.

  Model: `Model/Channel.lean` (one endpoint of `asyncssh/channel.py: SSHChannel`), `Model/ChannelSys.lean`
  (two endpoints + one FIFO link per direction, N channels multiplexed), `Model/ChannelCodec.lean` (UTF-8 layer),
  `Model/ChannelText.lean` (encodings whose codec keeps state across writes: the byte order mark family).
  All theorems quantify over EVERY event sequence the environment can choose (writes of any size and datatype,
  write_eof, close, pause/resume, pausing from inside `data_received`, delivery order of the two links) and every
  window / maximum packet size: `(Sys.init ca cb).run evs = .ok s` is "s is reachable".

  `tag b` is the buffer `b` read as a stream of bytes each tagged with its datatype: an equation between tagged
  streams says at once "same bytes per datatype, same order within and ACROSS datatypes, nothing lost, nothing
  duplicated", independently of how the bytes are cut into packets / callbacks.
-/
namespace AsyncsshModel.Channel
open AsyncsshModel AsyncsshModel.ChannelCodec

/-- **Stream invariant** (clause "exactly the byte sequence the sending application wrote, in order, without loss
    or duplication", for every datatype and across datatypes).  In every reachable state, for each direction
    `x → x.other`, as long as the receiving application has not called `close()`:
    delivered ++ receive buffer ++ in flight ++ send buffer = written. -/
theorem stream_inv (ca cb : SideCfg) (evs : List Event) (s : Sys) (h : (Sys.init ca cb).run evs = .ok s)
    (x : Side) (hopen : (s.hist x.other).appClosed = false) :
    tag (dataOuts (s.hist x.other).dl) ++ tag (s.ep x.other).recvBuf ++ tag (dataOf (s.link x.other)) ++
      tag (s.ep x).sendBuf = tag (s.hist x).wr :=
  ((reachable_inv ca cb evs s h).dir x).stream hopen

/-- the same, read per datatype `t` (`none` = stdin/stdout data, `some 1` = stderr): concatenated bytes -/
theorem stream_inv_per_datatype (ca cb : SideCfg) (evs : List Event) (s : Sys)
    (h : (Sys.init ca cb).run evs = .ok s) (x : Side) (hopen : (s.hist x.other).appClosed = false) (t : DType) :
    bytesOfType t (dataOuts (s.hist x.other).dl) ++ bytesOfType t (s.ep x.other).recvBuf ++
      bytesOfType t (dataOf (s.link x.other)) ++ bytesOfType t (s.ep x).sendBuf = bytesOfType t (s.hist x).wr := by
  have := congrArg (ofType t) (stream_inv ca cb evs s h x hopen)
  simpa only [ofType_append, ofType_tag] using this

/-- **No duplication, no reordering, ever** — also after either side closed: what has been handed to the session
    (plus what waits in the receive buffer) is a prefix of what the peer's application wrote. -/
theorem delivered_is_prefix (ca cb : SideCfg) (evs : List Event) (s : Sys) (h : (Sys.init ca cb).run evs = .ok s)
    (x : Side) :
    ∃ rest, tag (dataOuts (s.hist x.other).dl) ++ tag (s.ep x.other).recvBuf ++ rest = tag (s.hist x).wr :=
  ((reachable_inv ca cb evs s h).dir x).pre

/-- **EOF only if signalled**: `eof_received()` is called only if the peer's send half went through `write_eof`
    (called by its application, or on its behalf when its `eof_received()` returned false). -/
theorem eof_only_if_signalled (ca cb : SideCfg) (evs : List Event) (s : Sys) (h : (Sys.init ca cb).run evs = .ok s)
    (x : Side) (he : Out.eof ∈ (s.hist x.other).dl) : (s.hist x).eofSig = true :=
  (run_einv evs _ s (inv_init ca cb) (einv_init ca cb) h).seen x he

/-- **EOF after all data**: when `eof_received()` has been called, every byte the peer wrote has been delivered
    before it (receiver not closed by its own application). -/
theorem eof_after_all_data (ca cb : SideCfg) (evs : List Event) (s : Sys) (h : (Sys.init ca cb).run evs = .ok s)
    (x : Side) (hopen : (s.hist x.other).appClosed = false) (he : Out.eof ∈ (s.hist x.other).dl) :
    tag (dataOuts (s.hist x.other).dl) = tag (s.hist x).wr := by
  have hinv := reachable_inv ca cb evs s h
  have hst := (hinv.dir x).stream hopen
  obtain ⟨hlate, hrb⟩ := (hinv.g x.other).eofSeen he
  have hr1 : 1 ≤ rStage (s.ep x.other) := by
    unfold RecvLate at hlate; unfold rStage
    rcases hlate with h1 | h1 | h1 <;> simp [h1]
  have hlink := (hinv.dir x).link
  have hdata := LinkOK_data_stage _ _ _ hlink hr1
  have hs1 : 1 ≤ sStage (s.ep x) := Nat.le_trans hr1 (LinkOK_le _ _ _ hlink)
  have hsb : (s.ep x).sendBuf = [] := by
    apply (hinv.wf x).s.drained
    unfold sStage at hs1
    cases hs : (s.ep x).sendState <;> simp_all
  rw [hrb, hdata, hsb] at hst
  simpa using hst

/-- **EOF last, once**: the callbacks of a session are data callbacks, then at most one `eof_received`, then at
    most one `connection_lost`. -/
theorem eof_last (ca cb : SideCfg) (evs : List Event) (s : Sys) (h : (Sys.init ca cb).run evs = .ok s) (y : Side) :
    ∃ ds tl, (s.hist y).dl = ds ++ tl ∧ allDataOuts ds ∧
      (tl = [] ∨ tl = [.eof] ∨ tl = [.lost] ∨ tl = [.eof, .lost]) :=
  ((reachable_inv ca cb evs s h).g y).shape

/-- **EOF if sent** (receiver side, unconditional since fix 024eb80): once the peer has put EOF on the wire and it is no longer in
    flight, a reader that is not paused and has not closed HAS had `eof_received()` called — also when the peer's
    CLOSE arrived while the EOF was still waiting behind undelivered data or behind a channel that had not
    started reading (`_recv_eof_pending`). -/
theorem eof_delivered_if_sent (ca cb : SideCfg) (evs : List Event) (s : Sys) (h : (Sys.init ca cb).run evs = .ok s)
    (x : Side) (hs : (s.hist x).eofSent = true) (hfl : Msg.eof ∉ s.link x.other)
    (hp : (s.ep x.other).recvPaused = .no) (hopen : (s.hist x.other).appClosed = false) :
    Out.eof ∈ (s.hist x.other).dl := by
  have hinv := reachable_inv ca cb evs s h
  have hsi := run_sinv evs _ s (inv_init ca cb) (sinv_init ca cb) h
  rcases hsi.sent x hs with h1 | h1 | h1 | h1
  · exact absurd h1 hfl
  · rcases h1 with h2 | ⟨h2, _⟩
    · rcases (hinv.g x.other).eofWait h2 with h3 | h3
      · exact absurd hp h3
      · rw [hopen] at h3; cases h3
    · exact absurd hp ((hinv.wf x.other).closeP h2)
  · exact h1
  · rw [hopen] at h1; cases h1

/-- **EOF if signalled** (unconditional since fix d334dad): once the application has called `write_eof()` while its
    send half was open — i.e. before its own `close()` — and everything it buffered has gone out (send buffer
    empty), nothing is left in flight, and the reader is not paused and has not closed: `eof_received()` HAS been
    called.  Together with `eof_only_if_signalled` this is "end-of-file if and only if the sender signalled it". -/
theorem eof_delivered_if_signalled (ca cb : SideCfg) (evs : List Event) (s : Sys)
    (h : (Sys.init ca cb).run evs = .ok s) (x : Side) (hs : (s.hist x).eofSig = true)
    (hbuf : (s.ep x).sendBuf = []) (hfl : Msg.eof ∉ s.link x.other)
    (hp : (s.ep x.other).recvPaused = .no) (hopen : (s.hist x.other).appClosed = false) :
    Out.eof ∈ (s.hist x.other).dl := by
  have hinv := reachable_inv ca cb evs s h
  have hsg := run_siginv evs _ s (inv_init ca cb) (siginv_init ca cb) h
  rcases hsg.sig x hs with h1 | h1 | h1
  · exact eof_delivered_if_sent ca cb evs s h x h1 hfl hp hopen
  · exfalso
    have hpend := (hinv.wf x).pend
    rcases h1 with h2 | ⟨h2, _⟩
    · exact hpend (Or.inl h2) hbuf
    · exact hpend (Or.inr h2) hbuf
  · rw [hopen] at h1; cases h1

/-- the writes to `_send_eof_pending` the model's `sendEofPending` mirrors, and the shape of the close branch of
    `_flush_send_buf`, as the translator finds them -/
theorem send_eof_pending_flag_sites : Gen.C07.sendEofPendingSites =
    ["__init__: self._send_eof_pending = False", "_flush_send_buf: self._send_eof_pending = False",
     "close: self._send_eof_pending = self._send_state == 'eof_pending'"] ∧
    Gen.C07.closeSendsPendingEof = true := by decide

/-- the writes to `_recv_eof_pending` the model's `recvEofPending` mirrors, as the translator finds them -/
theorem eof_pending_flag_sites : Gen.C07.recvEofPendingSites =
    ["__init__: self._recv_eof_pending = False", "_flush_recv_buf: self._recv_eof_pending = False",
     "_process_close: self._recv_eof_pending = self._recv_state == 'eof_pending'"] := by decide

/-! ### defect F13 (fixed by 024eb80): CLOSE used to overtake a pending EOF -/

def f13Cfg : SideCfg × SideCfg :=
  ({ window := 64, pktsize := 32, readTypes := [1], writeTypes := [] },
   { window := 64, pktsize := 32, readTypes := [], writeTypes := [1] })

/-- b writes 3 bytes, signals EOF and closes; a has reading paused while DATA, EOF, CLOSE arrive and resumes -/
def f13Run : List Event :=
  [.app .a .pause, .app .b (.write none [1, 2, 3]), .app .b .writeEof, .app .b .close,
   .deliver .a, .deliver .a, .deliver .a, .app .a .resume, .deliver .b]

/-- **Witness for the code BEFORE fix 024eb80** (`Sys.runOld`: `_process_close` overwrites `'eof_pending'`): the
    sender signalled and sent EOF, every byte was delivered, nothing is in flight, the reader reads and has not
    closed — and `eof_received()` was never called. -/
theorem eof_lost_when_close_overtakes_old :
    ∃ s, (Sys.init f13Cfg.1 f13Cfg.2).runOld f13Run = .ok s ∧ (s.hist .b).eofSent = true ∧
      s.link .a = [] ∧ s.link .b = [] ∧ (s.ep .a).recvPaused = .no ∧ (s.hist .a).appClosed = false ∧
      tag (dataOuts (s.hist .a).dl) = tag (s.hist .b).wr ∧
      (s.hist .a).dl = [.data none [1, 2, 3], .lost] := by
  refine ⟨_, rfl, ?_⟩
  decide +kernel

/-- the same scenario on the code as it is now: data, then EOF, then `connection_lost` -/
theorem eof_delivered_when_close_overtakes :
    ∃ s, (Sys.init f13Cfg.1 f13Cfg.2).run f13Run = .ok s ∧
      (s.hist .a).dl = [.data none [1, 2, 3], .eof, .lost] := by
  refine ⟨_, rfl, ?_⟩
  decide +kernel

/-- BEFORE the fix, without any `pause_reading()` by the application: the client channel is still in its
    `'starting'` phase when DATA, EOF and CLOSE arrive in one burst -/
theorem eof_lost_when_close_overtakes_starting_old :
    ∃ s, (Sys.init { f13Cfg.1 with paused := .starting } f13Cfg.2).runOld
        [.app .b (.write none [1, 2, 3]), .app .b .writeEof, .app .b .close,
         .deliver .a, .deliver .a, .deliver .a, .app .a .startReading, .deliver .b] = .ok s ∧
      (s.hist .b).eofSent = true ∧ (s.hist .a).dl = [.data none [1, 2, 3], .lost] := by
  refine ⟨_, rfl, ?_⟩
  decide +kernel

/-- and now (also with no data at all: EOF and CLOSE while `'starting'`) -/
theorem eof_delivered_when_close_overtakes_starting :
    ∃ s, (Sys.init { f13Cfg.1 with paused := .starting } f13Cfg.2).run
        [.app .b .writeEof, .app .b .close, .deliver .a, .deliver .a, .app .a .startReading, .deliver .b] = .ok s ∧
      (s.hist .a).dl = [.eof, .lost] := by
  refine ⟨_, rfl, ?_⟩
  decide +kernel

/-- **Witness for the code BEFORE fix d334dad** (`Sys.runOld`: `close()` replaces `'eof_pending'` by
    `'close_pending'` and the tail of `_flush_send_buf` sends only CLOSE): `write_eof()` followed by `close()` while
    data is still waiting for window — the EOF message is never sent, the receiver gets all the data and
    `connection_lost` but no `eof_received()`. -/
theorem eof_not_sent_when_close_overrides_old :
    ∃ s, (Sys.init { f13Cfg.1 with window := 4 } f13Cfg.2).runOld
        [.app .b (.write none [1, 2, 3, 4, 5, 6, 7, 8]), .app .b .writeEof, .app .b .close,
         .deliver .a, .deliver .b, .deliver .a, .deliver .a, .deliver .b, .deliver .b] = .ok s ∧
      (s.hist .b).eofSig = true ∧ (s.hist .b).eofSent = false ∧ s.link .a = [] ∧ s.link .b = [] ∧
      (s.hist .a).dl = [.data none [1, 2, 3, 4], .data none [5, 6, 7, 8], .lost] := by
  refine ⟨_, rfl, ?_⟩
  decide +kernel

/-- the same scenario on the code as it is now: DATA, DATA, EOF, CLOSE on the wire; data, data, EOF, lost at
    the session -/
theorem eof_sent_when_close_overrides :
    ∃ s, (Sys.init { f13Cfg.1 with window := 4 } f13Cfg.2).run
        [.app .b (.write none [1, 2, 3, 4, 5, 6, 7, 8]), .app .b .writeEof, .app .b .close,
         .deliver .a, .deliver .b, .deliver .a, .deliver .a, .deliver .a, .deliver .b, .deliver .b] = .ok s ∧
      (s.hist .b).eofSent = true ∧ s.link .a = [] ∧ s.link .b = [] ∧
      (s.hist .a).dl = [.data none [1, 2, 3, 4], .data none [5, 6, 7, 8], .eof, .lost] := by
  refine ⟨_, rfl, ?_⟩
  decide +kernel

/-! ### many channels on one connection -/

/-- **Any number of channels**: a step of the system with N channels multiplexed on one link per direction
    (dispatch by recipient number, connection.py:1696-1707) is, seen from channel `i`, a step of the
    single-channel system or nothing at all — every theorem above therefore holds per channel. -/
theorem channels_independent_prop (m m' : MSys) (ev : MEvent) (i : Nat) (h : m.step ev = .ok m') :
    m'.proj i = m.proj i ∨ ∃ e, (m.proj i).step e = .ok (m'.proj i) :=
  channels_independent m m' ev i h

/-! ### text channels: characters split across packets -/

/-- **Chunk independence of the UTF-8 decoder**: decoding the delivered chunks one by one (as `_deliver_data`
    does, one incremental decoder per channel) gives, concatenated, what decoding their concatenation gives, and
    raises iff that raises — wherever packet boundaries cut multi-byte characters. -/
theorem utf8_split_ok (st : St) (chunks : Buf) :
    (decodeChunks st chunks).map (fun r => (r.1, textOf r.2)) = decode st (bytesOf chunks) :=
  decodeChunks_flatten st chunks

/-- the decoder inverts the encoder for every Unicode scalar value and ends in its initial state -/
theorem utf8_roundtrip (cps : List Nat) (h : ∀ cp ∈ cps, isScalar cp) : decode .s0 (encStr cps) = some (.s0, cps) :=
  decode_encStr cps h

/-- **Characters, per datatype**: if the delivered chunks carry the same tagged byte stream as the strings the
    peer wrote (what `stream_inv` gives once everything is delivered), the text handed to `data_received`, per
    datatype and in order, is exactly the text written — however the stream was cut — and the final
    `decoder.decode(b'', True)` succeeds. -/
theorem text_delivered_is_text_written (writes : List (List Nat × DType))
    (hsc : ∀ w ∈ writes, ∀ cp ∈ w.1, isScalar cp) (delivered : Buf)
    (hst : tag delivered = tag (writes.map (fun w => (encStr w.1, w.2)))) :
    (decodeChunks .s0 delivered).map (fun r => (r.1, tagCps r.2)) = some (.s0, tagCps writes) := by
  rw [decodeChunks_tagged, hst]
  exact decodeTagged_writes writes hsc

/-! ### text channels: encodings whose codec keeps state across writes (utf-8-sig, utf-16, utf-32)

  `SSHChannel.write` sends every string through ONE incremental encoder per channel, `_deliver_data` every packet
  through ONE incremental decoder.  For `utf-8-sig`, `utf-16`, `utf-32` the encoder state is "mark already sent",
  the decoder state "mark already consumed" (plus the bytes of an incomplete character).  The body codecs UTF-8,
  UTF-16-LE, UTF-32-LE are modelled byte by byte (`Model/ChannelText.lean`); what is NOT modelled: big-endian
  streams (CPython's `utf-16` / `utf-32` decoders switch on a `FE FF` mark, its encoders never emit one on a
  little-endian host), error handlers other than `strict`, and the 8-bit code pages (stateless, one byte per
  character: exercised by the oracle only). -/

/-- the body codecs invert their encoders, character by character, on every Unicode scalar value -/
theorem text_codecs_roundtrip (t : ChannelText.TextCodec) (h : t ∈ ChannelText.family) :
    ∀ cp, isScalar cp → ChannelText.run t.dec t.dec.init (t.enc cp) = some (t.dec.init, [cp]) :=
  (ChannelText.family_ok t h).2

/-- **Text as written, write by write, every packetisation.**  For each modelled encoding, every sequence of
    writes (empty ones included) sent through one incremental encoder, and every way `_flush_send_buf` cuts the
    bytes of each write into packets (`css[i]` = packets of write `i`): the text delivered out of the packets of
    write `i` is write `i` — the mark reaches the wire once, is consumed once, no character is lost at a packet
    boundary — and the decoder ends with nothing buffered (`stOf`: the state belonging to the encoder's). -/
theorem text_as_written_every_packetisation (t : ChannelText.TextCodec) (h : t ∈ ChannelText.family)
    (ws : List (List Nat)) (hv : ∀ w ∈ ws, ∀ cp ∈ w, isScalar cp) (css : List (List (List Nat)))
    (hcss : css.map List.flatten = ChannelText.encodeWrites t false ws) :
    ∃ sent', ChannelText.runWrites t.machine (ChannelText.BomSt.start 0) css =
      some (ChannelText.stOf t sent', ws) :=
  ChannelText.writes_roundtrip t isScalar (ChannelText.family_ok t h).1 (ChannelText.family_ok t h).2 false ws hv
    css hcss

/-- **The whole text, packet boundaries anywhere** (also when a packet carries bytes of two writes, which the
    receive buffer never produces but a peer implementation may): concatenated text delivered = concatenated text
    written, and `decoder.decode(b'', True)` at EOF finds nothing pending. -/
theorem text_stream_any_chunking (t : ChannelText.TextCodec) (h : t ∈ ChannelText.family)
    (ws : List (List Nat)) (hv : ∀ w ∈ ws, ∀ cp ∈ w, isScalar cp) (cs : List (List Nat))
    (hcs : cs.flatten = (ChannelText.encodeWrites t false ws).flatten) :
    ∃ st outs, ChannelText.runChunks t.machine (ChannelText.BomSt.start 0) cs = some (st, outs) ∧
      outs.flatten = ws.flatten ∧ ChannelText.Clean t st :=
  ChannelText.stream_roundtrip t isScalar (ChannelText.family_ok t h).1 (ChannelText.family_ok t h).2 ws hv cs hcs

/-- **Witness: encoding every write on its own breaks the text** (`data.encode(encoding)` per write instead of
    the channel's encoder).  For each mark-emitting encoding and any two non-empty writes, the receiver's decoder
    strips the first mark only: the text delivered is `w1 ++ U+FEFF ++ w2`, which is not what was written. -/
theorem per_write_encoding_breaks_text (t : ChannelText.TextCodec) (h : t ∈ ChannelText.markFamily)
    (w1 w2 : List Nat) (h1 : w1 ≠ []) (h2 : w2 ≠ []) (hv1 : ∀ cp ∈ w1, isScalar cp) (hv2 : ∀ cp ∈ w2, isScalar cp) :
    ChannelText.run t.machine (ChannelText.BomSt.start 0)
        (ChannelText.encodeFresh t w1 ++ ChannelText.encodeFresh t w2) =
        some (ChannelText.BomSt.body t.dec.init, w1 ++ 0xFEFF :: w2) ∧
      w1 ++ 0xFEFF :: w2 ≠ w1 ++ w2 :=
  ChannelText.fresh_two_writes t isScalar (ChannelText.markFamily_ok t h).1 (ChannelText.markFamily_ok t h).2.1
    (ChannelText.markFamily_ok t h).2.2 ChannelText.isScalar_mark w1 w2 h1 h2 hv1 hv2

/-- the same for any number of writes: every non-empty write after the first arrives with U+FEFF in front -/
theorem per_write_encoding_delivers (t : ChannelText.TextCodec) (h : t ∈ ChannelText.markFamily)
    (ws : List (List Nat)) (hv : ∀ w ∈ ws, ∀ cp ∈ w, isScalar cp) (x : List Nat)
    (hx : ChannelText.freshTail ws = 0xFEFF :: x) :
    ChannelText.run t.machine (ChannelText.BomSt.start 0) (ws.map (ChannelText.encodeFresh t)).flatten =
      some (ChannelText.BomSt.body t.dec.init, x) :=
  ChannelText.fresh_decodes t isScalar (ChannelText.markFamily_ok t h).1 (ChannelText.markFamily_ok t h).2.1
    (ChannelText.markFamily_ok t h).2.2 ChannelText.isScalar_mark ws hv x hx

/-- **Tie to the code**: on a channel with an encoding, `write` encodes with `self._encoder.encode(data)` and
    `_deliver_data` decodes with `self._decoder.decode(data)`; `set_encoding` creates both with
    `codecs.getincrementalencoder / getincrementaldecoder (encoding)(errors)`; an empty write returns before the
    encoder; these are the only uses of the two objects besides the final `decode(b'', True)` at EOF. -/
theorem text_codec_objects_in_code :
    Gen.C07.writeUsesChannelEncoder = true ∧ Gen.C07.encoderIsIncremental = true ∧
    Gen.C07.deliverUsesChannelDecoder = true ∧ Gen.C07.decoderIsIncremental = true ∧
    Gen.C07.emptyWriteSkipsEncoder = true ∧
    Gen.C07.codecCallSites = ["_deliver_data: self._decoder.decode(data)",
      "_flush_recv_buf: self._decoder.decode(b'', True)", "write: self._encoder.encode(cast(str, data))"] := by
  decide

/-! ### tie to the code: the generated arithmetic -/

/-- the model's packet-size choice and split rule are the expressions read from `_flush_send_buf` -/
theorem model_send_loop_eq_gen (w p : Nat) (buf : Bytes) :
    ((pktSize w p : Nat) : Int) = Gen.C07.pktsizeExpr w p ∧
    (buf.length > pktSize w p ↔ Gen.C07.splitCond buf.length (pktSize w p)) := by
  unfold pktSize Gen.C07.pktsizeExpr Gen.C07.splitCond
  refine ⟨by omega, by omega⟩

/-! ### non-vacuity -/

/-- a reachable state in which all four places of the stream invariant hold data at once -/
theorem stream_inv_example :
    ∃ s, (Sys.init f13Cfg.1 { f13Cfg.2 with window := 4 }).run
        [.app .b .pause, .app .a (.write none [1, 2, 3, 4, 5, 6, 7, 8, 9]), .deliver .b, .app .b .resume,
         .app .b .pause, .deliver .a, .app .a (.write none [10]), .deliver .b] = .ok s ∧
      dataOuts (s.hist .b).dl ≠ [] ∧ (s.ep .b).recvBuf ≠ [] ∧ (s.ep .a).sendBuf ≠ [] := by
  refine ⟨_, rfl, ?_⟩
  decide +kernel

theorem utf8_example : decodeChunks .s0 [([0xE2, 0x82], none), ([0xAC, 0xF0, 0x9F], some 1), ([0x98, 0x80], none)] =
    some (.s0, [([], none), ([0x20AC], some 1), ([0x1F600], none)]) := by
  decide +kernel

/-- utf-16, writes "a", "", "\u{1F600}" through one encoder, packets of 3, 1, 4 and 2 bytes: text as written -/
theorem text_utf16_example :
    ChannelText.encodeWrites ChannelText.utf16 false [[0x61], [], [0x1F600]] =
      [[0xFF, 0xFE, 0x61, 0x00], [], [0x3D, 0xD8, 0x00, 0xDE]] ∧
    ChannelText.runWrites ChannelText.utf16.machine (ChannelText.BomSt.start 0)
      [[[0xFF, 0xFE, 0x61], [0x00]], [], [[0x3D, 0xD8, 0x00, 0xDE]]] =
      some (ChannelText.BomSt.body ChannelText.St16.s0, [[0x61], [], [0x1F600]]) :=
  ⟨rfl, rfl⟩

/-- utf-8-sig, "a" and "b" each encoded on its own: the receiver gets "a\uFEFFb" -/
theorem per_write_encoding_example :
    ChannelText.run ChannelText.utf8sig.machine (ChannelText.BomSt.start 0)
      (ChannelText.encodeFresh ChannelText.utf8sig [0x61] ++ ChannelText.encodeFresh ChannelText.utf8sig [0x62]) =
      some (ChannelText.BomSt.body St.s0, [0x61, 0xFEFF, 0x62]) :=
  rfl

end AsyncsshModel.Channel
