import AsyncsshModel.Lemmas.ChannelReach
import AsyncsshModel.Lemmas.ChannelMux
import AsyncsshModel.Lemmas.ChannelCodec
import AsyncsshModel.Lemmas.ChannelText
import AsyncsshModel.Lemmas.ChannelDecode
import AsyncsshModel.Lemmas.ChannelVariants
import AsyncsshModel.Gen.C07
/-
  C07 — Channel data arrives complete, in order, once, with EOF last.

  Model: `Model/Channel.lean` (one endpoint of `asyncssh/channel.py: SSHChannel`), `Model/ChannelSys.lean`
  (two endpoints + one FIFO link per direction, N channels multiplexed), `Model/ChannelCodec.lean` (UTF-8 layer),
  `Model/ChannelDecode.lean` (the receive-side text layer of an endpoint: one decoder per data type, final decode at
  EOF / CLOSE, reset by the application's `close()`), `Model/ChannelText.lean` (encodings whose codec keeps state
  across writes: the byte order mark family), `Model/ChannelVariants.lean` (what `SSHServerChannel` and
  `SSHTunTapChannel` add to the data path).
  All theorems quantify over EVERY event sequence the environment can choose (writes of any size and datatype,
  write_eof, close, pause/resume, pausing from inside `data_received`, delivery order of the two links) and every
  window / maximum packet size: `(Sys.init ca cb).run evs = .ok s` is "s is reachable".

  `tag b` is the buffer `b` read as a stream of bytes each tagged with its datatype: an equation between tagged
  streams says at once "same bytes per datatype, same order within and ACROSS datatypes, nothing lost, nothing
  duplicated", independently of how the bytes are cut into packets / callbacks.
-/
namespace AsyncsshModel.Channel
open AsyncsshModel AsyncsshModel.ChannelCodec

/-- **Stream invariant** (clause "exactly the byte sequence the sending application wrote, in order, without loss
    or duplication", for every datatype and across datatypes).  In every reachable state, for each direction
    `x → x.other`, as long as the receiving application has not called `close()`:
    delivered ++ receive buffer ++ in flight ++ send buffer = written. -/
theorem stream_inv (ca cb : SideCfg) (evs : List Event) (s : Sys) (h : (Sys.init ca cb).run evs = .ok s)
    (x : Side) (hopen : (s.hist x.other).appClosed = false) :
    tag (dataOuts (s.hist x.other).dl) ++ tag (s.ep x.other).recvBuf ++ tag (dataOf (s.link x.other)) ++
      tag (s.ep x).sendBuf = tag (s.hist x).wr :=
  ((reachable_inv ca cb evs s h).dir x).stream hopen

/-- the same, read per datatype `t` (`none` = stdin/stdout data, `some 1` = stderr): concatenated bytes -/
theorem stream_inv_per_datatype (ca cb : SideCfg) (evs : List Event) (s : Sys)
    (h : (Sys.init ca cb).run evs = .ok s) (x : Side) (hopen : (s.hist x.other).appClosed = false) (t : DType) :
    bytesOfType t (dataOuts (s.hist x.other).dl) ++ bytesOfType t (s.ep x.other).recvBuf ++
      bytesOfType t (dataOf (s.link x.other)) ++ bytesOfType t (s.ep x).sendBuf = bytesOfType t (s.hist x).wr := by
  have := congrArg (ofType t) (stream_inv ca cb evs s h x hopen)
  simpa only [ofType_append, ofType_tag] using this

/-- **No duplication, no reordering, ever** — also after either side closed: what has been handed to the session
    (plus what waits in the receive buffer) is a prefix of what the peer's application wrote. -/
theorem delivered_is_prefix (ca cb : SideCfg) (evs : List Event) (s : Sys) (h : (Sys.init ca cb).run evs = .ok s)
    (x : Side) :
    ∃ rest, tag (dataOuts (s.hist x.other).dl) ++ tag (s.ep x.other).recvBuf ++ rest = tag (s.hist x).wr :=
  ((reachable_inv ca cb evs s h).dir x).pre

/-- **EOF only if signalled**: `eof_received()` is called only if the peer's send half went through `write_eof`
    (called by its application, or on its behalf when its `eof_received()` returned false). -/
theorem eof_only_if_signalled (ca cb : SideCfg) (evs : List Event) (s : Sys) (h : (Sys.init ca cb).run evs = .ok s)
    (x : Side) (he : Out.eof ∈ (s.hist x.other).dl) : (s.hist x).eofSig = true :=
  (run_einv evs _ s (inv_init ca cb) (einv_init ca cb) h).seen x he

/-- **EOF after all data**: when `eof_received()` has been called, every byte the peer wrote has been delivered
    before it (receiver not closed by its own application). -/
theorem eof_after_all_data (ca cb : SideCfg) (evs : List Event) (s : Sys) (h : (Sys.init ca cb).run evs = .ok s)
    (x : Side) (hopen : (s.hist x.other).appClosed = false) (he : Out.eof ∈ (s.hist x.other).dl) :
    tag (dataOuts (s.hist x.other).dl) = tag (s.hist x).wr := by
  have hinv := reachable_inv ca cb evs s h
  have hst := (hinv.dir x).stream hopen
  obtain ⟨hlate, hrb⟩ := (hinv.g x.other).eofSeen he
  have hr1 : 1 ≤ rStage (s.ep x.other) := by
    unfold RecvLate at hlate; unfold rStage
    rcases hlate with h1 | h1 | h1 <;> simp [h1]
  have hlink := (hinv.dir x).link
  have hdata := LinkOK_data_stage _ _ _ hlink hr1
  have hs1 : 1 ≤ sStage (s.ep x) := Nat.le_trans hr1 (LinkOK_le _ _ _ hlink)
  have hsb : (s.ep x).sendBuf = [] := by
    apply (hinv.wf x).s.drained
    unfold sStage at hs1
    cases hs : (s.ep x).sendState <;> simp_all
  rw [hrb, hdata, hsb] at hst
  simpa using hst

/-- **EOF last, once**: the callbacks of a session are data callbacks, then at most one `eof_received`, then at
    most one `connection_lost`. -/
theorem eof_last (ca cb : SideCfg) (evs : List Event) (s : Sys) (h : (Sys.init ca cb).run evs = .ok s) (y : Side) :
    ∃ ds tl, (s.hist y).dl = ds ++ tl ∧ allDataOuts ds ∧
      (tl = [] ∨ tl = [.eof] ∨ tl = [.lost] ∨ tl = [.eof, .lost]) :=
  ((reachable_inv ca cb evs s h).g y).shape

/-- **EOF if sent** (receiver side, unconditional since fix 024eb80): once the peer has put EOF on the wire and it is no longer in
    flight, a reader that is not paused and has not closed HAS had `eof_received()` called — also when the peer's
    CLOSE arrived while the EOF was still waiting behind undelivered data or behind a channel that had not
    started reading (`_recv_eof_pending`). -/
theorem eof_delivered_if_sent (ca cb : SideCfg) (evs : List Event) (s : Sys) (h : (Sys.init ca cb).run evs = .ok s)
    (x : Side) (hs : (s.hist x).eofSent = true) (hfl : Msg.eof ∉ s.link x.other)
    (hp : (s.ep x.other).recvPaused = .no) (hopen : (s.hist x.other).appClosed = false) :
    Out.eof ∈ (s.hist x.other).dl := by
  have hinv := reachable_inv ca cb evs s h
  have hsi := run_sinv evs _ s (inv_init ca cb) (sinv_init ca cb) h
  rcases hsi.sent x hs with h1 | h1 | h1 | h1
  · exact absurd h1 hfl
  · rcases h1 with h2 | ⟨h2, _⟩
    · rcases (hinv.g x.other).eofWait h2 with h3 | h3
      · exact absurd hp h3
      · rw [hopen] at h3; cases h3
    · exact absurd hp ((hinv.wf x.other).closeP h2)
  · exact h1
  · rw [hopen] at h1; cases h1

/-- **EOF if signalled** (unconditional since fix d334dad): once the application has called `write_eof()` while its
    send half was open — i.e. before its own `close()` — and everything it buffered has gone out (send buffer
    empty), nothing is left in flight, and the reader is not paused and has not closed: `eof_received()` HAS been
    called.  Together with `eof_only_if_signalled` this is "end-of-file if and only if the sender signalled it". -/
theorem eof_delivered_if_signalled (ca cb : SideCfg) (evs : List Event) (s : Sys)
    (h : (Sys.init ca cb).run evs = .ok s) (x : Side) (hs : (s.hist x).eofSig = true)
    (hbuf : (s.ep x).sendBuf = []) (hfl : Msg.eof ∉ s.link x.other)
    (hp : (s.ep x.other).recvPaused = .no) (hopen : (s.hist x.other).appClosed = false) :
    Out.eof ∈ (s.hist x.other).dl := by
  have hinv := reachable_inv ca cb evs s h
  have hsg := run_siginv evs _ s (inv_init ca cb) (siginv_init ca cb) h
  rcases hsg.sig x hs with h1 | h1 | h1
  · exact eof_delivered_if_sent ca cb evs s h x h1 hfl hp hopen
  · exfalso
    have hpend := (hinv.wf x).pend
    rcases h1 with h2 | ⟨h2, _⟩
    · exact hpend (Or.inl h2) hbuf
    · exact hpend (Or.inr h2) hbuf
  · rw [hopen] at h1; cases h1

/-- the writes to `_send_eof_pending` the model's `sendEofPending` mirrors, and the shape of the close branch of
    `_flush_send_buf`, as the translator finds them -/
theorem send_eof_pending_flag_sites : Gen.C07.sendEofPendingSites =
    ["__init__: self._send_eof_pending = False", "_flush_send_buf: self._send_eof_pending = False",
     "close: self._send_eof_pending = self._send_state == 'eof_pending'"] ∧
    Gen.C07.closeSendsPendingEof = true := by decide

/-- the writes to `_recv_eof_pending` the model's `recvEofPending` mirrors, as the translator finds them -/
theorem eof_pending_flag_sites : Gen.C07.recvEofPendingSites =
    ["__init__: self._recv_eof_pending = False", "_flush_recv_buf: self._recv_eof_pending = False",
     "_process_close: self._recv_eof_pending = self._recv_state == 'eof_pending'"] := by decide

/-! ### defect F13 (fixed by 024eb80): CLOSE used to overtake a pending EOF -/

def f13Cfg : SideCfg × SideCfg :=
  ({ window := 64, pktsize := 32, readTypes := [1], writeTypes := [] },
   { window := 64, pktsize := 32, readTypes := [], writeTypes := [1] })

/-- b writes 3 bytes, signals EOF and closes; a has reading paused while DATA, EOF, CLOSE arrive and resumes -/
def f13Run : List Event :=
  [.app .a .pause, .app .b (.write none [1, 2, 3]), .app .b .writeEof, .app .b .close,
   .deliver .a, .deliver .a, .deliver .a, .app .a .resume, .deliver .b]

/-- **Witness for the code BEFORE fix 024eb80** (`Sys.runOld`: `_process_close` overwrites `'eof_pending'`): the
    sender signalled and sent EOF, every byte was delivered, nothing is in flight, the reader reads and has not
    closed — and `eof_received()` was never called. -/
theorem eof_lost_when_close_overtakes_old :
    ∃ s, (Sys.init f13Cfg.1 f13Cfg.2).runOld f13Run = .ok s ∧ (s.hist .b).eofSent = true ∧
      s.link .a = [] ∧ s.link .b = [] ∧ (s.ep .a).recvPaused = .no ∧ (s.hist .a).appClosed = false ∧
      tag (dataOuts (s.hist .a).dl) = tag (s.hist .b).wr ∧
      (s.hist .a).dl = [.data none [1, 2, 3], .lost] := by
  refine ⟨_, rfl, ?_⟩
  decide +kernel

/-- the same scenario on the code as it is now: data, then EOF, then `connection_lost` -/
theorem eof_delivered_when_close_overtakes :
    ∃ s, (Sys.init f13Cfg.1 f13Cfg.2).run f13Run = .ok s ∧
      (s.hist .a).dl = [.data none [1, 2, 3], .eof, .lost] := by
  refine ⟨_, rfl, ?_⟩
  decide +kernel

/-- BEFORE the fix, without any `pause_reading()` by the application: the client channel is still in its
    `'starting'` phase when DATA, EOF and CLOSE arrive in one burst -/
theorem eof_lost_when_close_overtakes_starting_old :
    ∃ s, (Sys.init { f13Cfg.1 with paused := .starting } f13Cfg.2).runOld
        [.app .b (.write none [1, 2, 3]), .app .b .writeEof, .app .b .close,
         .deliver .a, .deliver .a, .deliver .a, .app .a .startReading, .deliver .b] = .ok s ∧
      (s.hist .b).eofSent = true ∧ (s.hist .a).dl = [.data none [1, 2, 3], .lost] := by
  refine ⟨_, rfl, ?_⟩
  decide +kernel

/-- and now (also with no data at all: EOF and CLOSE while `'starting'`) -/
theorem eof_delivered_when_close_overtakes_starting :
    ∃ s, (Sys.init { f13Cfg.1 with paused := .starting } f13Cfg.2).run
        [.app .b .writeEof, .app .b .close, .deliver .a, .deliver .a, .app .a .startReading, .deliver .b] = .ok s ∧
      (s.hist .a).dl = [.eof, .lost] := by
  refine ⟨_, rfl, ?_⟩
  decide +kernel

/-- **Witness for the code BEFORE fix d334dad** (`Sys.runOld`: `close()` replaces `'eof_pending'` by
    `'close_pending'` and the tail of `_flush_send_buf` sends only CLOSE): `write_eof()` followed by `close()` while
    data is still waiting for window — the EOF message is never sent, the receiver gets all the data and
    `connection_lost` but no `eof_received()`. -/
theorem eof_not_sent_when_close_overrides_old :
    ∃ s, (Sys.init { f13Cfg.1 with window := 4 } f13Cfg.2).runOld
        [.app .b (.write none [1, 2, 3, 4, 5, 6, 7, 8]), .app .b .writeEof, .app .b .close,
         .deliver .a, .deliver .b, .deliver .a, .deliver .a, .deliver .b, .deliver .b] = .ok s ∧
      (s.hist .b).eofSig = true ∧ (s.hist .b).eofSent = false ∧ s.link .a = [] ∧ s.link .b = [] ∧
      (s.hist .a).dl = [.data none [1, 2, 3, 4], .data none [5, 6, 7, 8], .lost] := by
  refine ⟨_, rfl, ?_⟩
  decide +kernel

/-- the same scenario on the code as it is now: DATA, DATA, EOF, CLOSE on the wire; data, data, EOF, lost at
    the session -/
theorem eof_sent_when_close_overrides :
    ∃ s, (Sys.init { f13Cfg.1 with window := 4 } f13Cfg.2).run
        [.app .b (.write none [1, 2, 3, 4, 5, 6, 7, 8]), .app .b .writeEof, .app .b .close,
         .deliver .a, .deliver .b, .deliver .a, .deliver .a, .deliver .a, .deliver .b, .deliver .b] = .ok s ∧
      (s.hist .b).eofSent = true ∧ s.link .a = [] ∧ s.link .b = [] ∧
      (s.hist .a).dl = [.data none [1, 2, 3, 4], .data none [5, 6, 7, 8], .eof, .lost] := by
  refine ⟨_, rfl, ?_⟩
  decide +kernel

/-! ### many channels on one connection -/

/-- **Any number of channels**: a step of the system with N channels multiplexed on one link per direction
    (dispatch by recipient number, connection.py:1696-1707) is, seen from channel `i`, a step of the
    single-channel system or nothing at all — every theorem above therefore holds per channel. -/
theorem channels_independent_prop (m m' : MSys) (ev : MEvent) (i : Nat) (h : m.step ev = .ok m') :
    m'.proj i = m.proj i ∨ ∃ e, (m.proj i).step e = .ok (m'.proj i) :=
  channels_independent m m' ev i h

/-! ### text channels: characters split across packets -/

/-- **Chunk independence of the UTF-8 decoder**: decoding the delivered chunks one by one (as `_deliver_data`
    does, one incremental decoder per channel) gives, concatenated, what decoding their concatenation gives, and
    raises iff that raises — wherever packet boundaries cut multi-byte characters. -/
theorem utf8_split_ok (st : St) (chunks : Buf) :
    (decodeChunks st chunks).map (fun r => (r.1, textOf r.2)) = decode st (bytesOf chunks) :=
  decodeChunks_flatten st chunks

/-- the decoder inverts the encoder for every Unicode scalar value and ends in its initial state -/
theorem utf8_roundtrip (cps : List Nat) (h : ∀ cp ∈ cps, isScalar cp) : decode .s0 (encStr cps) = some (.s0, cps) :=
  decode_encStr cps h

/-- **Characters through ONE decoder** (every data type of a channel before repair 98283c0; each single data type
    since): if the delivered chunks carry the same tagged byte stream as the strings the
    peer wrote (what `stream_inv` gives once everything is delivered), the text handed to `data_received`, per
    datatype and in order, is exactly the text written — however the stream was cut — and the final
    `decoder.decode(b'', True)` succeeds.  The hypothesis is an equation of TAGGED streams: it holds when no
    character's bytes are spread over two data types, which a text sender guarantees and a bytes sender does not —
    see `text_per_datatype_as_written` for the code as it is now. -/
theorem text_delivered_is_text_written (writes : List (List Nat × DType))
    (hsc : ∀ w ∈ writes, ∀ cp ∈ w.1, isScalar cp) (delivered : Buf)
    (hst : tag delivered = tag (writes.map (fun w => (encStr w.1, w.2)))) :
    (decodeChunks .s0 delivered).map (fun r => (r.1, tagCps r.2)) = some (.s0, tagCps writes) := by
  rw [decodeChunks_tagged, hst]
  exact decodeTagged_writes writes hsc

/-- **Characters, per data type** (the code since repair 98283c0: one decoder per data type).  If, for every data
    type, the delivered chunks carry the BYTES of the strings written with that data type — nothing is assumed
    about where packets are cut or how packets of different data types are interleaved, so also a sender which
    relays bytes and switches from stdout to stderr in the middle of a character — then no decode raises, the text
    handed to `data_received` with each data type is exactly the text written with it, and every decoder is back in
    its initial state, so the final `decode(b'', True)` succeeds. -/
theorem text_per_datatype_as_written (writes : List (List Nat × DType))
    (hsc : ∀ w ∈ writes, ∀ cp ∈ w.1, isScalar cp) (delivered : Buf)
    (hst : ∀ t, bytesOfType t delivered = bytesOfType t (writes.map (fun w => (encStr w.1, w.2)))) :
    ∃ ds outs, decodeChunksPer [] delivered = some (ds, outs) ∧
      (∀ t, textOf (outsOfType t outs) = cpsOfType t writes) ∧ decsFinalOk ds = true := by
  obtain ⟨ds, outs, h1, h2, h3⟩ := text_per_datatype writes hsc delivered hst
  exact ⟨ds, outs, h1, h2, h3.finalOk⟩

/-- the same, end to end: in every reachable state of two endpoints in which everything the sender wrote has been
    handed to the receiving session (nothing buffered, nothing in flight), if the bytes written per data type are
    the encodings of the strings `writes`, the receiving text session got exactly those strings per data type -/
theorem text_per_datatype_end_to_end (ca cb : SideCfg) (evs : List Event) (s : Sys)
    (h : (Sys.init ca cb).run evs = .ok s) (x : Side) (hopen : (s.hist x.other).appClosed = false)
    (hrb : (s.ep x.other).recvBuf = []) (hfl : dataOf (s.link x.other) = []) (hsb : (s.ep x).sendBuf = [])
    (writes : List (List Nat × DType)) (hsc : ∀ w ∈ writes, ∀ cp ∈ w.1, isScalar cp)
    (hw : ∀ t, bytesOfType t (s.hist x).wr = bytesOfType t (writes.map (fun w => (encStr w.1, w.2)))) :
    ∃ ds outs, decodeChunksPer [] (dataOuts (s.hist x.other).dl) = some (ds, outs) ∧
      (∀ t, textOf (outsOfType t outs) = cpsOfType t writes) ∧ decsFinalOk ds = true := by
  apply text_per_datatype_as_written writes hsc
  intro t
  have := stream_inv_per_datatype ca cb evs s h x hopen t
  rw [hrb, hfl, hsb] at this
  simpa [bytesOfType, hw t] using this

/-- **Witness for the code BEFORE repair 98283c0** (`Variant.preFix`: one decoder for all data types).  A sender
    relaying bytes wrote "€\n" on stdout and "E" on stderr; the stdout bytes were cut after `E2 82` and the stderr
    packet came in between.  Each data type is valid UTF-8, yet the shared decoder raises on the stderr packet
    (→ `ProtocolError`, the whole connection is closed); one decoder per data type delivers both texts. -/
theorem shared_decoder_breaks_split_character_preFix :
    decodeChunksV .preFix [] [([0xE2, 0x82], none), ([0x45], some 1), ([0xAC, 0x0A], none)] = none ∧
    (decodeChunksPer [] [([0xE2, 0x82], none), ([0x45], some 1), ([0xAC, 0x0A], none)]).map (·.2) =
      some [([], none), ([0x45], some 1), ([0x20AC, 0x0A], none)] := by
  decide +kernel

/-- ... or, when the bytes of the other data type happen to continue the sequence, the shared decoder credits the
    character to the wrong data type (a stdout character delivered on stderr) -/
theorem shared_decoder_miscredits_character_preFix :
    (decodeChunksV .preFix [] [([0xE2, 0x82], none), ([0xAC, 0xF0, 0x9F], some 1), ([0x98, 0x80], none)]).map (·.2) =
      some [([], none), ([0x20AC], some 1), ([0x1F600], none)] := by
  decide +kernel

/-! ### text channels: the application closes in the middle of a character -/

/-- **No decode error after the application's `close()`** (since repair afe8b9e, for ANY peer).  Whatever state a
    text endpoint is in — a partial character pending in any decoder — once its application calls `close()` no
    sequence of later events (DATA, EOF, CLOSE, WINDOW_ADJUST from the peer, further application calls) ends in a
    decode error: later data is dropped undecoded, `_discard_recv` has reset the decoders, so the final
    `decode(b'', True)` on the peer's EOF / CLOSE finds nothing pending.  An honest peer's EOF or CLOSE therefore
    never costs the connection. -/
theorem no_decode_error_after_local_close (tc : TChan) (hw : WF tc.c) (hr : tc.c.recvState ≠ .closed)
    (evs : List Ev) : trunDecodeError tc (.close :: evs) = false := by
  unfold trunDecodeError trunDecodeErrorV
  rcases close_tstep tc hw hr with ⟨tc', ms, outs, hst, hq⟩ | ⟨e, hst⟩
  · have hst' : tstepV .now tc .close = .ok tc' ms outs := hst
    rw [hst']
    exact quiet_run .now evs tc' hq
  · exfalso
    have hst' : tstepV .now tc .close = .error e := hst
    unfold tstepV at hst'
    obtain ⟨r, hr'⟩ : ∃ r, step tc.c .close = .ok r := by
      simp only [step]
      split
      · rename_i hnone
        split at hnone
        · obtain ⟨r, hfs⟩ := flushSend_some
            { tc.c with sendEofPending := decide (tc.c.sendState = .eofPending), sendState := .closePending }
          rw [hfs] at hnone; cases hnone
        · cases hnone
      · split <;> exact ⟨_, rfl⟩
    obtain ⟨c', ms, os⟩ := r
    rw [hr'] at hst'
    simp only at hst'
    split at hst' <;> cases hst'

/-- a text endpoint (client side: reads stdout and stderr) right after the channel was opened -/
def textChan : TChan := { c := Chan.opened 100 [1] [] true 100 100 .no, ds := [] }

/-- "€€" arrives cut as `E2 82 AC E2 | 82 AC`; the application closes after the first packet; the peer's second
    packet and its EOF follow -/
def closeMidCharRun : List Ev :=
  [.recv (.data none [0xE2, 0x82, 0xAC, 0xE2]), .close, .recv (.data none [0x82, 0xAC]), .recv .eof]

/-- **Witness for the code BEFORE repair afe8b9e** (`resetOnDiscard := false`): the honest peer's EOF after the
    application's `close()` in the middle of a character is answered with a decode error — `ProtocolError`, the
    connection and every other channel on it are gone -/
theorem close_midchar_then_eof_fatal_preFix :
    trunDecodeErrorV { perType := true, resetOnDiscard := false } textChan closeMidCharRun = true ∧
    trunDecodeErrorV .preFix textChan closeMidCharRun = true := by
  decide +kernel

/-- the same run on the code as it is: "€" was delivered, the rest is discarded, the EOF is reported, no error -/
theorem close_midchar_then_eof_ok :
    trunDecodeError textChan closeMidCharRun = false ∧
    trunOutsV .now textChan closeMidCharRun = [.text none [0x20AC], .eof] := by
  decide +kernel

/-- the model's variant is the code's: one decoder per data type, reset by `_discard_recv`, as the translator
    finds them in `_deliver_data` / `_discard_recv` -/
theorem model_variant_is_the_code :
    Variant.now = { perType := Gen.C07.decoderPerDatatype, resetOnDiscard := Gen.C07.discardResetsDecoders } := by
  decide

/-! ### text channels: encodings whose codec keeps state across writes (utf-8-sig, utf-16, utf-32)

  `SSHChannel.write` sends every string of a data type through ONE incremental encoder (per data type since repair
  98283c0, so every data type is a stream of its own with its own mark), `_deliver_data` every packet of that data
  type through ONE incremental decoder.  For `utf-8-sig`, `utf-16`, `utf-32` the encoder state is "mark already sent",
  the decoder state "mark already consumed" (plus the bytes of an incomplete character).  The body codecs UTF-8,
  UTF-16-LE, UTF-32-LE are modelled byte by byte (`Model/ChannelText.lean`); what is NOT modelled: big-endian
  streams (CPython's `utf-16` / `utf-32` decoders switch on a `FE FF` mark, its encoders never emit one on a
  little-endian host), error handlers other than `strict`, and the 8-bit code pages (stateless, one byte per
  character: exercised by the oracle only). -/

/-- the body codecs invert their encoders, character by character, on every Unicode scalar value -/
theorem text_codecs_roundtrip (t : ChannelText.TextCodec) (h : t ∈ ChannelText.family) :
    ∀ cp, isScalar cp → ChannelText.run t.dec t.dec.init (t.enc cp) = some (t.dec.init, [cp]) :=
  (ChannelText.family_ok t h).2

/-- **Text as written, write by write, every packetisation.**  For each modelled encoding, every sequence of
    writes (empty ones included) sent through one incremental encoder, and every way `_flush_send_buf` cuts the
    bytes of each write into packets (`css[i]` = packets of write `i`): the text delivered out of the packets of
    write `i` is write `i` — the mark reaches the wire once, is consumed once, no character is lost at a packet
    boundary — and the decoder ends with nothing buffered (`stOf`: the state belonging to the encoder's). -/
theorem text_as_written_every_packetisation (t : ChannelText.TextCodec) (h : t ∈ ChannelText.family)
    (ws : List (List Nat)) (hv : ∀ w ∈ ws, ∀ cp ∈ w, isScalar cp) (css : List (List (List Nat)))
    (hcss : css.map List.flatten = ChannelText.encodeWrites t false ws) :
    ∃ sent', ChannelText.runWrites t.machine (ChannelText.BomSt.start 0) css =
      some (ChannelText.stOf t sent', ws) :=
  ChannelText.writes_roundtrip t isScalar (ChannelText.family_ok t h).1 (ChannelText.family_ok t h).2 false ws hv
    css hcss

/-- **The whole text, packet boundaries anywhere** (also when a packet carries bytes of two writes, which the
    receive buffer never produces but a peer implementation may): concatenated text delivered = concatenated text
    written, and `decoder.decode(b'', True)` at EOF finds nothing pending. -/
theorem text_stream_any_chunking (t : ChannelText.TextCodec) (h : t ∈ ChannelText.family)
    (ws : List (List Nat)) (hv : ∀ w ∈ ws, ∀ cp ∈ w, isScalar cp) (cs : List (List Nat))
    (hcs : cs.flatten = (ChannelText.encodeWrites t false ws).flatten) :
    ∃ st outs, ChannelText.runChunks t.machine (ChannelText.BomSt.start 0) cs = some (st, outs) ∧
      outs.flatten = ws.flatten ∧ ChannelText.Clean t st :=
  ChannelText.stream_roundtrip t isScalar (ChannelText.family_ok t h).1 (ChannelText.family_ok t h).2 ws hv cs hcs

/-- **Witness: encoding every write on its own breaks the text** (`data.encode(encoding)` per write instead of
    the channel's encoder).  For each mark-emitting encoding and any two non-empty writes, the receiver's decoder
    strips the first mark only: the text delivered is `w1 ++ U+FEFF ++ w2`, which is not what was written. -/
theorem per_write_encoding_breaks_text (t : ChannelText.TextCodec) (h : t ∈ ChannelText.markFamily)
    (w1 w2 : List Nat) (h1 : w1 ≠ []) (h2 : w2 ≠ []) (hv1 : ∀ cp ∈ w1, isScalar cp) (hv2 : ∀ cp ∈ w2, isScalar cp) :
    ChannelText.run t.machine (ChannelText.BomSt.start 0)
        (ChannelText.encodeFresh t w1 ++ ChannelText.encodeFresh t w2) =
        some (ChannelText.BomSt.body t.dec.init, w1 ++ 0xFEFF :: w2) ∧
      w1 ++ 0xFEFF :: w2 ≠ w1 ++ w2 :=
  ChannelText.fresh_two_writes t isScalar (ChannelText.markFamily_ok t h).1 (ChannelText.markFamily_ok t h).2.1
    (ChannelText.markFamily_ok t h).2.2 ChannelText.isScalar_mark w1 w2 h1 h2 hv1 hv2

/-- the same for any number of writes: every non-empty write after the first arrives with U+FEFF in front -/
theorem per_write_encoding_delivers (t : ChannelText.TextCodec) (h : t ∈ ChannelText.markFamily)
    (ws : List (List Nat)) (hv : ∀ w ∈ ws, ∀ cp ∈ w, isScalar cp) (x : List Nat)
    (hx : ChannelText.freshTail ws = 0xFEFF :: x) :
    ChannelText.run t.machine (ChannelText.BomSt.start 0) (ws.map (ChannelText.encodeFresh t)).flatten =
      some (ChannelText.BomSt.body t.dec.init, x) :=
  ChannelText.fresh_decodes t isScalar (ChannelText.markFamily_ok t h).1 (ChannelText.markFamily_ok t h).2.1
    (ChannelText.markFamily_ok t h).2.2 ChannelText.isScalar_mark ws hv x hx

/-- **Tie to the code**: on a channel with an encoding, `write` encodes with `encoder.encode(data)` and
    `_deliver_data` decodes with `decoder.decode(data)`, where `encoder` / `decoder` is the object kept for the
    data type in `self._encoders` / `self._decoders`, created on first use by
    `codecs.getincrementalencoder / getincrementaldecoder (encoding)` applied to `errors`; `set_encoding` empties
    both tables; an empty write returns before the encoder; `_discard_recv` resets every decoder and
    `_flush_recv_buf` runs the final `decode(b'', True)` on every decoder; these are the only uses of the codec
    objects. -/
theorem text_codec_objects_in_code :
    Gen.C07.writeUsesChannelEncoder = true ∧ Gen.C07.encoderIsIncremental = true ∧
    Gen.C07.deliverUsesChannelDecoder = true ∧ Gen.C07.decoderIsIncremental = true ∧
    Gen.C07.emptyWriteSkipsEncoder = true ∧
    Gen.C07.encoderPerDatatype = true ∧ Gen.C07.decoderPerDatatype = true ∧
    Gen.C07.discardResetsDecoders = true ∧ Gen.C07.finalDecodeAllDecoders = true ∧
    Gen.C07.codecCallSites = ["_deliver_data: decoder.decode(data)", "_discard_recv: decoder.reset()",
      "_flush_recv_buf: decoder.decode(b'', True)", "write: encoder.encode(cast(str, data))"] := by
  decide

/-- **Tie to the code** (fix ae15f0e): data that arrives after the local `close()` is dropped and data still
    buffered is discarded — the receiving application has closed, the stream clauses do not speak about it — but
    the window it used is given back (`acceptData`, `discardRecv` emit the WINDOW_ADJUST the translator finds in
    `_accept_data` / `_discard_recv`), so the peer's own stream towards an application that still reads is not
    held up for want of window -/
theorem dropped_data_credited_in_code :
    Gen.C07.dropCreditsWindow = true ∧ Gen.C07.discardCreditsWindow = true := by decide

/-! ### channel requests and tunnel channels -/

/-- **Tie to the code** (repair e7dbee0): `SSHServerChannel._start_session` refuses a `shell` / `exec` /
    `subsystem` request once one has succeeded, so the session is started once, by one request, and the data path
    of the model — which has no event for such a request — is the code's.  (`_report_response` still answers a
    successful request of these kinds with `session_started()` and `resume_reading()`: that is how the FIRST one
    starts the session.) -/
theorem second_session_request_refused :
    Gen.C07.secondSessionRequestRefused = true ∧ Gen.C07.sessionRequestResumesReading = true := by decide

/-- **Witness for the code BEFORE repair e7dbee0**: the application has paused reading, three bytes wait in the
    receive buffer; the peer's second `shell` request hands them to the session (a freshly started second handler,
    with the stream API: the first handler never sees them) and leaves reading resumed although the application
    never called `resume_reading()` -/
theorem second_session_request_delivered_behind_pause_preFix :
    ∃ c', sessionRequestPreFix { Chan.opened 100 [] [1] true 100 100 .yes with recvBuf := [([1, 2, 3], none)] } =
        .ok (c', [], [.data none [1, 2, 3]]) ∧ c'.recvPaused = .no := by
  refine ⟨_, rfl, ?_⟩
  decide +kernel

/-- **Witness (NOT repaired, audit finding D5)**: a layer-3 tunnel packet is a datagram, but `SSHTunTapChannel.write`
    appends header + packet as one entry of the byte-stream send buffer and `_flush_send_buf` cuts the entry where
    the window ends.  Window 6, packet `01 02 03 04` behind the address family `00 00 00 02`: the first message
    carries the header and two bytes, the continuation (sent after the WINDOW_ADJUST) the other two; the receiver
    strips 4 bytes from EVERY message: the application gets `01 02` as a packet and the rest is lost. -/
theorem tun_packet_cut_at_window_edge_loses_bytes :
    ∃ c1 c2 r1,
      tunWrite (Chan.opened 100 [] [] true 6 100 .no) [0, 0, 0, 2] [1, 2, 3, 4] =
        .ok (c1, [.data none [0, 0, 0, 2, 1, 2]], []) ∧
      step c1 (.recv (.adjust 100)) = .ok (c2, [.data none [3, 4]], []) ∧
      tunRecvData (Chan.opened 100 [] [] true 100 100 .no) [0, 0, 0, 2, 1, 2] = .ok (r1, [], [.data none [1, 2]]) ∧
      (∃ r2, tunRecvData r1 [3, 4] = .ok (r2, [], [])) := by
  refine ⟨_, _, _, rfl, rfl, rfl, _, rfl⟩

/-! ### tie to the code: the generated arithmetic -/

/-- the model's packet-size choice and split rule are the expressions read from `_flush_send_buf` -/
theorem model_send_loop_eq_gen (w p : Nat) (buf : Bytes) :
    ((pktSize w p : Nat) : Int) = Gen.C07.pktsizeExpr w p ∧
    (buf.length > pktSize w p ↔ Gen.C07.splitCond buf.length (pktSize w p)) := by
  unfold pktSize Gen.C07.pktsizeExpr Gen.C07.splitCond
  refine ⟨by omega, by omega⟩

/-! ### non-vacuity -/

/-- a reachable state in which all four places of the stream invariant hold data at once -/
theorem stream_inv_example :
    ∃ s, (Sys.init f13Cfg.1 { f13Cfg.2 with window := 4 }).run
        [.app .b .pause, .app .a (.write none [1, 2, 3, 4, 5, 6, 7, 8, 9]), .deliver .b, .app .b .resume,
         .app .b .pause, .deliver .a, .app .a (.write none [10]), .deliver .b] = .ok s ∧
      dataOuts (s.hist .b).dl ≠ [] ∧ (s.ep .b).recvBuf ≠ [] ∧ (s.ep .a).sendBuf ≠ [] := by
  refine ⟨_, rfl, ?_⟩
  decide +kernel

/-- one data type, a character cut across two packets and two characters in one packet -/
theorem utf8_example : decodeChunks .s0 [([0xE2, 0x82], none), ([0xAC, 0xF0, 0x9F], none), ([0x98, 0x80], none)] =
    some (.s0, [([], none), ([0x20AC], none), ([0x1F600], none)]) := by
  decide +kernel

/-- two data types interleaved in the middle of their characters: each gets its own text -/
theorem utf8_per_datatype_example :
    (decodeChunksPer [] [([0xE2, 0x82], none), ([0xF0, 0x9F], some 1), ([0xAC], none), ([0x98, 0x80], some 1)]).map (·.2) =
      some [([], none), ([], some 1), ([0x20AC], none), ([0x1F600], some 1)] := by
  decide +kernel

/-- utf-16, writes "a", "", "\u{1F600}" through one encoder, packets of 3, 1, 4 and 2 bytes: text as written -/
theorem text_utf16_example :
    ChannelText.encodeWrites ChannelText.utf16 false [[0x61], [], [0x1F600]] =
      [[0xFF, 0xFE, 0x61, 0x00], [], [0x3D, 0xD8, 0x00, 0xDE]] ∧
    ChannelText.runWrites ChannelText.utf16.machine (ChannelText.BomSt.start 0)
      [[[0xFF, 0xFE, 0x61], [0x00]], [], [[0x3D, 0xD8, 0x00, 0xDE]]] =
      some (ChannelText.BomSt.body ChannelText.St16.s0, [[0x61], [], [0x1F600]]) :=
  ⟨rfl, rfl⟩

/-- utf-8-sig, "a" and "b" each encoded on its own: the receiver gets "a\uFEFFb" -/
theorem per_write_encoding_example :
    ChannelText.run ChannelText.utf8sig.machine (ChannelText.BomSt.start 0)
      (ChannelText.encodeFresh ChannelText.utf8sig [0x61] ++ ChannelText.encodeFresh ChannelText.utf8sig [0x62]) =
      some (ChannelText.BomSt.body St.s0, [0x61, 0xFEFF, 0x62]) :=
  rfl

end AsyncsshModel.Channel
