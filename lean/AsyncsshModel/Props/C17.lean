import AsyncsshModel.Lemmas.AuthKeys
/-
  C17 — Trust-file lookups follow the documented matching rules.
  Property theorems only; specifications (`Glob`, `GlobSem`, `InNet`, `ElemMatches`, `ListSelects`,
  `RecSelects`, `NameSelects`, `Applicable`) and helper lemmas live in Lemmas/Pattern*.lean,
  Lemmas/KnownHosts.lean, Lemmas/AuthKeys.lean.
-/
namespace AsyncsshModel.C17
open AsyncsshModel AsyncsshModel.Pattern AsyncsshModel.KnownHosts AsyncsshModel.AuthKeys

/-! ## wildcard patterns -/

/-- **Wildcards** — for every pattern and every string the executable matcher agrees with the
    declarative relation: `*` stands for any string, `?` for exactly one character, every other
    character (brackets, `!`, backslash included) for itself. -/
theorem glob_iff_spec (p s : Str) : globMatch p s = true ↔ Glob p s := globMatch_iff_glob p s

/-- the same, against the "one piece per pattern character" reading of the manual page -/
theorem glob_iff_denotation (p s : Str) : globMatch p s = true ↔ GlobSem p s :=
  (globMatch_iff_glob p s).trans (glob_iff_sem p s)

/-- **Bracket handling as the code does it** — for every pattern and string, feeding asyncssh's
    rewritten pattern (`[` → `[[]`, `]` → `[]]`) through the transcription of `fnmatch.translate` and
    `re.match` is defined (never leaves the modelled fragment) and equals the plain `*`/`?` matcher. -/
theorem fnmatch_escape_is_glob (p s : Str) : wildcardMatchesViaFnmatch p s = some (globMatch p s) := by
  unfold wildcardMatchesViaFnmatch fnmatchLite fnTokens
  rw [fnTokensAux_escape p _ (Nat.le_refl _)]
  simp [globMatch, matchToks_escTok]

/-- non-vacuity: brackets and `!` are literal, `*` and `?` are not -/
theorem glob_example :
    globMatch "x[1]".toList "x[1]".toList = true ∧ globMatch "x[1]".toList "x1".toList = false ∧
    globMatch "*.ex?mple.com".toList "a.b.example.com".toList = true ∧
    globMatch "!a".toList "!a".toList = true ∧
    wildcardMatchesViaFnmatch "a[*]".toList "a[zz]".toList = some true := by
  decide +kernel

/-! ## CIDR -/

/-- **CIDR ranges** — for every well-formed network and address the masked comparison performed by
    `ipaddress` is "same family and the first `plen` bits agree". -/
theorem cidr_iff_spec (n : Net) (a : IP) (hn : Net.WF n) (ha : IP.WF a) : n.contains a = true ↔ InNet n a :=
  net_contains_iff hn ha

/-- every network text `ip_network` accepts and every address text `ip_address` accepts is well formed, so
    the previous theorem applies to **every** pattern text and address text -/
theorem cidr_iff_spec_text (pat addr : Str) (n : Net) (a : IP)
    (hn : parseNetwork pat = some n) (ha : parseAddress addr = some a) : n.contains a = true ↔ InNet n a :=
  net_contains_iff (parseNetwork_wf hn) (parseAddress_wf ha)

/-- non-vacuity (prefix length, netmask form, host bits rejected, IPv6) -/
theorem cidr_example :
    (parseNetwork "10.0.0.0/8".toList).map (·.contains ⟨false, 10 * 2 ^ 24 + 66051⟩) = some true ∧
    (parseNetwork "10.0.0.0/255.0.0.0".toList).map (·.contains ⟨false, 11 * 2 ^ 24⟩) = some false ∧
    parseNetwork "10.0.0.1/8".toList = none ∧
    (parseNetwork "2001:db8::/32".toList).map (·.plen) = some 32 := by
  decide +kernel

/-! ## pattern lists -/

/-- **Pattern lists with negation** — for every hosts text, host name, address text and address
    object derived as `_match` derives it: the list matches iff some positive element matches and no
    negated element matches. -/
theorem patlist_iff_spec (t host addr : Str) (ip : Option IP) (hip : lookupIP host addr = .ok ip) :
    hostListMatches (parseHostList t) host addr ip = true ↔ ListSelects (parseHostList t) host addr ip :=
  hostList_iff _ host addr ip (lookupIP_wf hip) (parseHostList_wf t).1 (parseHostList_wf t).2

/-- the same for any address object that is well formed (used for `from=` where the caller parses the address) -/
theorem patlist_iff_spec_ip (t host addr : Str) (ip : IP) (hip : IP.WF ip) :
    hostListMatches (parseHostList t) host addr (some ip) = true ↔ ListSelects (parseHostList t) host addr (some ip) :=
  hostList_iff _ host addr (some ip) (fun a h => by cases h; exact hip) (parseHostList_wf t).1 (parseHostList_wf t).2

/-- **A negated match always excludes the line**, whatever else matches. -/
theorem negated_match_excludes (t host addr r : Str) (ip : Option IP) (hip : lookupIP host addr = .ok ip)
    (hr : ('!' :: r) ∈ splitOn ',' t) (hm : ElemMatches host addr ip (buildHostPat r)) :
    hostListMatches (parseHostList t) host addr ip = false := by
  cases hb : hostListMatches (parseHostList t) host addr ip with
  | false => rfl
  | true =>
    have := ((patlist_iff_spec t host addr ip hip).mp hb).2 (buildHostPat r)
      ((mem_parsePatList_neg buildHostPat t _).mpr ⟨r, hr, rfl⟩)
    exact absurd hm this

/-- the rule stated on the comma-separated text: an element without leading `!` must match, and no
    element `!r` may have `r` matching -/
theorem patlist_text_spec (t host addr : Str) (ip : Option IP) (hip : lookupIP host addr = .ok ip) :
    hostListMatches (parseHostList t) host addr ip = true ↔
      (∃ e ∈ splitOn ',' t, e.head? ≠ some '!' ∧ ElemMatches host addr ip (buildHostPat e)) ∧
      (∀ r, ('!' :: r) ∈ splitOn ',' t → ¬ ElemMatches host addr ip (buildHostPat r)) := by
  rw [patlist_iff_spec t host addr ip hip]
  unfold ListSelects
  constructor
  · rintro ⟨⟨p, hp, hm⟩, hn⟩
    obtain ⟨e, he, hne, rfl⟩ := (mem_parsePatList_pos buildHostPat t p).mp hp
    exact ⟨⟨e, he, hne, hm⟩, fun r hr => hn _ ((mem_parsePatList_neg buildHostPat t _).mpr ⟨r, hr, rfl⟩)⟩
  · rintro ⟨⟨e, he, hne, hm⟩, hn⟩
    refine ⟨⟨_, (mem_parsePatList_pos buildHostPat t _).mpr ⟨e, he, hne, rfl⟩, hm⟩, ?_⟩
    intro p hp
    obtain ⟨r, hr, rfl⟩ := (mem_parsePatList_neg buildHostPat t p).mp hp
    exact hn r hr

/-- principals lists (`WildcardPatternList`) obey the same rule -/
theorem principals_iff_spec (t name : Str) :
    wildcardListMatches t name = true ↔ NameSelects (parsePatList id t) name :=
  nameList_iff _ name

theorem patlist_example :
    hostListMatches (parseHostList "*.example.com,!bad.example.com".toList) "a.example.com".toList [] none = true ∧
    hostListMatches (parseHostList "*.example.com,!bad.example.com".toList) "bad.example.com".toList [] none = false ∧
    hostListMatches (parseHostList "!10.0.0.0/8,*".toList) "h".toList "10.1.2.3".toList (some ⟨false, 167838211⟩) = false ∧
    wildcardListMatches "a*,!alice".toList "alice".toList = false := by
  decide +kernel

/-! ## known_hosts lookups -/

/-- **Lookup = rule, per index record** — for every record list, host, address, port and address
    object: the entries one lookup stage collects are exactly the entries of the records the rule selects
    for the (port-qualified) names. -/
theorem lookup_iff_spec (hmac : Bytes → Bytes → Bytes) (recs : List Rec) (host addr : Str) (port : Nat)
    (ip : Option IP) (e : Entry) :
    e ∈ matchEntries hmac recs host addr port ip ↔
      ∃ r ∈ recs, r.entry = e ∧
        RecSelects hmac (if port ≠ 0 then portName host port else host)
          (if port ≠ 0 then portName addr port else addr) ip r := by
  unfold matchEntries
  exact mem_lookup hmac recs _ _ ip e

/-- records of pattern lines are selected by the pattern-list rule (ties `RecSelects` to `ListSelects`) -/
theorem lookup_plain_line_spec (hmac : Bytes → Bytes → Bytes) (t h a : Str) (ip : Option IP) (e : Entry)
    (hip : ∀ x, ip = some x → IP.WF x) :
    RecSelects hmac h a ip (.pat (.plain (parseHostList t)) e) ↔ ListSelects (parseHostList t) h a ip :=
  hostList_iff _ h a ip hip (parseHostList_wf t).1 (parseHostList_wf t).2

/-- **Line order does not matter** — loading any permutation of the lines succeeds iff the original
    load does, and every lookup then returns the same seven lists up to order (and the same error). -/
theorem lookup_order_independent (x509 : Bool) (imp : Importer) (hmac : Bytes → Bytes → Bytes)
    (l1 l2 : List Str) (hp : l1.Perm l2) (r1 : List Rec) (h1 : loadLines x509 imp l1 = .ok r1) :
    ∃ r2, loadLines x509 imp l2 = .ok r2 ∧ ∀ host addr port,
      (∀ c, matchHosts hmac r1 host addr port = .error c → matchHosts hmac r2 host addr port = .error c) ∧
      (∀ res, matchHosts hmac r1 host addr port = .ok res →
        ∃ res', matchHosts hmac r2 host addr port = .ok res' ∧ res.Equiv res') := by
  obtain ⟨r2, h2, hperm⟩ := loadLines_perm x509 imp hp r1 h1
  refine ⟨r2, h2, fun host addr port => ?_⟩
  unfold matchHosts
  cases hip : lookupIP host addr with
  | error c => exact ⟨fun c' h => h, fun res h => by cases h⟩
  | ok ip =>
    simp only
    have e1 := classify_perm (matchEntries_perm hmac hperm host addr port ip)
    have e0 := classify_perm (matchEntries_perm hmac hperm host addr 0 ip)
    rw [noneTrusted_equiv e1]
    constructor
    · intro c h; split at h <;> cases h
    · intro res h
      split at h
      · rename_i hc
        rw [if_pos hc]
        simp only [Except.ok.injEq] at h
        exact ⟨_, rfl, h ▸ mergeRevoked_equiv e1 e0⟩
      · rename_i hc
        rw [if_neg hc]
        simp only [Except.ok.injEq] at h
        exact ⟨_, rfl, h ▸ e1⟩

/-- failure of a load is order independent too (some line raises in either order) -/
theorem load_failure_order_independent (x509 : Bool) (imp : Importer) (l1 l2 : List Str) (hp : l1.Perm l2)
    (c : String) (h1 : loadLines x509 imp l1 = .error c) : ∃ c', loadLines x509 imp l2 = .error c' := by
  cases h2 : loadLines x509 imp l2 with
  | error c' => exact ⟨c', rfl⟩
  | ok r2 =>
    obtain ⟨r1, h, _⟩ := loadLines_perm x509 imp hp.symm r2 h2
    rw [h1] at h; cases h

/-- **Exact-name index is sound (partial: no address literals)** — for a hosts field without pattern
    characters whose elements are not address literals, the dictionary fast path selects the line iff the
    pattern rule does; empty elements included (since fix cfdf9ae neither path ever matches them).  The
    remaining hypothesis is necessary, see `exact_index_address_spelling_witness`. -/
theorem exact_index_sound_partial (hmac : Bytes → Bytes → Bytes) (pat h a : Str) (ip : Option IP) (e : Entry)
    (hmeta : isPatternField pat = false)
    (hel : ∀ n ∈ splitOn ',' pat, parseNetwork n = none) :
    (∃ recs, indexRecs pat e = .ok recs ∧ ∃ r ∈ recs, RecSelects hmac h a ip r) ↔
      ListSelects (parseHostList pat) h a ip := by
  have hstar : '*' ∈ Gen.C17.khMetaChars := by decide
  have hq : '?' ∈ Gen.C17.khMetaChars := by decide
  have hbang : '!' ∈ Gen.C17.khMetaChars := by decide
  have hnometa : ∀ c ∈ pat, c ∉ Gen.C17.khMetaChars := by
    intro c hc hin
    have : isPatternField pat = true := by
      unfold isPatternField
      exact List.any_eq_true.mpr ⟨c, hc, by simpa using hin⟩
    rw [hmeta] at this; cases this
  -- every element consists of characters of `pat`
  have hsub : ∀ (s : Str) (n : Str), n ∈ splitOn ',' s → ∀ c ∈ n, c ∈ s := by
    intro s
    induction s with
    | nil => intro n hn c hc; simp [splitOn] at hn; subst hn; cases hc
    | cons x xs ih =>
      intro n hn c hc
      simp only [splitOn] at hn
      split at hn
      · rcases List.mem_cons.mp hn with rfl | h
        · cases hc
        · exact List.mem_cons_of_mem _ (ih n h c hc)
      · split at hn
        · simp only [List.mem_singleton] at hn; subst hn
          simp only [List.mem_singleton] at hc; subst hc; simp
        · rename_i w ws hw
          rcases List.mem_cons.mp hn with rfl | h
          · rcases List.mem_cons.mp hc with rfl | h2
            · simp
            · exact List.mem_cons_of_mem _ (ih w (by rw [hw]; simp) c h2)
          · exact List.mem_cons_of_mem _ (ih n (by rw [hw]; exact List.mem_cons_of_mem _ h) c hc)
  have hlit : ∀ n ∈ splitOn ',' pat, ∀ c ∈ n, c ≠ '*' ∧ c ≠ '?' := by
    intro n hn c hc
    have hcp := hnometa c (hsub pat n hn c hc)
    exact ⟨fun e => hcp (e ▸ hstar), fun e => hcp (e ▸ hq)⟩
  have hnobang : ∀ n ∈ splitOn ',' pat, n.head? ≠ some '!' := by
    intro n hn hh
    cases n with
    | nil => cases hh
    | cons c r =>
      simp only [List.head?_cons, Option.some.injEq] at hh
      exact hnometa c (hsub pat _ hn c (by simp)) (hh ▸ hbang)
  have hidx : indexRecs pat e = .ok ((splitOn ',' pat).map (Rec.exact · e)) := by
    simp [indexRecs, hmeta]
  constructor
  · rintro ⟨recs, hr, r, hrin, hsel⟩
    rw [hidx] at hr
    simp only [Except.ok.injEq] at hr
    subst hr
    obtain ⟨n, hn, rfl⟩ := List.mem_map.mp hrin
    have hb : buildHostPat n = .wild n := by simp [buildHostPat, hel n hn]
    refine ⟨⟨.wild n, (mem_parsePatList_pos buildHostPat pat _).mpr ⟨n, hn, hnobang n hn, hb⟩, ?_⟩, ?_⟩
    · rcases hsel with ⟨rfl, hh⟩ | ⟨rfl, ha⟩
      · exact ElemMatches.host hh ((glob_literal (hlit _ hn)).mpr rfl)
      · exact ElemMatches.addr ha ((glob_literal (hlit _ hn)).mpr rfl)
    · intro p hp
      obtain ⟨r, hr, _⟩ := (mem_parsePatList_neg buildHostPat pat p).mp hp
      exact absurd rfl (hnobang _ hr)
  · rintro ⟨⟨p, hp, hm⟩, _⟩
    obtain ⟨n, hn, _, rfl⟩ := (mem_parsePatList_pos buildHostPat pat p).mp hp
    have hb : buildHostPat n = .wild n := by simp [buildHostPat, hel n hn]
    refine ⟨_, hidx, Rec.exact n e, List.mem_map.mpr ⟨n, hn, rfl⟩, ?_⟩
    rw [hb] at hm
    cases hm with
    | host hne hg => exact Or.inl ⟨(glob_literal (hlit _ hn)).mp hg, hne⟩
    | addr hne hg => exact Or.inr ⟨(glob_literal (hlit _ hn)).mp hg, hne⟩

/-- **Witness of the defect repaired by fix cfdf9ae**: the code before the fix looked empty names up
    in the dictionary, so the hosts field `a,` (indexed under the empty name) was returned for a lookup of
    *any* host with an empty address text, although no pattern of the line matches.  The repaired lookup
    returns nothing for the same input.  (Oracle signature `empty-pattern-matches-empty-name`.) -/
theorem exact_index_empty_element_old_witness :
    matchEntriesOld (fun _ _ => []) [.exact "a".toList ⟨.plain, .key 1⟩, .exact [] ⟨.plain, .key 1⟩]
        "zzz".toList [] 0 none = [⟨.plain, .key 1⟩] ∧
      indexRecs "a,".toList ⟨.plain, .key 1⟩
        = .ok [.exact "a".toList ⟨.plain, .key 1⟩, .exact [] ⟨.plain, .key 1⟩] ∧
      hostListMatches (parseHostList "a,".toList) "zzz".toList [] none = false ∧
      matchEntries (fun _ _ => []) [.exact "a".toList ⟨.plain, .key 1⟩, .exact [] ⟨.plain, .key 1⟩]
        "zzz".toList [] 0 none = [] := by
  decide +kernel

/-- **Witness (observation, not a defect)**: for address literals the dictionary compares spellings while the
    pattern path compares integers: `::1` as the only element does not select a lookup of
    `0:0:0:0:0:0:0:1`, the same element inside a pattern line (`::1,x*`) does. -/
theorem exact_index_address_spelling_witness :
    (matchEntries (fun _ _ => []) [.exact "::1".toList ⟨.plain, .key 1⟩] "0:0:0:0:0:0:0:1".toList [] 0
        (parseAddress "0:0:0:0:0:0:0:1".toList) = []) ∧
      hostListMatches (parseHostList "::1,x*".toList) "0:0:0:0:0:0:0:1".toList []
        (parseAddress "0:0:0:0:0:0:0:1".toList) = true := by
  decide +kernel

/-- **Port handling and the documented fallback** — for every record list and lookup:
    without a port the plain names are looked up; with a port the names `[host]:port` / `[addr]:port` are
    looked up first and that answer stands as soon as it holds anything trusted; otherwise the trusted
    lists are those of the plain names and the revoked lists are those of *both* lookups. -/
theorem port_fallback (hmac : Bytes → Bytes → Bytes) (recs : List Rec) (host addr : Str) (port : Nat)
    (ip : Option IP) (hip : lookupIP host addr = .ok ip) :
    (port = 0 → matchHosts hmac recs host addr port = .ok (classify (matchEntries hmac recs host addr 0 ip))) ∧
    (port ≠ 0 → (classify (matchEntries hmac recs host addr port ip)).noneTrusted = false →
      matchHosts hmac recs host addr port = .ok (classify (matchEntries hmac recs host addr port ip))) ∧
    (port ≠ 0 → (classify (matchEntries hmac recs host addr port ip)).noneTrusted = true →
      matchHosts hmac recs host addr port
        = .ok (mergeRevoked (classify (matchEntries hmac recs host addr port ip))
                 (classify (matchEntries hmac recs host addr 0 ip)))) := by
  refine ⟨?_, ?_, ?_⟩
  · intro h0; subst h0; simp [matchHosts, hip]
  · intro hp hn
    unfold matchHosts
    rw [hip]
    dsimp only
    rw [if_neg (by rw [hn]; simp)]
  · intro hp hn
    unfold matchHosts
    rw [hip]
    dsimp only
    rw [if_pos ⟨hp, hn⟩]

/-- **A revocation recorded under `[host]:port` is always effective** — for every record list and
    lookup, whatever the fallback does, every revoked key / certificate / subject the port-qualified names
    select is in the answer (full strength since fix 183e93e). -/
theorem port_revocations_kept (hmac : Bytes → Bytes → Bytes) (recs : List Rec) (host addr : Str) (port : Nat)
    (ip : Option IP) (hip : lookupIP host addr = .ok ip) (res : Result)
    (h : matchHosts hmac recs host addr port = .ok res) :
    (∀ k ∈ (classify (matchEntries hmac recs host addr port ip)).revokedKeys, k ∈ res.revokedKeys) ∧
    (∀ k ∈ (classify (matchEntries hmac recs host addr port ip)).revokedCerts, k ∈ res.revokedCerts) ∧
    (∀ k ∈ (classify (matchEntries hmac recs host addr port ip)).revokedSubjects, k ∈ res.revokedSubjects) := by
  unfold matchHosts at h
  rw [hip] at h
  dsimp only at h
  split at h
  · simp only [Except.ok.injEq] at h
    subst h
    simp only [mergeRevoked, List.mem_append]
    exact ⟨fun k hk => Or.inl hk, fun k hk => Or.inl hk, fun k hk => Or.inl hk⟩
  · simp only [Except.ok.injEq] at h
    subst h
    exact ⟨fun k hk => hk, fun k hk => hk, fun k hk => hk⟩

/-- the port-qualified name is `[name]:port` in decimal, and an absent name stays absent -/
theorem port_name_form (name : Str) (port : Nat) (h : name ≠ []) :
    portName name port = "[".toList ++ name ++ "]:".toList ++ (toString port).toList ∧ portName [] port = [] := by
  simp [portName, h]

/-- **Witness of the defect repaired by fix 183e93e**: the code before the fix replaced the whole
    answer on fallback, revoked list included: a key revoked for `[h]:2222` and listed for plain `h` came back
    trusted and *not revoked* for `h` port 2222.  The repaired function reports it revoked.
    (Oracle signature `port-fallback-drops-revoked`.) -/
theorem port_fallback_drops_port_revocation_witness :
    matchHostsOld (fun _ _ => []) [.exact "[h]:2222".toList ⟨.revoked, .key 1⟩, .exact "h".toList ⟨.plain, .key 1⟩]
        "h".toList [] 2222
      = .ok { hostKeys := [1], caKeys := [], revokedKeys := [], x509Certs := [], revokedCerts := [],
              x509Subjects := [], revokedSubjects := [] } ∧
    matchHosts (fun _ _ => []) [.exact "[h]:2222".toList ⟨.revoked, .key 1⟩, .exact "h".toList ⟨.plain, .key 1⟩]
        "h".toList [] 2222
      = .ok { hostKeys := [1], caKeys := [], revokedKeys := [1], x509Certs := [], revokedCerts := [],
              x509Subjects := [], revokedSubjects := [] } := by
  decide +kernel

/-! ## lines whose key cannot be parsed -/

/-- the importer signals failure only with `KeyImportError` — what fix a0a012d establishes for
    `import_public_key` on OpenSSH-format data, and what the correspondence run checks on every data field -/
def OnlyImportErrors (imp : Importer) : Prop :=
  ∀ d c, imp.key d ≠ .exc c ∧ imp.cert d ≠ .exc c ∧ imp.subject d ≠ .exc c

/-- **A line whose key cannot be parsed is skipped without affecting any other line** — for every
    importer that signals failure with `KeyImportError`, every file and every syntactically complete line
    whose data field no importer accepts: the line contributes no record and the file loads exactly as if the
    line were absent (every other line keeps its contribution, in the same order). -/
theorem bad_line_skipped (x509 : Bool) (imp : Importer) (himp : OnlyImportErrors imp) (pre post : List Str)
    (raw : Str) (m : Marker) (pat data : Str)
    (hf : lineFields (strip raw) = some (m, pat, data))
    (hc : strip raw ≠ [] ∧ (strip raw).head? ≠ some '#')
    (hk : ∀ k, imp.key data ≠ .ok k) (hcert : ∀ c, imp.cert data ≠ .ok c)
    (hs : x509 = false ∨ ∀ s, imp.subject data ≠ .ok s) :
    lineRecs x509 imp raw = .ok [] ∧
      loadLines x509 imp (pre ++ raw :: post) = loadLines x509 imp (pre ++ post) := by
  have hk' : imp.key data = .importError := by
    cases h : imp.key data with
    | ok k => exact absurd h (hk k)
    | importError => rfl
    | exc c => exact absurd h (himp data c).1
  have hcert' : imp.cert data = .importError := by
    cases h : imp.cert data with
    | ok k => exact absurd h (hcert k)
    | importError => rfl
    | exc c => exact absurd h (himp data c).2.1
  have h1 : lineRecs x509 imp raw = .ok [] := by
    have hp : importPayload x509 imp data = .ok none := by
      rcases hs with hx | hsub
      · simp [importPayload, hk', hcert', hx]
      · have hsub' : imp.subject data = .importError := by
          cases h : imp.subject data with
          | ok k => exact absurd h (hsub k)
          | importError => rfl
          | exc c => exact absurd h (himp data c).2.2
        cases x509 <;> simp [importPayload, hk', hcert', hsub']
    simp [lineRecs, hc.1, hc.2, hf, hp]
  refine ⟨h1, ?_⟩
  rw [KnownHosts.loadLines_append, KnownHosts.loadLines_append]
  simp only [KnownHosts.loadLines, h1]
  cases KnownHosts.loadLines x509 imp pre with
  | error c => rfl
  | ok r1 =>
    cases KnownHosts.loadLines x509 imp post with
    | error c => rfl
    | ok r2 => simp

/-- **Witness of the defect repaired by fix a0a012d (F14)**: with an importer that fails with any
    exception other than `KeyImportError` — as `import_public_key` did before the fix for well-framed blobs
    with impossible parameters (`ValueError: e must be odd`) — the load raises that exception and *no* line of
    the file yields anything.  (Oracle signatures `bad-line-aborts-file:<class>:known_hosts`.) -/
theorem bad_line_raising_importer_aborts_witness (x509 : Bool) (imp : Importer) (pre post : List Str) (raw : Str)
    (m : Marker) (pat data : Str) (cls : String) (rpre : List Rec)
    (hf : lineFields (strip raw) = some (m, pat, data))
    (hc : strip raw ≠ [] ∧ (strip raw).head? ≠ some '#')
    (hk : imp.key data = .exc cls) (hpre : loadLines x509 imp pre = .ok rpre) :
    loadLines x509 imp (pre ++ raw :: post) = .error cls := by
  have h1 : lineRecs x509 imp raw = .error cls := by
    simp [lineRecs, hc.1, hc.2, hf, importPayload, hk]
  rw [KnownHosts.loadLines_append, hpre]
  simp [KnownHosts.loadLines, h1]

/-- concrete instance: a good `h2` line after a line whose key import raises (pre-fix importer) is lost,
    after a line whose key import answers `KeyImportError` (repaired importer) it is found -/
theorem bad_line_raising_importer_example_witness :
    let imp : Importer := { key := fun d => if d = "BAD".toList then .exc "ValueError"
                                      else if d = "K1".toList then .ok 1 else .importError,
                            cert := fun _ => .importError, subject := fun _ => .importError }
    load false imp "h1 BAD\nh2 K1\n".toList = .error "ValueError" ∧
    (load false imp "h1 JUNK\nh2 K1\n".toList).map (fun r => exactGet r "h2".toList) = .ok [⟨.plain, .key 1⟩] := by
  decide +kernel

/-- no importer accepts the text and none raises: `_import_key_or_cert` answers `KeyImportError` -/
theorem importKeyOrCert_rejects (x509 : Bool) (imp : AKImporter) (himp : OnlyImportErrors imp.toImporter)
    (o : Opts) (line : Str)
    (hk : ∀ k, imp.key line ≠ .ok k) (hcert : ∀ c, imp.cert line ≠ .ok c) (hs : ∀ s, imp.subject line ≠ .ok s) :
    importKeyOrCert x509 imp o line = .ok none := by
  have hk' : imp.key line = .importError := by
    cases h : imp.key line with
    | ok k => exact absurd h (hk k)
    | importError => rfl
    | exc c => exact absurd h (himp line c).1
  have hcert' : imp.cert line = .importError := by
    cases h : imp.cert line with
    | ok k => exact absurd h (hcert k)
    | importError => rfl
    | exc c => exact absurd h (himp line c).2.1
  have hs' : imp.subject line = .importError := by
    cases h : imp.subject line with
    | ok k => exact absurd h (hs k)
    | importError => rfl
    | exc c => exact absurd h (himp line c).2.2
  unfold importKeyOrCert
  simp only [hk', hcert', hs']
  split <;> rfl

/-- **authorized_keys: a line whose key cannot be parsed is skipped** — for every importer that
    signals failure with `KeyImportError`: if no importer accepts the line as a whole nor what follows its
    (well-formed) options, the file loads exactly as if the line were absent.  (A quoting error in the options
    is reported for the whole file by design.) -/
theorem ak_bad_line_skipped (x509 : Bool) (imp : AKImporter) (himp : OnlyImportErrors imp.toImporter)
    (pre post : List Str) (raw : Str) (o : Opts) (rest : Str)
    (hc : strip raw ≠ [] ∧ (strip raw).head? ≠ some '#')
    (ho : parseOptions x509 (strip raw) = .ok (o, rest))
    (hbad : ∀ t, t = strip raw ∨ t = rest →
      (∀ k, imp.key t ≠ .ok k) ∧ (∀ c, imp.cert t ≠ .ok c) ∧ (∀ s, imp.subject t ≠ .ok s)) :
    AuthKeys.loadLines x509 imp (pre ++ raw :: post) = AuthKeys.loadLines x509 imp (pre ++ post) := by
  have h1 := importKeyOrCert_rejects x509 imp himp [] (strip raw)
    (hbad _ (Or.inl rfl)).1 (hbad _ (Or.inl rfl)).2.1 (hbad _ (Or.inl rfl)).2.2
  have h2 := importKeyOrCert_rejects x509 imp himp o rest
    (hbad _ (Or.inr rfl)).1 (hbad _ (Or.inr rfl)).2.1 (hbad _ (Or.inr rfl)).2.2
  have hl : lineEntry x509 imp raw = .ok none := by
    simp [lineEntry, hc.1, hc.2, parseEntry, h1, ho, h2]
  rw [AuthKeys.loadLines_append, AuthKeys.loadLines_append]
  simp only [AuthKeys.loadLines, hl]
  cases AuthKeys.loadLines x509 imp pre with
  | error c => rfl
  | ok r1 =>
    cases AuthKeys.loadLines x509 imp post with
    | error c => rfl
    | ok r2 => simp

/-- **A `cert-authority` line holding an OpenSSH certificate is skipped** (fix 1aba53a) — whatever the
    options, if the text is not a key and imports as an OpenSSH certificate, `_import_key_or_cert` answers
    `KeyImportError`; the witness is the pre-fix test, which raised `AttributeError` and aborted the file
    (oracle signature `bad-line-aborts-file:AttributeError:authorized_keys`). -/
theorem ak_cert_authority_openssh_cert_skipped (x509 : Bool) (imp : AKImporter) (o : Opts) (line : Str) (c : Nat)
    (hca : (optGet o ckey).isSome = true) (hk : imp.key line = .importError)
    (hcert : imp.cert line = .ok (c, false)) :
    importKeyOrCert x509 imp o line = .ok none ∧
      certAuthorityCheckOld true false (imp.certSelfIssued line) = .error "AttributeError" := by
  refine ⟨?_, rfl⟩
  have hnone : (optGet o ckey).isNone = false := by
    cases h : optGet o ckey with
    | none => rw [h] at hca; cases hca
    | some _ => rfl
  unfold importKeyOrCert
  simp [hk, hcert, hca, hnone, certAuthorityCheck]

/-- **Witness of F14 on the authorized_keys side**: an importer raising another exception aborts the file
    (pre-fix a0a012d behaviour; oracle signatures `bad-line-aborts-file:<class>:authorized_keys`) -/
theorem ak_bad_line_raising_importer_aborts_witness (x509 : Bool) (imp : AKImporter) (pre post : List Str)
    (raw : Str) (cls : String) (rpre : List AKEntry)
    (hc : strip raw ≠ [] ∧ (strip raw).head? ≠ some '#')
    (hk : imp.key (strip raw) = .exc cls) (hpre : AuthKeys.loadLines x509 imp pre = .ok rpre) :
    AuthKeys.loadLines x509 imp (pre ++ raw :: post) = .error cls := by
  have hl : lineEntry x509 imp raw = .error cls := by
    simp [lineEntry, hc.1, hc.2, parseEntry, importKeyOrCert, hk]
  rw [AuthKeys.loadLines_append, hpre]
  simp [AuthKeys.loadLines, hl]

/-! ## option tokenizer -/

/-- **Tokenizer inverts quoting** — for every non-empty list of options, each written as plain text
    (e.g. `name=`) followed by an optionally quoted value in which `"` and `\` carry a backslash, and for
    whatever follows the first unquoted blank: the tokenizer returns exactly the option strings, balanced, and
    stops at that blank.  Commas, blanks, quotes and backslashes inside the quotes never split or end anything. -/
theorem tokenizer_roundtrip (os : List (Str × Option Str)) (hne : os ≠ [])
    (hp : ∀ o ∈ os, ∀ c ∈ o.1, Plain c) (t : Char) (ht : t ∈ Gen.C17.optTerminators) (rest : Str) :
    tokenize (renderOpts os ++ t :: rest)
        = ⟨os.map fun o => optText o.1 o.2, false, false, some (t :: rest)⟩ ∧
      tokenize (renderOpts os) = ⟨os.map fun o => optText o.1 o.2, false, false, none⟩ := by
  have hsplit : (os.dropLast.map fun o => optText o.1 o.2) ++ [optText (os.getLast hne).1 (os.getLast hne).2]
      = os.map (fun o => optText o.1 o.2) := by
    conv => rhs; rw [← List.dropLast_concat_getLast hne]
    simp
  constructor
  · unfold tokenize
    rw [tokLoop_render os hne hp (t :: rest) [], tokLoop_stop t ht]
    simp only [List.reverse_reverse, List.append_nil, List.reverse_cons, hsplit]
  · unfold tokenize
    have := tokLoop_render os hne hp [] []
    simp only [List.append_nil] at this
    rw [this]
    simp only [tokLoop, List.reverse_reverse, List.reverse_cons, hsplit]

/-- **Agreement with OpenSSH quoting (partial: values without backslash)** — OpenSSH writes a value
    between double quotes with only `"` escaped.  For every backslash-free value that text is the text of
    `tokenizer_roundtrip`, and OpenSSH's own `opt_dequote` reads the same value back. -/
theorem tokenizer_openssh_agree_partial (v tail : Str) (h : '\\' ∉ v) :
    osshQuote v = quoteChars v ∧ osshDequote (osshQuote v ++ '"' :: tail) = some (v, tail) := by
  refine ⟨osshQuote_eq_quoteChars v h, ?_⟩
  induction v with
  | nil => simp [osshQuote, osshDequote]
  | cons c s ih =>
    have hc : c ≠ '\\' := fun e => h (by simp [e])
    have hs : '\\' ∉ s := fun e => h (List.mem_cons_of_mem _ e)
    by_cases hq : c = '"'
    · subst hq
      simp [osshQuote, osshDequote, ih hs]
    · have : osshDequote (c :: (osshQuote s ++ '"' :: tail))
          = (osshDequote (osshQuote s ++ '"' :: tail)).map fun vt => (c :: vt.1, vt.2) := by
        rw [osshDequote]
        all_goals (intros; first | contradiction | simp_all)
      simp [osshQuote, hq, this, ih hs]

/-- **Witness (known finding F23)**: with a backslash that does not precede a quote the two readings
    differ: asyncssh drops the backslash (`a\b` becomes `ab`), OpenSSH keeps it.  Replayed on the real code
    by the oracle (`option-dequote:backslash-dropped`). -/
theorem tokenizer_backslash_witness :
    (tokenize "command=\"a\\b\" k".toList).opts = ["command=ab".toList] ∧
      osshDequote "a\\b\" k".toList = some ("a\\b".toList, " k".toList) := by
  decide +kernel

/-! ## authorized_keys validation -/

/-- **validate = first applicable entry whose restrictions all hold** — for every entry list, key,
    client host/address, principal list and kind: the answer is the options of an entry iff that entry is of
    the requested kind, carries the key, `match_options` accepts it, and every applicable entry before it was
    rejected (not failed); the answer is `None` iff every applicable entry is rejected. -/
theorem validate_iff_spec (es : List AKEntry) (key : Nat) (host addr : Str) (pr : Option (List Str)) (ca : Bool) :
    (∀ o, validate es key host addr pr ca = .ok (some o) ↔
      ∃ pre e post, es = pre ++ e :: post ∧ e.options = o ∧ Applicable e key ca ∧
        matchOptions e.options host addr pr = .ok true ∧
        ∀ e' ∈ pre, Applicable e' key ca → matchOptions e'.options host addr pr = .ok false) ∧
    (validate es key host addr pr ca = .ok none ↔
      ∀ e ∈ es, Applicable e key ca → matchOptions e.options host addr pr = .ok false) :=
  ⟨fun o => validate_some_iff es key host addr pr ca o, validate_none_iff es key host addr pr ca⟩

/-- **All restrictions are required to match** — with `from=` lists `fl` (each parsed from some text)
    and `principals=` lists `nl`, a valid client address and certificate principals `ps`:
    `match_options` accepts iff *every* `from` list selects the client and *every* `principals` list selects
    some principal. -/
theorem match_options_all_required (o : Opts) (host addr : Str) (ip : IP) (ps : List Str)
    (fl : List (PatList HostPat)) (nl : List (PatList Str))
    (hfl : fl ≠ [] ∧ ∀ pl ∈ fl, ∃ t, pl = parseHostList t)
    (hf : optGet o "from".toList = some (.froms fl)) (hn : optGet o "principals".toList = some (.names nl))
    (ha : parseAddress addr = some ip) :
    matchOptions o host addr (some ps) = .ok true ↔
      (∀ pl ∈ fl, ListSelects pl host addr (some ip)) ∧ (∀ pl ∈ nl, ∃ p ∈ ps, NameSelects pl p) := by
  have hne : fl.isEmpty = false := by
    cases fl with
    | nil => exact absurd rfl hfl.1
    | cons _ _ => rfl
  have hsel : ∀ pl ∈ fl, (hostListMatches pl host addr (some ip) = true ↔ ListSelects pl host addr (some ip)) := by
    intro pl hpl
    obtain ⟨t, rfl⟩ := hfl.2 pl hpl
    exact patlist_iff_spec_ip t host addr ip (parseAddress_wf ha)
  unfold matchOptions
  simp only [hf, hn, hne, ha]
  by_cases hall : (fl.all fun pl => hostListMatches pl host addr (some ip)) = true
  · simp only [hall]
    have h1 : ∀ pl ∈ fl, ListSelects pl host addr (some ip) :=
      fun pl hpl => (hsel pl hpl).mp (List.all_eq_true.mp hall pl hpl)
    simp only [Bool.false_eq_true, if_false, Except.ok.injEq, List.all_eq_true, List.any_eq_true, nameList_iff]
    exact ⟨fun h => ⟨h1, h⟩, fun h => h.2⟩
  · have hfalse : (fl.all fun pl => hostListMatches pl host addr (some ip)) = false := by
      cases hb : (fl.all fun pl => hostListMatches pl host addr (some ip)) with
      | false => rfl
      | true => exact absurd hb hall
    simp only [hfalse]
    constructor
    · intro h; cases h
    · rintro ⟨h1, _⟩
      exact absurd (List.all_eq_true.mpr fun pl hpl => (hsel pl hpl).mpr (h1 pl hpl)) hall

/-- non-vacuity: a two-line file, options parsed, `from` enforced, first match wins -/
theorem validate_example :
    let imp : AKImporter := { key := fun d => if d = "K1".toList then .ok 1 else .importError,
                              cert := fun _ => .importError, subject := fun _ => .importError,
                              certSelfIssued := fun _ => false }
    let text := "from=\"10.0.0.0/8,!10.9.9.9\",command=\"echo a, \\\"b\\\"\",no-pty K1\nK1\n".toList
    (AuthKeys.load false imp text).map (fun es =>
        ((validate es 1 "h".toList "10.1.2.3".toList none false).map (Option.map (List.map (·.1))),
         (validate es 1 "h".toList "10.9.9.9".toList none false).map (Option.map List.length),
         (validate es 2 "h".toList "10.1.2.3".toList none false).map (Option.map List.length)))
      = .ok (.ok (some ["from".toList, "command".toList, "no-pty".toList]), .ok (some 0), .ok none) := by
  decide +kernel

/-! ### a line ends at a newline only; option names are case-insensitive -/

theorem splitAt_no_break (brk : Char → Bool) (s : Str) (h : ∀ c ∈ s, brk c = false) : splitAt brk s = [s] := by
  induction s with
  | nil => rfl
  | cons c s ih =>
    have hc : brk c = false := h c (by simp)
    have hs : splitAt brk s = [s] := ih (fun d hd => h d (by simp [hd]))
    simp [splitAt, hc, hs]

/-- OpenSSH file-format rule "one entry per line, a line ends at `\n`" (fix "split ... at newline only"), for
    EVERY text: a text without a newline is one line for the loaders, whatever other characters it holds (form
    feed, vertical tab, FS/GS/RS, NEL, U+2028/9 in a key comment).  Stated about the split selected by
    `Gen.C17.lineSplitNewlineOnly`, so it stops checking on a tree that cuts its text with `str.splitlines()`. -/
theorem lines_end_at_newline_only (s : Str) (h : '\n' ∉ s) : splitLines s = [s] := by
  apply splitAt_no_break
  intro c hc
  have : c ≠ '\n' := fun e => h (e ▸ hc)
  simp [isLineBreak, Gen.C17.lineSplitNewlineOnly, this]

/-- consequence for both loaders: a text without a newline contributes what its single line contributes
    (nothing after a line-break look-alike inside a comment becomes an entry of its own) -/
theorem load_one_line (x509 : Bool) (imp : Importer) (s : Str) (h : '\n' ∉ s) :
    KnownHosts.load x509 imp s = loadLines x509 imp [s] := by
  simp [KnownHosts.load, lines_end_at_newline_only s h]

theorem ak_load_one_line (x509 : Bool) (imp : AKImporter) (s : Str) (h : '\n' ∉ s) :
    AuthKeys.loadLines x509 imp (splitLines s) = AuthKeys.loadLines x509 imp [s] := by
  rw [lines_end_at_newline_only s h]

/-- witness of the behaviour before the fix: with `str.splitlines()` the one-line text `h K c<FF>* E` (a key
    with the comment `c<FF>* E`) was two lines, the second one a `*` host line; now it is one line -/
theorem splitlines_comment_injection_witness :
    splitLinesPreFix "h K c\x0c* E".toList = ["h K c".toList, "* E".toList] ∧
    splitLines "h K c\x0c* E".toList = ["h K c\x0c* E".toList] ∧
    splitLinesPreFix "h K c * E".toList = ["h K c".toList, "* E".toList] := by
  decide +kernel

theorem splitEq_append (n v : Str) (h : '=' ∉ n) : splitEq (n ++ '=' :: v) = (n, v) := by
  induction n with
  | nil => simp [splitEq]
  | cons c n ih =>
    have hc : c ≠ '=' := fun e => h (by simp [e])
    have hn : '=' ∉ n := fun hm => h (by simp [hm])
    simp [splitEq, hc, ih hn]

/-- OpenSSH compares option names without regard to case (fix "match authorized_keys option names
    case-insensitively"): for EVERY option store, value and two spellings of a name that fold to the same
    lower-case text, `name=value` has the same effect under either spelling. -/
theorem option_name_case_insensitive (x509 : Bool) (o : Opts) (n1 n2 v : Str) (h1 : '=' ∉ n1) (h2 : '=' ∉ n2)
    (hfold : lowerName n1 = lowerName n2) :
    addOption x509 o (n1 ++ '=' :: v) = addOption x509 o (n2 ++ '=' :: v) := by
  have hnil : n1 = [] ↔ n2 = [] := by
    have hl : n1.length = n2.length := by
      have := congrArg List.length hfold
      simpa [lowerName] using this
    constructor
    · intro e; rw [e] at hl; exact List.eq_nil_of_length_eq_zero hl.symm
    · intro e; rw [e] at hl; exact List.eq_nil_of_length_eq_zero hl
  have hf : foldName n1 = foldName n2 := by simp [foldName, Gen.C17.optNamesFolded, hfold]
  have hhead : ∀ n : Str, '=' ∉ n → ((n ++ '=' :: v).head? = some '=' ↔ n = []) := by
    intro n hn
    cases n with
    | nil => simp
    | cons c n => simp; exact fun e => hn (by simp [e])
  have hcont : ∀ n : Str, (n ++ '=' :: v).contains '=' = true := by intro n; simp
  unfold addOption addOptionWith
  simp only [hhead n1 h1, hhead n2 h2, hcont, splitEq_append _ _ h1, splitEq_append _ _ h2, hf, hnil, if_true]

/-- the same for an option without a value (`No-Pty`, `RESTRICT`, `Cert-Authority`) -/
theorem option_flag_case_insensitive (x509 : Bool) (o : Opts) (n1 n2 : Str) (h1 : '=' ∉ n1) (h2 : '=' ∉ n2)
    (hfold : lowerName n1 = lowerName n2) :
    addOption x509 o n1 = addOption x509 o n2 := by
  have hf : foldName n1 = foldName n2 := by simp [foldName, Gen.C17.optNamesFolded, hfold]
  have hhead : ∀ n : Str, '=' ∉ n → ¬ n.head? = some '=' := by
    intro n hn e
    cases n with
    | nil => simp at e
    | cons c n => simp at e; exact hn (by simp [e])
  have hcont : ∀ n : Str, '=' ∉ n → n.contains '=' = false := by intro n hn; simpa using hn
  unfold addOption addOptionWith
  rw [if_neg (hhead n1 h1), if_neg (hhead n2 h2), hcont n1 h1, hcont n2 h2]
  simp [hf]

/-- witness of the behaviour before the fix: `From="10.0.0.0/8"` and `No-Pty` missed their handlers and were
    stored under names nothing looks up (the restriction was not enforced); now they reach `from` / `no-pty` -/
theorem option_name_case_prefix_witness :
    (addOptionPreFix false [] "From=10.0.0.0/8".toList).map (fun o => (optGet o "from".toList).isSome) = .ok false ∧
    (addOption false [] "From=10.0.0.0/8".toList).map (fun o => (optGet o "from".toList).isSome) = .ok true ∧
    (addOptionPreFix false [] "No-Pty".toList).map (fun o => (optGet o "no-pty".toList).isSome) = .ok false ∧
    (addOption false [] "No-Pty".toList).map (fun o => (optGet o "no-pty".toList).isSome) = .ok true := by
  decide +kernel

/-- importer, HMAC stand-in and file of `lookup_example` -/
def exImp : Importer :=
  { key := fun d => if d = "K1".toList then .ok 1 else if d = "K2".toList then .ok 2 else .importError,
    cert := fun _ => .importError, subject := fun _ => .importError }
def exHmac : Bytes → Bytes → Bytes := fun salt msg => salt ++ msg
def exText : Str :=
  "*.example.com,!bad.example.com K1\n@revoked bad.example.com K1\n@cert-authority * K2\n[h]:2222 K2\n|1|YWI=|YWJo K1\n".toList
/-- (host keys, CA keys, revoked keys) of a lookup in `exText` followed by a line with an unparsable key -/
def exLookup (host : String) (port : Nat) : Option (List Nat × List Nat × List Nat) :=
  match load false exImp (exText ++ "h JUNK\n".toList) with
  | .error _ => none
  | .ok r =>
    match matchHosts exHmac r host.toList [] port with
    | .ok x => some (x.hostKeys, x.caKeys, x.revokedKeys)
    | .error _ => none

/-- non-vacuity of the lookup theorems: wildcard + negation + markers + `[host]:port` + hashed host in one
    file; a line with a missing key field makes the load fail, a line with an unparsable key does not -/
theorem lookup_example :
    load false exImp (exText ++ "broken\n".toList) = .error "ValueError" ∧
    exLookup "a.example.com" 0 = some ([1], [2], []) ∧
    exLookup "bad.example.com" 0 = some ([], [2], [1]) ∧
    exLookup "h" 2222 = some ([2], [2], []) ∧
    exLookup "h" 0 = some ([1], [2], []) := by
  decide +kernel

end AsyncsshModel.C17
