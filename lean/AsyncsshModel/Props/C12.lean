import AsyncsshModel.Lemmas.SftpIOSparse
import AsyncsshModel.Lemmas.SftpIOFile
import AsyncsshModel.Lemmas.SftpIOFix
import AsyncsshModel.Gen.C12
/-
  C12 — SFTP transfers reproduce the source bytes exactly or report failure.

  Property theorems about the executable model `Model/SftpIO.lean` of asyncssh's parallel SFTP I/O
  (`_SFTPParallelIO`, `_SFTPFileReader`, `_SFTPFileWriter`, `_SFTPFileCopier`, `SFTPClientFile`).
  Every theorem about a transfer quantifies over an arbitrary event list: the environment chooses which
  outstanding request completes next, with how many bytes, with EOF or with an error, and where each
  `asyncio.wait` batch ends — i.e. over every completion order, every pattern of short reads and every
  fault sequence, of unbounded length.  Helper lemmas: `Lemmas/SftpIO*.lean`.
-/
namespace AsyncsshModel.C12
open AsyncsshModel AsyncsshModel.SftpIO

/-! ## the tie to the code: the integer expressions of sftp.py (regenerated into `Gen/C12.lean` on every
    run) are the ones the model uses -/

/-- `_start_tasks` loop test -/
theorem gen_startCond (left np mr : Nat) : Gen.C12.startCond left np mr ↔ (left ≠ 0 ∧ np < mr) := by
  simp only [Gen.C12.startCond]; omega

/-- `_start_tasks` block size, the request it creates, and the counter updates are those of `startTasks` -/
theorem gen_startTasks_body (off left bs : Nat) :
    Gen.C12.blockSize left bs = (blockSize left bs : Nat) ∧
    Gen.C12.taskOffset off (Gen.C12.blockSize left bs) = (off : Nat) ∧
    Gen.C12.taskSize off (Gen.C12.blockSize left bs) = (blockSize left bs : Nat) ∧
    Gen.C12.nextOffset off (Gen.C12.blockSize left bs) = ((off + blockSize left bs : Nat) : Int) ∧
    Gen.C12.nextLeft left (Gen.C12.blockSize left bs) = ((left - blockSize left bs : Nat) : Int) := by
  simp only [Gen.C12.blockSize, Gen.C12.taskOffset, Gen.C12.taskSize, Gen.C12.nextOffset, Gen.C12.nextLeft,
    blockSize]
  refine ⟨?_, ?_, ?_, ?_, ?_⟩ <;> first | trivial | rfl | omega

/-- the continuation rule of `iter` is `continuation` -/
theorem gen_continuation (r : Req) (count : Nat) :
    (Gen.C12.contCond count r.size ↔ continuation r count ≠ []) ∧
    (Gen.C12.contCond count r.size →
      continuation r count = [⟨(Gen.C12.contOffset r.off r.size count).toNat,
                               (Gen.C12.contSize r.off r.size count).toNat⟩]) := by
  simp only [Gen.C12.contCond, Gen.C12.contOffset, Gen.C12.contSize, continuation]
  constructor
  · constructor
    · intro h
      have : count ≠ 0 ∧ count < r.size := ⟨by omega, by omega⟩
      simp [this]
    · intro h
      by_cases hc : count ≠ 0 ∧ count < r.size
      · exact ⟨by omega, by omega⟩
      · simp [hc] at h
  · intro h
    have hc : count ≠ 0 ∧ count < r.size := ⟨by omega, by omega⟩
    have e1 : ((r.off : Int) + count).toNat = r.off + count := by omega
    have e2 : ((r.size : Int) - count).toNat = r.size - count := by omega
    rw [if_pos hc, e1, e2]

/-- the reader's reassembly (`pos`, `pad`, `if pad > 0`, `result[pos:pos+len(data)] = data`) is `writeAt`
    at `offset - start` -/
theorem gen_reader_writeAt (buf d : Bytes) (off start : Nat) (h : start ≤ off) :
    let pos := Gen.C12.readerPos off start
    let pad := Gen.C12.readerPad pos buf.length
    let b := buf ++ List.replicate pad.toNat (0 : UInt8)
    (Gen.C12.readerPadCond pad ↔ 0 < pad.toNat) ∧
    writeAt buf (off - start) d =
      b.take (Gen.C12.readerLo pos d.length).toNat ++ d ++ b.drop (Gen.C12.readerHi pos d.length).toNat := by
  simp only [Gen.C12.readerPos, Gen.C12.readerPad, Gen.C12.readerPadCond, Gen.C12.readerLo,
    Gen.C12.readerHi, writeAt]
  have e1 : ((off : Int) - start - buf.length).toNat = off - start - buf.length := by omega
  have e2 : ((off : Int) - start).toNat = off - start := by omega
  have e3 : ((off : Int) - start + d.length).toNat = off - start + d.length := by omega
  rw [e1, e2, e3]
  exact ⟨by omega, rfl⟩

/-- the writer's block (`pos = offset - start`, `self._data[pos:pos+size]`, count = size) is `wslice` -/
theorem gen_writer_slice (data : Bytes) (start : Nat) (r : Req) (h : start ≤ r.off) :
    let pos := Gen.C12.writerPos r.off start
    wslice data start r =
      (data.drop (Gen.C12.writerLo pos r.size).toNat).take
        ((Gen.C12.writerHi pos r.size).toNat - (Gen.C12.writerLo pos r.size).toNat) ∧
    Gen.C12.writerCount r.size = (r.size : Nat) := by
  simp only [Gen.C12.writerPos, Gen.C12.writerLo, Gen.C12.writerHi, Gen.C12.writerCount, wslice]
  have e2 : ((r.off : Int) - start).toNat = r.off - start := by omega
  have e3 : ((r.off : Int) - start + r.size).toNat = r.off - start + r.size := by omega
  rw [e2, e3]
  refine ⟨?_, trivial⟩
  congr 1; omega

/-- the copier's end-of-transfer check -/
theorem gen_sizeCheck (copied total : Nat) (sparse : Bool) :
    Gen.C12.sizeCheckFails copied total sparse ↔ sizeCheckFails copied total sparse = true := by
  simp only [Gen.C12.sizeCheckFails, sizeCheckFails]
  cases sparse <;> simp <;> omega

/-- whatever `max_requests` the caller passes to get/put/copy or `open`, the scheduler runs with at least
    one request (the hypothesis `1 ≤ mr` of the theorems below): non-positive values are replaced by a
    default between 16 and 128 -/
theorem gen_default_max_requests (bs : Int) :
    16 ≤ Gen.C12.copyDefaultMaxRequests bs ∧ Gen.C12.copyDefaultMaxRequests bs ≤ 128 ∧
    16 ≤ Gen.C12.fileDefaultMaxRequests bs ∧ Gen.C12.fileDefaultMaxRequests bs ≤ 128 ∧
    Gen.C12.fileDefaultMaxRequests0 = 1 ∧
    ∀ mr : Int, ¬ Gen.C12.copyDefaultCond mr → 1 ≤ mr := by
  simp only [Gen.C12.copyDefaultMaxRequests, Gen.C12.fileDefaultMaxRequests, Gen.C12.fileDefaultMaxRequests0,
    Gen.C12.copyDefaultCond]
  refine ⟨?_, ?_, ?_, ?_, ?_, ?_⟩ <;> first | trivial | rfl | omega | (intro mr h; omega)

/-- `SFTPClientFile.read` / `.write`: which path is taken and where the position moves -/
theorem gen_fileobj (o : FObj) (size : Int) (off : Int) (n : Nat) (toEnd : Bool)
    (ho : o.toEndReader = Gen.C12.readToEndUsesReader) :
    (Gen.C12.readParallelCond o.readLen o.maxReadLen size toEnd ↔ readParallel o toEnd size = true) ∧
    (Gen.C12.writeParallelCond o.writeLen n ↔ writeParallel o n = true) ∧
    Gen.C12.readNewOffset off n = off + n ∧ Gen.C12.writeNewOffset off n = off + n := by
  simp only [Gen.C12.readParallelCond, Gen.C12.writeParallelCond, Gen.C12.readNewOffset,
    Gen.C12.writeNewOffset, readParallel, writeParallel, ho, Gen.C12.readToEndUsesReader]
  refine ⟨?_, ?_, trivial, trivial⟩
  · simp only [Bool.and_eq_true, Bool.or_eq_true, bne_iff_ne, decide_eq_true_eq, ne_eq, Bool.true_and,
      Bool.false_and, Bool.false_eq_true, false_or]
    constructor
    · intro h
      refine ⟨by omega, ?_⟩
      first
      | (rcases h.2 with h2 | h2
         · exact Or.inl h2
         · exact Or.inr (by omega))
      | omega
    · intro h
      refine ⟨by omega, ?_⟩
      first
      | (rcases h.2 with h2 | h2
         · exact Or.inl h2
         · exact Or.inr (by omega))
      | omega
  · simp only [Bool.and_eq_true, bne_iff_ne, decide_eq_true_eq, ne_eq]
    constructor <;> intro h <;> exact ⟨by omega, by omega⟩

/-- the loop of `SFTPServer.write` (present in the tree iff `Gen.C12.serverWritesAll`): it is left only when the
    whole block has been written, and the counter moves by what each `write()` reported -/
theorem gen_writeLoop (written len count : Int) :
    (Gen.C12.serverWritesAll = true →
      ((¬ Gen.C12.writeLoopCond written len) ↔ len ≤ written) ∧
      Gen.C12.writeLoopNext written count = written + count) ∧
    (Gen.C12.serverWritesAll = false → ¬ Gen.C12.writeLoopCond written len) := by
  constructor
  · intro h
    first
    | exact absurd h (by decide)
    | (simp only [Gen.C12.writeLoopCond, Gen.C12.writeLoopNext]
       exact ⟨by omega, trivial⟩)
  · intro h
    first
    | exact absurd h (by decide)
    | (simp only [Gen.C12.writeLoopCond]; exact fun h' => h')

/-- the optional last step of a sparse copy (present in the tree iff `Gen.C12.copierExtendsSparse`):
    its condition, the offset of the zero byte, and the `range_end` bookkeeping are those of `extendSparse` -/
theorem gen_extend (sparse : Bool) (ranges : List (Nat × Nat)) (total : Nat) :
    Gen.C12.copierExtendsSparse = true →
      (Gen.C12.extendCond sparse (rangesEnd ranges) total ↔ (sparse = true ∧ rangesEnd ranges < total)) ∧
      (0 < total → Gen.C12.extendOffset total = ((total - 1 : Nat) : Int)) ∧
      ∀ m o l : Nat, Gen.C12.rangeEndStep m o l = ((max m (o + l) : Nat) : Int) := by
  intro h
  first
  | exact absurd h (by decide)
  | (simp only [Gen.C12.extendCond, Gen.C12.extendOffset, Gen.C12.rangeEndStep]
     refine ⟨?_, ?_, ?_⟩
     · constructor <;> intro h' <;> exact ⟨h'.1, by omega⟩
     · intro; omega
     · intro m o l; omega)

/-- the reader's check on an empty reply (present in the tree iff `Gen.C12.readerRejectsEmpty`) is the condition
    under which `rev true` turns a DATA reply into a failed block -/
theorem gen_reject (r : Req) (d : Bytes) :
    (Gen.C12.readerRejectsEmpty = true →
      (Gen.C12.rejectCond d.length r.size ↔ (d = [] ∧ r.size ≠ 0))) ∧
    (Gen.C12.readerRejectsEmpty = false → ¬ Gen.C12.rejectCond d.length r.size) := by
  constructor
  · intro h
    first
    | exact absurd h (by decide)
    | (simp only [Gen.C12.rejectCond]
       constructor
       · intro h'
         exact ⟨List.length_eq_zero_iff.mp (by omega), by omega⟩
       · intro h'
         have := List.length_eq_zero_iff.mpr h'.1
         exact ⟨by omega, by omega⟩)
  · intro h
    first
    | exact absurd h (by decide)
    | (simp only [Gen.C12.rejectCond]; exact fun h' => h')

/-! ## reads -/

/-- **read_correct_nonempty** — lemma valid for any reader, with or without the empty-reply check
    (clauses "file read of any content, size, offset, block size and degree of
    parallelism … also when the server answers out of order, late, or with short reads").
    For every source content, start offset, size, block size ≥ 1, `max_requests` ≥ 1 and EVERY event list in
    which the server is truthful (a DATA reply to `(off,size)` carries `c ≤ size` bytes of the source at
    `off`; EOF only at/after the end) and every DATA reply is non-empty (`1 ≤ c`): if the read returns, it
    returns exactly `src[start : start+size]` clipped at the end of the file. -/
theorem read_correct_nonempty (src : Bytes) (start size bs mr : Nat) (hbs : 1 ≤ bs) (hmr : 1 ≤ mr)
    (evs : List Ev) (htr : ∀ e ∈ evs, Truthful src e) (hne : ∀ e ∈ evs, NonEmpty e) (b : Bytes)
    (hok : goutcome (rrun bs mr start size evs) = .ok b) :
    b = (src.drop start).take size :=
  rinv_final src start size _
    (rinv_run src start size bs mr hbs hmr evs _ (rinv_init src start size bs mr hbs hmr) htr hne) b hok

/-- non-vacuity: an out-of-order schedule with a short read and a read at EOF that does return, on a
    5-byte file read from offset 1 with block size 2 and 2 requests in flight -/
theorem read_correct_example :
    goutcome (rrun 2 2 1 5 [
      .complete ⟨3, 2⟩ (.data [4]),                       -- second block answers first, and short
      .complete ⟨1, 2⟩ (.data [2, 3]), .endBatch,
      .complete ⟨4, 1⟩ (.data [5]), .endBatch,            -- the re-requested remainder
      .complete ⟨5, 1⟩ .eof, .endBatch]) = .ok [2, 3, 4, 5] ∧
    ([1, 2, 3, 4, 5].drop 1).take 5 = ([2, 3, 4, 5] : Bytes) := by
  simp [rrun, rinit, grun, gstep, gcomplete, goutcome, IO.idle, startTasks, blockSize, finish, continuation,
    endBatchIO, store, writeAt]

/-- **Witness of defect F8 (repaired by a `fix:` commit): without the empty-reply check the hypothesis `1 ≤ c`
    cannot be dropped.**  For the reader before the fix (`rrun` = `rrunS false`) a truthful server that answers
    one block with a zero-length DATA reply (no EOF) makes the read return normally with a hole — here the
    4-byte file `01 02 03 04` is returned as `00 00 03 04`. -/
theorem old_reader_zero_length_reply_corrupts :
    let evs : List Ev := [.complete ⟨0, 2⟩ (.data []), .complete ⟨2, 2⟩ (.data [3, 4]), .endBatch]
    (∀ e ∈ evs, Truthful [1, 2, 3, 4] e) ∧
    goutcome (rrun 2 2 0 4 evs) = .ok [0, 0, 3, 4] ∧
    ([0, 0, 3, 4] : Bytes) ≠ ([1, 2, 3, 4].drop 0).take 4 := by
  refine ⟨?_, ?_, by decide⟩
  · intro e he
    simp only [List.mem_cons, List.not_mem_nil, or_false] at he
    rcases he with rfl | rfl | rfl
    · exact ⟨by simp, fun i hi => absurd hi (by simp)⟩
    · refine ⟨by simp, ?_⟩
      intro i hi
      have hi' : i < 2 := hi
      have : i = 0 ∨ i = 1 := by omega
      rcases this with rfl | rfl <;> rfl
    · trivial
  · simp [rrun, rinit, grun, gstep, gcomplete, goutcome, IO.idle, startTasks, blockSize, finish, continuation,
      endBatchIO, store, writeAt]

/-- **read_correct for a reader that refuses empty DATA replies** (`Gen.C12.readerRejectsEmpty`): the
    hypothesis `1 ≤ c` is gone — for EVERY truthful event list a read that returns, returns exactly the
    requested bytes (an empty reply makes it raise instead). -/
theorem read_correct_strict (src : Bytes) (start size bs mr : Nat) (hbs : 1 ≤ bs) (hmr : 1 ≤ mr)
    (evs : List Ev) (htr : ∀ e ∈ evs, Truthful src e) (b : Bytes)
    (hok : goutcome (rrunS true bs mr start size evs) = .ok b) :
    b = (src.drop start).take size :=
  read_correct_nonempty src start size bs mr hbs hmr (evs.map (rev true)) (map_rev_truthful src true evs htr)
    (map_rev_nonEmpty evs) b hok

/-- the schedule of `old_reader_zero_length_reply_corrupts` makes the repaired reader raise -/
theorem read_zero_length_reply_strict_raises :
    goutcome (rrunS true 2 2 0 4
      [.complete ⟨0, 2⟩ (.data []), .complete ⟨2, 2⟩ (.data [3, 4]), .endBatch]) = .raised := by
  simp [rrunS, rev, rrun, rinit, grun, gstep, gcomplete, goutcome, IO.idle, startTasks, blockSize, finish,
    continuation, endBatchIO, store, writeAt]

/-- **read_correct for the reader of the tree being checked**: `1 ≤ c` is required exactly when the code
    does not refuse empty replies. -/
theorem read_correct_live (src : Bytes) (start size bs mr : Nat) (hbs : 1 ≤ bs) (hmr : 1 ≤ mr)
    (evs : List Ev) (htr : ∀ e ∈ evs, Truthful src e)
    (hne : Gen.C12.readerRejectsEmpty = false → ∀ e ∈ evs, NonEmpty e) (b : Bytes)
    (hok : goutcome (rrunS Gen.C12.readerRejectsEmpty bs mr start size evs) = .ok b) :
    b = (src.drop start).take size := by
  cases hflag : Gen.C12.readerRejectsEmpty with
  | true => rw [hflag] at hok; exact read_correct_strict src start size bs mr hbs hmr evs htr b hok
  | false =>
    rw [hflag] at hok
    have hid : evs.map (rev false) = evs := by
      have : ∀ e : Ev, rev false e = e := by
        intro e
        cases e with
        | complete r rep => cases rep <;> first | rfl | simp [rev]
        | endBatch => rfl
      have hf : rev false = id := funext this
      rw [hf, List.map_id]
    simp only [rrunS, hid] at hok
    exact read_correct_nonempty src start size bs mr hbs hmr evs htr (hne hflag) b hok

/-- **read_correct** — the full-strength statement for the reader of the tree being checked (clauses "file
    read of any content, size, offset, block size and degree of parallelism … also when the server answers out of
    order, late, or with short reads"; "never reports success for a corrupted result").  For every source,
    offset, size, block size ≥ 1, `max_requests` ≥ 1 and EVERY event list of a truthful server — short reads of any
    length, *empty replies included*: a read that returns, returns exactly `src[start : start+size]` clipped at
    the end of the file.  The proof needs `Gen.C12.readerRejectsEmpty = true`, i.e. the empty-reply check found
    in sftp.py by the translator; it stops building if that check goes away. -/
theorem read_correct (src : Bytes) (start size bs mr : Nat) (hbs : 1 ≤ bs) (hmr : 1 ≤ mr)
    (evs : List Ev) (htr : ∀ e ∈ evs, Truthful src e) (b : Bytes)
    (hok : goutcome (rrunS Gen.C12.readerRejectsEmpty bs mr start size evs) = .ok b) :
    b = (src.drop start).take size :=
  read_correct_live src start size bs mr hbs hmr evs htr
    (fun h => absurd (show Gen.C12.readerRejectsEmpty = true from rfl) (by rw [h]; decide)) b hok

/-- … and neither can `1 ≤ max_requests`: with no request allowed the loop ends at once with an empty
    result (the entry points never pass such a value, see `gen_default_max_requests`). -/
theorem read_needs_a_request : goutcome (rrun 2 0 0 4 []) = .ok [] := by
  simp [rrun, rinit, grun, goutcome, IO.idle, startTasks]

/-! ## `SFTPClientFile.read()` to the end of the file -/

/-- **Witness of the short-read defect of `read()` (repaired by a `fix:` commit)**: before the repair
    (`toEndReader = false`) a `read()` of a file no larger than the block size is ONE request whose reply is
    final.  A truthful server that answers the 3-byte request with 1 byte (a short read) makes `read()` return
    `01` for the file `01 02 03`. -/
theorem old_read_to_end_short_reply_final :
    let o : FObj := ⟨false, some 0, 4, 4, 4, false⟩
    let evs : List Ev := [.complete ⟨0, 3⟩ (.data [1])]
    (∀ e ∈ evs, Truthful [1, 2, 3] e) ∧
    fread true o 1 true 0 3 evs = .ok [1] ∧ ([1] : Bytes) ≠ ([1, 2, 3] : Bytes).drop 0 := by
  refine ⟨?_, by decide, by decide⟩
  intro e he
  simp only [List.mem_cons, List.not_mem_nil, or_false] at he
  subst he
  refine ⟨by simp, ?_⟩
  intro i hi
  have : i = 0 := by simpa using hi
  subst this; rfl

/-- the same reply with the repair: the reader asks for the remaining two bytes, the read is not over -/
theorem read_to_end_short_reply_rerequested :
    let o : FObj := ⟨false, some 0, 4, 4, 4, true⟩
    fread true o 1 true 0 3 [.complete ⟨0, 3⟩ (.data [1]), .endBatch] = .running ∧
    fread true o 1 true 0 3 [.complete ⟨0, 3⟩ (.data [1]), .endBatch,
                             .complete ⟨1, 2⟩ (.data [2, 3]), .endBatch] = .ok [1, 2, 3] := by
  constructor <;>
    simp [fread, readParallel, rrunS, rev, rrun, rinit, grun, gstep, gcomplete, goutcome, IO.idle, startTasks,
      blockSize, finish, continuation, endBatchIO, store, writeAt]

/-- **read_to_end_correct** ("file read of any … size … also when the server answers … with short reads"): with the
    repair found in sftp.py by the translator (`Gen.C12.readToEndUsesReader`), `read()` / `read(-1)` of a file
    object with a block size (`read_len ≠ 0`) whose `fstat` reports the real size returns, for EVERY truthful event
    list (short replies of any length, any order), exactly the bytes from the offset to the end of the file — or does
    not return normally.  Stops building if the repair goes away. -/
theorem read_to_end_correct (src : Bytes) (off mr : Nat) (o : FObj) (hrl : 1 ≤ o.readLen) (hmr : 1 ≤ mr)
    (ho : o.toEndReader = Gen.C12.readToEndUsesReader)
    (evs : List Ev) (htr : ∀ e ∈ evs, Truthful src e) (b : Bytes)
    (hok : fread Gen.C12.readerRejectsEmpty o mr true off (src.length - off) evs = .ok b) :
    b = src.drop off := by
  have hflag : Gen.C12.readToEndUsesReader = true := rfl
  have hpar : readParallel o true ((src.length - off : Nat) : Int) = true := by
    simp only [readParallel, ho, hflag, Bool.true_and, Bool.true_or, Bool.and_true, ne_eq, decide_eq_true_eq]
    omega
  simp only [fread, hpar, if_true] at hok
  have := read_correct src off (src.length - off) o.readLen mr hrl hmr evs htr b hok
  rw [this, List.take_of_length_le (by simp)]

/-! ## errors -/

/-- **error_propagates** ("if any block fails the operation raises"): once a completion with an error has
    been processed for an outstanding request, no continuation of the run — whatever else completes,
    in whatever order — ends in a normal return; this holds for the reader, the writer and the copier, which
    share the scheduler. -/
theorem error_propagates (pad : Bool) (bs mr base : Nat) (s : GState) (r : Req)
    (hr : r ∈ s.io.pending) (hnr : s.io.raised = false) (evs : List Ev) (b : Bytes) :
    goutcome (grun pad bs mr base (gstep pad bs mr base s (.complete r .err)) evs) ≠ .ok b := by
  have h0 : Errored (gstep pad bs mr base s (.complete r .err)).io := by
    left
    simp only [gstep, hnr, Bool.false_eq_true, hr, not_true_eq_false, or_self, if_false, gcomplete]
    exact ⟨by omega, trivial⟩
  have hall : ∀ (evs : List Ev) (s' : GState), Errored s'.io → Errored (grun pad bs mr base s' evs).io := by
    intro evs
    induction evs with
    | nil => exact fun _ h => h
    | cons e t ih =>
      intro s' h
      simp only [grun, List.foldl_cons]
      exact ih _ (errored_gstep _ _ _ _ _ _ h)
  have hE := hall evs _ h0
  intro hok
  simp only [goutcome] at hok
  split at hok
  · cases hok
  · rename_i hnr'
    split at hok
    · rename_i hidle
      rcases hE with hE | hE
      · have := hidle.2; rw [hE.2] at this; cases this
      · exact hnr' hE
    · cases hok

/-- … and the batch in which the error was seen ends by raising and dropping (cancelling) everything
    still outstanding: no further request is issued. -/
theorem error_cancels_rest (pad : Bool) (bs mr base : Nat) (s : GState)
    (he : s.io.excs ≠ 0) (hnr : s.io.raised = false) :
    (gstep pad bs mr base s .endBatch).io.raised = true ∧
    (gstep pad bs mr base s .endBatch).io.pending = [] ∧
    ∀ e, gstep pad bs mr base (gstep pad bs mr base s .endBatch) e = gstep pad bs mr base s .endBatch := by
  have h1 : (gstep pad bs mr base s .endBatch).io.raised = true := by
    simp [gstep, hnr, endBatchIO, he]
  refine ⟨h1, by simp [gstep, hnr, endBatchIO, he], ?_⟩
  generalize gstep pad bs mr base s .endBatch = s' at h1 ⊢
  intro e
  cases e with
  | complete r rep => simp only [gstep, h1, true_or, if_true]
  | endBatch => simp only [gstep, h1, if_true]

/-! ## writes -/

/-- **write_correct** ("file write … produce exactly the source bytes at the destination").  For every
    data, offset, initial file content, block size ≥ 1, `max_requests` ≥ 1 and EVERY order in which the
    server applies and acknowledges the blocks: if the write returns, the file is the POSIX `pwrite` of the
    data at the offset (bytes outside the range untouched, zero fill between the old end and the offset). -/
theorem write_correct (data file0 : Bytes) (start bs mr : Nat) (hbs : 1 ≤ bs) (hmr : 1 ≤ mr)
    (evs : List WEv) (b : Bytes) (hok : goutcome (wrun bs mr start data file0 evs) = .ok b) :
    b = pwrite file0 start data :=
  winv_final data start file0 _
    (winv_run data start bs mr file0 hbs hmr evs _ (winv_init data start bs mr file0 hbs hmr)) b hok

/-- non-vacuity: three blocks acknowledged last-first over an existing 2-byte file, with a gap -/
theorem write_correct_example :
    goutcome (wrun 2 3 3 [7, 8, 9, 10, 11] [1, 2]
      [.ok ⟨7, 1⟩, .ok ⟨5, 2⟩, .endBatch, .ok ⟨3, 2⟩, .endBatch]) = .ok [1, 2, 0, 7, 8, 9, 10, 11] ∧
    pwrite [1, 2] 3 [7, 8, 9, 10, 11] = ([1, 2, 0, 7, 8, 9, 10, 11] : Bytes) := by
  simp [wrun, winit, wstep, wev, wslice, gstep, gcomplete, goutcome, IO.idle, startTasks, blockSize, finish,
    continuation, endBatchIO, store, writeAt, pwrite]

/-- **Witness of the EOF-status defect (repaired by a `fix:` commit)**: before the repair (`eofErr = false`) the
    `except SFTPEOFError: self._bytes_left = 0` shared by reader, writer and copier takes an FX_EOF status
    answering a WRITE for the end of the file.  6 bytes in blocks of 2, one request at a time: the second block
    is answered FX_EOF, the third is never sent, `write()` returns normally — the file holds 2 of the 6 bytes. -/
theorem old_writer_eof_status_truncates :
    goutcome (wrunX false true 2 1 0 [1, 2, 3, 4, 5, 6] []
      [.base (.ok ⟨0, 2⟩), .base .endBatch, .eof ⟨2, 2⟩, .base .endBatch]) = .ok [1, 2] ∧
    ([1, 2] : Bytes) ≠ pwrite [] 0 [1, 2, 3, 4, 5, 6] := by
  refine ⟨?_, by decide⟩
  simp [wrunX, wstepX, winit, wstep, wev, wslice, gstep, gcomplete, goutcome, IO.idle, startTasks, blockSize,
    finish, continuation, endBatchIO, store, writeAt, pwrite]

/-- **Witness of the short-write defect (repaired by a `fix:` commit)**: before the repair (`writeAll = false`)
    `SFTPServer.write` issues one `write()` on an unbuffered file and its count is dropped: the block that crosses
    the end of free space is answered FX_OK although only part of it was written.  4 bytes in blocks of 2: of
    the second block only 1 byte is accepted; `write()` returns normally — the file holds 3 of the 4 bytes. -/
theorem old_server_short_write_acknowledged :
    goutcome (wrunX true false 2 2 0 [1, 2, 3, 4] []
      [.base (.ok ⟨0, 2⟩), .short ⟨2, 2⟩ 1, .base .endBatch]) = .ok [1, 2, 3] ∧
    ([1, 2, 3] : Bytes) ≠ pwrite [] 0 [1, 2, 3, 4] := by
  refine ⟨?_, by decide⟩
  simp [wrunX, wstepX, winit, wstep, wev, wslice, gstep, gcomplete, goutcome, IO.idle, startTasks, blockSize,
    finish, continuation, endBatchIO, store, writeAt, pwrite]

/-- the two schedules above make the repaired code raise -/
theorem writer_eof_status_and_short_write_raise :
    goutcome (wrunX true true 2 1 0 [1, 2, 3, 4, 5, 6] []
      [.base (.ok ⟨0, 2⟩), .base .endBatch, .eof ⟨2, 2⟩, .base .endBatch]) = .raised ∧
    goutcome (wrunX true true 2 2 0 [1, 2, 3, 4] []
      [.base (.ok ⟨0, 2⟩), .short ⟨2, 2⟩ 1, .base .endBatch]) = .raised := by
  constructor <;>
    simp [wrunX, wstepX, winit, wstep, wev, wslice, gstep, gcomplete, goutcome, IO.idle, startTasks, blockSize,
      finish, continuation, endBatchIO, store, writeAt, pwrite]

/-- **write_correct for the code of the tree being checked, against everything the environment can do to a
    block** ("file … write … produce exactly the source bytes at the destination"; "if any block fails … the
    operation raises an error; it never reports success for a corrupted result").  Besides completion order and
    per-block errors: any block may be answered with an FX_EOF status, and of any block the kernel may accept
    only a part.  If the write returns, the file is `pwrite(file0, start, data)`.  The proof needs both repairs
    found in sftp.py by the translator (`Gen.C12.writeEofIsError`, `Gen.C12.serverWritesAll`); it stops building
    if one of them goes away. -/
theorem write_correct_live (data file0 : Bytes) (start bs mr : Nat) (hbs : 1 ≤ bs) (hmr : 1 ≤ mr)
    (evs : List WEvX) (b : Bytes)
    (hok : goutcome (wrunX Gen.C12.writeEofIsError Gen.C12.serverWritesAll bs mr start data file0 evs) = .ok b) :
    b = pwrite file0 start data := by
  have h1 : Gen.C12.writeEofIsError = true := rfl
  have h2 : Gen.C12.serverWritesAll = true := rfl
  rw [h1, h2, wrunX_fixed] at hok
  exact write_correct data file0 start bs mr hbs hmr _ b hok

/-- **consecutive writes tile the file** ("file read/write of any content, size, offset"): `write(d₁) … write(dₙ)`
    without explicit offset on a file object at byte position `p` (not in append mode) leave the file as one
    `pwrite` of `d₁ ++ … ++ dₙ` at `p`, move the position to `p + Σ|dᵢ|` and return `|dᵢ|` each.  The `dᵢ` are the
    BYTES handed to the server — in text mode the encoded form of each string (`gen_fileobj`: the position moves
    by `datalen`, and the translator checks `datalen = len(<the bytes written>)`), so no two writes overlap and
    none leaves a gap, whatever the number of characters. -/
theorem consecutive_writes_tile (ds : List Bytes) (w : FWorld) (p : Nat) (happ : w.obj.appending = false)
    (hoff : w.obj.offset = some (p : Int)) :
    (frun w (writeOps ds)).1.content = pwrite w.content p ds.flatten ∧
    (frun w (writeOps ds)).1.obj.offset = some ((p + ds.flatten.length : Nat) : Int) ∧
    (frun w (writeOps ds)).2 = ds.map fun d => FRes.num d.length :=
  frun_writeOps ds w p happ hoff

/-- non-vacuity, and why bytes: `"é"`, `"a"` written in utf-8 are `c3 a9` and `61`; advancing by the number of
    characters (1) instead of bytes (2) would put `61` over `a9` -/
theorem consecutive_writes_example :
    let w : FWorld := ⟨[], ⟨false, some 0, 4, 4, 4, true⟩⟩
    (frun w (writeOps [[0xc3, 0xa9], [0x61]])).1.content = [0xc3, 0xa9, 0x61] ∧
    (frun w [.write [0xc3, 0xa9] none, .seekSet 1, .write [0x61] none]).1.content = [0xc3, 0x61] := by
  constructor <;> simp [writeOps, frun, fstep, pwrite, writeAt]

/-! ## copies (get / put / copy) -/

/-- **copy_correct_or_error**, first half ("get, put, copy … produce exactly the source bytes at the
    destination"; "never reports success for a corrupted result").  Non-sparse copy of a source announced
    as `total` bytes: for EVERY event list with a truthful server — short reads of any length, *including
    empty replies anywhere* — a normal return means the destination is exactly the first `total` bytes of
    the source and the source really has them.  (No `1 ≤ c` hypothesis: the byte count check catches every
    block that was given up.) -/
theorem copy_correct_or_error (src : Bytes) (total bs mr : Nat) (hbs : 1 ≤ bs) (hmr : 1 ≤ mr)
    (evs : List Ev) (htr : ∀ e ∈ evs, Truthful src e) (dst : Bytes)
    (hok : coutcome total false (crun bs mr (nonsparseRanges total) evs) = .ok dst) :
    dst = src.take total ∧ total ≤ src.length := by
  rw [crun_nonsparse] at hok
  have hinv := nsinv_run src total bs mr hbs hmr evs _ (nsinv_init src total bs mr hbs hmr) htr
  simp only [coutcome] at hok
  split at hok
  · cases hok
  · rename_i hnr
    split at hok
    · rename_i hidle
      split at hok
      · cases hok
      · rename_i hchk
        injection hok with hb
        subst hb
        have hcop : (grun false bs mr 0 (ginit0 bs mr total) evs).copied = total := by
          simp only [sizeCheckFails, Bool.not_false, Bool.and_true, bne_iff_ne, ne_eq, Decidable.not_not]
            at hchk
          exact hchk
        exact nsinv_final src total _ hinv hidle.1 (by simpa using hnr) hcop
    · cases hok

/-- **copy_correct_or_error**, second half ("in a non-sparse transfer the source ends before its announced
    size ⇒ the operation raises"): no schedule whatsoever lets such a copy return normally. -/
theorem copy_short_source_raises (src : Bytes) (total bs mr : Nat) (hbs : 1 ≤ bs) (hmr : 1 ≤ mr)
    (hshort : src.length < total) (evs : List Ev) (htr : ∀ e ∈ evs, Truthful src e) (dst : Bytes) :
    coutcome total false (crun bs mr (nonsparseRanges total) evs) ≠ .ok dst := by
  intro hok
  have := (copy_correct_or_error src total bs mr hbs hmr evs htr dst hok).2
  omega

/-- non-vacuity of both halves: a 3-byte source announced as 3 bytes is copied (out of order, one short
    read); announced as 4 bytes the same source ends in `Unexpected EOF during file copy`. -/
theorem copy_example :
    coutcome 3 false (crun 2 2 (nonsparseRanges 3)
      [.complete ⟨2, 1⟩ (.data [3]), .complete ⟨0, 2⟩ (.data [1]), .endBatch,
       .complete ⟨1, 1⟩ (.data [2]), .endBatch]) = .ok [1, 2, 3] ∧
    coutcome 4 false (crun 2 2 (nonsparseRanges 4)
      [.complete ⟨0, 2⟩ (.data [1, 2]), .complete ⟨2, 2⟩ (.data [3]), .endBatch,
       .complete ⟨3, 1⟩ (.data []), .endBatch]) = .shortSource := by
  simp [crun, cinit, cstep, advance, nonsparseRanges, coutcome, sizeCheckFails, gstep, gcomplete, IO.idle,
    startTasks, blockSize, finish, continuation, endBatchIO, store, writeAt, pwrite]

/-- **sparse_holes** ("… and when the file is sparse"; "every hole layout").  Sparse copy over ANY list of
    data ranges, truthful server, empty replies only at/after the end of the source: on normal return
    (1) every source byte inside a range is at its own offset in the destination, (2) every destination byte
    is such a byte or a zero that was never written (holes stay holes), (3) the destination does not
    extend past the last range (clipped at the source's end). -/
theorem sparse_holes (src : Bytes) (ranges : List (Nat × Nat)) (total bs mr : Nat) (hbs : 1 ≤ bs) (hmr : 1 ≤ mr)
    (evs : List Ev) (htr : ∀ e ∈ evs, Truthful src e) (heo : ∀ e ∈ evs, EofOnly src e) (dst : Bytes)
    (hok : coutcome total true (crun bs mr ranges evs) = .ok dst) :
    (∀ p, InRanges ranges p → p < src.length → dst[p]? = src[p]?) ∧
    (∀ q b, dst[q]? = some b → (src[q]? = some b ∧ InRanges ranges q) ∨ b = 0) ∧
    (∀ q, q < dst.length → ∃ p, q ≤ p ∧ InRanges ranges p ∧ p < src.length) := by
  have hinv := sinv_run src ranges bs mr hbs hmr evs _ (sinv_init src ranges bs mr hbs hmr) htr heo
  simp only [coutcome] at hok
  split at hok
  · cases hok
  · rename_i hnr
    split at hok
    · rename_i hidle
      simp only [sizeCheckFails, Bool.not_true, Bool.and_false, Bool.false_eq_true, if_false] at hok
      injection hok with hb
      subst hb
      exact sinv_final src ranges _ hinv hidle.1 (by simpa using hnr) hidle.2
    · cases hok

/-- sparse copy without the extension step (the tree before the fix) is exact — PARTIAL: under the explicit
    hypothesis that the file does not end in a hole (`hlast`); lemma of `sparse_copy_exact_extended`.  `hzero`: outside the ranges the source reads as zeros. -/
theorem sparse_copy_exact_partial (src : Bytes) (ranges : List (Nat × Nat)) (total bs mr : Nat)
    (hbs : 1 ≤ bs) (hmr : 1 ≤ mr)
    (hzero : ∀ p, p < src.length → ¬ InRanges ranges p → src[p]? = some 0)
    (hlast : src.length = 0 ∨ InRanges ranges (src.length - 1))
    (evs : List Ev) (htr : ∀ e ∈ evs, Truthful src e) (heo : ∀ e ∈ evs, EofOnly src e) (dst : Bytes)
    (hok : coutcome total true (crun bs mr ranges evs) = .ok dst) : dst = src := by
  obtain ⟨h1, h2, h3⟩ := sparse_holes src ranges total bs mr hbs hmr evs htr heo dst hok
  have hlen : src.length ≤ dst.length := by
    rcases hlast with h0 | hl
    · omega
    · by_cases h0 : src.length = 0
      · omega
      · have := h1 (src.length - 1) hl (by omega)
        rw [List.getElem?_eq_getElem (l := src) (by omega)] at this
        have := (List.getElem?_eq_some_iff.mp this).1
        omega
  apply List.ext_getElem?
  intro i
  by_cases hi : i < src.length
  · by_cases hin : InRanges ranges i
    · exact h1 i hin hi
    · have hd : i < dst.length := by omega
      rw [hzero i hi hin]
      have hsome := List.getElem?_eq_getElem hd
      rcases h2 i _ hsome with ⟨_, h⟩ | h
      · exact absurd h hin
      · rw [hsome, h]
  · rw [List.getElem?_eq_none (by omega : src.length ≤ i)]
    apply List.getElem?_eq_none
    apply Nat.le_of_not_lt
    intro hlt
    obtain ⟨p, hp1, _, hp3⟩ := h3 i hlt
    omega

/-- **Witness of the sparse-copy defect (repaired by a `fix:` commit): without the extension step the
    hypothesis "no trailing hole" cannot be dropped** (`coutcome` = `coutcomeX false`).  A 3-byte file whose only allocated extent is its
    first byte: the SEEK_DATA/SEEK_HOLE walk yields the single range `(0,1)`, every request is answered
    truthfully and in full, the copy returns normally — with a 1-byte destination. -/
theorem old_copier_trailing_hole_truncated :
    let src : Bytes := [1, 0, 0]
    let ranges := dataRanges [(0, 1)] 3
    let evs : List Ev := [.complete ⟨0, 1⟩ (.data [1]), .endBatch]
    ranges = [(0, 1)] ∧ (∀ e ∈ evs, Truthful src e) ∧ (∀ e ∈ evs, EofOnly src e) ∧
    (∀ p, p < src.length → ¬ InRanges ranges p → src[p]? = some 0) ∧
    coutcome 3 true (crun 1 1 ranges evs) = .ok [1] ∧ ([1] : Bytes) ≠ src := by
  refine ⟨by decide, ?_, ?_, ?_, ?_, by decide⟩
  · intro e he
    simp only [List.mem_cons, List.not_mem_nil, or_false] at he
    rcases he with rfl | rfl <;> simp [Truthful]
  · intro e he
    simp only [List.mem_cons, List.not_mem_nil, or_false] at he
    rcases he with rfl | rfl <;> simp [EofOnly]
  · intro p hp hn
    have hp' : p < 3 := hp
    have : p = 0 ∨ p = 1 ∨ p = 2 := by omega
    rcases this with rfl | rfl | rfl
    · exact absurd ⟨(0, 1), by decide, by decide, by decide⟩ hn
    · rfl
    · rfl
  · simp [dataRanges, crun, cinit, cstep, advance, coutcome, sizeCheckFails, gstep, gcomplete, IO.idle,
      startTasks, blockSize, finish, continuation, endBatchIO, store, writeAt, pwrite]

/-- **sparse copy with the final extension step** (`Gen.C12.copierExtendsSparse`): the hypothesis "no trailing
    hole" is gone — whatever the hole layout, a sparse copy of a source whose ranges start inside it (as the
    SEEK_DATA walk guarantees, `dataRanges_start_lt`) returns only with destination = source. -/
theorem sparse_copy_exact_extended (src : Bytes) (ranges : List (Nat × Nat)) (bs mr : Nat)
    (hbs : 1 ≤ bs) (hmr : 1 ≤ mr)
    (hzero : ∀ p, p < src.length → ¬ InRanges ranges p → src[p]? = some 0)
    (hin : ∀ rg ∈ ranges, rg.1 < src.length)
    (evs : List Ev) (htr : ∀ e ∈ evs, Truthful src e) (heo : ∀ e ∈ evs, EofOnly src e) (dst : Bytes)
    (hok : coutcomeX true src.length true ranges (crun bs mr ranges evs) = .ok dst) : dst = src := by
  unfold coutcomeX at hok
  generalize hok0 : coutcome src.length true (crun bs mr ranges evs) = co at hok
  cases co with
  | running => cases hok
  | raised => cases hok
  | shortSource => cases hok
  | ok dst0 =>
    injection hok with hd
    subst hd
    by_cases hE : rangesEnd ranges < src.length
    · obtain ⟨h1, h2, h3⟩ := sparse_holes src ranges src.length bs mr hbs hmr evs htr heo dst0 hok0
      have hlen0 : dst0.length ≤ rangesEnd ranges := by
        apply Nat.le_of_not_lt
        intro hlt
        obtain ⟨p, hp1, hp2, _⟩ := h3 (rangesEnd ranges) hlt
        have := inRanges_lt_end ranges p hp2
        omega
      have hnl : ¬ InRanges ranges (src.length - 1) := by
        intro h
        have := inRanges_lt_end ranges _ h
        omega
      simp only [extendSparse, hE, and_self, if_true, pwrite, List.isEmpty_cons, Bool.false_eq_true, if_false]
      apply List.ext_getElem?
      intro i
      rw [getElem?_writeAt]
      by_cases hi1 : i < src.length - 1
      · simp only [hi1, if_true]
        by_cases hin' : InRanges ranges i
        · have := h1 i hin' (by omega)
          have hsome : src[i]? = some src[i] := List.getElem?_eq_getElem (by omega)
          rw [hsome] at this
          have hlt := (List.getElem?_eq_some_iff.mp this).1
          simp only [hlt, if_true]
          rw [this, hsome]
        · rw [hzero i (by omega) hin']
          by_cases hlt : i < dst0.length
          · simp only [hlt, if_true]
            have hsome := List.getElem?_eq_getElem hlt
            rcases h2 i _ hsome with ⟨_, h⟩ | h
            · exact absurd h hin'
            · rw [hsome, h]
          · simp only [hlt, if_false]
      · simp only [hi1, if_false]
        by_cases hi2 : i < src.length - 1 + 1
        · have : i = src.length - 1 := by omega
          subst this
          simp only [List.length_cons, List.length_nil, Nat.zero_add, hi2, if_true, Nat.sub_self]
          rw [hzero _ (by omega) hnl]
          rfl
        · simp only [List.length_cons, List.length_nil, Nat.zero_add] at hi2 ⊢
          simp only [hi2, if_false]
          rw [List.getElem?_eq_none (by omega), List.getElem?_eq_none (by omega)]
    · have hlast : src.length = 0 ∨ InRanges ranges (src.length - 1) := by
        by_cases h0 : src.length = 0
        · exact Or.inl h0
        · right
          obtain ⟨rg, hrg, he⟩ := rangesEnd_attained ranges (by omega)
          have := hin rg hrg
          exact ⟨rg, hrg, by omega, by omega⟩
      have hx : extendSparse true true src.length ranges dst0 = dst0 := by
        simp [extendSparse, hE]
      rw [hx]
      exact sparse_copy_exact_partial src ranges src.length bs mr hbs hmr hzero hlast evs htr heo dst0 hok0

/-- the truncating schedule of `old_copier_trailing_hole_truncated` now yields the whole file -/
theorem sparse_trailing_hole_extended :
    coutcomeX true 3 true [(0, 1)] (crun 1 1 [(0, 1)] [.complete ⟨0, 1⟩ (.data [1]), .endBatch]) = .ok [1, 0, 0] := by
  simp [coutcomeX, extendSparse, rangesEnd, crun, cinit, cstep, advance, coutcome, sizeCheckFails, gstep,
    gcomplete, IO.idle, startTasks, blockSize, finish, continuation, endBatchIO, store, writeAt, pwrite]

/-- **sparse copy of the tree being checked**: "no trailing hole" is required exactly when the code lacks the
    extension step. -/
theorem sparse_copy_exact_live (src : Bytes) (ranges : List (Nat × Nat)) (bs mr : Nat)
    (hbs : 1 ≤ bs) (hmr : 1 ≤ mr)
    (hzero : ∀ p, p < src.length → ¬ InRanges ranges p → src[p]? = some 0)
    (hin : ∀ rg ∈ ranges, rg.1 < src.length)
    (hlast : Gen.C12.copierExtendsSparse = false → src.length = 0 ∨ InRanges ranges (src.length - 1))
    (evs : List Ev) (htr : ∀ e ∈ evs, Truthful src e) (heo : ∀ e ∈ evs, EofOnly src e) (dst : Bytes)
    (hok : coutcomeX Gen.C12.copierExtendsSparse src.length true ranges (crun bs mr ranges evs) = .ok dst) :
    dst = src := by
  cases hflag : Gen.C12.copierExtendsSparse with
  | true =>
    rw [hflag] at hok
    exact sparse_copy_exact_extended src ranges bs mr hbs hmr hzero hin evs htr heo dst hok
  | false =>
    rw [hflag] at hok
    unfold coutcomeX at hok
    generalize hok0 : coutcome src.length true (crun bs mr ranges evs) = co at hok
    cases co with
    | running => cases hok
    | raised => cases hok
    | shortSource => cases hok
    | ok dst0 =>
      injection hok with hd
      have hx : extendSparse false true src.length ranges dst0 = dst0 := by simp [extendSparse]
      rw [hx] at hd
      subst hd
      exact sparse_copy_exact_partial src ranges src.length bs mr hbs hmr hzero (hlast hflag) evs htr heo _ hok0

/-- **sparse_copy_exact** — the full-strength statement for the copier of the tree being checked ("… and when
    the file is sparse", "every hole layout"): whatever the hole layout — trailing hole, leading hole, nothing but
    a hole — a sparse copy of a source whose data ranges start inside it returns only with destination = source.
    The proof needs `Gen.C12.copierExtendsSparse = true`, i.e. the extension step found in sftp.py by the
    translator; it stops building if that step goes away. -/
theorem sparse_copy_exact (src : Bytes) (ranges : List (Nat × Nat)) (bs mr : Nat)
    (hbs : 1 ≤ bs) (hmr : 1 ≤ mr)
    (hzero : ∀ p, p < src.length → ¬ InRanges ranges p → src[p]? = some 0)
    (hin : ∀ rg ∈ ranges, rg.1 < src.length)
    (evs : List Ev) (htr : ∀ e ∈ evs, Truthful src e) (heo : ∀ e ∈ evs, EofOnly src e) (dst : Bytes)
    (hok : coutcomeX Gen.C12.copierExtendsSparse src.length true ranges (crun bs mr ranges evs) = .ok dst) :
    dst = src :=
  sparse_copy_exact_live src ranges bs mr hbs hmr hzero hin
    (fun h => absurd (show Gen.C12.copierExtendsSparse = true from rfl) (by rw [h]; decide)) evs htr heo dst hok

/-- **Witness of the EOF-status defect in the copier (repaired by a `fix:` commit)**: before the repair
    (`cev false` = identity) a sparse `put`/`copy` whose second block is answered FX_EOF *by the destination*
    stops issuing blocks and returns normally with 1 of the 3 source bytes. -/
theorem old_copier_eof_status_truncates :
    let src : Bytes := [1, 2, 3]
    let evs : List Ev := [.complete ⟨0, 1⟩ (.data [1]), .endBatch, .complete ⟨1, 1⟩ .eof, .endBatch]
    (∀ e ∈ evs, TruthfulData src e) ∧ (∀ e ∈ evs, EofOnly src e) ∧
    coutcomeX true 3 true [(0, 3)] (crunE false 1 1 [(0, 3)] evs) = .ok [1] ∧ ([1] : Bytes) ≠ src ∧
    coutcomeX true 3 true [(0, 3)] (crunE true 1 1 [(0, 3)] evs) = .raised := by
  refine ⟨?_, ?_, ?_, by decide, ?_⟩
  · intro e he
    simp only [List.mem_cons, List.not_mem_nil, or_false] at he
    rcases he with rfl | rfl | rfl | rfl <;> simp [TruthfulData]
  · intro e he
    simp only [List.mem_cons, List.not_mem_nil, or_false] at he
    rcases he with rfl | rfl | rfl | rfl <;> simp [EofOnly]
  · simp [crunE, cev, coutcomeX, extendSparse, rangesEnd, crun, cinit, cstep, advance, coutcome, sizeCheckFails,
      gstep, gcomplete, IO.idle, startTasks, blockSize, finish, continuation, endBatchIO, store, writeAt, pwrite]
  · simp [crunE, cev, coutcomeX, extendSparse, rangesEnd, crun, cinit, cstep, advance, coutcome, sizeCheckFails,
      gstep, gcomplete, IO.idle, startTasks, blockSize, finish, continuation, endBatchIO, store, writeAt, pwrite]

/-- **copies of the tree being checked, whatever status the destination answers** ("if any block fails … the
    operation raises"): the hypothesis on EOF statuses is gone — the server is only assumed truthful about the
    *source* bytes it delivers (`TruthfulData`); an EOF status for any block, at any offset, is a failed block.
    Non-sparse: a normal return means destination = the first `total` source bytes; sparse: destination = source
    for every hole layout.  Needs `Gen.C12.writeEofIsError` (stops building if that repair goes away). -/
theorem copy_correct_any_status (src : Bytes) (total bs mr : Nat) (hbs : 1 ≤ bs) (hmr : 1 ≤ mr)
    (evs : List Ev) (htr : ∀ e ∈ evs, TruthfulData src e) (dst : Bytes)
    (hok : coutcome total false (crunE Gen.C12.writeEofIsError bs mr (nonsparseRanges total) evs) = .ok dst) :
    dst = src.take total ∧ total ≤ src.length := by
  have h1 : Gen.C12.writeEofIsError = true := rfl
  rw [h1] at hok
  exact copy_correct_or_error src total bs mr hbs hmr _ (map_cev_truthful src evs htr) dst hok

theorem sparse_copy_exact_any_status (src : Bytes) (ranges : List (Nat × Nat)) (bs mr : Nat)
    (hbs : 1 ≤ bs) (hmr : 1 ≤ mr)
    (hzero : ∀ p, p < src.length → ¬ InRanges ranges p → src[p]? = some 0)
    (hin : ∀ rg ∈ ranges, rg.1 < src.length)
    (evs : List Ev) (htr : ∀ e ∈ evs, TruthfulData src e) (heo : ∀ e ∈ evs, EofOnly src e) (dst : Bytes)
    (hok : coutcomeX Gen.C12.copierExtendsSparse src.length true ranges
      (crunE Gen.C12.writeEofIsError bs mr ranges evs) = .ok dst) :
    dst = src := by
  have h1 : Gen.C12.writeEofIsError = true := rfl
  rw [h1] at hok
  exact sparse_copy_exact src ranges bs mr hbs hmr hzero hin _ (map_cev_truthful src evs htr)
    (map_cev_eofOnly src true evs heo) dst hok

/-- the server-side copy used by `copy()` on one connection (`copy-data`), abstractly: non-sparse, one range
    `(0,total)` with `total > 0` reproduces the first `total` bytes (all of them when `total` is the size). -/
theorem remote_copy_nonsparse (src : Bytes) (total : Nat) (h : 0 < total) :
    remoteCopy src (nonsparseRanges total) = src.take total := by
  have h0 : total ≠ 0 := by omega
  simp only [remoteCopy, nonsparseRanges, List.foldl_cons, List.foldl_nil, copyData, h0, if_false,
    List.drop_zero, pwrite]
  split
  · rename_i he
    simp only [List.isEmpty_iff] at he
    exact he.symm
  · simp [writeAt]

/-! ## the file object's position -/

/-- **fileobj_offsets** ("file read/write of any … offset"): for every sequence of `read`, `write`, `seek`
    (SET/CUR/END) and `tell` calls without explicit `offset=` argument, in append mode or not, in which no call
    raises and no seek goes below zero (and no zero-length write in append mode), results and final position
    are those of a POSIX file position (`_offset = None` standing for "at the end"). -/
theorem fileobj_offsets (ops : List FOp) (w : FWorld) (hwf : WF w)
    (hne : ∀ op ∈ ops, NoExplicit w.obj.appending op)
    (hok : ∀ r ∈ (frun w ops).2, OkRes r) :
    prun (absF w) ops = (absF (frun w ops).1, (frun w ops).2) :=
  frun_sim ops w hwf hne hok

/-- non-vacuity: append-mode file; write, seek back, read, tell -/
theorem fileobj_offsets_example :
    let w : FWorld := ⟨[1, 2, 3], ⟨true, none, 2, 2, 16, true⟩⟩
    let ops := [FOp.write [4, 5] none, .seekSet 1, .read (some 3) none, .tell, .write [6] none, .tell]
    WF w ∧ (frun w ops).2 = [.num 2, .num 1, .bytes [2, 3, 4], .num 4, .num 1, .num 6] ∧
    (frun w ops).1.content = [1, 2, 3, 4, 5, 6] := by
  refine ⟨⟨by simp, by simp⟩, ?_, ?_⟩ <;>
    simp [frun, fstep, effSize, slice, readParallel, readToEnd, pwrite]

end AsyncsshModel.C12
