import AsyncsshModel.Lemmas.SftpAttrs
import AsyncsshModel.Lemmas.SftpClient
import AsyncsshModel.Lemmas.SftpFramed
/-
  C14 — Each SFTP request gets exactly one matching, well-typed reply.
  Property theorems only (helper lemmas live in Lemmas/Sftp*.lean).  All protocol numbers, `_return_types`,
  `_valid_attr_flags`, the handler key sets, the errno chain and the status-code rewrite are the definitions
  regenerated from the source tree in Gen/C14.lean, so every theorem below is re-proved against the current code.
-/
namespace AsyncsshModel.C14
open AsyncsshModel AsyncsshModel.Sftp AsyncsshModel.Gen.C14

/-! ## attributes and names survive encoding and decoding -/

/-- **attrs_roundtrip**, for each of versions 3–6: for EVERY attribute record `a` the version can carry
    (`Carryable v a`, an explicit decidable predicate) `encode` does not raise and `decode v (encode v a) = a`,
    consuming exactly the encoding (whatever bytes follow are left untouched). -/
theorem attrs_roundtrip (v : Nat) (hv : v = 3 ∨ v = 4 ∨ v = 5 ∨ v = 6) (a : Attrs) (h : Carryable v a)
    (rest : Bytes) :
    encode? v a = some (encodeRaw v a) ∧ decode v (encodeRaw v a ++ rest) = .ok (a, rest) := by
  refine ⟨?_, decode_encodeRaw v hv a h rest⟩
  simp [encode?, encodeG?, encodable_of_carryable v hv a h]

/-- the same for directory entries (`SFTPName`): file name, long name (version 3 only) and attributes -/
theorem name_roundtrip (v : Nat) (hv : v = 3 ∨ v = 4 ∨ v = 5 ∨ v = 6) (n : Name) (h : CarryableName v n) :
    ∃ b, encodeName? v n = some b ∧ ∀ rest, decodeName v (b ++ rest) = .ok (n, rest) :=
  name_roundtrip_aux v hv n h

/-- **flags_valid**: for EVERY attribute record (carryable or not) the flags word written by `encode` in
    version `v` has no bit outside `_valid_attr_flags[v]`, i.e. `decode`'s "Unsupported attribute flags" check
    never fires on an encoding produced by the same version; and the word fits 32 bits. -/
theorem flags_valid (v : Nat) (hv : v = 3 ∨ v = 4 ∨ v = 5 ∨ v = 6) (a : Attrs) :
    andNot (encodeFlags v a) (validAttrFlags v) = 0 ∧ encodeFlags v a < 2^32 :=
  ⟨unsupported_enc v hv a, encodeFlags_lt true v a⟩

/-- Witness of defect F16 (repaired by `fix:` commit d57da49): the encoder before the fix wrote the SFTPv6
    allocation-size flag in every version, so a version-3 encoding of `size=10, alloc_size=20` carried flag
    0x400, which version 3 does not define — and the library's own decoder rejected it. -/
theorem flags_valid_false_before_fix :
    andNot (encodeFlagsG false 3 { size := some 10, allocSize := some 20 }) (validAttrFlags 3) = 0x400 ∧
    decode 3 (encodeRawG false 3 { size := some 10, allocSize := some 20 }) = .error (.badFlags 0x400) ∧
    decode 3 (encodeRaw 3 { size := some 10, allocSize := some 20 }) =
      .ok ({ size := some 10 }, []) := by
  decide +kernel

/-- non-vacuity: records with many fields set are carryable in each version -/
theorem carryable_example :
    Carryable 3 { type := 1, size := some 5, uid := some 1000, gid := some 100, permissions := some 0o100644,
                  atime := some 7, mtime := some 8, extended := [([1], [2])] } ∧
    Carryable 4 { type := 2, size := some 5, owner := some [0x75], group := some [0x67], permissions := some 0o755,
                  atime := some 7, atimeNs := some 1, mtime := some (2^40), mtimeNs := some 0, acl := some [] } ∧
    Carryable 5 { type := 9, attribBits := some 1, attribValid := some 3, crtime := some 1 } ∧
    Carryable 6 { type := 200, size := some (2^64 - 1), allocSize := some 4096, ctime := some 5,
                  textHint := some 2, mimeType := some [0xc3, 0xa9], nlink := some 2, untransName := some [0xff] } := by
  decide +kernel

/-- non-vacuity of the round trip on a concrete version-4 record, computed by the kernel -/
theorem attrs_roundtrip_example :
    decode 4 (encodeRaw 4 { type := 1, size := some 300, owner := some [0x72], group := some [0x72],
                            permissions := some 0o644, mtime := some 1700000000, mtimeNs := some 5 } ++ [0xAA]) =
      .ok ({ type := 1, size := some 300, owner := some [0x72], group := some [0x72],
             permissions := some 0o644, mtime := some 1700000000, mtimeNs := some 5 }, [0xAA]) := by
  decide +kernel

/-- what a version cannot carry is *not* claimed to survive: `uid`/`gid` numbers in version 4 come back as
    owner/group strings (so `Carryable 4` excludes them) -/
theorem not_carryable_example :
    ¬ Carryable 4 { uid := some 1, gid := some 2 } ∧
    decode 4 (encodeRaw 4 { uid := some 1, gid := some 2 }) =
      .ok ({ owner := some [0x31], group := some [0x32] }, []) := by
  decide +kernel

/-! ## the server: exactly one reply per request, same id, legal and well-formed type -/

/-- **one_reply_same_id**: for EVERY protocol version value, environment (application outcome, open handles)
    and EVERY packet that carries a type byte and an id, the server's processing yields exactly one reply; it
    carries the request's id; its type is `FXP_STATUS` or the `_return_types` entry of the request's key. -/
theorem one_reply_same_id (v : Nat) (env : Env) (pkt : Bytes) (t id : Nat) (payload : Bytes)
    (hh : header? pkt = some (t, id, payload)) :
    ∃ r, serverStep v env pkt = some r ∧ r.id = id ∧
      (∀ k, requestKey t payload = some k → r.type ∈ legalTypes k) ∧
      (requestKey t payload = none → r.type = FXP_STATUS ∧ r.body = .status FX_BAD_MESSAGE) := by
  refine ⟨processPacket v env t id payload, by simp [serverStep, hh], processPacket_id v env t id payload,
    fun k hk => processPacket_type_legal v env t id payload k hk, fun hk => ?_⟩
  rw [processPacket_no_key v env t id payload hk]
  exact ⟨rfl, rfl⟩

/-- a packet has a type and an id exactly when it is at least 5 bytes long; only shorter packets (which cannot
    be answered, having no id) end the session -/
theorem no_reply_iff_no_id (v : Nat) (env : Env) (pkt : Bytes) :
    serverStep v env pkt = none ↔ pkt.length < 5 := by
  have h := header?_isSome_iff pkt
  unfold serverStep
  cases hh : header? pkt with
  | none => simp [hh] at h; simp; omega
  | some r => obtain ⟨t, id, p⟩ := r; simp [hh] at h; simp; omega

/-- **well-typed**: in versions 3–6 the reply's type always matches the shape of its body
    (STATUS ↔ status code, HANDLE ↔ handle, DATA, NAME, ATTRS, EXTENDED_REPLY) — this uses the consistency of
    the handler grammar with the generated `_return_types` table, checked by the kernel over the table. -/
theorem reply_well_typed (v : Nat) (hv : v ∈ [3, 4, 5, 6]) (env : Env) (t id : Nat) (payload : Bytes) :
    (processPacket v env t id payload).type = bodyType (processPacket v env t id payload).body :=
  processPacket_well_typed v hv env t id payload

/-- every handler key in the code's table has a body grammar in the model (so the model's "unknown grammar"
    branch is dead), and nothing else has one -/
theorem handler_table_modelled :
    (∀ v ∈ [3, 4, 5, 6], (∀ n ∈ serverHandlersNum, (specNum v n).isSome = true) ∧
      (∀ e ∈ serverHandlersExt, (specExt e).isSome = true)) ∧
    (∀ v ∈ [3, 4, 5, 6], ∀ n ∈ List.range 256, (specNum v n).isSome = serverHandlersNum.contains n) :=
  ⟨handlers_modelled, no_spurious_grammar⟩

/-- **bad_request_is_status (unsupported type)**: a request whose key has no handler is answered by
    `FXP_STATUS` with `FX_OP_UNSUPPORTED`, in every version, whatever the environment. -/
theorem unsupported_is_op_unsupported (v : Nat) (env : Env) (t id : Nat) (payload : Bytes) (k : ReqKey)
    (hk : requestKey t payload = some k) (hh : hasHandler k = false) :
    processPacket v env t id payload = ⟨FXP_STATUS, id, .status FX_OP_UNSUPPORTED⟩ := by
  rw [processPacket_no_handler v env t id payload k hk hh]
  have : statusCodeFor codeOnNoHandler v = FX_OP_UNSUPPORTED := by
    simp [statusCodeFor, codeOnNoHandler, FX_OP_UNSUPPORTED, FX_NOT_A_DIRECTORY, FX_V6_END, FX_V3_END, FX_V4_END,
      FX_V5_END]
  rw [this]

/-- **bad_request_is_status (malformed body)**: if the body of a supported request does not parse — too short,
    trailing bytes where the handler checks the end, undefined attribute flags, a MIME type that is not UTF-8 —
    the reply is `FXP_STATUS` with `FX_BAD_MESSAGE` and the request's id; an owner/group name that is not UTF-8
    gives the (version-mapped) owner/group-invalid code.  No application callback is involved. -/
theorem malformed_is_status (v : Nat) (env : Env) (t id : Nat) (payload : Bytes) (k : ReqKey) (sp : Spec)
    (body : Bytes) (e : DecErr) (hk : splitKey t payload = .ok (k, body)) (hh : hasHandler k = true)
    (hs : specOf v k = some sp) (hp : parseBody v sp body = .error e) :
    processPacket v env t id payload = ⟨FXP_STATUS, id, .status (excCode v (decErrExc e))⟩ ∧
    (e ≠ .ownerInvalid → e ≠ .groupInvalid → excCode v (decErrExc e) = FX_BAD_MESSAGE) := by
  refine ⟨processPacket_malformed v env t id payload k sp body e hk hh hs hp, ?_⟩
  intro h1 h2
  cases e <;> simp_all [decErrExc, excCode, codeOnPacketDecodeError, statusCodeFor, FX_BAD_MESSAGE,
    FX_NOT_A_DIRECTORY, FX_V6_END, FX_V3_END, FX_V4_END, FX_V5_END]

/-- which handlers check the end of the packet: in versions 3–5 every handler in the generated table except
    REALPATH, LINK, BLOCK and UNBLOCK (these ignore trailing bytes), and none reads an open-ended string list -/
def strictSpec (v : Nat) (sp : Spec) : Bool :=
  (sp.tail == .always || (sp.tail == .lt6 && decide (v < 6))) && !sp.fields.contains .strs

theorem strict_handlers :
    ∀ v ∈ [3, 4, 5],
      (∀ n ∈ serverHandlersNum, n ∉ [FXP_REALPATH, FXP_LINK, FXP_BLOCK, FXP_UNBLOCK] →
        ((specNum v n).map (strictSpec v)) = some true) ∧
      (∀ e ∈ serverHandlersExt, ((specExt e).map (strictSpec v)) = some true) := by
  decide +kernel

/-- **every truncation**: take ANY request of a supported numeric type whose handler checks the packet end, with
    ANY body the handler accepts (any paths, any attribute flags, any lengths).  Cut the body at ANY point: the
    reply is `FXP_STATUS` / `FX_BAD_MESSAGE` with the request's id — no application callback runs. -/
theorem truncated_request_is_bad_message (v : Nat) (env : Env) (t id : Nat) (sp : Spec) (body p : Bytes)
    (vals : List Val) (ht : t ≠ FXP_EXTENDED) (hh : hasHandler (.num t) = true)
    (hs : specOf v (.num t) = some sp) (hstrict : strictSpec v sp = true)
    (hok : parseBody v sp body = .ok vals) (hp : p <+: body) (hne : p ≠ body) :
    processPacket v env t id p = ⟨FXP_STATUS, id, .status FX_BAD_MESSAGE⟩ := by
  simp only [strictSpec, Bool.and_eq_true, Bool.or_eq_true, beq_iff_eq, decide_eq_true_eq, Bool.not_eq_true',
    List.contains_eq_mem, decide_eq_false_iff_not] at hstrict
  have htr := parseBody_truncated v sp body vals hstrict.1 hstrict.2 hok p hp hne
  have hk : splitKey t p = .ok (.num t, p) := by simp [splitKey, ht]
  rw [(malformed_is_status v env t id p (.num t) sp p .short hk hh hs htr).1]
  rfl

/-- the same for the extended requests (all of which check the packet end in versions 3–5): the packet is
    `String(name) ++ body`, cut anywhere inside the body -/
theorem truncated_extended_request_is_bad_message (v : Nat) (env : Env) (id : Nat) (name : Bytes) (sp : Spec)
    (body p : Bytes) (vals : List Val) (hn : name.length < 2^32) (hh : hasHandler (.ext name) = true)
    (hs : specOf v (.ext name) = some sp) (hstrict : strictSpec v sp = true)
    (hok : parseBody v sp body = .ok vals) (hp : p <+: body) (hne : p ≠ body) :
    processPacket v env FXP_EXTENDED id (putStr name ++ p) = ⟨FXP_STATUS, id, .status FX_BAD_MESSAGE⟩ := by
  simp only [strictSpec, Bool.and_eq_true, Bool.or_eq_true, beq_iff_eq, decide_eq_true_eq, Bool.not_eq_true',
    List.contains_eq_mem, decide_eq_false_iff_not] at hstrict
  have htr := parseBody_truncated v sp body vals hstrict.1 hstrict.2 hok p hp hne
  have hg : ∀ r, getStr (putStr name ++ r) = .ok (name, r) := fun r => getStr_putStr name r hn
  have hk : splitKey FXP_EXTENDED (putStr name ++ p) = .ok (.ext name, p) := by
    simp only [splitKey, if_true, hg]
  rw [(malformed_is_status v env FXP_EXTENDED id (putStr name ++ p) (.ext name) sp p .short hk hh hs htr).1]
  rfl

/-- **the session continues**: over a whole sequence of requests that each carry an id, the server emits one
    reply per request, in order, with the same ids — whatever each request contains and whatever the
    application does. -/
theorem session_continues (v : Nat) (reqs : List (Bytes × Env)) (h : ∀ r ∈ reqs, 5 ≤ r.1.length) :
    (serverRun v reqs).map (·.id) = reqs.map (fun r => ((header? r.1).map (·.2.1)).getD 0) := by
  induction reqs with
  | nil => rfl
  | cons r rs ih =>
    have h5 := h r (by simp)
    have hs := (header?_isSome_iff r.1).mpr h5
    obtain ⟨⟨t, id, payload⟩, hh⟩ := Option.isSome_iff_exists.mp hs
    simp only [serverRun, serverStep, hh, List.map_cons, Option.map_some, Option.getD_some]
    rw [ih (fun r' hr' => h r' (by simp [hr'])), processPacket_id]

/-- **errno_map** (table equality): the `except OSError` chain translated from the source maps exactly these
    errno values to these status codes … -/
theorem errno_map :
    errnoNames.map (fun p => (p.1, errnoToStatus p.2)) =
      [("ENOENT", FX_NO_SUCH_FILE), ("EACCES", FX_PERMISSION_DENIED), ("EEXIST", FX_FILE_ALREADY_EXISTS),
       ("ENOTDIR", FX_NOT_A_DIRECTORY), ("EISDIR", FX_FILE_IS_A_DIRECTORY), ("EINVAL", FX_INVALID_PARAMETER),
       ("ENOSPC", FX_NO_SPACE_ON_FILESYSTEM), ("EROFS", FX_WRITE_PROTECT), ("ENAMETOOLONG", FX_INVALID_FILENAME),
       ("ENOTEMPTY", FX_DIR_NOT_EMPTY), ("ELOOP", FX_LINK_LOOP), ("EILSEQ", FX_INVALID_FILENAME),
       ("EDQUOT", FX_QUOTA_EXCEEDED)] := by
  decide +kernel

/-- … and EVERY other errno becomes `FX_FAILURE` -/
theorem errno_default (e : Nat) (h : e ∉ errnoNames.map (·.2)) : errnoToStatus e = FX_FAILURE := by
  simp only [errnoNames, List.map_cons, List.map_nil, List.mem_cons, List.not_mem_nil, or_false, not_or] at h
  obtain ⟨h1, h2, h3, h4, h5, h6, h7, h8, h9, h10, h11, h12, h13⟩ := h
  simp [errnoToStatus, *]

/-- the status code actually sent is one the negotiated version defines: for EVERY exception code and EVERY
    version, `SFTPError.encode` sends a code within the version's range (or the code itself if it is beyond the
    version-6 table, i.e. application-defined) -/
theorem status_code_fits_version (code v : Nat) :
    ∀ sent, sent = statusCodeFor code v →
    (v = 3 → sent ≤ FX_V3_END ∨ sent > FX_V6_END) ∧ (v = 4 → sent ≤ FX_V4_END ∨ sent > FX_V6_END) ∧
    (v = 5 → sent ≤ FX_V5_END ∨ sent > FX_V6_END) ∧ (sent ≠ code → sent = FX_FAILURE ∨ sent = FX_NO_SUCH_FILE) := by
  intro sent hs
  unfold statusCodeFor at hs
  by_cases h1 : code = FX_NOT_A_DIRECTORY ∧ v < 6
  · rw [if_pos h1] at hs
    simp only [FX_NOT_A_DIRECTORY, FX_NO_SUCH_FILE, FX_FAILURE, FX_V3_END, FX_V4_END, FX_V5_END, FX_V6_END] at *
    omega
  · rw [if_neg h1] at hs
    by_cases h2 : code ≤ FX_V6_END ∧ (code > FX_V3_END ∧ v ≤ 3 ∨ code > FX_V4_END ∧ v ≤ 4 ∨ code > FX_V5_END ∧ v ≤ 5)
    · rw [if_pos h2] at hs
      simp only [FX_NOT_A_DIRECTORY, FX_NO_SUCH_FILE, FX_FAILURE, FX_V3_END, FX_V4_END, FX_V5_END, FX_V6_END] at *
      omega
    · rw [if_neg h2] at hs
      simp only [FX_NOT_A_DIRECTORY, FX_NO_SUCH_FILE, FX_FAILURE, FX_V3_END, FX_V4_END, FX_V5_END, FX_V6_END] at *
      omega

/-- local errors map to the documented codes, whatever the version: an `OSError(errno)` raised by the
    application is answered by one `FXP_STATUS` whose code is the errno's code, rewritten for the version -/
theorem oserror_reply_code (v e : Nat) : excCode v (.os e) = statusCodeFor (errnoToStatus e) v := rfl

/-- the server's reply always passes the client's reply-type check for the same request key -/
theorem server_reply_accepted_by_client (v : Nat) (env : Env) (t id : Nat) (payload : Bytes) (k : ReqKey)
    (hk : requestKey t payload = some k) :
    let r := processPacket v env t id payload
    ¬ (r.type ≠ FXP_STATUS ∧ some r.type ≠ returnType? k) := by
  intro r
  have := processPacket_type_legal v env t id payload k hk
  simp only [legalTypes, List.mem_cons, Option.mem_toList] at this
  rcases this with h | h
  · simp [r, h]
  · simp [r, h]

/-- non-vacuity: concrete requests in version 3 — REMOVE of "/a" answered OK; the same body cut by one byte
    answered BAD_MESSAGE with the same id; an unknown packet type answered OP_UNSUPPORTED; STAT returning
    attributes; `ENOTDIR` from the application reported as NO_SUCH_FILE below version 6. -/
theorem server_example :
    let env : Env := { files := [], dirs := [], fresh := [0, 0, 0, 0], app := .unit }
    serverStep 3 env [13, 0, 0, 0, 7, 0, 0, 0, 2, 0x2f, 0x61] = some ⟨FXP_STATUS, 7, .status FX_OK⟩ ∧
    serverStep 3 env [13, 0, 0, 0, 7, 0, 0, 0, 2, 0x2f] = some ⟨FXP_STATUS, 7, .status FX_BAD_MESSAGE⟩ ∧
    serverStep 3 env [99, 0, 0, 0, 8, 1, 2, 3] = some ⟨FXP_STATUS, 8, .status FX_OP_UNSUPPORTED⟩ ∧
    serverStep 3 { env with app := .attrs { size := some 5 } } [17, 0, 0, 0, 9, 0, 0, 0, 2, 0x2f, 0x61] =
      some ⟨FXP_ATTRS, 9, .attrs [0, 0, 0, 1, 0, 0, 0, 0, 0, 0, 0, 5]⟩ ∧
    serverStep 5 { env with app := .raise (.os E_ENOTDIR) } [15, 0, 0, 0, 9, 0, 0, 0, 2, 0x2f, 0x61] =
      some ⟨FXP_STATUS, 9, .status FX_NO_SUCH_FILE⟩ ∧
    serverStep 3 env [13, 0, 0] = none := by
  decide +kernel

/-! ## the client: every caller gets the reply to its own request -/

/-- **client_demux**: `k` callers issue requests on a fresh handler (they get ids `0 … k-1`); then replies for
    those ids arrive in ANY order (`ids` is any permutation of `0 … k-1`, each with an arbitrary type and
    payload).  Every reply is handed to exactly the caller that issued the request with that id, nothing else
    is emitted, and the waiter table ends empty. -/
theorem client_demux (callers : List Nat) (replies : List (Nat × Nat × Bytes))
    (hk : callers.length < 2^32) (ht : ∀ r ∈ replies, r.1 < 256)
    (hperm : (replies.map (·.2.1)).Perm (List.range callers.length)) :
    clientRun {} (callers.map .request ++ replies.map fun r => .packet (replyPkt r.1 r.2.1 r.2.2)) =
      ({ nextId := callers.length, table := [], isOpen := true },
       (numbered 0 callers).map (fun p => .sent p.2 p.1) ++
       replies.map fun r => .deliver (callers.getD r.2.1 0) r.1 r.2.2) := by
  have hmem : ∀ r ∈ replies, r.2.1 < callers.length := by
    intro r hr
    have : r.2.1 ∈ List.range callers.length :=
      hperm.mem_iff.mp (List.mem_map_of_mem (f := fun (r : Nat × Nat × Bytes) => r.2.1) hr)
    simpa using this
  have hnd : (replies.map (·.2.1)).Nodup := hperm.nodup_iff.mpr List.nodup_range
  rw [clientRun_append]
  have hreq := run_requests callers {} rfl (by simp) (by simpa using hk)
  simp only [hreq]
  have hlook : ∀ i, i < callers.length → (numbered 0 callers).lookup i = callers[i]? := by
    intro i hi
    have := lookup_numbered 0 callers i hi
    simpa using this
  have hrep := run_replies replies
    { nextId := 0 + callers.length, table := [] ++ numbered 0 callers, isOpen := true } rfl
    (fun r hr => ⟨ht r hr, Nat.lt_trans (hmem r hr) hk⟩) hnd
    (fun r hr => by
      simp only [List.nil_append]
      rw [hlook _ (hmem r hr)]
      simp [hmem r hr])
  simp only [List.nil_append, Nat.zero_add] at hrep ⊢
  rw [hrep]
  refine Prod.ext ?_ ?_
  · simp only [CState.mk.injEq, true_and, and_true]
    rw [List.filter_eq_nil_iff]
    intro p hp
    have hb := numbered_keys_ge 0 callers p hp
    have : p.1 ∈ replies.map (·.2.1) := hperm.mem_iff.mpr (by simp; omega)
    simp [this]
  · simp only [List.append_cancel_left_eq]
    rw [List.map_inj_left]
    intro r hr
    rw [hlook _ (hmem r hr)]
    simp [List.getD, hmem r hr]

/-- **unknown id**: a reply whose id is not in the waiter table (never issued, or already answered) makes the
    handler clean up: EVERY waiting caller receives `SFTPBadMessage`, the table is emptied, the channel closed —
    nobody is left waiting. -/
theorem unknown_id_fails_all (s : CState) (t id : Nat) (payload : Bytes) (ho : s.isOpen = true)
    (ht : t < 256) (hid : id < 2^32) (hl : s.table.lookup id = none) :
    clientStep s (.packet (replyPkt t id payload)) =
      ({ s with table := [], isOpen := false },
       s.table.map (fun p => COut.fail p.2 .badMessage) ++ [COut.closed]) := by
  rw [step_reply_unknown s t id payload ho ht hid hl]; rfl

/-- **duplicate id**: the second reply carrying an id is an unknown id — the first is delivered to its caller,
    the second fails every caller still waiting (and only those). -/
theorem duplicate_reply_fails_rest (s : CState) (t t' id c : Nat) (p p' : Bytes) (ho : s.isOpen = true)
    (ht : t < 256) (ht' : t' < 256) (hid : id < 2^32) (hl : s.table.lookup id = some c) :
    clientRun s [.packet (replyPkt t id p), .packet (replyPkt t' id p')] =
      ({ s with table := [], isOpen := false },
       [COut.deliver c t p] ++ (s.table.filter fun q => q.1 != id).map (fun q => COut.fail q.2 .badMessage) ++
         [COut.closed]) := by
  have hnone : (s.table.filter fun q => q.1 != id).lookup id = none := by
    induction s.table with
    | nil => rfl
    | cons q l ih =>
      by_cases hq : q.1 = id
      · simp [List.filter, hq, ih]
      · have : (q.1 != id) = true := by simp [hq]
        have hne : (id == q.1) = false := by simp; omega
        simp only [List.filter, this, List.lookup, hne]
        exact ih
  simp only [clientRun]
  rw [step_reply_known s t id c p ho ht hid hl]
  simp only
  rw [step_reply_unknown { s with table := s.table.filter fun q => q.1 != id } t' id p' ho ht' hid hnone]
  simp [cleanup]

/-- a packet too short to carry a type and an id, or the end of the channel, likewise fails every waiter
    (with `SFTPBadMessage`, resp. `SFTPConnectionLost`) and closes; afterwards nothing is processed any more. -/
theorem short_packet_or_eof_fails_all (s : CState) (ho : s.isOpen = true) (pkt : Bytes) (hs : pkt.length < 5) :
    clientStep s (.packet pkt) =
      ({ s with table := [], isOpen := false }, s.table.map (fun p => COut.fail p.2 .badMessage) ++ [COut.closed]) ∧
    clientStep s .eof =
      ({ s with table := [], isOpen := false },
       s.table.map (fun p => COut.fail p.2 .connectionLost) ++ [COut.closed]) ∧
    (∀ s' : CState, s'.isOpen = false → ∀ q, clientStep s' (.packet q) = (s', []) ∧ clientStep s' .eof = (s', [])) := by
  have hh : header? pkt = none := by
    have := header?_isSome_iff pkt
    cases h : header? pkt with
    | none => rfl
    | some r => simp [h] at this; omega
  refine ⟨by simp [clientStep, ho, hh, cleanup], by simp [clientStep, ho, cleanup], ?_⟩
  intro s' hs' q
  simp [clientStep, hs']

/-- **wrong reply type**: a reply whose type is neither `FXP_STATUS` nor the request's `_return_types` entry is
    `SFTPBadMessage` for the caller it is addressed to — and, by `client_demux`, it reaches only that caller. -/
theorem wrong_type_is_bad_message (v : Nat) (k : ReqKey) (type : Nat) (payload : Bytes)
    (h : type ∉ legalTypes k) : finish v k type payload = .badMessage := by
  simp only [legalTypes, List.mem_cons, Option.mem_toList, not_or] at h
  unfold finish
  have h2 : some type ≠ returnType? k := fun hc => h.2 hc.symm
  simp [h.1, h2]

/-- `FX_OK` where a handle/data/name/attrs reply is required is an error for that caller, too -/
theorem ok_status_for_typed_request (v : Nat) (k : ReqKey) (rt : Nat) (hr : returnType? k = some rt) :
    finish v k FXP_STATUS (putU32 FX_OK) = .badMessage := by
  have h0 : putU32 FX_OK = [0, 0, 0, 0] := by decide
  have h1 : parseStatus v [0, 0, 0, 0] = .none := by
    unfold parseStatus
    simp [getU32, FX_OK, endOk]
  unfold finish
  simp only [h0, h1, hr]
  simp

/-- **exactly one answer**: along EVERY event sequence (requests, packets of any content, end of channel, in
    any interleaving) starting from a fresh handler with fewer than 2^32 requests, for every caller:
    answers received + requests still waiting = requests made.  Hence no request is answered twice, and … -/
theorem every_request_accounted (evs : List CEvent) (c : Nat) (hb : nRequests evs < 2^32) :
    answersFor c (clientRun {} evs).2 + pendingFor c (clientRun {} evs).1 = requestsBy c evs := by
  have := (run_inv evs {} c cinv_init (by simpa using hb)).2
  simpa [pendingFor] using this

/-- … once the handler has closed (unknown/duplicate id, short packet, end of channel) every request that was
    made has been answered exactly once: **no caller hangs**. -/
theorem none_hangs_after_close (evs : List CEvent) (c : Nat) (hb : nRequests evs < 2^32)
    (hc : (clientRun {} evs).1.isOpen = false) :
    answersFor c (clientRun {} evs).2 = requestsBy c evs := by
  have h := run_inv evs {} c cinv_init (by simpa using hb)
  have ht := h.1.closed hc
  have := h.2
  simp only [pendingFor, ht] at this
  simpa using this

/-- non-vacuity: three callers (tags 70, 71, 72), replies in the order 2, 0, 1 — and a run where an unknown id
    fails the two callers still waiting. -/
theorem client_demux_example :
    (clientRun {} [.request 70, .request 71, .request 72,
        .packet (replyPkt 105 2 [9]), .packet (replyPkt 101 0 [0, 0, 0, 0]), .packet (replyPkt 102 1 [7])]).2 =
      [.sent 70 0, .sent 71 1, .sent 72 2, .deliver 72 105 [9], .deliver 70 101 [0, 0, 0, 0], .deliver 71 102 [7]] ∧
    (clientRun {} [.request 70, .request 71, .request 72,
        .packet (replyPkt 105 2 [9]), .packet (replyPkt 101 5 [0, 0, 0, 0]), .packet (replyPkt 102 1 [7])]).2 =
      [.sent 70 0, .sent 71 1, .sent 72 2, .deliver 72 105 [9], .fail 70 .badMessage, .fail 71 .badMessage,
       .closed] := by
  decide +kernel

end AsyncsshModel.C14
