import AsyncsshModel.Model.Auth
import AsyncsshModel.Gen.C05
/-
  C05 — Access is granted exactly when a credential check succeeded.
  Theorems quantify over EVERY finite sequence of events: authentication requests (any users, methods,
  credentials, valid or not), completions of the application's `begin_auth` and validator awaitables in any
  order relative to further requests (pipelining), and other messages.
-/
namespace AsyncsshModel.C05
open AsyncsshModel.Auth

/-- which transition function is the faithful model of the source as it is now (flags regenerated from the AST
    of `_process_userauth_request` / `_finish_userauth` on every run) -/
def codeStep (app : App) : St → Ev → St :=
  if Gen.C05.abortsPrevious && Gen.C05.beginTestIsBegun && decide (2 ≤ Gen.C05.staleChecks) &&
      Gen.C05.cancelsSuperseded && Gen.C05.resetsBegunOnReload then step app
  else if Gen.C05.abortsPrevious then stepMid app
  else stepOld app

/-- **The source implements the repaired discipline**: a new request aborts the one in progress and cancels the
    task of the superseded request (so an application `begin_auth` still running for it cannot install that user's
    keys later), superseded `_finish_userauth` tasks stop at both suspension points, `begin_auth` is skipped only for
    the user it completed for, and that user is forgotten once the configuration is reloaded for another request — so the theorems below, stated about `step`/`run`, are about the current code. -/
theorem code_is_repaired (app : App) : codeStep app = step app := by
  unfold codeStep
  simp [Gen.C05.abortsPrevious, Gen.C05.beginTestIsBegun, Gen.C05.staleChecks, Gen.C05.cancelsSuperseded,
    Gen.C05.resetsBegunOnReload]

/-- a credential check for `u` succeeded on this connection, or the application declared that `u` needs none -/
def Granted (app : App) (log : List Call) (u : Nat) : Prop :=
  app.needsAuth u = false ∨ (∃ c, Call.checkPw u c true ∈ log) ∨ (∃ k, Call.checkKey u u k true (some true) ∈ log) ∨
  (∃ c, Call.checkChPw u c true ∈ log) ∨ (∃ c, Call.checkHost u c true true (some true) ∈ log) ∨
  (∃ r, Call.kbd u r .accept ∈ log)

theorem granted_mono (app : App) (log extra : List Call) (u : Nat) (h : Granted app log u) :
    Granted app (log ++ extra) u := by
  rcases h with h | ⟨c, h⟩ | ⟨k, h⟩ | ⟨c, h⟩ | ⟨c, h⟩ | ⟨r, h⟩
  · exact Or.inl h
  · exact Or.inr (Or.inl ⟨c, List.mem_append_left _ h⟩)
  · exact Or.inr (Or.inr (Or.inl ⟨k, List.mem_append_left _ h⟩))
  · exact Or.inr (Or.inr (Or.inr (Or.inl ⟨c, List.mem_append_left _ h⟩)))
  · exact Or.inr (Or.inr (Or.inr (Or.inr (Or.inl ⟨c, List.mem_append_left _ h⟩))))
  · exact Or.inr (Or.inr (Or.inr (Or.inr (Or.inr ⟨r, List.mem_append_left _ h⟩))))

structure Inv (app : App) (s : St) : Prop where
  authUser : ∀ a, s.auth = some a → s.username = some a.user
  taskUser : ∀ t ∈ s.tasks, t.seq = s.seq → s.username = some t.calledUser
  seqs : ∀ t ∈ s.tasks, t.seq ≤ s.seq
  authBegun : ∀ a, s.auth = some a → s.begun = some a.user
  parkedNoAuth : ∀ t ∈ s.tasks, t.seq = s.seq → s.auth = none
  uniq : ∀ t ∈ s.tasks, ∀ t' ∈ s.tasks, t.seq = t'.seq → t.beginIdx = t'.beginIdx
  done : ∀ u, s.complete = some u → Granted app s.log u

theorem inv_init (app : App) : Inv app {} := by
  refine ⟨?_, ?_, ?_, ?_, ?_, ?_, ?_⟩
  · intro a h; cases h
  · intro t h; cases h
  · intro t h; cases h
  · intro a h; cases h
  · intro t h; cases h
  · intro t h; cases h
  · intro u h; cases h

theorem sendSuccess_inv (app : App) (s : St) (h : Inv app s)
    (hg : ∀ u, s.username = some u → Granted app s.log u) : Inv app (sendSuccess s) := by
  unfold sendSuccess
  cases hu : s.username with
  | none => simpa [hu] using h
  | some u =>
    simp only
    refine ⟨?_, ?_, h.seqs, ?_, ?_, h.uniq, ?_⟩
    · intro a ha; cases ha
    · intro t ht hs; rw [← hu]; exact h.taskUser t ht hs
    · intro a ha; cases ha
    · intro t ht hs; rfl
    · intro v hv
      simp only [Option.some.injEq] at hv
      subst hv
      exact hg u hu

theorem sendFailure_inv (app : App) (s : St) (h : Inv app s) : Inv app (sendFailure s) := by
  unfold sendFailure
  exact ⟨(by intro a ha; cases ha), h.taskUser, h.seqs, (by intro a ha; cases ha), (by intro t ht hs; rfl), h.uniq, h.done⟩

theorem createAuth_inv (app : App) (s : St) (r : Req) (h : Inv app s) (hb : s.begun = s.username)
    (hnp : ∀ t ∈ s.tasks, t.seq ≠ s.seq) : Inv app (createAuth app s r) := by
  unfold createAuth
  split
  · exact h
  · split
    · exact h
    · rename_i u hu
      have hnew : ∀ a : AuthObj, a.user = u → Inv app { s with auth := some a, nVal := s.nVal + 1 } := by
        intro a0 ha0
        refine ⟨?_, h.taskUser, h.seqs, ?_, ?_, h.uniq, h.done⟩
        · intro a ha
          simp only [Option.some.injEq] at ha
          subst ha
          rw [ha0]; exact hu
        · intro a ha
          simp only [Option.some.injEq] at ha
          subst ha
          simp only; rw [hb, hu, ha0]
        · intro t ht hs; exact absurd hs (hnp t ht)
      split
      · exact sendFailure_inv app s h
      · exact sendFailure_inv app s h
      · split
        · exact hnew _ rfl
        · apply sendFailure_inv
          exact ⟨h.authUser, h.taskUser, h.seqs, h.authBegun, h.parkedNoAuth, h.uniq,
            fun v hc => granted_mono app _ _ v (h.done v hc)⟩
      · exact hnew _ rfl

theorem afterBegin_inv (app : App) (s : St) (cu : Nat) (r : Req) (h : Inv app s)
    (hcu : s.username = some cu) (hna : s.auth = none) (hnp : ∀ t ∈ s.tasks, t.seq ≠ s.seq) :
    Inv app (afterBegin app s cu r) := by
  unfold afterBegin
  have h' : Inv app { s with begun := some cu } :=
    ⟨h.authUser, h.taskUser, h.seqs, (by intro a ha; simp only at ha; rw [hna] at ha; cases ha),
      h.parkedNoAuth, h.uniq, h.done⟩
  simp only
  split
  · exact createAuth_inv app _ r h' (by simp [hcu]) hnp
  · rename_i hn
    apply sendSuccess_inv app _ h'
    intro u hu
    simp only at hu
    rw [hcu] at hu
    simp only [Option.some.injEq] at hu
    subst hu
    left
    simpa using hn

theorem onReq_inv (app : App) (s : St) (r : Req) (h : Inv app s) : Inv app (onReq app s r) := by
  unfold onReq
  split
  · exact h
  · split
    · split
      · exact ⟨h.authUser, h.taskUser, h.seqs, h.authBegun, h.parkedNoAuth, h.uniq, h.done⟩
      · exact h
    · rename_i hc
      have hcn : s.complete = none := by
        cases hcc : s.complete with
        | none => rfl
        | some v => simp [hcc] at hc
      have hold : ∀ t ∈ s.tasks, t.seq ≠ s.seq + 1 := by
        intro t ht; have := h.seqs t ht; omega
      -- the state after switching the user name and aborting what was in progress
      have h1 : ∀ log nb bg, Inv app { s with username := some r.user, seq := s.seq + 1, auth := none,
                                               log := log, nBegin := nb, begun := bg } := by
        intro log nb bg
        refine ⟨?_, ?_, ?_, ?_, ?_, h.uniq, ?_⟩
        · intro a ha; cases ha
        · intro t ht hs; exact absurd hs (hold t ht)
        · intro t ht
          have := h.seqs t ht
          simp only
          omega
        · intro a ha; cases ha
        · intro t ht hs; rfl
        · intro u hu; simp only at hu; rw [hcn] at hu; cases hu
      simp only
      split
      · split
        · -- asynchronous begin_auth: the task is parked
          have hb := h1 (s.log ++ [Call.begin r.user]) (s.nBegin + 1) none
          refine ⟨hb.authUser, ?_, ?_, hb.authBegun, ?_, ?_, hb.done⟩
          · intro t ht hs
            simp only [List.mem_append, List.mem_singleton] at ht
            rcases ht with ht | rfl
            · exact hb.taskUser t ht hs
            · rfl
          · intro t ht
            simp only [List.mem_append, List.mem_singleton] at ht
            rcases ht with ht | rfl
            · exact hb.seqs t ht
            · exact Nat.le_refl _
          · intro t ht hs; rfl
          · intro t ht t' ht' hs
            simp only [List.mem_append, List.mem_singleton] at ht ht'
            rcases ht with ht | rfl <;> rcases ht' with ht' | rfl
            · exact h.uniq t ht t' ht' hs
            · exact absurd hs (hold t ht)
            · exact absurd hs.symm (hold t' ht')
            · rfl
        · exact afterBegin_inv app _ r.user r (h1 _ _ _) rfl rfl hold
      · rename_i hbeg
        have hbeg' : s.begun = some r.user := by simpa using hbeg
        exact createAuth_inv app _ r (h1 s.log s.nBegin s.begun) hbeg' hold

theorem onBeginDone_inv (app : App) (s : St) (k : Nat) (h : Inv app s) : Inv app (onBeginDone app s k) := by
  unfold onBeginDone
  split
  · exact h
  split
  · exact h
  · rename_i t hf
    have htm : t ∈ s.tasks := List.mem_of_find?_eq_some hf
    have htk : t.beginIdx = k := by simpa using List.find?_some hf
    have h1 : Inv app { s with tasks := s.tasks.filter (·.beginIdx ≠ k) } := by
      refine ⟨h.authUser, ?_, ?_, h.authBegun, ?_, ?_, h.done⟩
      · intro t' ht' hs; exact h.taskUser t' (List.mem_filter.mp ht').1 hs
      · intro t' ht'; exact h.seqs t' (List.mem_filter.mp ht').1
      · intro t' ht' hs; exact h.parkedNoAuth t' (List.mem_filter.mp ht').1 hs
      · intro a ha b hb hs; exact h.uniq a (List.mem_filter.mp ha).1 b (List.mem_filter.mp hb).1 hs
    simp only
    split
    · exact h1
    · rename_i hseq
      have hseq' : t.seq = s.seq := by simpa using hseq
      refine afterBegin_inv app _ t.calledUser t.req h1 (h.taskUser t htm hseq') (h.parkedNoAuth t htm hseq') ?_
      -- no other parked task carries the current sequence number: sequence numbers are unique per request
      intro t' ht' hs'
      have hm := List.mem_filter.mp ht'
      have hidx := h.uniq t' hm.1 t htm (by simp only at hs'; rw [hs', hseq'])
      have : t'.beginIdx ≠ k := by simpa using hm.2
      exact this (hidx.trans htk)

theorem keyCtx_eq (app : App) (s : St) (a : AuthObj) (hb : s.begun = some a.user) : keyCtx app s a = a.user := by
  unfold keyCtx; split <;> simp [hb]

theorem onValDone_inv (app : App) (s : St) (k : Nat) (h : Inv app s) : Inv app (onValDone app s k) := by
  unfold onValDone
  split
  · exact h
  split
  · exact h
  · rename_i a ha
    have hu := h.authUser a ha
    have hctx := keyCtx_eq app s a (h.authBegun a ha)
    split
    · exact h
    · -- the live auth object's validator answered; its user is the connection's user
      have hlog : ∀ extra, Inv app { s with log := s.log ++ extra } := fun extra =>
        ⟨h.authUser, h.taskUser, h.seqs, h.authBegun, h.parkedNoAuth, h.uniq,
          fun u hc => granted_mono app _ _ u (h.done u hc)⟩
      -- the object stays installed, no longer awaiting (PK_OK, PASSWD_CHANGEREQ, INFO_REQUEST sent)
      have hstay : ∀ (extra : List Call) (out : List Reply),
          Inv app { s with log := s.log ++ extra, out := out, auth := some { a with awaiting := false } } := by
        intro extra out
        have hb := hlog extra
        refine ⟨?_, hb.taskUser, hb.seqs, ?_, ?_, hb.uniq, hb.done⟩
        · intro a' ha'
          simp only [Option.some.injEq] at ha'
          subst ha'
          exact hu
        · intro a' ha'
          simp only [Option.some.injEq] at ha'
          subst ha'
          exact h.authBegun a ha
        · intro t ht hs
          have := h.parkedNoAuth t ht hs
          rw [ha] at this; cases this
      -- success is justified by a record for the connection's user
      have hsucc : ∀ (extra : List Call), Granted app (s.log ++ extra) a.user →
          Inv app (sendSuccess { s with log := s.log ++ extra }) := by
        intro extra hg
        apply sendSuccess_inv app _ (hlog _)
        intro u huu
        simp only at huu
        rw [hu] at huu
        simp only [Option.some.injEq] at huu
        subst huu
        exact hg
      split
      · -- password
        split
        · have := hstay [] (s.out ++ [.changeReq])
          simpa using this
        · dsimp only
          split
          · rename_i hok
            apply hsucc
            right; left
            exact ⟨a.req.cred, by simp [hok]⟩
          · exact sendFailure_inv app _ (hlog _)
      · -- password change
        split
        · have := hstay [] (s.out ++ [.changeReq])
          simpa using this
        · dsimp only
          split
          · rename_i hok
            apply hsucc
            right; right; right; left
            exact ⟨a.req.cred, by simp [hok]⟩
          · exact sendFailure_inv app _ (hlog _)
      · -- hostbased
        rename_i sigOK _
        dsimp only
        split
        · rename_i hok
          have hok' : (app.hostKeyOK a.req.cred = true ∧ sigOK = true) ∧ app.hostUserOK a.user a.req.cred = true := by
            simpa using hok
          apply hsucc
          right; right; right; right; left
          refine ⟨a.req.cred, ?_⟩
          simp [hok'.1.1, hok'.1.2, hok'.2]
        · exact sendFailure_inv app _ (hlog _)
      · -- keyboard-interactive
        dsimp only
        split
        · rename_i hans
          apply hsucc
          right; right; right; right; right
          exact ⟨a.resp, by simp [hans]⟩
        · exact sendFailure_inv app _ (hlog _)
        · exact hstay _ _
      · -- publickey probe
        dsimp only
        split
        · exact hstay _ _
        · exact sendFailure_inv app _ (hlog _)
      · -- publickey with signature
        rename_i sigOK _
        dsimp only
        split
        · rename_i hok
          have hok' : app.keyOK (keyCtx app s a) a.req.cred = true ∧ sigOK = true := by simpa using hok
          apply hsucc
          right; right; left
          refine ⟨a.req.cred, ?_⟩
          rw [hctx] at hok' ⊢
          simp [hok'.1, hok'.2]
        · exact sendFailure_inv app _ (hlog _)
      · exact h

theorem onInfo_inv (app : App) (s : St) (c : Nat) (h : Inv app s) : Inv app (onInfo s c) := by
  unfold onInfo
  split
  · exact h
  · split
    · exact ⟨h.authUser, h.taskUser, h.seqs, h.authBegun, h.parkedNoAuth, h.uniq, h.done⟩
    · rename_i a ha
      split
      · refine ⟨?_, h.taskUser, h.seqs, ?_, ?_, h.uniq, h.done⟩
        · intro a' ha'
          simp only [Option.some.injEq] at ha'
          subst ha'
          exact h.authUser a ha
        · intro a' ha'
          simp only [Option.some.injEq] at ha'
          subst ha'
          exact h.authBegun a ha
        · intro t ht hs
          have := h.parkedNoAuth t ht hs
          rw [ha] at this; cases this
      · exact ⟨h.authUser, h.taskUser, h.seqs, h.authBegun, h.parkedNoAuth, h.uniq, h.done⟩

theorem onAuthMsg_inv (app : App) (s : St) (h : Inv app s) : Inv app (onAuthMsg s) := by
  unfold onAuthMsg
  split
  · exact h
  · split
    · exact ⟨h.authUser, h.taskUser, h.seqs, h.authBegun, h.parkedNoAuth, h.uniq, h.done⟩
    · exact ⟨h.authUser, h.taskUser, h.seqs, h.authBegun, h.parkedNoAuth, h.uniq, h.done⟩

theorem step_inv (app : App) (s : St) (ev : Ev) (h : Inv app s) : Inv app (step app s ev) := by
  cases ev with
  | req r => exact onReq_inv app s r h
  | beginDone k => exact onBeginDone_inv app s k h
  | valDone k => exact onValDone_inv app s k h
  | other =>
    simp only [step]
    split
    · exact ⟨h.authUser, h.taskUser, h.seqs, h.authBegun, h.parkedNoAuth, h.uniq, h.done⟩
    · exact ⟨h.authUser, h.taskUser, h.seqs, h.authBegun, h.parkedNoAuth, h.uniq, h.done⟩
  | info c => exact onInfo_inv app s c h
  | authMsg => exact onAuthMsg_inv app s h

/-- **Access is granted only after a successful credential check for that very user**: for EVERY sequence of
    requests and completions — repetition, method switch, user switch, pipelining while the application is still
    deciding — if the connection ends up authenticated as `u` then the application accepted `u`'s password, or
    a key authorised for `u` (checked against `u`'s own authorized keys) verified a signature over this session's
    identifier and that exact request, or the application declared that `u` needs no authentication. -/
theorem run_inv (app : App) (evs : List Ev) (s : St) (hs : Inv app s) : Inv app (evs.foldl (step app) s) := by
  induction evs generalizing s with
  | nil => exact hs
  | cons ev rest ih => exact ih (step app s ev) (step_inv app s ev hs)

theorem auth_sound (app : App) (evs : List Ev) (u : Nat) (h : (run app evs).complete = some u) :
    Granted app (run app evs).log u :=
  (run_inv app evs {} (inv_init app)).done u h

/-- a logged check records the application's own verdict for that user and credential -/
def callHonest (app : App) (c : Call) : Prop :=
  (∀ u cr, c = Call.checkPw u cr true → app.pwOK u cr = true) ∧
  (∀ ctx u k sg, c = Call.checkKey ctx u k true sg → app.keyOK ctx k = true) ∧
  (∀ u cr, c = Call.checkChPw u cr true → app.chpwOK u cr = true) ∧
  (∀ u cr, c = Call.checkHost u cr true true (some true) → app.hostKeyOK cr = true ∧ app.hostUserOK u cr = true) ∧
  (∀ u, c = Call.kbd u none .accept → app.kbdStart u = .accept) ∧
  (∀ u r, c = Call.kbd u (some r) .accept → app.kbdNext u r = .accept)

def LogHonest (app : App) (log : List Call) : Prop := ∀ c ∈ log, callHonest app c

theorem lh_append (app : App) (log : List Call) (c : Call) (h : LogHonest app log) (hc : callHonest app c) :
    LogHonest app (log ++ [c]) := by
  intro d hd
  simp only [List.mem_append, List.mem_singleton] at hd
  rcases hd with hd | rfl
  · exact h d hd
  · exact hc

theorem honest_begin (app : App) (u : Nat) : callHonest app (.begin u) := by
  refine ⟨?_, ?_, ?_, ?_, ?_, ?_⟩ <;> intros <;> rename_i h <;> cases h

theorem honest_checkPw (app : App) (u c : Nat) : callHonest app (.checkPw u c (app.pwOK u c)) := by
  refine ⟨?_, ?_, ?_, ?_, ?_, ?_⟩
  · intro u' c' h
    simp only [Call.checkPw.injEq] at h
    obtain ⟨rfl, rfl, h3⟩ := h
    exact h3
  all_goals intros; rename_i h; cases h

theorem honest_checkKey (app : App) (ctx u k : Nat) (sg : Option Bool) :
    callHonest app (.checkKey ctx u k (app.keyOK ctx k) sg) := by
  refine ⟨?_, ?_, ?_, ?_, ?_, ?_⟩
  · intros; rename_i h; cases h
  · intro ctx' u' k' sg' h
    simp only [Call.checkKey.injEq] at h
    obtain ⟨rfl, _, rfl, h3, _⟩ := h
    exact h3
  all_goals intros; rename_i h; cases h

theorem honest_checkChPw (app : App) (u c : Nat) : callHonest app (.checkChPw u c (app.chpwOK u c)) := by
  refine ⟨?_, ?_, ?_, ?_, ?_, ?_⟩
  · intros; rename_i h; cases h
  · intros; rename_i h; cases h
  · intro u' c' h
    simp only [Call.checkChPw.injEq] at h
    obtain ⟨rfl, rfl, h3⟩ := h
    exact h3
  all_goals intros; rename_i h; cases h

theorem honest_checkHost (app : App) (u c : Nat) (sg : Bool) (uo : Option Bool)
    (huo : uo = none ∨ uo = some (app.hostUserOK u c)) :
    callHonest app (.checkHost u c (app.hostKeyOK c) sg uo) := by
  refine ⟨?_, ?_, ?_, ?_, ?_, ?_⟩
  · intros; rename_i h; cases h
  · intros; rename_i h; cases h
  · intros; rename_i h; cases h
  · intro u' c' h
    simp only [Call.checkHost.injEq] at h
    obtain ⟨rfl, rfl, h3, _, h5⟩ := h
    rcases huo with h0 | h0
    · rw [h0] at h5; cases h5
    · rw [h0] at h5
      simp only [Option.some.injEq] at h5
      exact ⟨h3, h5⟩
  all_goals intros; rename_i h; cases h

theorem honest_kbd (app : App) (u : Nat) (r : Option Nat) :
    callHonest app (.kbd u r (match r with | none => app.kbdStart u | some c => app.kbdNext u c)) := by
  refine ⟨?_, ?_, ?_, ?_, ?_, ?_⟩
  · intros; rename_i h; cases h
  · intros; rename_i h; cases h
  · intros; rename_i h; cases h
  · intros; rename_i h; cases h
  · intro u' h
    simp only [Call.kbd.injEq] at h
    obtain ⟨rfl, h2, h3⟩ := h
    subst h2
    exact h3
  · intro u' r' h
    simp only [Call.kbd.injEq] at h
    obtain ⟨rfl, h2, h3⟩ := h
    subst h2
    exact h3

theorem sendSuccess_log (s : St) : (sendSuccess s).log = s.log := by
  unfold sendSuccess; split <;> rfl

theorem createAuth_honest (app : App) (s : St) (r : Req) (h : LogHonest app s.log) :
    LogHonest app (createAuth app s r).log := by
  unfold createAuth
  split
  · exact h
  · split
    · exact h
    · split
      · exact h
      · exact h
      · split
        · exact h
        · exact lh_append app _ _ h (honest_checkHost app _ _ _ none (Or.inl rfl))
      · exact h

theorem afterBegin_honest (app : App) (s : St) (cu : Nat) (r : Req) (h : LogHonest app s.log) :
    LogHonest app (afterBegin app s cu r).log := by
  unfold afterBegin
  simp only
  split
  · exact createAuth_honest app _ r h
  · rw [sendSuccess_log]; exact h

theorem step_logHonest (app : App) (s : St) (ev : Ev) (h : LogHonest app s.log) : LogHonest app (step app s ev).log := by
  cases ev with
  | req r =>
    simp only [step, onReq]
    split
    · exact h
    · split
      · split <;> exact h
      · try dsimp only
        split
        · split
          · exact lh_append app _ _ h (honest_begin app r.user)
          · exact afterBegin_honest app _ _ _ (lh_append app _ _ h (honest_begin app r.user))
        · exact createAuth_honest app _ r h
  | beginDone k =>
    simp only [step, onBeginDone]
    split
    · exact h
    split
    · exact h
    · try dsimp only
      split
      · exact h
      · exact afterBegin_honest app _ _ _ h
  | valDone k =>
    simp only [step, onValDone]
    split
    · exact h
    split
    · exact h
    · rename_i a _
      split
      · exact h
      · split
        · -- password
          split
          · exact h
          · try dsimp only
            have hl := lh_append app _ _ h (honest_checkPw app a.user a.req.cred)
            split
            · rw [sendSuccess_log]; exact hl
            · exact hl
        · -- password change
          split
          · exact h
          · try dsimp only
            have hl := lh_append app _ _ h (honest_checkChPw app a.user a.req.cred)
            split
            · rw [sendSuccess_log]; exact hl
            · exact hl
        · -- hostbased
          rename_i sigOK _
          try dsimp only
          have hl := lh_append app _ _ h (honest_checkHost app a.user a.req.cred sigOK _ (Or.inr rfl))
          split
          · rw [sendSuccess_log]; exact hl
          · exact hl
        · -- keyboard-interactive
          try dsimp only
          have hl := lh_append app _ _ h (honest_kbd app a.user a.resp)
          split
          · rw [sendSuccess_log]; exact hl
          · exact hl
          · exact hl
        · -- publickey probe
          try dsimp only
          have hl := lh_append app _ _ h (honest_checkKey app (keyCtx app s a) a.user a.req.cred none)
          split
          · exact hl
          · exact hl
        · -- publickey with signature
          rename_i sigOK _
          try dsimp only
          have hl := lh_append app _ _ h (honest_checkKey app (keyCtx app s a) a.user a.req.cred (some sigOK))
          split
          · rw [sendSuccess_log]; exact hl
          · exact hl
        · exact h
  | other =>
    simp only [step]
    split <;> exact h
  | info c =>
    simp only [step, onInfo]
    split
    · exact h
    · split
      · exact h
      · split <;> exact h
  | authMsg =>
    simp only [step, onAuthMsg]
    split
    · exact h
    · split <;> exact h

theorem run_logHonest (app : App) (evs : List Ev) : LogHonest app (run app evs).log := by
  have : ∀ s : St, LogHonest app s.log → LogHonest app (evs.foldl (step app) s).log := by
    induction evs with
    | nil => intro s hs; exact hs
    | cons ev rest ih => intro s hs; exact ih _ (step_logHonest app s ev hs)
  exact this {} (by intro c hc; cases hc)

/-- **No repetition, interleaving, pipelining, or switch of method or user name grants access otherwise**: if
    the application needs authentication for `u` and accepts no password and no key for `u`, then NO sequence
    of events whatsoever leaves the connection authenticated as `u`. -/
theorem no_grant_by_sequencing (app : App) (evs : List Ev) (u : Nat) (hn : app.needsAuth u = true)
    (hpw : ∀ c, app.pwOK u c = false) (hkey : ∀ k, app.keyOK u k = false)
    (hch : ∀ c, app.chpwOK u c = false) (hhost : ∀ c, app.hostUserOK u c = false)
    (hk0 : app.kbdStart u ≠ .accept) (hk1 : ∀ r, app.kbdNext u r ≠ .accept) :
    (run app evs).complete ≠ some u := by
  intro h
  have hl := run_logHonest app evs
  rcases auth_sound app evs u h with hg | ⟨c, hg⟩ | ⟨k, hg⟩ | ⟨c, hg⟩ | ⟨c, hg⟩ | ⟨r, hg⟩
  · rw [hn] at hg; cases hg
  · have := (hl _ hg).1 u c rfl; rw [hpw c] at this; cases this
  · have := (hl _ hg).2.1 u u k _ rfl; rw [hkey k] at this; cases this
  · have := (hl _ hg).2.2.1 u c rfl; rw [hch c] at this; cases this
  · have := ((hl _ hg).2.2.2.1 u c rfl).2; rw [hhost c] at this; cases this
  · cases r with
    | none => exact hk0 ((hl _ hg).2.2.2.2.1 u rfl)
    | some r => exact hk1 r ((hl _ hg).2.2.2.2.2 u r rfl)

/-- a signature that does not verify over this session's identifier and this exact request (wrong session id,
    wrong user, wrong service, wrong key) never grants access, even for an authorised key -/
theorem bad_signature_never_grants (app : App) (s : St) (k : Nat) (a : AuthObj) (hauth : s.auth = some a)
    (hopen : s.closed = false) (hm : a.req.method = .pkSig false) (hk : a.valIdx = k) (ha : a.awaiting = true) :
    (onValDone app s k).complete = s.complete ∧ (onValDone app s k).out = s.out ++ [.failure] := by
  unfold onValDone
  simp only [hauth, hk, ha, hm, hopen]
  simp [sendFailure]

/-- **Later authentication requests are ignored after success until another message arrives, then fatal.** -/
theorem post_auth_requests (app : App) (s : St) (r : Req) (u : Nat) (hc : s.complete = some u) (hcl : s.closed = false) :
    (s.final = false → onReq app s r = s) ∧ (s.final = true → (onReq app s r).closed = true ∧ (onReq app s r).complete = some u) := by
  unfold onReq
  simp [hc, hcl]
  constructor
  · intro hf; simp [hf]
  · intro hf; simp [hf, hc]

/-- **Conversely, a client presenting a valid credential is admitted**: a request whose password the
    application accepts (or whose authorised key signs this request), processed without interference, ends
    with the connection authenticated as that user — with synchronous or asynchronous `begin_auth`. -/
theorem client_admitted (app : App) (u c : Nat) (hn : app.needsAuth u = true) :
    (app.pwOK u c = true → app.pwExpired u c = false →
      (run app [.req ⟨u, .password, c⟩, .beginDone 0, .valDone 0]).complete = some u) ∧
    (app.keyOK u c = true →
      (run app [.req ⟨u, .pkProbe, c⟩, .beginDone 0, .valDone 0, .req ⟨u, .pkSig true, c⟩, .valDone 1]).complete = some u) ∧
    (app.chpwOK u c = true → app.chpwExpired u c = false →
      (run app [.req ⟨u, .pwChange, c⟩, .beginDone 0, .valDone 0]).complete = some u) ∧
    (app.hostKeyOK c = true → app.hostUserOK u c = true →
      (run app [.req ⟨u, .hostSig true, c⟩, .beginDone 0, .valDone 0]).complete = some u) ∧
    (app.kbdStart u = .challenge → app.kbdNext u c = .accept →
      (run app [.req ⟨u, .kbdint, 0⟩, .beginDone 0, .valDone 0, .info c, .valDone 1]).complete = some u) := by
  refine ⟨?_, ?_, ?_, ?_, ?_⟩
  · intro hp he
    cases hb : app.beginAsync <;>
      simp [run, step, onReq, onBeginDone, onValDone, afterBegin, createAuth, sendSuccess, hn, hp, he, hb]
  · intro hk
    cases hb : app.beginAsync <;> cases hp : app.perUserKeys <;>
      simp [run, step, onReq, onBeginDone, onValDone, afterBegin, createAuth, sendSuccess, keyCtx, hn, hk, hb, hp]
  · intro hp he
    cases hb : app.beginAsync <;>
      simp [run, step, onReq, onBeginDone, onValDone, afterBegin, createAuth, sendSuccess, hn, hp, he, hb]
  · intro hk hu
    cases hb : app.beginAsync <;>
      simp [run, step, onReq, onBeginDone, onValDone, afterBegin, createAuth, sendSuccess, hn, hk, hu, hb]
  · intro h0 h1
    cases hb : app.beginAsync <;>
      simp [run, step, onReq, onBeginDone, onValDone, onInfo, afterBegin, createAuth, sendSuccess, hn, h0, h1, hb]

/-- a hostbased request whose signature does not verify, or whose host key is not trusted, is refused before the
    application is even asked about the user -/
theorem bad_host_signature_never_grants (app : App) (s : St) (u c : Nat) (sg : Bool)
    (hu : s.username = some u) (hc : s.complete = none) (hbad : (app.hostKeyOK c && sg) = false) :
    (createAuth app s ⟨u, .hostSig sg, c⟩).complete = none ∧ (createAuth app s ⟨u, .hostSig sg, c⟩).auth = none ∧
    (createAuth app s ⟨u, .hostSig sg, c⟩).out = s.out ++ [.failure] := by
  simp [createAuth, hu, hc, hbad, sendFailure]

/-- a method-specific message cannot complete authentication by itself: it either starts the validation of a
    keyboard-interactive response (the application then decides), is answered UNIMPLEMENTED, or — with no
    authentication in progress — ends the connection -/
theorem info_never_grants (s : St) (c : Nat) : (onInfo s c).complete = s.complete ∧ (onAuthMsg s).complete = s.complete := by
  unfold onInfo onAuthMsg
  constructor
  · split
    · rfl
    · split
      · rfl
      · split <;> rfl
  · split
    · rfl
    · split <;> rfl

/-! ### the defect the repair removed (F1), as a machine-checked witness about the pre-fix transition function -/

def witnessApp : App :=
  { needsAuth := fun _ => true, beginAsync := true,
    pwOK := fun u c => u == 1 && c == 7,          -- only mallory (1) has a password, 7
    keyOK := fun _ _ => false, perUserKeys := false }

/-- Pre-fix code: mallory (user 1) sends her own valid password; while the application is still validating it
    she pipelines a request naming alice (user 2); the validator's late answer then authenticates the connection
    as ALICE, for whom no check ever succeeded.  The repaired transition function, on the same events, does not. -/
theorem old_code_user_switch_witness :
    let evs := [Ev.req ⟨1, .password, 7⟩, .beginDone 0, .req ⟨2, .none, 0⟩, .valDone 0]
    (runOld witnessApp evs).complete = some 2 ∧
    ¬ Granted witnessApp (runOld witnessApp evs).log 2 ∧
    (run witnessApp evs).complete = none := by
  have hlog : (runOld witnessApp [Ev.req ⟨1, .password, 7⟩, .beginDone 0, .req ⟨2, .none, 0⟩, .valDone 0]).log =
      [Call.begin 1, Call.begin 2, Call.checkPw 1 7 true] := by decide
  refine ⟨by decide, ?_, by decide⟩
  intro h
  rw [hlog] at h
  rcases h with h | ⟨c, h⟩ | ⟨k, h⟩ | ⟨c, h⟩ | ⟨c, h⟩ | ⟨r, h⟩
  · simp [witnessApp] at h
  · simp at h
  · simp at h
  · simp at h
  · simp at h
  · simp at h

def witnessApp2 : App :=
  { needsAuth := fun _ => true, beginAsync := true, pwOK := fun _ _ => false,
    keyOK := fun u k => u == k,                    -- user n is authorised for key n only
    perUserKeys := true }

/-- Second form of the defect (found by an independent seeding agent against the first repair): with per-user
    authorized keys installed in `begin_auth`, user 1 makes a request of her own (her keys get installed), then
    pipelines `2/none` and `2/publickey` signed with HER key 1.  The code after the first repair skipped
    `begin_auth(2)` for the third request (same user name as the aborted second one) and checked key 1 against the
    keys still installed for user 1: authenticated as user 2.  The final transition function re-runs `begin_auth`. -/
theorem mid_code_begin_auth_skipped_witness :
    let evs := [Ev.req ⟨1, .pkProbe, 1⟩, .beginDone 0, .valDone 0, .req ⟨2, .none, 0⟩, .req ⟨2, .pkSig true, 1⟩, .valDone 1]
    (runMid witnessApp2 evs).complete = some 2 ∧
    (run witnessApp2 evs).complete = none ∧
    (run witnessApp2 (evs ++ [.beginDone 2, .valDone 2])).complete = none := by
  decide

end AsyncsshModel.C05
