import AsyncsshModel.Model.Auth
import AsyncsshModel.Gen.C05
/-
  C05 — Access is granted exactly when a credential check succeeded.
  Theorems quantify over EVERY finite sequence of events: authentication requests (any users, methods,
  credentials, valid or not), completions of the application's `begin_auth` and validator awaitables in any
  order relative to further requests (pipelining), and other messages.
-/
namespace AsyncsshModel.C05
open AsyncsshModel.Auth

theorem createAuthQ_none (app : App) (s : St) (r : Req) : createAuthQ {} app s r = createAuth app s r := by
  unfold createAuthQ createAuth
  cases hm : r.method <;> simp [keyTrustedQ]

theorem afterBeginQ_none (app : App) (s : St) (cu : Nat) (r : Req) :
    afterBeginQ {} app s cu r = afterBegin app s cu r := by
  unfold afterBeginQ afterBegin
  simp [createAuthQ_none]

theorem onValDoneQ_none (app : App) (s : St) (k : Nat) : onValDoneQ {} app s k = onValDone app s k := by
  unfold onValDoneQ
  split
  · rename_i a ha
    split
    · rename_i sg key hm
      unfold onValDone
      simp [ha, hm, keyTrustedQ]
    · rfl
  · rfl

/-- with no quirk switched on, the parametrised pre-repair transition function IS the current one -/
theorem stepQ_none (app : App) : stepQ {} app = step app := by
  funext s ev
  cases ev with
  | req r => simp [stepQ, step, onReqQ, onReq, afterBeginQ_none, createAuthQ_none]
  | beginDone k => simp [stepQ, step, onBeginDoneQ, onBeginDone, afterBeginQ_none]
  | valDone k => simp [stepQ, step, onValDoneQ_none]
  | other => rfl
  | info c => simp [stepQ, step]
  | authMsg => rfl

/-- the pre-repair behaviours the source still shows (none, when all four repairs are present): read from the AST
    of `_match_known_hosts`, `validate_host_based_auth`, `_ServerKbdIntAuth` and `_process_userauth_request` -/
def codeQuirks : Quirks :=
  { trustedKeysAccumulate := !Gen.C05.trustedKeysPerRequest,
    claimedHostToApp := !Gen.C05.hostUserAskedValidatedHost,
    earlyInfoResponse := !Gen.C05.infoResponseNeedsRequest,
    staleKeyOptions := !Gen.C05.keyOptionsResetPerRequest }

/-- which transition function is the faithful model of the source as it is now (flags regenerated from the AST
    on every run) -/
def codeStep (app : App) : St → Ev → St :=
  if Gen.C05.abortsPrevious && Gen.C05.beginTestIsBegun && decide (2 ≤ Gen.C05.staleChecks) &&
      Gen.C05.cancelsSuperseded && Gen.C05.resetsBegunOnReload then stepQ codeQuirks app
  else if Gen.C05.abortsPrevious then stepMid app
  else stepOld app

/-- **The source implements the repaired discipline**: a new request aborts the one in progress and cancels the
    task of the superseded request (so an application `begin_auth` still running for it cannot install that user's
    keys later), superseded `_finish_userauth` tasks stop at both suspension points, `begin_auth` is skipped only for
    the user it completed for, and that user is forgotten once the configuration is reloaded for another request;
    the host keys trusted for a hostbased request are those of the host it names, the application is asked about
    the host the key was validated for, a keyboard-interactive response is only accepted as the answer to an
    INFO_REQUEST, and key options are forgotten at each new request — so the theorems below, stated about
    `step`/`run`, are about the current code. -/
theorem code_is_repaired (app : App) : codeStep app = step app := by
  unfold codeStep codeQuirks
  simp [Gen.C05.abortsPrevious, Gen.C05.beginTestIsBegun, Gen.C05.staleChecks, Gen.C05.cancelsSuperseded,
    Gen.C05.resetsBegunOnReload, Gen.C05.trustedKeysPerRequest, Gen.C05.hostUserAskedValidatedHost,
    Gen.C05.infoResponseNeedsRequest, Gen.C05.keyOptionsResetPerRequest]
  exact stepQ_none app

/-- a credential check for `u` succeeded on this connection, or the application declared that `u` needs none -/
def Granted (app : App) (log : List Call) (u : Nat) : Prop :=
  app.needsAuth u = false ∨ (∃ c, Call.checkPw u c true ∈ log) ∨ (∃ k, Call.checkKey u u k true (some true) ∈ log) ∨
  (∃ c, Call.checkChPw u c true ∈ log) ∨ (∃ h k, Call.checkHost u h h k true true (some true) ∈ log) ∨
  (∃ r, Call.kbd u r .accept ∈ log)

theorem granted_mono (app : App) (log extra : List Call) (u : Nat) (h : Granted app log u) :
    Granted app (log ++ extra) u := by
  rcases h with h | ⟨c, h⟩ | ⟨k, h⟩ | ⟨c, h⟩ | ⟨c, k, h⟩ | ⟨r, h⟩
  · exact Or.inl h
  · exact Or.inr (Or.inl ⟨c, List.mem_append_left _ h⟩)
  · exact Or.inr (Or.inr (Or.inl ⟨k, List.mem_append_left _ h⟩))
  · exact Or.inr (Or.inr (Or.inr (Or.inl ⟨c, List.mem_append_left _ h⟩)))
  · exact Or.inr (Or.inr (Or.inr (Or.inr (Or.inl ⟨c, k, List.mem_append_left _ h⟩))))
  · exact Or.inr (Or.inr (Or.inr (Or.inr (Or.inr ⟨r, List.mem_append_left _ h⟩))))

structure Inv (app : App) (s : St) : Prop where
  authUser : ∀ a, s.auth = some a → s.username = some a.user
  taskUser : ∀ t ∈ s.tasks, t.seq = s.seq → s.username = some t.calledUser
  seqs : ∀ t ∈ s.tasks, t.seq ≤ s.seq
  authBegun : ∀ a, s.auth = some a → s.begun = some a.user
  parkedNoAuth : ∀ t ∈ s.tasks, t.seq = s.seq → s.auth = none
  uniq : ∀ t ∈ s.tasks, ∀ t' ∈ s.tasks, t.seq = t'.seq → t.beginIdx = t'.beginIdx
  done : ∀ u, s.complete = some u → Granted app s.log u

theorem inv_init (app : App) : Inv app {} := by
  refine ⟨?_, ?_, ?_, ?_, ?_, ?_, ?_⟩
  · intro a h; cases h
  · intro t h; cases h
  · intro t h; cases h
  · intro a h; cases h
  · intro t h; cases h
  · intro t h; cases h
  · intro u h; cases h

theorem sendSuccess_inv (app : App) (s : St) (h : Inv app s)
    (hg : ∀ u, s.username = some u → Granted app s.log u) : Inv app (sendSuccess s) := by
  unfold sendSuccess
  cases hu : s.username with
  | none => simpa [hu] using h
  | some u =>
    simp only
    refine ⟨?_, ?_, h.seqs, ?_, ?_, h.uniq, ?_⟩
    · intro a ha; cases ha
    · intro t ht hs; rw [← hu]; exact h.taskUser t ht hs
    · intro a ha; cases ha
    · intro t ht hs; rfl
    · intro v hv
      simp only [Option.some.injEq] at hv
      subst hv
      exact hg u hu

theorem sendFailure_inv (app : App) (s : St) (h : Inv app s) : Inv app (sendFailure s) := by
  unfold sendFailure
  exact ⟨(by intro a ha; cases ha), h.taskUser, h.seqs, (by intro a ha; cases ha), (by intro t ht hs; rfl), h.uniq, h.done⟩

theorem createAuth_inv (app : App) (s : St) (r : Req) (h : Inv app s) (hb : s.begun = s.username)
    (hnp : ∀ t ∈ s.tasks, t.seq ≠ s.seq) : Inv app (createAuth app s r) := by
  unfold createAuth
  split
  · exact h
  · split
    · exact h
    · rename_i u hu
      have hnew : ∀ a : AuthObj, a.user = u → Inv app { s with auth := some a, nVal := s.nVal + 1 } := by
        intro a0 ha0
        refine ⟨?_, h.taskUser, h.seqs, ?_, ?_, h.uniq, h.done⟩
        · intro a ha
          simp only [Option.some.injEq] at ha
          subst ha
          rw [ha0]; exact hu
        · intro a ha
          simp only [Option.some.injEq] at ha
          subst ha
          simp only; rw [hb, hu, ha0]
        · intro t ht hs; exact absurd hs (hnp t ht)
      split
      · exact sendFailure_inv app s h
      · exact sendFailure_inv app s h
      · split
        · exact hnew _ rfl
        · apply sendFailure_inv
          exact ⟨h.authUser, h.taskUser, h.seqs, h.authBegun, h.parkedNoAuth, h.uniq,
            fun v hc => granted_mono app _ _ v (h.done v hc)⟩
      · exact hnew _ rfl

theorem afterBegin_inv (app : App) (s : St) (cu : Nat) (r : Req) (h : Inv app s)
    (hcu : s.username = some cu) (hna : s.auth = none) (hnp : ∀ t ∈ s.tasks, t.seq ≠ s.seq) :
    Inv app (afterBegin app s cu r) := by
  unfold afterBegin
  have h' : Inv app { s with begun := some cu } :=
    ⟨h.authUser, h.taskUser, h.seqs, (by intro a ha; simp only at ha; rw [hna] at ha; cases ha),
      h.parkedNoAuth, h.uniq, h.done⟩
  simp only
  split
  · exact createAuth_inv app _ r h' (by simp [hcu]) hnp
  · rename_i hn
    apply sendSuccess_inv app _ h'
    intro u hu
    simp only at hu
    rw [hcu] at hu
    simp only [Option.some.injEq] at hu
    subst hu
    left
    simpa using hn

theorem onReq_inv (app : App) (s : St) (r : Req) (h : Inv app s) : Inv app (onReq app s r) := by
  unfold onReq
  split
  · exact h
  · split
    · split
      · exact ⟨h.authUser, h.taskUser, h.seqs, h.authBegun, h.parkedNoAuth, h.uniq, h.done⟩
      · exact h
    · rename_i hc
      have hcn : s.complete = none := by
        cases hcc : s.complete with
        | none => rfl
        | some v => simp [hcc] at hc
      have hold : ∀ t ∈ s.tasks, t.seq ≠ s.seq + 1 := by
        intro t ht; have := h.seqs t ht; omega
      -- the state after switching the user name and aborting what was in progress
      have h1 : ∀ log nb bg, Inv app { s with username := some r.user, seq := s.seq + 1, auth := none,
                                               keyOpts := none, log := log, nBegin := nb, begun := bg } := by
        intro log nb bg
        refine ⟨?_, ?_, ?_, ?_, ?_, h.uniq, ?_⟩
        · intro a ha; cases ha
        · intro t ht hs; exact absurd hs (hold t ht)
        · intro t ht
          have := h.seqs t ht
          simp only
          omega
        · intro a ha; cases ha
        · intro t ht hs; rfl
        · intro u hu; simp only at hu; rw [hcn] at hu; cases hu
      simp only
      split
      · split
        · -- asynchronous begin_auth: the task is parked
          have hb := h1 (s.log ++ [Call.begin r.user]) (s.nBegin + 1) none
          refine ⟨hb.authUser, ?_, ?_, hb.authBegun, ?_, ?_, hb.done⟩
          · intro t ht hs
            simp only [List.mem_append, List.mem_singleton] at ht
            rcases ht with ht | rfl
            · exact hb.taskUser t ht hs
            · rfl
          · intro t ht
            simp only [List.mem_append, List.mem_singleton] at ht
            rcases ht with ht | rfl
            · exact hb.seqs t ht
            · exact Nat.le_refl _
          · intro t ht hs; rfl
          · intro t ht t' ht' hs
            simp only [List.mem_append, List.mem_singleton] at ht ht'
            rcases ht with ht | rfl <;> rcases ht' with ht' | rfl
            · exact h.uniq t ht t' ht' hs
            · exact absurd hs (hold t ht)
            · exact absurd hs.symm (hold t' ht')
            · rfl
        · exact afterBegin_inv app _ r.user r (h1 _ _ _) rfl rfl hold
      · rename_i hbeg
        have hbeg' : s.begun = some r.user := by simpa using hbeg
        exact createAuth_inv app _ r (h1 s.log s.nBegin s.begun) hbeg' hold

theorem onBeginDone_inv (app : App) (s : St) (k : Nat) (h : Inv app s) : Inv app (onBeginDone app s k) := by
  unfold onBeginDone
  split
  · exact h
  split
  · exact h
  · rename_i t hf
    have htm : t ∈ s.tasks := List.mem_of_find?_eq_some hf
    have htk : t.beginIdx = k := by simpa using List.find?_some hf
    have h1 : Inv app { s with tasks := s.tasks.filter (·.beginIdx ≠ k) } := by
      refine ⟨h.authUser, ?_, ?_, h.authBegun, ?_, ?_, h.done⟩
      · intro t' ht' hs; exact h.taskUser t' (List.mem_filter.mp ht').1 hs
      · intro t' ht'; exact h.seqs t' (List.mem_filter.mp ht').1
      · intro t' ht' hs; exact h.parkedNoAuth t' (List.mem_filter.mp ht').1 hs
      · intro a ha b hb hs; exact h.uniq a (List.mem_filter.mp ha).1 b (List.mem_filter.mp hb).1 hs
    simp only
    split
    · exact h1
    · rename_i hseq
      have hseq' : t.seq = s.seq := by simpa using hseq
      refine afterBegin_inv app _ t.calledUser t.req h1 (h.taskUser t htm hseq') (h.parkedNoAuth t htm hseq') ?_
      -- no other parked task carries the current sequence number: sequence numbers are unique per request
      intro t' ht' hs'
      have hm := List.mem_filter.mp ht'
      have hidx := h.uniq t' hm.1 t htm (by simp only at hs'; rw [hs', hseq'])
      have : t'.beginIdx ≠ k := by simpa using hm.2
      exact this (hidx.trans htk)

theorem keyCtx_eq (app : App) (s : St) (a : AuthObj) (hb : s.begun = some a.user) : keyCtx app s a = a.user := by
  unfold keyCtx; split <;> simp [hb]

theorem onValDone_inv (app : App) (s : St) (k : Nat) (h : Inv app s) : Inv app (onValDone app s k) := by
  unfold onValDone
  split
  · exact h
  split
  · exact h
  · rename_i a ha
    have hu := h.authUser a ha
    have hctx := keyCtx_eq app s a (h.authBegun a ha)
    split
    · exact h
    · -- the live auth object's validator answered; its user is the connection's user
      have hlog : ∀ extra ko, Inv app { s with log := s.log ++ extra, keyOpts := ko } := fun extra _ =>
        ⟨h.authUser, h.taskUser, h.seqs, h.authBegun, h.parkedNoAuth, h.uniq,
          fun u hc => granted_mono app _ _ u (h.done u hc)⟩
      -- the object stays installed, no longer awaiting (PK_OK, PASSWD_CHANGEREQ, INFO_REQUEST sent)
      have hstay : ∀ (extra : List Call) (out : List Reply) ko,
          Inv app { s with log := s.log ++ extra, out := out, auth := some { a with awaiting := false },
                           keyOpts := ko } := by
        intro extra out ko
        have hb := hlog extra ko
        refine ⟨?_, hb.taskUser, hb.seqs, ?_, ?_, hb.uniq, hb.done⟩
        · intro a' ha'
          simp only [Option.some.injEq] at ha'
          subst ha'
          exact hu
        · intro a' ha'
          simp only [Option.some.injEq] at ha'
          subst ha'
          exact h.authBegun a ha
        · intro t ht hs
          have := h.parkedNoAuth t ht hs
          rw [ha] at this; cases this
      -- success is justified by a record for the connection's user
      have hsucc : ∀ (extra : List Call) ko, Granted app (s.log ++ extra) a.user →
          Inv app (sendSuccess { s with log := s.log ++ extra, keyOpts := ko }) := by
        intro extra ko hg
        apply sendSuccess_inv app _ (hlog _ _)
        intro u huu
        simp only at huu
        rw [hu] at huu
        simp only [Option.some.injEq] at huu
        subst huu
        exact hg
      split
      · -- password
        split
        · have := hstay [] (s.out ++ [.changeReq]) s.keyOpts
          simpa using this
        · dsimp only
          split
          · rename_i hok
            apply hsucc
            right; left
            exact ⟨a.req.cred, by simp [hok]⟩
          · exact sendFailure_inv app _ (hlog _ _)
      · -- password change
        split
        · have := hstay [] (s.out ++ [.changeReq]) s.keyOpts
          simpa using this
        · dsimp only
          split
          · rename_i hok
            apply hsucc
            right; right; right; left
            exact ⟨a.req.cred, by simp [hok]⟩
          · exact sendFailure_inv app _ (hlog _ _)
      · -- hostbased
        rename_i sigOK key _
        dsimp only
        split
        · rename_i hok
          have hok' : (app.hostKeyOK (effHost app a.req) key = true ∧ sigOK = true) ∧
              app.hostUserOK a.user (effHost app a.req) = true := by
            simpa using hok
          apply hsucc
          right; right; right; right; left
          refine ⟨effHost app a.req, key, ?_⟩
          simp [hok'.1.1, hok'.1.2, hok'.2]
        · exact sendFailure_inv app _ (hlog _ _)
      · -- keyboard-interactive
        dsimp only
        split
        · rename_i hans
          apply hsucc
          right; right; right; right; right
          exact ⟨a.resp, by simp [hans]⟩
        · exact sendFailure_inv app _ (hlog _ _)
        · exact hstay _ _ _
      · -- publickey probe
        dsimp only
        split
        · exact hstay _ _ _
        · exact sendFailure_inv app _ (hlog _ _)
      · -- publickey with signature
        rename_i sigOK _
        dsimp only
        split
        · rename_i hok
          have hok' : app.keyOK (keyCtx app s a) a.req.cred = true ∧ sigOK = true := by simpa using hok
          apply hsucc
          right; right; left
          refine ⟨a.req.cred, ?_⟩
          rw [hctx] at hok' ⊢
          simp [hok'.1, hok'.2]
        · exact sendFailure_inv app _ (hlog _ _)
      · exact h

theorem onInfo_inv (app : App) (s : St) (c : Nat) (h : Inv app s) : Inv app (onInfo s c) := by
  unfold onInfo
  split
  · exact h
  · split
    · exact ⟨h.authUser, h.taskUser, h.seqs, h.authBegun, h.parkedNoAuth, h.uniq, h.done⟩
    · rename_i a ha
      split
      · split
        · -- a response nobody asked for: the connection ends
          exact ⟨h.authUser, h.taskUser, h.seqs, h.authBegun, h.parkedNoAuth, h.uniq, h.done⟩
        · refine ⟨?_, h.taskUser, h.seqs, ?_, ?_, h.uniq, h.done⟩
          · intro a' ha'
            simp only [Option.some.injEq] at ha'
            subst ha'
            exact h.authUser a ha
          · intro a' ha'
            simp only [Option.some.injEq] at ha'
            subst ha'
            exact h.authBegun a ha
          · intro t ht hs
            have := h.parkedNoAuth t ht hs
            rw [ha] at this; cases this
      · exact ⟨h.authUser, h.taskUser, h.seqs, h.authBegun, h.parkedNoAuth, h.uniq, h.done⟩

theorem onAuthMsg_inv (app : App) (s : St) (h : Inv app s) : Inv app (onAuthMsg s) := by
  unfold onAuthMsg
  split
  · exact h
  · split
    · exact ⟨h.authUser, h.taskUser, h.seqs, h.authBegun, h.parkedNoAuth, h.uniq, h.done⟩
    · exact ⟨h.authUser, h.taskUser, h.seqs, h.authBegun, h.parkedNoAuth, h.uniq, h.done⟩

theorem step_inv (app : App) (s : St) (ev : Ev) (h : Inv app s) : Inv app (step app s ev) := by
  cases ev with
  | req r => exact onReq_inv app s r h
  | beginDone k => exact onBeginDone_inv app s k h
  | valDone k => exact onValDone_inv app s k h
  | other =>
    simp only [step]
    split
    · exact ⟨h.authUser, h.taskUser, h.seqs, h.authBegun, h.parkedNoAuth, h.uniq, h.done⟩
    · exact ⟨h.authUser, h.taskUser, h.seqs, h.authBegun, h.parkedNoAuth, h.uniq, h.done⟩
  | info c => exact onInfo_inv app s c h
  | authMsg => exact onAuthMsg_inv app s h

/-- **Access is granted only after a successful credential check for that very user**: for EVERY sequence of
    requests and completions — repetition, method switch, user switch, pipelining while the application is still
    deciding — if the connection ends up authenticated as `u` then the application accepted `u`'s password, or
    a key authorised for `u` (checked against `u`'s own authorized keys) verified a signature over this session's
    identifier and that exact request, or the application declared that `u` needs no authentication. -/
theorem run_inv (app : App) (evs : List Ev) (s : St) (hs : Inv app s) : Inv app (evs.foldl (step app) s) := by
  induction evs generalizing s with
  | nil => exact hs
  | cons ev rest ih => exact ih (step app s ev) (step_inv app s ev hs)

theorem auth_sound (app : App) (evs : List Ev) (u : Nat) (h : (run app evs).complete = some u) :
    Granted app (run app evs).log u :=
  (run_inv app evs {} (inv_init app)).done u h

/-- a logged check records the application's own verdict for that user and credential; a hostbased check looks the
    key up for, and asks the application about, one and the same host — the reverse lookup of the peer address
    unless `trust_client_host` is set -/
def callHonest (app : App) (c : Call) : Prop :=
  (∀ u cr, c = Call.checkPw u cr true → app.pwOK u cr = true) ∧
  (∀ ctx u k sg, c = Call.checkKey ctx u k true sg → app.keyOK ctx k = true) ∧
  (∀ u cr, c = Call.checkChPw u cr true → app.chpwOK u cr = true) ∧
  (∀ u h h' k, c = Call.checkHost u h h' k true true (some true) →
    app.hostKeyOK h k = true ∧ app.hostUserOK u h' = true) ∧
  (∀ u, c = Call.kbd u none .accept → app.kbdStart u = .accept) ∧
  (∀ u r, c = Call.kbd u (some r) .accept → app.kbdNext u r = .accept) ∧
  (∀ u h h' k ko sg uo, c = Call.checkHost u h h' k ko sg uo →
    h = h' ∧ (app.trustClientHost = false → h = app.resolvedHost))

def LogHonest (app : App) (log : List Call) : Prop := ∀ c ∈ log, callHonest app c

theorem lh_append (app : App) (log : List Call) (c : Call) (h : LogHonest app log) (hc : callHonest app c) :
    LogHonest app (log ++ [c]) := by
  intro d hd
  simp only [List.mem_append, List.mem_singleton] at hd
  rcases hd with hd | rfl
  · exact h d hd
  · exact hc

theorem honest_begin (app : App) (u : Nat) : callHonest app (.begin u) := by
  refine ⟨?_, ?_, ?_, ?_, ?_, ?_, ?_⟩ <;> intros <;> rename_i h <;> cases h

theorem honest_checkPw (app : App) (u c : Nat) : callHonest app (.checkPw u c (app.pwOK u c)) := by
  refine ⟨?_, ?_, ?_, ?_, ?_, ?_, ?_⟩
  · intro u' c' h
    simp only [Call.checkPw.injEq] at h
    obtain ⟨rfl, rfl, h3⟩ := h
    exact h3
  all_goals intros; rename_i h; cases h

theorem honest_checkKey (app : App) (ctx u k : Nat) (sg : Option Bool) :
    callHonest app (.checkKey ctx u k (app.keyOK ctx k) sg) := by
  refine ⟨?_, ?_, ?_, ?_, ?_, ?_, ?_⟩
  · intros; rename_i h; cases h
  · intro ctx' u' k' sg' h
    simp only [Call.checkKey.injEq] at h
    obtain ⟨rfl, _, rfl, h3, _⟩ := h
    exact h3
  all_goals intros; rename_i h; cases h

theorem honest_checkChPw (app : App) (u c : Nat) : callHonest app (.checkChPw u c (app.chpwOK u c)) := by
  refine ⟨?_, ?_, ?_, ?_, ?_, ?_, ?_⟩
  · intros; rename_i h; cases h
  · intros; rename_i h; cases h
  · intro u' c' h
    simp only [Call.checkChPw.injEq] at h
    obtain ⟨rfl, rfl, h3⟩ := h
    exact h3
  all_goals intros; rename_i h; cases h

theorem honest_checkHost (app : App) (u : Nat) (r : Req) (key : Nat) (sg : Bool) (uo : Option Bool)
    (huo : uo = none ∨ uo = some (app.hostUserOK u (effHost app r))) :
    callHonest app (.checkHost u (effHost app r) (effHost app r) key (app.hostKeyOK (effHost app r) key) sg uo) := by
  refine ⟨?_, ?_, ?_, ?_, ?_, ?_, ?_⟩
  · intros; rename_i h; cases h
  · intros; rename_i h; cases h
  · intros; rename_i h; cases h
  · intro u' h1 h2 k' h
    simp only [Call.checkHost.injEq] at h
    obtain ⟨rfl, rfl, rfl, rfl, h3, _, h5⟩ := h
    rcases huo with h0 | h0
    · rw [h0] at h5; cases h5
    · rw [h0] at h5
      simp only [Option.some.injEq] at h5
      exact ⟨h3, h5⟩
  · intros; rename_i h; cases h
  · intros; rename_i h; cases h
  · intro u' h1 h2 k' ko sg' uo' h
    simp only [Call.checkHost.injEq] at h
    obtain ⟨_, rfl, rfl, _⟩ := h
    refine ⟨rfl, ?_⟩
    intro ht
    simp [effHost, ht]

theorem honest_kbd (app : App) (u : Nat) (r : Option Nat) :
    callHonest app (.kbd u r (match r with | none => app.kbdStart u | some c => app.kbdNext u c)) := by
  refine ⟨?_, ?_, ?_, ?_, ?_, ?_, ?_⟩
  · intros; rename_i h; cases h
  · intros; rename_i h; cases h
  · intros; rename_i h; cases h
  · intros; rename_i h; cases h
  · intro u' h
    simp only [Call.kbd.injEq] at h
    obtain ⟨rfl, h2, h3⟩ := h
    subst h2
    exact h3
  · intro u' r' h
    simp only [Call.kbd.injEq] at h
    obtain ⟨rfl, h2, h3⟩ := h
    subst h2
    exact h3
  · intros; rename_i h; cases h

theorem sendSuccess_log (s : St) : (sendSuccess s).log = s.log := by
  unfold sendSuccess; split <;> rfl

theorem createAuth_honest (app : App) (s : St) (r : Req) (h : LogHonest app s.log) :
    LogHonest app (createAuth app s r).log := by
  unfold createAuth
  split
  · exact h
  · split
    · exact h
    · split
      · exact h
      · exact h
      · split
        · exact h
        · exact lh_append app _ _ h (honest_checkHost app _ r _ _ none (Or.inl rfl))
      · exact h

theorem afterBegin_honest (app : App) (s : St) (cu : Nat) (r : Req) (h : LogHonest app s.log) :
    LogHonest app (afterBegin app s cu r).log := by
  unfold afterBegin
  simp only
  split
  · exact createAuth_honest app _ r h
  · rw [sendSuccess_log]; exact h

theorem step_logHonest (app : App) (s : St) (ev : Ev) (h : LogHonest app s.log) : LogHonest app (step app s ev).log := by
  cases ev with
  | req r =>
    simp only [step, onReq]
    split
    · exact h
    · split
      · split <;> exact h
      · try dsimp only
        split
        · split
          · exact lh_append app _ _ h (honest_begin app r.user)
          · exact afterBegin_honest app _ _ _ (lh_append app _ _ h (honest_begin app r.user))
        · exact createAuth_honest app _ r h
  | beginDone k =>
    simp only [step, onBeginDone]
    split
    · exact h
    split
    · exact h
    · try dsimp only
      split
      · exact h
      · exact afterBegin_honest app _ _ _ h
  | valDone k =>
    simp only [step, onValDone]
    split
    · exact h
    split
    · exact h
    · rename_i a _
      split
      · exact h
      · split
        · -- password
          split
          · exact h
          · try dsimp only
            have hl := lh_append app _ _ h (honest_checkPw app a.user a.req.cred)
            split
            · rw [sendSuccess_log]; exact hl
            · exact hl
        · -- password change
          split
          · exact h
          · try dsimp only
            have hl := lh_append app _ _ h (honest_checkChPw app a.user a.req.cred)
            split
            · rw [sendSuccess_log]; exact hl
            · exact hl
        · -- hostbased
          rename_i sigOK key _
          try dsimp only
          have hl := lh_append app _ _ h (honest_checkHost app a.user a.req key sigOK _ (Or.inr rfl))
          split
          · rw [sendSuccess_log]; exact hl
          · exact hl
        · -- keyboard-interactive
          try dsimp only
          have hl := lh_append app _ _ h (honest_kbd app a.user a.resp)
          split
          · rw [sendSuccess_log]; exact hl
          · exact hl
          · exact hl
        · -- publickey probe
          try dsimp only
          have hl := lh_append app _ _ h (honest_checkKey app (keyCtx app s a) a.user a.req.cred none)
          split
          · exact hl
          · exact hl
        · -- publickey with signature
          rename_i sigOK _
          try dsimp only
          have hl := lh_append app _ _ h (honest_checkKey app (keyCtx app s a) a.user a.req.cred (some sigOK))
          split
          · rw [sendSuccess_log]; exact hl
          · exact hl
        · exact h
  | other =>
    simp only [step]
    split <;> exact h
  | info c =>
    simp only [step, onInfo]
    split
    · exact h
    · split
      · exact h
      · split
        · split <;> exact h
        · exact h
  | authMsg =>
    simp only [step, onAuthMsg]
    split
    · exact h
    · split <;> exact h

theorem run_logHonest (app : App) (evs : List Ev) : LogHonest app (run app evs).log := by
  have : ∀ s : St, LogHonest app s.log → LogHonest app (evs.foldl (step app) s).log := by
    induction evs with
    | nil => intro s hs; exact hs
    | cons ev rest ih => intro s hs; exact ih _ (step_logHonest app s ev hs)
  exact this {} (by intro c hc; cases hc)

/-- **No repetition, interleaving, pipelining, or switch of method or user name grants access otherwise**: if
    the application needs authentication for `u` and accepts no password and no key for `u`, and accepts `u` from
    no client host that has a trusted host key (`hhost`: whatever other hosts `u` is accepted from, and whatever
    keys are trusted for other hosts), then NO sequence of events whatsoever leaves the connection authenticated as
    `u`. -/
theorem no_grant_by_sequencing (app : App) (evs : List Ev) (u : Nat) (hn : app.needsAuth u = true)
    (hpw : ∀ c, app.pwOK u c = false) (hkey : ∀ k, app.keyOK u k = false)
    (hch : ∀ c, app.chpwOK u c = false) (hhost : ∀ h k, (app.hostKeyOK h k && app.hostUserOK u h) = false)
    (hk0 : app.kbdStart u ≠ .accept) (hk1 : ∀ r, app.kbdNext u r ≠ .accept) :
    (run app evs).complete ≠ some u := by
  intro h
  have hl := run_logHonest app evs
  rcases auth_sound app evs u h with hg | ⟨c, hg⟩ | ⟨k, hg⟩ | ⟨c, hg⟩ | ⟨c, k, hg⟩ | ⟨r, hg⟩
  · rw [hn] at hg; cases hg
  · have := (hl _ hg).1 u c rfl; rw [hpw c] at this; cases this
  · have := (hl _ hg).2.1 u u k _ rfl; rw [hkey k] at this; cases this
  · have := (hl _ hg).2.2.1 u c rfl; rw [hch c] at this; cases this
  · have := (hl _ hg).2.2.2.1 u c c k rfl
    have hh := hhost c k
    rw [this.1, this.2] at hh; cases hh
  · cases r with
    | none => exact hk0 ((hl _ hg).2.2.2.2.1 u rfl)
    | some r => exact hk1 r ((hl _ hg).2.2.2.2.2.1 u r rfl)

/-- a signature that does not verify over this session's identifier and this exact request (wrong session id,
    wrong user, wrong service, wrong key) never grants access, even for an authorised key -/
theorem bad_signature_never_grants (app : App) (s : St) (k : Nat) (a : AuthObj) (hauth : s.auth = some a)
    (hopen : s.closed = false) (hm : a.req.method = .pkSig false) (hk : a.valIdx = k) (ha : a.awaiting = true) :
    (onValDone app s k).complete = s.complete ∧ (onValDone app s k).out = s.out ++ [.failure] := by
  unfold onValDone
  simp only [hauth, hk, ha, hm, hopen]
  simp [sendFailure]

/-- **Later authentication requests are ignored after success until another message arrives, then fatal.** -/
theorem post_auth_requests (app : App) (s : St) (r : Req) (u : Nat) (hc : s.complete = some u) (hcl : s.closed = false) :
    (s.final = false → onReq app s r = s) ∧ (s.final = true → (onReq app s r).closed = true ∧ (onReq app s r).complete = some u) := by
  unfold onReq
  simp [hc, hcl]
  constructor
  · intro hf; simp [hf]
  · intro hf; simp [hf, hc]

/-- **Conversely, a client presenting a valid credential is admitted**: a request whose password the
    application accepts (or whose authorised key signs this request), processed without interference, ends
    with the connection authenticated as that user — with synchronous or asynchronous `begin_auth`. -/
theorem client_admitted (app : App) (u c : Nat) (hn : app.needsAuth u = true) :
    (app.pwOK u c = true → app.pwExpired u c = false →
      (run app [.req ⟨u, .password, c⟩, .beginDone 0, .valDone 0]).complete = some u) ∧
    (app.keyOK u c = true →
      (run app [.req ⟨u, .pkProbe, c⟩, .beginDone 0, .valDone 0, .req ⟨u, .pkSig true, c⟩, .valDone 1]).complete = some u) ∧
    (app.chpwOK u c = true → app.chpwExpired u c = false →
      (run app [.req ⟨u, .pwChange, c⟩, .beginDone 0, .valDone 0]).complete = some u) ∧
    (∀ k, app.hostKeyOK (effHost app ⟨u, .hostSig true k, c⟩) k = true →
      app.hostUserOK u (effHost app ⟨u, .hostSig true k, c⟩) = true →
      (run app [.req ⟨u, .hostSig true k, c⟩, .beginDone 0, .valDone 0]).complete = some u) ∧
    (app.kbdStart u = .challenge → app.kbdNext u c = .accept →
      (run app [.req ⟨u, .kbdint, 0⟩, .beginDone 0, .valDone 0, .info c, .valDone 1]).complete = some u) := by
  refine ⟨?_, ?_, ?_, ?_, ?_⟩
  · intro hp he
    cases hb : app.beginAsync <;>
      simp [run, step, onReq, onBeginDone, onValDone, afterBegin, createAuth, sendSuccess, hn, hp, he, hb]
  · intro hk
    cases hb : app.beginAsync <;> cases hp : app.perUserKeys <;>
      simp [run, step, onReq, onBeginDone, onValDone, afterBegin, createAuth, sendSuccess, keyCtx, hn, hk, hb, hp]
  · intro hp he
    cases hb : app.beginAsync <;>
      simp [run, step, onReq, onBeginDone, onValDone, afterBegin, createAuth, sendSuccess, hn, hp, he, hb]
  · intro k hk hu
    cases hb : app.beginAsync <;>
      simp [run, step, onReq, onBeginDone, onValDone, afterBegin, createAuth, sendSuccess, hn, hk, hu, hb]
  · intro h0 h1
    cases hb : app.beginAsync <;>
      simp [run, step, onReq, onBeginDone, onValDone, onInfo, afterBegin, createAuth, sendSuccess, hn, h0, h1, hb]

/-- a hostbased request whose signature does not verify, or whose host key is not trusted for the client host of
    THIS request (whatever earlier requests named), is refused before the application is even asked about the user -/
theorem bad_host_signature_never_grants (app : App) (s : St) (u c k : Nat) (sg : Bool)
    (hu : s.username = some u) (hc : s.complete = none)
    (hbad : (app.hostKeyOK (effHost app ⟨u, .hostSig sg k, c⟩) k && sg) = false) :
    (createAuth app s ⟨u, .hostSig sg k, c⟩).complete = none ∧ (createAuth app s ⟨u, .hostSig sg k, c⟩).auth = none ∧
    (createAuth app s ⟨u, .hostSig sg k, c⟩).out = s.out ++ [.failure] := by
  simp [createAuth, hu, hc, hbad, sendFailure]

/-- a method-specific message cannot complete authentication by itself: it either starts the validation of a
    keyboard-interactive response (the application then decides), is answered UNIMPLEMENTED, or — with no
    authentication in progress — ends the connection -/
theorem info_never_grants (s : St) (c : Nat) : (onInfo s c).complete = s.complete ∧ (onAuthMsg s).complete = s.complete := by
  unfold onInfo onAuthMsg
  constructor
  · split
    · rfl
    · split
      · rfl
      · split
        · split <;> rfl
        · rfl
  · split
    · rfl
    · split <;> rfl

/-! ### keyboard-interactive: a response needs a challenge (A-C06 #1) -/

/-- the application issued a keyboard-interactive challenge for `u` on this connection -/
def Challenged (log : List Call) (u : Nat) : Prop := ∃ r0, Call.kbd u r0 .challenge ∈ log

theorem challenged_mono (log extra : List Call) (u : Nat) (h : Challenged log u) : Challenged (log ++ extra) u := by
  obtain ⟨r0, h⟩ := h
  exact ⟨r0, List.mem_append_left _ h⟩

structure KbdInv (s : St) : Prop where
  asked : ∀ a, s.auth = some a → a.req.method = .kbdint → a.awaiting = false → Challenged s.log a.user
  resp : ∀ a c, s.auth = some a → a.resp = some c → Challenged s.log a.user
  logged : ∀ u c ans, Call.kbd u (some c) ans ∈ s.log → Challenged s.log u

/-- how a step may change the auth object and the log without breaking `KbdInv` -/
theorem kbdInv_step (s s' : St) (h : KbdInv s) (extra : List Call) (hl : s'.log = s.log ++ extra)
    (hx : ∀ u c ans, Call.kbd u (some c) ans ∈ extra → Challenged s.log u)
    (ha : ∀ a', s'.auth = some a' →
      (a'.awaiting = true ∧ a'.resp = none) ∨
      (∃ a, s.auth = some a ∧ a'.user = a.user ∧ a'.req = a.req ∧
        ((a'.awaiting = a.awaiting ∧ a'.resp = a.resp) ∨
         (a'.resp = a.resp ∧ (a.req.method = .kbdint → Challenged s'.log a.user)) ∨
         (a.req.method = .kbdint ∧ a.awaiting = false)))) : KbdInv s' := by
  have mono : ∀ u, Challenged s.log u → Challenged s'.log u := by
    intro u hu; rw [hl]; exact challenged_mono _ _ _ hu
  refine ⟨?_, ?_, ?_⟩
  · intro a' ha' hm hw
    rcases ha a' ha' with ⟨h1, _⟩ | ⟨a, hsa, hu, hr, hc⟩
    · rw [h1] at hw; cases hw
    · rw [hu]
      rcases hc with ⟨h1, _⟩ | ⟨_, h2⟩ | ⟨h3, h4⟩
      · exact mono _ (h.asked a hsa (hr ▸ hm) (h1 ▸ hw))
      · exact h2 (hr ▸ hm)
      · exact mono _ (h.asked a hsa h3 h4)
  · intro a' c ha' hc'
    rcases ha a' ha' with ⟨_, h1⟩ | ⟨a, hsa, hu, hr, hc⟩
    · rw [h1] at hc'; cases hc'
    · rw [hu]
      rcases hc with ⟨_, h1⟩ | ⟨h1, _⟩ | ⟨h3, h4⟩
      · exact mono _ (h.resp a c hsa (h1 ▸ hc'))
      · exact mono _ (h.resp a c hsa (h1 ▸ hc'))
      · exact mono _ (h.asked a hsa h3 h4)
  · intro u c ans hm
    rw [hl] at hm
    rcases List.mem_append.mp hm with hm | hm
    · exact mono _ (h.logged u c ans hm)
    · exact mono _ (hx u c ans hm)


theorem kbdInv_init : KbdInv {} := by
  refine ⟨?_, ?_, ?_⟩
  · intro a h; cases h
  · intro a c h; cases h
  · intro u c ans h; cases h

/-- same auth object (or none), log extended by entries that are not response validations -/
theorem kbdInv_keep (s s' : St) (h : KbdInv s) (extra : List Call) (hl : s'.log = s.log ++ extra)
    (hx : ∀ u c ans, Call.kbd u (some c) ans ∉ extra) (ha : s'.auth = none ∨ s'.auth = s.auth) : KbdInv s' := by
  refine kbdInv_step s s' h extra hl (fun u c ans hm => absurd hm (hx u c ans)) ?_
  intro a' ha'
  rcases ha with ha | ha
  · rw [ha] at ha'; cases ha'
  · right; exact ⟨a', ha ▸ ha', rfl, rfl, Or.inl ⟨rfl, rfl⟩⟩

/-- a freshly created auth object -/
theorem kbdInv_fresh (s s' : St) (h : KbdInv s) (extra : List Call) (hl : s'.log = s.log ++ extra)
    (hx : ∀ u c ans, Call.kbd u (some c) ans ∉ extra)
    (ha : ∀ a', s'.auth = some a' → a'.awaiting = true ∧ a'.resp = none) : KbdInv s' :=
  kbdInv_step s s' h extra hl (fun u c ans hm => absurd hm (hx u c ans)) (fun a' ha' => Or.inl (ha a' ha'))

theorem sendSuccess_kbd (s : St) (h : KbdInv s) : KbdInv (sendSuccess s) := by
  unfold sendSuccess
  split
  · exact kbdInv_keep s _ h [] (by simp) (by simp) (Or.inl rfl)
  · exact h

theorem sendFailure_kbd (s : St) (h : KbdInv s) : KbdInv (sendFailure s) :=
  kbdInv_keep s _ h [] (by simp [sendFailure]) (by simp) (Or.inl rfl)

theorem createAuth_kbd (app : App) (s : St) (r : Req) (h : KbdInv s) : KbdInv (createAuth app s r) := by
  unfold createAuth
  split
  · exact h
  · split
    · exact h
    · have hnew : ∀ a : AuthObj, a.awaiting = true → a.resp = none →
          KbdInv { s with auth := some a, nVal := s.nVal + 1 } := by
        intro a h1 h2
        refine kbdInv_fresh s _ h [] (by simp) (by simp) ?_
        intro a' ha'
        simp only [Option.some.injEq] at ha'
        subst ha'
        exact ⟨h1, h2⟩
      split
      · exact sendFailure_kbd _ h
      · exact sendFailure_kbd _ h
      · split
        · exact hnew _ rfl rfl
        · apply sendFailure_kbd
          exact kbdInv_keep s _ h [_] rfl (by simp) (Or.inr rfl)
      · exact hnew _ rfl rfl

theorem afterBegin_kbd (app : App) (s : St) (cu : Nat) (r : Req) (h : KbdInv s) :
    KbdInv (afterBegin app s cu r) := by
  unfold afterBegin
  have h' : KbdInv { s with begun := some cu } := kbdInv_keep s _ h [] (by simp) (by simp) (Or.inr rfl)
  simp only
  split
  · exact createAuth_kbd app _ r h'
  · exact sendSuccess_kbd _ h'

theorem step_kbd (app : App) (s : St) (ev : Ev) (h : KbdInv s) : KbdInv (step app s ev) := by
  cases ev with
  | req r =>
    simp only [step, onReq]
    split
    · exact h
    · split
      · split
        · exact kbdInv_keep s _ h [] (by simp) (by simp) (Or.inr rfl)
        · exact h
      · try dsimp only
        split
        · split
          · exact kbdInv_keep s _ h [Call.begin r.user] (by simp) (by simp) (Or.inl rfl)
          · exact afterBegin_kbd app _ _ _ (kbdInv_keep s _ h [Call.begin r.user] (by simp) (by simp) (Or.inl rfl))
        · exact createAuth_kbd app _ r (kbdInv_keep s _ h [] (by simp) (by simp) (Or.inl rfl))
  | beginDone k =>
    simp only [step, onBeginDone]
    split
    · exact h
    split
    · exact h
    · have h1 : KbdInv { s with tasks := s.tasks.filter (·.beginIdx ≠ k) } :=
        kbdInv_keep s _ h [] (by simp) (by simp) (Or.inr rfl)
      try dsimp only
      split
      · exact h1
      · exact afterBegin_kbd app _ _ _ h1
  | valDone k =>
    simp only [step, onValDone]
    split
    · exact h
    split
    · exact h
    · rename_i a ha
      split
      · exact h
      · -- the auth object stays, no longer awaiting; `extra` holds no response validation
        have hstay : ∀ (extra : List Call) (out : List Reply) ko, a.req.method ≠ .kbdint →
            (∀ u c ans, Call.kbd u (some c) ans ∉ extra) →
            KbdInv { s with log := s.log ++ extra, out := out, auth := some { a with awaiting := false },
                            keyOpts := ko } := by
          intro extra out ko hm hx
          refine kbdInv_step s _ h extra rfl (fun u c ans hmem => absurd hmem (hx u c ans)) ?_
          intro a' ha'
          simp only [Option.some.injEq] at ha'
          subst ha'
          right
          exact ⟨a, ha, rfl, rfl, Or.inr (Or.inl ⟨rfl, fun hk => absurd hk hm⟩)⟩
        have hlog : ∀ (extra : List Call) ko, (∀ u c ans, Call.kbd u (some c) ans ∉ extra) →
            KbdInv { s with log := s.log ++ extra, keyOpts := ko } := by
          intro extra ko hx
          exact kbdInv_keep s _ h extra rfl hx (Or.inr rfl)
        split
        · -- password
          rename_i hm
          split
          · have := hstay [] (s.out ++ [.changeReq]) s.keyOpts (by simp [hm]) (by simp)
            simpa using this
          · try dsimp only
            have hl := hlog [Call.checkPw a.user a.req.cred (app.pwOK a.user a.req.cred)] s.keyOpts (by simp)
            split
            · exact sendSuccess_kbd _ hl
            · exact sendFailure_kbd _ hl
        · -- password change
          rename_i hm
          split
          · have := hstay [] (s.out ++ [.changeReq]) s.keyOpts (by simp [hm]) (by simp)
            simpa using this
          · try dsimp only
            have hl := hlog [Call.checkChPw a.user a.req.cred (app.chpwOK a.user a.req.cred)] s.keyOpts (by simp)
            split
            · exact sendSuccess_kbd _ hl
            · exact sendFailure_kbd _ hl
        · -- hostbased
          rename_i sigOK key _
          try dsimp only
          have hl := hlog [Call.checkHost a.user (effHost app a.req) (effHost app a.req) key
            (app.hostKeyOK (effHost app a.req) key) sigOK (some (app.hostUserOK a.user (effHost app a.req)))]
            s.keyOpts (by simp)
          split
          · exact sendSuccess_kbd _ hl
          · exact sendFailure_kbd _ hl
        · -- keyboard-interactive: the entry logged is for the object's own user; a response was only taken
          -- after a challenge
          rename_i hm
          try dsimp only
          have hx : ∀ ans u c ans', Call.kbd u (some c) ans' ∈ [Call.kbd a.user a.resp ans] → Challenged s.log u := by
            intro ans u c ans' hmem
            simp only [List.mem_singleton, Call.kbd.injEq] at hmem
            obtain ⟨rfl, hr, _⟩ := hmem
            exact h.resp a c ha hr.symm
          have hl : ∀ ans, KbdInv { s with log := s.log ++ [Call.kbd a.user a.resp ans] } := by
            intro ans
            refine kbdInv_step s _ h _ rfl (hx ans) ?_
            intro a' ha'
            right
            exact ⟨a', ha', rfl, rfl, Or.inl ⟨rfl, rfl⟩⟩
          split
          · rename_i hans
            rw [hans]
            exact sendSuccess_kbd _ (hl _)
          · rename_i hans
            rw [hans]
            exact sendFailure_kbd _ (hl _)
          · rename_i hans
            rw [hans]
            refine kbdInv_step s _ h _ rfl (hx _) ?_
            intro a' ha'
            simp only [Option.some.injEq] at ha'
            subst ha'
            right
            refine ⟨a, ha, rfl, rfl, Or.inr (Or.inl ⟨rfl, fun _ => ?_⟩)⟩
            exact ⟨a.resp, by simp⟩
        · -- publickey probe
          rename_i hm
          try dsimp only
          split
          · exact hstay [Call.checkKey (keyCtx app s a) a.user a.req.cred (app.keyOK (keyCtx app s a) a.req.cred) none]
              _ _ (by simp [hm]) (by simp)
          · exact sendFailure_kbd _ (hlog [Call.checkKey (keyCtx app s a) a.user a.req.cred
              (app.keyOK (keyCtx app s a) a.req.cred) none] s.keyOpts (by simp))
        · -- publickey with signature
          rename_i sigOK _
          try dsimp only
          split
          · exact sendSuccess_kbd _ (hlog [Call.checkKey (keyCtx app s a) a.user a.req.cred
              (app.keyOK (keyCtx app s a) a.req.cred) (some sigOK)] _ (by simp))
          · exact sendFailure_kbd _ (hlog [Call.checkKey (keyCtx app s a) a.user a.req.cred
              (app.keyOK (keyCtx app s a) a.req.cred) (some sigOK)] _ (by simp))
        · exact h
  | other =>
    simp only [step]
    split <;> exact kbdInv_keep s _ h [] (by simp) (by simp) (Or.inr rfl)
  | info c =>
    simp only [step, onInfo]
    split
    · exact h
    · split
      · exact kbdInv_keep s _ h [] (by simp) (by simp) (Or.inr rfl)
      · rename_i a ha
        split
        · rename_i hm
          split
          · exact kbdInv_keep s _ h [] (by simp) (by simp) (Or.inr rfl)
          · rename_i hw
            refine kbdInv_step s _ h [] (by simp) (by simp) ?_
            intro a' ha'
            simp only [Option.some.injEq] at ha'
            subst ha'
            right
            exact ⟨a, ha, rfl, rfl, Or.inr (Or.inr ⟨hm, by simpa using hw⟩)⟩
        · exact kbdInv_keep s _ h [] (by simp) (by simp) (Or.inr rfl)
  | authMsg =>
    simp only [step, onAuthMsg]
    split
    · exact h
    · split <;> exact kbdInv_keep s _ h [] (by simp) (by simp) (Or.inr rfl)

theorem run_kbd (app : App) (evs : List Ev) : KbdInv (run app evs) := by
  have : ∀ s : St, KbdInv s → KbdInv (evs.foldl (step app) s) := by
    induction evs with
    | nil => intro s hs; exact hs
    | cons ev rest ih => intro s hs; exact ih _ (step_kbd app s ev hs)
  exact this {} kbdInv_init

/-- **A keyboard-interactive response is only ever handed to the application after the application issued a
    challenge for that user on this connection** (A-C06 #1): for every event sequence, a logged
    `validate_kbdint_response(u, …)` is preceded by a `get_kbdint_challenge` / `validate_kbdint_response` for `u`
    that answered with a challenge.  An INFO_RESPONSE arriving while the challenge (or the validation of an earlier
    response) is still pending ends the connection instead of cancelling that step. -/
theorem kbd_response_needs_challenge (app : App) (evs : List Ev) (u c : Nat) (ans : KbdAns)
    (h : Call.kbd u (some c) ans ∈ (run app evs).log) : Challenged (run app evs).log u :=
  (run_kbd app evs).logged u c ans h

/-- `auth_sound` for keyboard-interactive, with the dialogue made explicit: authenticated through accepted
    responses implies the application had challenged that user -/
theorem auth_sound_kbd (app : App) (evs : List Ev) (u : Nat) (h : (run app evs).complete = some u)
    (hn : app.needsAuth u = true) (hpw : ∀ c, app.pwOK u c = false) (hkey : ∀ k, app.keyOK u k = false)
    (hch : ∀ c, app.chpwOK u c = false) (hhost : ∀ h k, (app.hostKeyOK h k && app.hostUserOK u h) = false)
    (hk0 : app.kbdStart u ≠ .accept) :
    (∃ c, app.kbdNext u c = .accept ∧ Call.kbd u (some c) .accept ∈ (run app evs).log) ∧
    Challenged (run app evs).log u := by
  have hl := run_logHonest app evs
  rcases auth_sound app evs u h with hg | ⟨c, hg⟩ | ⟨k, hg⟩ | ⟨c, hg⟩ | ⟨c, k, hg⟩ | ⟨r, hg⟩
  · rw [hn] at hg; cases hg
  · have := (hl _ hg).1 u c rfl; rw [hpw c] at this; cases this
  · have := (hl _ hg).2.1 u u k _ rfl; rw [hkey k] at this; cases this
  · have := (hl _ hg).2.2.1 u c rfl; rw [hch c] at this; cases this
  · have := (hl _ hg).2.2.2.1 u c c k rfl
    have hh := hhost c k
    rw [this.1, this.2] at hh; cases hh
  · cases r with
    | none => exact absurd ((hl _ hg).2.2.2.2.1 u rfl) hk0
    | some r => exact ⟨⟨r, (hl _ hg).2.2.2.2.2.1 u r rfl, hg⟩, kbd_response_needs_challenge app evs u r _ hg⟩

/-! ### key options: the restrictions in force are those of the accepted credential (A-C05 D1) -/

/-- whose options are in force (`get_key_option`, `check_key_permission`): invariants -/
structure OptInv (s : St) : Prop where
  live : ∀ a k, s.auth = some a → s.keyOpts = some k → a.awaiting = false ∧ a.req.method = .pkProbe
  parked : ∀ t ∈ s.tasks, t.seq = s.seq → s.keyOpts = none ∧ s.complete = none
  completeNoAuth : ∀ u, s.complete = some u → s.auth = none
  done : ∀ u k, s.complete = some u → s.keyOpts = some k → Call.checkKey u u k true (some true) ∈ s.log

theorem optInv_init : OptInv {} := by
  refine ⟨?_, ?_, ?_, ?_⟩
  · intro a k h; cases h
  · intro t h; cases h
  · intro u h; cases h
  · intro u k h; cases h

theorem sendSuccess_fields (s : St) :
    (sendSuccess s).keyOpts = s.keyOpts ∧ (sendSuccess s).tasks = s.tasks ∧ (sendSuccess s).seq = s.seq ∧
    (sendSuccess s).log = s.log ∧
    ((sendSuccess s = s ∧ s.username = none) ∨ ((sendSuccess s).auth = none ∧ (sendSuccess s).complete = s.username)) := by
  unfold sendSuccess
  split
  · rename_i u hu
    refine ⟨rfl, rfl, rfl, rfl, Or.inr ⟨rfl, hu.symm⟩⟩
  · rename_i hu
    exact ⟨rfl, rfl, rfl, rfl, Or.inl ⟨rfl, hu⟩⟩

theorem createAuth_fields (app : App) (s : St) (r : Req) :
    (createAuth app s r).keyOpts = s.keyOpts ∧ (createAuth app s r).tasks = s.tasks ∧
    (createAuth app s r).seq = s.seq ∧ (createAuth app s r).complete = s.complete ∧
    (s.complete.isSome → createAuth app s r = s) := by
  unfold createAuth
  split
  · exact ⟨rfl, rfl, rfl, rfl, fun _ => rfl⟩
  · rename_i hc
    have hcn : s.complete.isSome → False := fun h => hc h
    split
    · exact ⟨rfl, rfl, rfl, rfl, fun _ => rfl⟩
    · split
      · exact ⟨rfl, rfl, rfl, rfl, fun h => (hcn h).elim⟩
      · exact ⟨rfl, rfl, rfl, rfl, fun h => (hcn h).elim⟩
      · split
        · exact ⟨rfl, rfl, rfl, rfl, fun h => (hcn h).elim⟩
        · exact ⟨rfl, rfl, rfl, rfl, fun h => (hcn h).elim⟩
      · exact ⟨rfl, rfl, rfl, rfl, fun h => (hcn h).elim⟩

/-- a state whose key options are empty satisfies `OptInv` as soon as no parked task of the current request
    coexists with completed authentication, and the auth object is gone or fresh -/
theorem optInv_of_none (s : St) (hk : s.keyOpts = none)
    (hp : ∀ t ∈ s.tasks, t.seq = s.seq → s.complete = none)
    (hc : ∀ u, s.complete = some u → s.auth = none) : OptInv s := by
  refine ⟨?_, ?_, hc, ?_⟩
  · intro a k _ h; rw [hk] at h; cases h
  · intro t ht hs; exact ⟨hk, hp t ht hs⟩
  · intro u k _ h; rw [hk] at h; cases h

theorem afterBegin_opt (app : App) (s : St) (cu : Nat) (r : Req) (hk : s.keyOpts = none)
    (hp : ∀ t ∈ s.tasks, t.seq ≠ s.seq) (hc : ∀ u, s.complete = some u → s.auth = none) :
    OptInv (afterBegin app s cu r) := by
  unfold afterBegin
  simp only
  split
  · obtain ⟨h1, h2, h3, h4, h5⟩ := createAuth_fields app { s with begun := some cu } r
    simp only at h1 h2 h3 h4 h5
    apply optInv_of_none
    · rw [h1]; exact hk
    · intro t ht hs
      rw [h2] at ht; rw [h3] at hs
      exact absurd hs (hp t ht)
    · intro u hu
      rw [h4] at hu
      rw [h5 (by simp [hu])]; exact hc u hu
  · obtain ⟨h1, h2, h3, _, h5⟩ := sendSuccess_fields { s with begun := some cu }
    simp only at h1 h2 h3 h5
    apply optInv_of_none
    · rw [h1]; exact hk
    · intro t ht hs
      rw [h2] at ht; rw [h3] at hs
      exact absurd hs (hp t ht)
    · intro u hu
      rcases h5 with ⟨h6, _⟩ | ⟨h6, _⟩
      · rw [h6] at hu ⊢; exact hc u hu
      · exact h6


theorem createAuth_opt (app : App) (s : St) (r : Req) (hk : s.keyOpts = none)
    (hp : ∀ t ∈ s.tasks, t.seq ≠ s.seq) (hc : ∀ u, s.complete = some u → s.auth = none) :
    OptInv (createAuth app s r) := by
  obtain ⟨h1, h2, h3, h4, h5⟩ := createAuth_fields app s r
  apply optInv_of_none
  · rw [h1]; exact hk
  · intro t ht hs
    rw [h2] at ht; rw [h3] at hs
    exact absurd hs (hp t ht)
  · intro u hu
    rw [h4] at hu
    rw [h5 (by simp [hu])]; exact hc u hu

theorem step_opt (app : App) (s : St) (ev : Ev) (hi : Inv app s) (h : OptInv s) : OptInv (step app s ev) := by
  cases ev with
  | req r =>
    simp only [step, onReq]
    split
    · exact h
    · split
      · split
        · exact ⟨h.live, h.parked, h.completeNoAuth, h.done⟩
        · exact h
      · rename_i hc
        have hcn : s.complete = none := by
          cases hcc : s.complete with
          | none => rfl
          | some v => simp [hcc] at hc
        have hold : ∀ t ∈ s.tasks, t.seq ≠ s.seq + 1 := by
          intro t ht; have := hi.seqs t ht; omega
        try dsimp only
        split
        · split
          · apply optInv_of_none
            · rfl
            · intro t _ _; exact hcn
            · intro u _; rfl
          · apply afterBegin_opt
            · rfl
            · exact hold
            · intro u _; rfl
        · apply createAuth_opt
          · rfl
          · exact hold
          · intro u _; rfl
  | beginDone k =>
    simp only [step, onBeginDone]
    split
    · exact h
    split
    · exact h
    · rename_i t hf
      have htm : t ∈ s.tasks := List.mem_of_find?_eq_some hf
      have htk : t.beginIdx = k := by simpa using List.find?_some hf
      try dsimp only
      split
      · exact ⟨h.live, fun t' ht' hs => h.parked t' (List.mem_filter.mp ht').1 hs, h.completeNoAuth, h.done⟩
      · rename_i hseq
        have hseq' : t.seq = s.seq := by simpa using hseq
        obtain ⟨hk0, hc0⟩ := h.parked t htm hseq'
        apply afterBegin_opt
        · exact hk0
        · intro t' ht' hs'
          have hm := List.mem_filter.mp ht'
          have hidx := hi.uniq t' hm.1 t htm (by simp only at hs'; rw [hs', hseq'])
          have : t'.beginIdx ≠ k := by simpa using hm.2
          exact this (hidx.trans htk)
        · intro u hu; simp only at hu; rw [hc0] at hu; cases hu
  | valDone k =>
    simp only [step, onValDone]
    split
    · exact h
    split
    · exact h
    · rename_i a ha
      split
      · exact h
      · rename_i hcond
        have haw : a.awaiting = true := by
          cases hw : a.awaiting with
          | true => rfl
          | false => exact absurd (Or.inr hw) hcond
        -- a live awaiting object: no key options are set, nothing is parked for the current request, and
        -- authentication is not complete
        have hk0 : s.keyOpts = none := by
          cases hko : s.keyOpts with
          | none => rfl
          | some k0 => have := (h.live a k0 ha hko).1; rw [haw] at this; cases this
        have hnp : ∀ t ∈ s.tasks, t.seq ≠ s.seq := by
          intro t ht hs
          have := hi.parkedNoAuth t ht hs
          rw [ha] at this; cases this
        have hcn : s.complete = none := by
          cases hcc : s.complete with
          | none => rfl
          | some v => have := h.completeNoAuth v hcc; rw [ha] at this; cases this
        have hu := hi.authUser a ha
        have hctx := keyCtx_eq app s a (hi.authBegun a ha)
        -- outcomes that leave the key options empty
        have hfail : ∀ (extra : List Call), OptInv (sendFailure { s with log := s.log ++ extra, keyOpts := none }) := by
          intro extra
          apply optInv_of_none
          · rfl
          · intro t ht hs; exact absurd hs (hnp t ht)
          · intro u _; rfl
        have hsucc : ∀ (extra : List Call), OptInv (sendSuccess { s with log := s.log ++ extra, keyOpts := none }) := by
          intro extra
          obtain ⟨h1, h2, h3, _, h5⟩ := sendSuccess_fields { s with log := s.log ++ extra, keyOpts := none }
          simp only at h1 h2 h3 h5
          apply optInv_of_none
          · rw [h1]
          · intro t ht hs
            rw [h2] at ht; rw [h3] at hs
            exact absurd hs (hnp t ht)
          · intro u hu'
            rcases h5 with ⟨h6, _⟩ | ⟨h6, _⟩
            · rw [h6] at hu'; simp only at hu'; rw [hcn] at hu'; cases hu'
            · exact h6
        have hstay : ∀ (extra : List Call) (out : List Reply),
            OptInv { s with log := s.log ++ extra, out := out, auth := some { a with awaiting := false },
                            keyOpts := none } := by
          intro extra out
          apply optInv_of_none
          · rfl
          · intro t ht hs; exact absurd hs (hnp t ht)
          · intro u hu'; simp only at hu'; rw [hcn] at hu'; cases hu'
        split
        · -- password
          split
          · have := hstay [] (s.out ++ [.changeReq])
            simpa [hk0] using this
          · try dsimp only
            split
            · have := hsucc [Call.checkPw a.user a.req.cred (app.pwOK a.user a.req.cred)]
              rw [← hk0] at this; exact this
            · have := hfail [Call.checkPw a.user a.req.cred (app.pwOK a.user a.req.cred)]
              rw [← hk0] at this; exact this
        · -- password change
          split
          · have := hstay [] (s.out ++ [.changeReq])
            simpa [hk0] using this
          · try dsimp only
            split
            · have := hsucc [Call.checkChPw a.user a.req.cred (app.chpwOK a.user a.req.cred)]
              rw [← hk0] at this; exact this
            · have := hfail [Call.checkChPw a.user a.req.cred (app.chpwOK a.user a.req.cred)]
              rw [← hk0] at this; exact this
        · -- hostbased
          rename_i sigOK key _
          try dsimp only
          split
          · have := hsucc [Call.checkHost a.user (effHost app a.req) (effHost app a.req) key
              (app.hostKeyOK (effHost app a.req) key) sigOK (some (app.hostUserOK a.user (effHost app a.req)))]
            rw [← hk0] at this; exact this
          · have := hfail [Call.checkHost a.user (effHost app a.req) (effHost app a.req) key
              (app.hostKeyOK (effHost app a.req) key) sigOK (some (app.hostUserOK a.user (effHost app a.req)))]
            rw [← hk0] at this; exact this
        · -- keyboard-interactive
          try dsimp only
          split
          · have := hsucc [Call.kbd a.user a.resp (match a.resp with | none => app.kbdStart a.user | some c => app.kbdNext a.user c)]
            rw [← hk0] at this; exact this
          · have := hfail [Call.kbd a.user a.resp (match a.resp with | none => app.kbdStart a.user | some c => app.kbdNext a.user c)]
            rw [← hk0] at this; exact this
          · have := hstay [Call.kbd a.user a.resp (match a.resp with | none => app.kbdStart a.user | some c => app.kbdNext a.user c)]
              (s.out ++ [.infoReq])
            rw [← hk0] at this; exact this
        · -- publickey probe: the object stays, no longer awaiting, and its key's options are stored
          rename_i hm
          try dsimp only
          split
          · refine ⟨?_, ?_, ?_, ?_⟩
            · intro a' k' ha' _
              simp only [Option.some.injEq] at ha'
              subst ha'
              exact ⟨rfl, hm⟩
            · intro t ht hs; exact absurd hs (hnp t ht)
            · intro u hu'; simp only at hu'; rw [hcn] at hu'; cases hu'
            · intro u k' hu'; simp only at hu'; rw [hcn] at hu'; cases hu'
          · have := hfail [Call.checkKey (keyCtx app s a) a.user a.req.cred (app.keyOK (keyCtx app s a) a.req.cred) none]
            rw [← hk0] at this; exact this
        · -- publickey with signature
          rename_i sigOK _
          try dsimp only
          split
          · rename_i hok
            have hok' : app.keyOK (keyCtx app s a) a.req.cred = true ∧ sigOK = true := by simpa using hok
            -- success: the options in force are those of the key whose signature just verified
            obtain ⟨h1, h2, h3, h4, h5⟩ := sendSuccess_fields
              { s with log := s.log ++ [Call.checkKey (keyCtx app s a) a.user a.req.cred
                  (app.keyOK (keyCtx app s a) a.req.cred) (some sigOK)], keyOpts := some a.req.cred }
            simp only at h1 h2 h3 h4 h5
            refine ⟨?_, ?_, ?_, ?_⟩
            · intro a' k' ha' _
              rcases h5 with ⟨_, h7⟩ | ⟨h6, _⟩
              · rw [hu] at h7; cases h7
              · rw [h6] at ha'; cases ha'
            · intro t ht hs
              rw [h2] at ht; rw [h3] at hs
              exact absurd hs (hnp t ht)
            · intro u' _
              rcases h5 with ⟨_, h7⟩ | ⟨h6, _⟩
              · rw [hu] at h7; cases h7
              · exact h6
            · intro u' k' hu' hk'
              rcases h5 with ⟨_, h7⟩ | ⟨_, h7⟩
              · rw [hu] at h7; cases h7
              · rw [h7, hu] at hu'
                simp only [Option.some.injEq] at hu'
                subst hu'
                rw [h1] at hk'
                simp only [Option.some.injEq] at hk'
                subst hk'
                rw [h4, hctx, hok'.2]
                rw [hctx] at hok'
                simp [hok'.1]
          · -- failure: no auth object is left and authentication is not complete
            refine ⟨?_, ?_, ?_, ?_⟩
            · intro a' k' ha' _; simp [sendFailure] at ha'
            · intro t ht hs; exact absurd hs (hnp t ht)
            · intro u' _; rfl
            · intro u' k' hu' _; simp only [sendFailure] at hu'; rw [hcn] at hu'; cases hu'
        · exact h
  | other =>
    simp only [step]
    split <;> exact ⟨h.live, h.parked, h.completeNoAuth, h.done⟩
  | info c =>
    simp only [step, onInfo]
    split
    · exact h
    · split
      · exact ⟨h.live, h.parked, h.completeNoAuth, h.done⟩
      · rename_i a ha
        split
        · rename_i hm
          split
          · exact ⟨h.live, h.parked, h.completeNoAuth, h.done⟩
          · -- a keyboard-interactive object never coexists with stored key options
            have hk0 : s.keyOpts = none := by
              cases hko : s.keyOpts with
              | none => rfl
              | some k0 => have := (h.live a k0 ha hko).2; rw [hm] at this; cases this
            refine ⟨?_, h.parked, ?_, h.done⟩
            · intro a' k' _ hk'; simp only at hk'; rw [hk0] at hk'; cases hk'
            · intro u hu'
              have := h.completeNoAuth u hu'
              rw [ha] at this; cases this
        · exact ⟨h.live, h.parked, h.completeNoAuth, h.done⟩
  | authMsg =>
    simp only [step, onAuthMsg]
    split
    · exact h
    · split <;> exact ⟨h.live, h.parked, h.completeNoAuth, h.done⟩

theorem run_opt (app : App) (evs : List Ev) : OptInv (run app evs) := by
  have : ∀ s : St, Inv app s → OptInv s → Inv app (evs.foldl (step app) s) ∧ OptInv (evs.foldl (step app) s) := by
    induction evs with
    | nil => intro s hi hs; exact ⟨hi, hs⟩
    | cons ev rest ih => intro s hi hs; exact ih _ (step_inv app s ev hi) (step_opt app s ev hi hs)
  exact (this {} (inv_init app) optInv_init).2

/-- **The restrictions attached to the accepted credential are the ones enforced afterwards** (key options; A-C05
    D1): for every event sequence, if the connection is authenticated as `u` and the options of key `k`'s
    authorized_keys entry are in force, then `k` is authorised for `u` and `k`'s signature over this session's
    identifier and its own request verified — the options are those of the credential that granted access.  In
    particular a key that was only probed, or whose signature failed, leaves nothing behind on a session
    authenticated by a password or by another key. -/
theorem options_are_the_credentials (app : App) (evs : List Ev) (u k : Nat)
    (hc : (run app evs).complete = some u) (hk : (run app evs).keyOpts = some k) :
    Call.checkKey u u k true (some true) ∈ (run app evs).log ∧ app.keyOK u k = true := by
  have h := (run_opt app evs).done u k hc hk
  exact ⟨h, (run_logHonest app evs _ h).2.1 u u k _ rfl⟩

/-! ### the defect the repair removed (F1), as a machine-checked witness about the pre-fix transition function -/

def witnessApp : App :=
  { needsAuth := fun _ => true, beginAsync := true,
    pwOK := fun u c => u == 1 && c == 7,          -- only mallory (1) has a password, 7
    keyOK := fun _ _ => false, perUserKeys := false }

/-- Pre-fix code: mallory (user 1) sends her own valid password; while the application is still validating it
    she pipelines a request naming alice (user 2); the validator's late answer then authenticates the connection
    as ALICE, for whom no check ever succeeded.  The repaired transition function, on the same events, does not. -/
theorem old_code_user_switch_witness :
    let evs := [Ev.req ⟨1, .password, 7⟩, .beginDone 0, .req ⟨2, .none, 0⟩, .valDone 0]
    (runOld witnessApp evs).complete = some 2 ∧
    ¬ Granted witnessApp (runOld witnessApp evs).log 2 ∧
    (run witnessApp evs).complete = none := by
  have hlog : (runOld witnessApp [Ev.req ⟨1, .password, 7⟩, .beginDone 0, .req ⟨2, .none, 0⟩, .valDone 0]).log =
      [Call.begin 1, Call.begin 2, Call.checkPw 1 7 true] := by decide
  refine ⟨by decide, ?_, by decide⟩
  intro h
  rw [hlog] at h
  rcases h with h | ⟨c, h⟩ | ⟨k, h⟩ | ⟨c, h⟩ | ⟨c, h⟩ | ⟨r, h⟩
  · simp [witnessApp] at h
  · simp at h
  · simp at h
  · simp at h
  · simp at h
  · simp at h

def witnessApp2 : App :=
  { needsAuth := fun _ => true, beginAsync := true, pwOK := fun _ _ => false,
    keyOK := fun u k => u == k,                    -- user n is authorised for key n only
    perUserKeys := true }

/-- Second form of the defect (found by an independent seeding agent against the first repair): with per-user
    authorized keys installed in `begin_auth`, user 1 makes a request of her own (her keys get installed), then
    pipelines `2/none` and `2/publickey` signed with HER key 1.  The code after the first repair skipped
    `begin_auth(2)` for the third request (same user name as the aborted second one) and checked key 1 against the
    keys still installed for user 1: authenticated as user 2.  The final transition function re-runs `begin_auth`. -/
theorem mid_code_begin_auth_skipped_witness :
    let evs := [Ev.req ⟨1, .pkProbe, 1⟩, .beginDone 0, .valDone 0, .req ⟨2, .none, 0⟩, .req ⟨2, .pkSig true, 1⟩, .valDone 1]
    (runMid witnessApp2 evs).complete = some 2 ∧
    (run witnessApp2 evs).complete = none ∧
    (run witnessApp2 (evs ++ [.beginDone 2, .valDone 2])).complete = none := by
  decide

/-! ### the defects removed by the repairs of the audit findings A-C05 D2, D3, D1 and A-C06 #1: machine-checked
witnesses about the pre-repair transition function `stepQ` with one quirk each -/

/-- only host 0 is a known client host (its key is key 0); user 1 may log in from host 1 only -/
def hostWitnessApp (trust : Bool) : App :=
  { needsAuth := fun _ => true, beginAsync := false, pwOK := fun _ _ => false, keyOK := fun _ _ => false,
    perUserKeys := false, hostKeyOK := fun h k => h == 0 && k == 0, hostUserOK := fun u h => u == 1 && h == 1,
    trustClientHost := trust, resolvedHost := 0 }

theorem hostWitnessApp_no_credential (trust : Bool) (h k : Nat) :
    ((hostWitnessApp trust).hostKeyOK h k && (hostWitnessApp trust).hostUserOK 1 h) = false := by
  cases h with
  | zero => simp [hostWitnessApp]
  | succ n => simp [hostWitnessApp]

theorem prefix_trusted_keys_accumulate_witness :
    let evs := [Ev.req ⟨1, .hostSig true 0, 0⟩, .valDone 0, .req ⟨1, .hostSig true 0, 1⟩, .valDone 1]
    (runQ { trustedKeysAccumulate := true } (hostWitnessApp true) evs).complete = some 1 ∧
    (run (hostWitnessApp true) evs).complete = none ∧
    (run (hostWitnessApp true) evs).out = [.failure, .failure] := by
  decide

theorem prefix_claimed_host_witness :
    let evs := [Ev.req ⟨1, .hostSig true 0, 1⟩, .valDone 0]
    (runQ { claimedHostToApp := true } (hostWitnessApp false) evs).complete = some 1 ∧
    (runQ { claimedHostToApp := true } (hostWitnessApp false) evs).log =
      [.begin 1, .checkHost 1 0 1 0 true true (some true)] ∧
    (run (hostWitnessApp false) evs).complete = none ∧
    (run (hostWitnessApp false) evs).log = [.begin 1, .checkHost 1 0 0 0 true true (some false)] := by
  decide

def kbdWitnessApp : App :=
  { needsAuth := fun _ => true, beginAsync := false, pwOK := fun _ _ => false, keyOK := fun _ _ => false,
    perUserKeys := false, kbdStart := fun _ => .reject, kbdNext := fun _ c => if c == 7 then .accept else .reject }

theorem prefix_early_info_response_witness :
    let evs := [Ev.req ⟨1, .kbdint, 0⟩, .info 7, .valDone 1]
    (runQ { earlyInfoResponse := true } kbdWitnessApp evs).complete = some 1 ∧
    (runQ { earlyInfoResponse := true } kbdWitnessApp evs).log = [.begin 1, .kbd 1 (some 7) .accept] ∧
    (run kbdWitnessApp evs).complete = none ∧ (run kbdWitnessApp evs).closed = true ∧
    (run kbdWitnessApp evs).log = [.begin 1] ∧
    (run kbdWitnessApp [Ev.req ⟨1, .kbdint, 0⟩, .valDone 0, .info 7]).closed = true := by
  decide

def optsWitnessApp : App :=
  { needsAuth := fun _ => true, beginAsync := false, pwOK := fun u c => u == 1 && c == 1,
    keyOK := fun u k => u == 1 && k == 0, perUserKeys := false }

theorem prefix_stale_key_options_witness :
    let evs := [Ev.req ⟨1, .pkProbe, 0⟩, .valDone 0, .req ⟨1, .password, 1⟩, .valDone 1]
    (runQ { staleKeyOptions := true } optsWitnessApp evs).complete = some 1 ∧
    (runQ { staleKeyOptions := true } optsWitnessApp evs).keyOpts = some 0 ∧
    (runQ { staleKeyOptions := true } optsWitnessApp evs).log =
      [.begin 1, .checkKey 1 1 0 true none, .checkPw 1 1 true] ∧
    (run optsWitnessApp evs).complete = some 1 ∧ (run optsWitnessApp evs).keyOpts = none := by
  decide

end AsyncsshModel.C05
