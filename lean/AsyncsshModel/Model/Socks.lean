import AsyncsshModel.Base.Hex
/-
  Model of the SOCKS4/4a/5 request parser of dynamic forwarding (property C20).

  Code mirrored: asyncssh/socks.py `SSHSOCKSForwarder` (58-247): the handler methods `_recv_*`, `_connect`,
  `_send_socks4_ok`, `_send_socks5_ok`, and the buffer loop of `data_received` (216-247).  `close()` is
  `SSHForwarder.close` (forward.py:179-189) with no peer yet: it closes and forgets the transport.

  The parser is a state machine over the input buffer: `(_inpbuf, _bytes_needed, _recv_handler, _addrtype,
  _host, _port)` plus whether the transport is still held.  One `data_received(chunk)` call is `feed`.
  Python's partial operations are modelled with their real outcome: `data[i]` out of range and the
  `_socks5_addr_len[...]` lookup raise (`Exc.index`, `Exc.key`), the `assert self._transport is not None`
  statements raise `Exc.assertion`.

  `Variant.asIs` is the code as it stands: `close()` leaves `_recv_handler` set, so the `while` loop goes on
  parsing with the transport gone.  `Variant.fixed` is the proposed repair (`close()` also clears
  `_recv_handler`).
-/
namespace AsyncsshModel.Socks
open AsyncsshModel

inductive Variant where
  | asIs | fixed
  deriving DecidableEq, Repr

/-- `_recv_handler`; `done` is `None` -/
inductive Handler where
  | version | s4addr | s4user | s4host | s5auth | s5cmd | s5addr | s5hostlen | s5host | s5port | done
  deriving DecidableEq, Repr

/-- `_host`: `''` initially, `str(ip_address(b))` for 4 or 16 address bytes (kept as the bytes; the textual
    form is `ipaddress`'s, trusted), or a decoded UTF-8 name -/
inductive Host where
  | none
  | ip (b : Bytes)
  | name (b : Bytes)
  deriving DecidableEq, Repr

/-- truth value of the Python string -/
def Host.truthy : Host → Bool
  | .none => false
  | .ip _ => true
  | .name b => !b.isEmpty

inductive Exc where
  | assertion | index | key
  deriving DecidableEq, Repr

inductive Out where
  | write (b : Bytes)                 -- `self._transport.write(b)`
  | close                             -- `self._transport.close()`
  | connect (h : Host) (port : Nat)   -- `self.forward(host, port, orig_host, orig_port)`
  | raised (e : Exc)                  -- exception leaving `data_received`
  | outOfFuel                         -- artefact of the fuel-bounded loop; `feed_total` shows it never occurs
  deriving DecidableEq, Repr

structure St where
  buf : Bytes := []
  need : Int := 2
  h : Handler := .version
  addrtype : Nat := 0
  host : Host := .none
  port : Nat := 0
  tr : Bool := true
  deriving DecidableEq, Repr

def init : St := {}

/-! constants of socks.py (checked against the regenerated `Gen/C20.lean` in `Props/C20.lean`) -/
def SOCKS4 : Nat := 4
def SOCKS5 : Nat := 5
def SOCKS_CONNECT : Nat := 1
def SOCKS5_AUTH_NONE : Nat := 0
def SOCKS5_ADDR_IPV4 : Nat := 1
def SOCKS5_ADDR_HOSTNAME : Nat := 3
def SOCKS5_ADDR_IPV6 : Nat := 4
def SOCKS4_OK_RESPONSE : Bytes := [0, 0x5a, 0, 0, 0, 0, 0, 0]
def SOCKS5_OK_RESPONSE_HDR : Bytes := [5, 0, 0]
/-- `_socks5_addr_len` -/
def socks5AddrLen : List (Nat × Nat) := [(1, 4), (4, 16)]

def addrLen? (t : Nat) : Option Nat := (socks5AddrLen.find? (·.1 == t)).map (·.2)

/-! strict UTF-8 (`bytes.decode('utf-8')` succeeds) as a DFA -/
inductive U8 where
  | start | t1 | t2 | t2lo | t2hi | t3 | t3lo | t3hi
  deriving DecidableEq, Repr

def u8Step (s : U8) (b : UInt8) : Option U8 :=
  let n := b.toNat
  match s with
  | .start =>
    if n < 0x80 then some .start
    else if 0xC2 ≤ n ∧ n ≤ 0xDF then some .t1
    else if n = 0xE0 then some .t2lo
    else if n = 0xED then some .t2hi
    else if 0xE1 ≤ n ∧ n ≤ 0xEF then some .t2
    else if n = 0xF0 then some .t3lo
    else if 0xF1 ≤ n ∧ n ≤ 0xF3 then some .t3
    else if n = 0xF4 then some .t3hi
    else none
  | .t1 => if 0x80 ≤ n ∧ n ≤ 0xBF then some .start else none
  | .t2 => if 0x80 ≤ n ∧ n ≤ 0xBF then some .t1 else none
  | .t2lo => if 0xA0 ≤ n ∧ n ≤ 0xBF then some .t1 else none
  | .t2hi => if 0x80 ≤ n ∧ n ≤ 0x9F then some .t1 else none
  | .t3 => if 0x80 ≤ n ∧ n ≤ 0xBF then some .t2 else none
  | .t3lo => if 0x90 ≤ n ∧ n ≤ 0xBF then some .t2 else none
  | .t3hi => if 0x80 ≤ n ∧ n ≤ 0x8F then some .t2 else none

def u8Run : U8 → Bytes → Option U8
  | s, [] => some s
  | s, b :: r => match u8Step s b with
    | some s' => u8Run s' r
    | none => none

def validUtf8 (b : Bytes) : Bool := u8Run .start b == some .start

/-- result of one handler call: new state, outputs, and whether an exception left the handler -/
structure CallRes where
  st : St
  out : List Out
  exc : Bool := false

/-- `self.close()` while parsing -/
def doClose (v : Variant) (st : St) : St × List Out :=
  let st1 := { st with tr := false }
  let st2 := if v == .fixed then { st1 with h := .done } else st1
  (st2, if st.tr then [.close] else [])

def closeRes (v : Variant) (st : St) : CallRes :=
  let (s, o) := doClose v st
  { st := s, out := o }

def raise (st : St) (pre : List Out) (e : Exc) : CallRes := { st := st, out := pre ++ [.raised e], exc := true }

/-- `_connect` after an OK response `resp` was written: both start with `assert self._transport is not None` -/
def okAndConnect (st : St) (resp : Bytes) : CallRes :=
  if !st.tr then raise st [] .assertion
  else { st := { st with h := .done }, out := [.write resp, .connect st.host st.port] }

def byte (d : Bytes) (i : Nat) : Option Nat := d[i]?.map (·.toNat)

/-- one call `self._recv_handler(data)` -/
def call (v : Variant) (st : St) (data : Bytes) : CallRes :=
  match st.h with
  | .done => { st := st, out := [] }
  | .version =>
    match byte data 0 with
    | none => raise st [] .index
    | some d0 =>
      if d0 = SOCKS4 then
        match byte data 1 with
        | none => raise st [] .index
        | some d1 =>
          if d1 = SOCKS_CONNECT then { st := { st with need := 6, h := .s4addr }, out := [] }
          else closeRes v st
      else if d0 = SOCKS5 then
        match byte data 1 with
        | none => raise st [] .index
        | some d1 => { st := { st with need := d1, h := .s5auth }, out := [] }
      else closeRes v st
  | .s4addr =>
    match byte data 0, byte data 1, byte data 5 with
    | some d0, some d1, some d5 =>
      let port := d0 * 256 + d1
      -- `if data[2:5] != b'\0\0\0' or data[5] == 0: self._host = str(ip_address(data[2:]))`
      let host := if (data.drop 2).take 3 ≠ [0, 0, 0] ∨ d5 = 0 then Host.ip (data.drop 2) else st.host
      { st := { st with port := port, host := host, need := -1, h := .s4user }, out := [] }
    | _, _, _ => raise st [] .index
  | .s4user =>
    if st.host.truthy then okAndConnect st SOCKS4_OK_RESPONSE
    else { st := { st with need := -1, h := .s4host }, out := [] }
  | .s4host =>
    if validUtf8 data then okAndConnect { st with host := .name data } SOCKS4_OK_RESPONSE
    else closeRes v st
  | .s5auth =>
    if !st.tr then raise st [] .assertion
    else if data.contains (UInt8.ofNat SOCKS5_AUTH_NONE) then
      { st := { st with need := 4, h := .s5cmd }, out := [.write [5, 0]] }
    else closeRes v st
  | .s5cmd =>
    match byte data 0, byte data 1, byte data 2 with
    | some d0, some d1, some d2 =>
      if d0 = SOCKS5 ∧ d1 = SOCKS_CONNECT ∧ d2 = 0 then
        match byte data 3 with
        | none => raise st [] .index
        | some d3 =>
          if d3 = SOCKS5_ADDR_HOSTNAME then
            { st := { st with need := 1, h := .s5hostlen, addrtype := SOCKS5_ADDR_IPV4 }, out := [] }
          else match addrLen? d3 with
            | some (n + 1) => { st := { st with need := (n + 1 : Nat), h := .s5addr, addrtype := d3 }, out := [] }
            | _ => closeRes v st
      else closeRes v st
    | _, _, _ => raise st [] .index
  | .s5addr => { st := { st with host := .ip data, need := 2, h := .s5port }, out := [] }
  | .s5hostlen =>
    match byte data 0 with
    | none => raise st [] .index
    | some d0 => { st := { st with need := d0, h := .s5host }, out := [] }
  | .s5host =>
    if validUtf8 data then { st := { st with host := .name data, need := 2, h := .s5port }, out := [] }
    else closeRes v st
  | .s5port =>
    match byte data 0, byte data 1 with
    | some d0, some d1 =>
      let st1 := { st with port := d0 * 256 + d1 }
      -- `_send_socks5_ok`: assert, then `_socks5_addr_len[self._addrtype] + 2`
      if !st1.tr then raise st1 [] .assertion
      else match addrLen? st1.addrtype with
        | none => raise st1 [] .key
        | some n =>
          okAndConnect st1 (SOCKS5_OK_RESPONSE_HDR ++ [UInt8.ofNat st1.addrtype] ++ List.replicate (n + 2) 0)
    | _, _ => raise st [] .index

def findNul (b : Bytes) : Option Nat :=
  let i := (b.takeWhile (· != 0)).length
  if i < b.length then some i else none

/-- the `while self._recv_handler:` loop of `data_received` (fuel-bounded; see `Lemmas/Forward*`/`Props/C20`) -/
def loop (v : Variant) : Nat → St → St × List Out
  | 0, st => (st, [.outOfFuel])
  | n + 1, st =>
    if st.h = .done then (st, [])
    else if st.need < 0 then
      match findNul st.buf with
      | some idx =>
        let r := call v { st with buf := st.buf.drop (idx + 1) } (st.buf.take idx)
        if r.exc then (r.st, r.out)
        else let (s2, o2) := loop v n r.st; (s2, r.out ++ o2)
      | none =>
        if st.buf.length > 255 then doClose v st      -- SOCKSv4 user or hostname too long
        else (st, [])
    else if st.buf.length ≥ st.need.toNat then
      let r := call v { st with buf := st.buf.drop st.need.toNat } (st.buf.take st.need.toNat)
      if r.exc then (r.st, r.out)
      else let (s2, o2) := loop v n r.st; (s2, r.out ++ o2)
    else (st, [])

/-- enough fuel for any state whose buffer is `b` (justified by `Props/C20.socks_total`) -/
def fuelFor (b : Bytes) : Nat := 3 * b.length + 4

/-- one `data_received(chunk)`.  After the request has been parsed (`done`) further bytes are relay data and
    accumulate in the early-data buffer (`SSHForwarder.data_received` with no peer yet). -/
def feed (v : Variant) (st : St) (chunk : Bytes) : St × List Out :=
  if st.h = .done then ({ st with buf := st.buf ++ chunk }, [])
  else
    let st1 := { st with buf := st.buf ++ chunk }
    loop v (fuelFor st1.buf) st1

def feedAll (v : Variant) : St → List Bytes → St × List Out
  | st, [] => (st, [])
  | st, c :: cs =>
    let (s1, o1) := feed v st c
    let (s2, o2) := feedAll v s1 cs
    (s2, o1 ++ o2)

/-- the three ways a parse can stand after some input -/
inductive Status where
  | connect (h : Host) (port : Nat) (early : Bytes)
  | needMore
  | closed
  deriving DecidableEq, Repr

def connectOf : List Out → Option (Host × Nat)
  | [] => none
  | .connect h p :: _ => some (h, p)
  | _ :: r => connectOf r

def status (st : St) (outs : List Out) : Status :=
  match connectOf outs with
  | some (h, p) => .connect h p st.buf
  | none => if st.tr then .needMore else .closed

end AsyncsshModel.Socks
