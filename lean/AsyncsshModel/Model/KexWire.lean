import AsyncsshModel.Base.Hex
/-
  SSH wire primitives, byte-exact as in /repo/asyncssh/packet.py.

  * encoders `Byte`, `Boolean`, `UInt16`, `UInt32`, `UInt64`, `String`, `MPInt`, `NameList`
    (packet.py:38-93).  Python's `int.to_bytes` raises `OverflowError` when the value does not fit,
    so every encoder whose Python original can raise returns `Option`.
  * decoders = the getters of `class SSHPacket` (packet.py:96-181).  A packet position is modelled
    by the list of bytes that is still unread: a getter takes the unread bytes and returns the value
    together with the bytes that remain (`none` = `PacketDecodeError('Incomplete packet')`).
  * `beBytes`/`beNat` are `int.to_bytes(len, 'big')` / `int.from_bytes(b, 'big')`,
    `toBytesSigned`/`fromBytesSigned` the `signed=True` variants.

  Mathlib-free; lemmas live in `Lemmas/KexWire.lean`.

  C03's own copy (namespace `AsyncsshModel.KexWire`) of the primitives, so that the key-exchange
  model does not depend on files owned by other checks.
-/
namespace AsyncsshModel.KexWire
open AsyncsshModel

/-! ### unsigned big-endian integers -/

/-- `(n mod 256^len).to_bytes(len, 'big')` — exactly `len` bytes, most significant first. -/
def beBytes : (len : Nat) → (n : Nat) → Bytes
  | 0, _ => []
  | len + 1, n => UInt8.ofNat (n / 256 ^ len % 256) :: beBytes len n

/-- `int.from_bytes(b, 'big')` -/
def beNat : Bytes → Nat
  | [] => 0
  | b :: bs => b.toNat * 256 ^ bs.length + beNat bs

/-- `n.to_bytes(len, 'big')`: `OverflowError` (`none`) when `n` needs more than `len` bytes. -/
def toBytes? (len n : Nat) : Option Bytes :=
  if n < 256 ^ len then some (beBytes len n) else none

/-! ### signed (two's complement) integers -/

/-- `int.bit_length()` (of the absolute value, as in Python) -/
def bitLength (v : Int) : Nat :=
  if v.natAbs = 0 then 0 else v.natAbs.log2 + 1

/-- `v` is representable in `l` bytes of two's complement: `-256^l/2 ≤ v < 256^l/2`
    (for `l = 0` only `v = 0`). -/
def FitsSigned (v : Int) (l : Nat) : Prop :=
  -((256 : Int) ^ l) ≤ 2 * v ∧ 2 * v < (256 : Int) ^ l

instance (v : Int) (l : Nat) : Decidable (FitsSigned v l) := by
  unfold FitsSigned; exact inferInstance

/-- the `l` bytes of `v mod 256^l` (two's complement of `v` when it fits) -/
def twosComp (v : Int) (l : Nat) : Bytes :=
  beBytes l (v % (256 : Int) ^ l).toNat

/-- `v.to_bytes(l, 'big', signed=True)`; CPython also returns `b''` for `(-1).to_bytes(0, …)`. -/
def toBytesSigned? (v : Int) (l : Nat) : Option Bytes :=
  if FitsSigned v l ∨ (l = 0 ∧ v = -1) then some (twosComp v l) else none

/-- `int.from_bytes(b, 'big', signed=True)` -/
def fromBytesSigned (b : Bytes) : Int :=
  if 256 ^ b.length ≤ 2 * beNat b then (beNat b : Int) - (256 : Int) ^ b.length else (beNat b : Int)

/-! ### encoders (packet.py:38-93) -/

/-- `Byte(value)` = `bytes((value,))`: `ValueError` outside `range(256)` -/
def encByte? (n : Nat) : Option Bytes := toBytes? 1 n

/-- `Boolean(value)` -/
def encBoolean (b : Bool) : Bytes := [if b then 1 else 0]

def encUInt16? (n : Nat) : Option Bytes := toBytes? 2 n
def encUInt32? (n : Nat) : Option Bytes := toBytes? 4 n
def encUInt64? (n : Nat) : Option Bytes := toBytes? 8 n

/-- `String(value)` for a byte string: `len(value).to_bytes(4, 'big') + value` -/
def encString? (s : Bytes) : Option Bytes :=
  (encUInt32? s.length).map (· ++ s)

/-- The length rule of `MPInt` (packet.py:80-82), in bytes:
    ```
    l = value.bit_length()
    l += (l % 8 == 0 and value != 0 and value != -1 << (l - 1))
    l = (l + 7) // 8
    ``` -/
def mpintLen (v : Int) : Nat :=
  let l := bitLength v
  let l := l + (if l % 8 = 0 ∧ v ≠ 0 ∧ v ≠ -((2 : Int) ^ (l - 1)) then 1 else 0)
  (l + 7) / 8

/-- `MPInt(value)` = `l.to_bytes(4, 'big') + value.to_bytes(l, 'big', signed=True)` -/
def encMPInt? (v : Int) : Option Bytes := do
  let hdr ← encUInt32? (mpintLen v)
  let body ← toBytesSigned? v (mpintLen v)
  pure (hdr ++ body)

/-- `b','.join(names)` -/
def joinComma : List Bytes → Bytes
  | [] => []
  | [n] => n
  | n :: ns => n ++ 44 :: joinComma ns

/-- `NameList(value)` -/
def encNameList? (names : List Bytes) : Option Bytes := encString? (joinComma names)

/-! ### decoders (`SSHPacket` getters, packet.py:121-181) -/

/-- a getter: unread bytes ↦ (value, bytes still unread) -/
abbrev Getter (α : Type) := Bytes → Option (α × Bytes)

/-- `get_bytes(size)` -/
def getBytes (size : Nat) : Getter Bytes := fun b =>
  if size ≤ b.length then some (b.take size, b.drop size) else none

/-- `get_byte()` -/
def getByte : Getter Nat := fun b =>
  match b with
  | [] => none
  | x :: r => some (x.toNat, r)

/-- `get_boolean()` -/
def getBoolean : Getter Bool := fun b => (getByte b).map fun (x, r) => (x != 0, r)

def getUInt (size : Nat) : Getter Nat := fun b =>
  (getBytes size b).map fun (x, r) => (beNat x, r)

def getUInt16 : Getter Nat := getUInt 2
def getUInt32 : Getter Nat := getUInt 4
def getUInt64 : Getter Nat := getUInt 8

/-- `get_string()` = `get_bytes(get_uint32())` -/
def getString : Getter Bytes := fun b =>
  match getUInt32 b with
  | none => none
  | some (n, r) => getBytes n r

/-- `get_mpint()` = `int.from_bytes(get_string(), 'big', signed=True)` -/
def getMPInt : Getter Int := fun b =>
  (getString b).map fun (s, r) => (fromBytesSigned s, r)

/-- `bytes.split(b',')` -/
def splitComma : Bytes → List Bytes
  | [] => [[]]
  | c :: cs =>
    if c = 44 then [] :: splitComma cs
    else match splitComma cs with
      | [] => [[c]]
      | h :: t => (c :: h) :: t

/-- `get_namelist()` -/
def getNameList : Getter (List Bytes) := fun b =>
  (getString b).map fun (s, r) => (if s.isEmpty then [] else splitComma s, r)

/-- `check_end()`: everything consumed -/
def atEnd (b : Bytes) : Bool := b.isEmpty

/-! ### text decoding of message fields (`bytes.decode('ascii')`, strict `bytes.decode('utf-8')`) -/

/-- `b.decode('ascii')` succeeds -/
def isAscii (b : Bytes) : Bool := b.all (· < 128)

/-- states of the UTF-8 acceptor (Unicode Table 3-7) -/
inductive U8State where
  | start
  | t1            -- one continuation byte 80..BF expected
  | t2            -- two continuation bytes expected
  | t2lo          -- after E0: A0..BF then t1
  | t2hi          -- after ED: 80..9F then t1
  | t3            -- three continuation bytes expected
  | t3lo          -- after F0: 90..BF then t2
  | t3hi          -- after F4: 80..8F then t2
  deriving DecidableEq, Repr

def u8Step (s : U8State) (b : UInt8) : Option U8State :=
  let n := b.toNat
  match s with
  | .start =>
    if n < 0x80 then some .start
    else if 0xC2 ≤ n ∧ n ≤ 0xDF then some .t1
    else if n = 0xE0 then some .t2lo
    else if n = 0xED then some .t2hi
    else if 0xE1 ≤ n ∧ n ≤ 0xEF then some .t2
    else if n = 0xF0 then some .t3lo
    else if 0xF1 ≤ n ∧ n ≤ 0xF3 then some .t3
    else if n = 0xF4 then some .t3hi
    else none
  | .t1 => if 0x80 ≤ n ∧ n ≤ 0xBF then some .start else none
  | .t2 => if 0x80 ≤ n ∧ n ≤ 0xBF then some .t1 else none
  | .t2lo => if 0xA0 ≤ n ∧ n ≤ 0xBF then some .t1 else none
  | .t2hi => if 0x80 ≤ n ∧ n ≤ 0x9F then some .t1 else none
  | .t3 => if 0x80 ≤ n ∧ n ≤ 0xBF then some .t2 else none
  | .t3lo => if 0x90 ≤ n ∧ n ≤ 0xBF then some .t2 else none
  | .t3hi => if 0x80 ≤ n ∧ n ≤ 0x8F then some .t2 else none

def u8Run : U8State → Bytes → Option U8State
  | s, [] => some s
  | s, b :: r => match u8Step s b with
    | some s' => u8Run s' r
    | none => none

/-- `b.decode('utf-8')` (errors='strict') succeeds -/
def validUtf8 (b : Bytes) : Bool := u8Run .start b == some .start

/-- `needle in haystack` for byte strings -/
def hasInfix (needle : Bytes) : Bytes → Bool
  | [] => needle.isEmpty
  | c :: cs => (needle.isPrefixOf (c :: cs)) || hasInfix needle cs

end AsyncsshModel.KexWire
