/-
  Life cycle of one SSH channel endpoint (asyncssh/channel.py), transcribed method by method.

  What is kept: `_send_state` / `_recv_state`, `_send_chan`, membership in `conn._channels` (`_conn is not None`),
  the open / request waiters, `_close_event`, the session reference and the sequence of callbacks it received,
  the send buffer / send window and the receive buffer / receive window in *units of one byte* (every write of
  the scripts is one byte, so `_flush_send_buf` sends `min(buffered, window)` one-byte packets), reading paused.
  Write flow control is kept too: `_send_paused`, the water marks of `set_write_buffer_limits`, the callbacks
  `pause_writing` / `resume_writing`, and the tasks blocked in `drain()` on a session that follows those
  callbacks (what `SSHStreamSession.drain` does: blocked while writing is paused and the channel is not lost).
  What is abstracted: payload bytes, encodings, pty / env contents, X11, agent forwarding, line editor.

  Python mutates in place and may raise half-way: every method returns `R` = (new state, actions for the
  connection, exception raised if any); state changes made before the `raise` are kept.
-/
namespace AsyncsshModel.Lifecycle

/-- `_send_state` / `_recv_state` -/
inductive St where
  | closed | opn | eofPending | eof | closePending
  deriving DecidableEq, Repr, Inhabited

/-- `_recv_paused` : `False`, `True`, `'starting'` -/
inductive Paused where
  | no | yes | starting
  deriving DecidableEq, Repr, Inhabited

/-- class of the exception handed around on close (`exc` of `_cleanup`, `connection_lost`) -/
inductive Exc where
  | clean        -- `None`
  | connLost     -- asyncssh.ConnectionLost
  | proto        -- asyncssh.ProtocolError (a DisconnectError)
  | byApp        -- asyncssh.DisconnectByApplication... (DISCONNECT received while connecting)
  | reset        -- an OSError from the transport
  | value        -- an application callback raised (ValueError in the harness)
  | assertion    -- AssertionError from an `assert` in channel.py
  | attr         -- AttributeError (`None.session_started()`)
  deriving DecidableEq, Repr, Inhabited

inductive ReqKind where
  | env | pty | shell | exec | subsystem | exitStatus | unknown
  deriving DecidableEq, Repr, Inhabited

/-- channel messages, without the recipient channel number -/
inductive CMsg where
  | data | eof | close
  | adjust (n : Nat)
  | req (k : ReqKind) (wantReply : Bool)
  | success | failure
  deriving DecidableEq, Repr, Inhabited

/-- callbacks into the session object -/
inductive Cb where
  | made | started | data | eof | exit | ptyReq
  | sessReq (k : ReqKind)
  | lost (e : Exc)
  | pauseW | resumeW             -- `pause_writing()` / `resume_writing()`
  deriving DecidableEq, Repr, Inhabited

/-- value with which the open waiter / a request waiter is resolved (what the awaiting `create()` sees) -/
inductive WakeVal where
  | openOk
  | openFail (byPeer : Bool)      -- ChannelOpenError from OPEN_FAILURE / from `_cleanup` ('SSH connection closed')
  | reqVal (b : Bool)
  | exc (e : Exc)
  deriving DecidableEq, Repr, Inhabited

/-- what a channel method asks its connection to do -/
inductive Act where
  | send (rc : Nat) (m : CMsg)    -- `self._conn.send_packet(type, UInt32(self._send_chan) + ...)`
  | sendConf (rc win : Nat)       -- `send_channel_open_confirmation(self._send_chan, self._recv_chan, window, ..)`
  | sendFail (rc : Nat)           -- `send_channel_open_failure(self._send_chan, ...)`
  | sched (e : Exc)               -- `self._loop.call_soon(self._cleanup, e)`
  | wake                          -- a waiter future got a result / exception: its awaiter is scheduled
  | spawnRead                     -- `self._conn.create_task(self._start_reading())`
  deriving DecidableEq, Repr, Inhabited

/-- outcome of an awaited API call, as the caller sees it -/
inductive Outcome where
  | pending
  | ok
  | openErr (code : Nat)        -- ChannelOpenError: 2 connect failed, 3 pty request failed, 4 session request failed
  | exc (e : Exc)
  | listenErr                   -- ChannelListenError
  deriving DecidableEq, Repr, Inhabited

/-- where the task `_finish_open_request` of a server channel stands -/
inductive FoStage where
  | na | start | awaiting | finished
  deriving DecidableEq, Repr, Inhabited

/-- where the coroutine `SSHClientChannel.create` of this channel is suspended -/
inductive Stage where
  | waitOpen | waitPty | waitReq | done
  deriving DecidableEq, Repr, Inhabited

structure Chan where
  server : Bool := false
  sendSt : St := .closed
  recvSt : St := .closed
  sendChan : Option Nat := none
  reg : Bool := true                  -- `_conn is not None` (and `_recv_chan in conn._channels`)
  sendBuf : Nat := 0
  sendWin : Nat := 0
  sendEofPending : Bool := false      -- `_send_eof_pending`: `close()` overtook an EOF still waiting for window
  sendPaused : Bool := false          -- `_send_paused`: the session was told `pause_writing()`
  hiWater : Nat := 65536              -- `_send_high_water` / `_send_low_water` (`set_write_buffer_limits`)
  loWater : Nat := 16384
  drainPending : Nat := 0             -- tasks blocked in `drain()` of a session following pause / resume_writing
  drainDone : Nat := 0
  recvBuf : Nat := 0                  -- `_recv_buf` / `_recv_buf_len` (one-byte items)
  recvEofPending : Bool := false      -- `_recv_eof_pending`: the peer's CLOSE overtook its still pending EOF
  recvWin : Nat := 1
  initWin : Nat := 1
  paused : Paused := .starting
  session : Bool := false             -- `_session is not None`
  trace : List Cb := []               -- callbacks delivered to the session object of this channel
  openWaiter : Bool := false
  reqWaiter : Bool := false           -- `_request_waiters` (at most one: `create()` awaits each request)
  closeEvent : Bool := false
  wcPending : Nat := 0                -- tasks blocked in `wait_closed()`
  wcDone : Nat := 0
  -- behaviour of the application's session object
  eofRet : Bool := true               -- return value of `eof_received()`
  ptyOK : Bool := true                -- `pty_requested()`
  reqOK : Bool := true                -- `shell/exec/subsystem_requested()`
  armed : Bool := false               -- the request / exit-status callback raises
  -- the task running `create()` for this (client) channel: arguments, suspension point, result
  nenv : Nat := 0
  wantPty : Bool := false
  kind : ReqKind := .exec
  stage : Stage := .done
  outcome : Outcome := .pending
  wakeVal : Option WakeVal := none    -- result of the future `create()` awaits, set but not yet consumed
  -- server channel whose session comes from an awaitable the application resolves later
  later : Bool := false
  fo : FoStage := .na                 -- `_finish_open_request`: not started / suspended on that awaitable / over
  decided : Option Bool := none       -- the application resolved it (True: session, False: ChannelOpenError)
  deriving DecidableEq, Repr, Inhabited

structure R where
  c : Chan
  acts : List Act := []
  err : Option Exc := none
  deriving Repr

def R.ok (c : Chan) (acts : List Act := []) : R := { c := c, acts := acts }
def R.fail (c : Chan) (e : Exc) (acts : List Act := []) : R := { c := c, acts := acts, err := some e }

/-- sequencing: stop at the first exception, keep the state reached -/
def R.andThen (r : R) (f : Chan → R) : R :=
  match r.err with
  | some _ => r
  | none => let r2 := f r.c; { c := r2.c, acts := r.acts ++ r2.acts, err := r2.err }

def R.pre (acts : List Act) (r : R) : R := { r with acts := acts ++ r.acts }

/-- `send_packet`: nothing when `_send_chan is None` -/
def sendPkt (c : Chan) (m : CMsg) : List Act :=
  match c.sendChan with
  | some n => [.send n m]
  | none => []

/-- `_cleanup(exc)` (channel.py:207) -/
def cleanup (c : Chan) (e : Exc) : R :=
  let wv : Option WakeVal :=
    if c.openWaiter then some (.openFail false)
    else if c.reqWaiter then some (if e = .clean then .reqVal false else .exc e)
    else c.wakeVal
  let acts : List Act := if c.openWaiter ∨ c.reqWaiter then [.wake] else []
  let tr := if c.session then c.trace ++ [.lost e] else c.trace
  -- `connection_lost` releases whoever is blocked in `drain()` (`SSHStreamSession.connection_lost` → `_unblock_drain`)
  let c0 : Chan := if c.session then { c with drainDone := c.drainDone + c.drainPending, drainPending := 0 } else c
  let c1 : Chan := { c0 with openWaiter := false, reqWaiter := false, wakeVal := wv, trace := tr, session := false,
                             closeEvent := true, wcDone := c.wcDone + c.wcPending, wcPending := 0 }
  let c2 : Chan := if c1.reg then { c1 with reg := false, sendChan := none } else c1
  R.ok c2 acts

/-- `_close_send` (channel.py:252) -/
def closeSend (c : Chan) : R :=
  let c1 : Chan := { c with sendBuf := 0 }
  if c1.sendSt ≠ .closed then
    R.ok { c1 with sendChan := none, sendSt := .closed } (sendPkt c1 .close)
  else R.ok c1

/-- `_discard_recv` (channel.py:267).  The window the discarded data had used is given back to the peer
    (`if self._recv_buf_len: self.send_packet(MSG_CHANNEL_WINDOW_ADJUST, UInt32(self._recv_buf_len))`; nothing is
    sent once the CLOSE is out: `_send_chan is None`). -/
def discardRecv (c : Chan) : R :=
  let acts : List Act := if 0 < c.recvBuf then sendPkt c (.adjust c.recvBuf) else []
  let c1 : Chan := { c with recvBuf := 0, paused := .no }
  if c1.recvSt = .closePending then R.ok { c1 with recvSt := .closed } (acts ++ [.sched .clean])
  else R.ok c1 acts

/-- the code before the repair: the discarded data was never credited -/
def discardRecvPreFix (c : Chan) : R :=
  let c1 : Chan := { c with recvBuf := 0, paused := .no }
  if c1.recvSt = .closePending then R.ok { c1 with recvSt := .closed } [.sched .clean]
  else R.ok c1

/-- `_pause_resume_writing` (channel.py:295): the flag is set before the `assert self._session is not None` -/
def pauseResumeWriting (c : Chan) : R :=
  if c.sendPaused then
    if c.sendBuf ≤ c.loWater then
      let c1 : Chan := { c with sendPaused := false }
      if c1.session then
        -- `resume_writing()`: whoever follows the callbacks and is blocked in `drain()` goes on
        R.ok { c1 with trace := c1.trace ++ [.resumeW], drainDone := c1.drainDone + c1.drainPending, drainPending := 0 }
      else R.fail c1 .assertion
    else R.ok c
  else if c.hiWater < c.sendBuf then
    let c1 : Chan := { c with sendPaused := true }
    if c1.session then R.ok { c1 with trace := c1.trace ++ [.pauseW] } else R.fail c1 .assertion
  else R.ok c

/-- the `close_pending` branch of `_flush_send_buf`: `if self._send_eof_pending:` the EOF written before `close()`
    goes out first; then `_close_send()` -/
def closeSendEof (c1 : Chan) : R :=
  if c1.sendEofPending then (closeSend { c1 with sendEofPending := false }).pre (sendPkt c1 .eof)
  else closeSend c1

/-- `_flush_send_buf`, last part (channel.py:344): a pending EOF / close goes out once the buffer is empty -/
def flushSendTail (c1 : Chan) : R :=
  if c1.sendBuf = 0 then
    match c1.sendSt with
    | .eofPending => R.ok { c1 with sendSt := .eof } (sendPkt c1 .eof)
    | .closePending => closeSendEof c1
    | _ => R.ok c1
  else R.ok c1

/-- `_flush_send_buf` (channel.py:313) for one-byte buffers: data as far as the window allows, then
    `_pause_resume_writing()`, then the pending EOF / close -/
def flushSendBuf (c : Chan) : R :=
  let k := min c.sendBuf c.sendWin
  let acts := (List.replicate k ()).flatMap (fun _ => sendPkt c .data)
  let c1 : Chan := { c with sendBuf := c.sendBuf - k, sendWin := c.sendWin - k }
  ((pauseResumeWriting c1).pre acts).andThen flushSendTail

/-- `write_eof` (channel.py:981) -/
def writeEof (c : Chan) : R :=
  if c.sendSt = .opn then flushSendBuf { c with sendSt := .eofPending } else R.ok c

/-- `_deliver_data` for one byte (channel.py:365) -/
def deliverOne (c : Chan) : R :=
  let w := c.recvWin - 1
  let adj : Bool := decide (2 * w < c.initWin)
  let acts := if adj then sendPkt c (.adjust (c.initWin - w)) else []
  let c1 : Chan := { c with recvWin := if adj then c.initWin else w }
  if c1.session then R.ok { c1 with trace := c1.trace ++ [.data] } acts else R.ok c1 acts

def deliverN : Nat → Chan → R
  | 0, c => R.ok c
  | n + 1, c => (deliverOne c).andThen (deliverN n)

/-- `_flush_recv_buf`, second part (channel.py:343-359): a pending EOF is delivered once the buffer is empty -/
def flushEofPart (c : Chan) : R :=
  if c.recvBuf = 0 ∧ c.paused ≠ .starting ∧ c.recvSt = .eofPending then
    let c1 : Chan := { c with recvSt := .eof }
    if c1.session then
      let c2 : Chan := { c1 with trace := c1.trace ++ [.eof] }
      if c2.eofRet = false ∧ c2.sendSt = .opn then writeEof c2 else R.ok c2
    else R.fail c1 .assertion            -- `assert self._session is not None`
  else R.ok c

/-- `_flush_recv_buf`, last part (channel.py:361-363): a pending close completes once the buffer is empty -/
def flushClosePart (c : Chan) : R :=
  if c.recvBuf = 0 ∧ c.recvSt = .closePending then
    -- `if self._recv_eof_pending:` the EOF that was still waiting behind buffered data is delivered first
    -- (its return value is not looked at: the send side is closed already)
    let tr := if c.recvEofPending = true ∧ c.session = true then c.trace ++ [.eof] else c.trace
    R.ok { c with recvSt := .closed, recvEofPending := false, trace := tr } [.sched .clean]
  else R.ok c

/-- `_flush_recv_buf` (channel.py:337); the harness sessions never pause from inside `data_received` -/
def flushRecvBuf (c : Chan) : R :=
  ((if c.paused = .no then deliverN c.recvBuf { c with recvBuf := 0 } else R.ok c).andThen flushEofPart).andThen
    flushClosePart

/-- `_accept_data` for one byte (channel.py:421).  Data that arrives after the local `close()` is dropped, and the
    window it used is given back at once (`send_packet(MSG_CHANNEL_WINDOW_ADJUST, UInt32(len(data)))`; nothing is
    sent once the CLOSE is out), so that a peer which is closing too can finish sending and send its CLOSE. -/
def acceptData (c : Chan) : R :=
  if c.sendSt = .closePending ∨ c.sendSt = .closed then R.ok c (sendPkt c (.adjust 1))
  else if c.paused ≠ .no then R.ok { c with recvBuf := c.recvBuf + 1 }
  else deliverOne c

/-- the code before the repair: dropped without a word -/
def acceptDataPreFix (c : Chan) : R :=
  if c.sendSt = .closePending ∨ c.sendSt = .closed then R.ok c
  else if c.paused ≠ .no then R.ok { c with recvBuf := c.recvBuf + 1 }
  else deliverOne c

/-- `resume_reading` (channel.py:1020) -/
def resumeReading (c : Chan) : R :=
  if c.paused ≠ .no then flushRecvBuf { c with paused := .no } else R.ok c

/-- `pause_reading` -/
def pauseReading (c : Chan) : R := R.ok { c with paused := .yes }

/-- `_start_reading` (channel.py:276) -/
def startReading (c : Chan) : R :=
  if c.paused = .starting then flushRecvBuf { c with paused := .no } else R.ok c

/-- `process_connection_close` (channel.py:450) -/
def processConnectionClose (c : Chan) (e : Exc) : R :=
  (closeSend { c with sendSt := .closed }).andThen fun c => cleanup c e

/-- `_process_data` (channel.py:571), one byte -/
def processData (c : Chan) : R :=
  if c.recvSt ≠ .opn then R.fail c .proto
  else if c.recvWin - c.recvBuf < 1 then R.fail c .proto   -- 'Window exceeded': `1 > _recv_window - _recv_buf_len`
  else acceptData c

/-- `_process_eof` (channel.py:616) -/
def processEof (c : Chan) : R :=
  if c.recvSt ≠ .opn then R.fail c .proto
  else flushRecvBuf { c with recvSt := .eofPending }

def recvLive (s : St) : Bool := s = .opn ∨ s = .eofPending ∨ s = .eof

/-- `_process_close` (channel.py:669).  After `_close_send()` has thrown the unsent data away the water marks
    are looked at again (`self._pause_resume_writing()`): a session that had been told to pause writing is told
    to resume — the only thing that releases a writer blocked in `drain()` when the channel's `_cleanup` has to
    wait for the application to read what is still buffered. -/
def processClose (c : Chan) : R :=
  if recvLive c.recvSt = false then R.fail c .proto
  else ((closeSend c).andThen pauseResumeWriting).andThen fun c =>
    flushRecvBuf { c with recvEofPending := decide (c.recvSt = .eofPending), recvSt := .closePending }

/-- the code before the repair: `_send_paused` stayed set -/
def processClosePreFix (c : Chan) : R :=
  if recvLive c.recvSt = false then R.fail c .proto
  else (closeSend c).andThen fun c =>
    flushRecvBuf { c with recvEofPending := decide (c.recvSt = .eofPending), recvSt := .closePending }

/-- `_process_window_adjust` (channel.py:554) -/
def processAdjust (c : Chan) (n : Nat) : R :=
  if recvLive c.recvSt = false then R.fail c .proto
  else flushSendBuf { c with sendWin := c.sendWin + n }

/-- the request handlers reachable in the scripts; `none`: no handler (result `False`);
    result, callback logged, raises? -/
def handleReq (c : Chan) (k : ReqKind) : R × Bool :=
  match c.server, k with
  | true, .env => (R.ok c, true)
  | true, .pty => (R.ok { c with trace := c.trace ++ [.ptyReq] }, c.ptyOK)
  | true, .shell | true, .exec | true, .subsystem =>
    let c1 : Chan := { c with trace := c.trace ++ [.sessReq k] }
    if c.armed then (R.fail c1 .value, false) else (R.ok c1, c.reqOK)
  | false, .exitStatus =>
    let c1 : Chan := { c with trace := c.trace ++ [.exit] }
    if c.armed then (R.fail c1 .value, false) else (R.ok c1, true)
  | _, _ => (R.ok c, false)

def isStart (k : ReqKind) : Bool := k = .shell ∨ k = .exec ∨ k = .subsystem

/-- `_report_response` (channel.py:431) -/
def reportResponse (c : Chan) (k : ReqKind) (wantReply result : Bool) : R :=
  let acts : List Act :=
    if wantReply ∧ c.sendSt ≠ .closePending ∧ c.sendSt ≠ .closed then
      sendPkt c (if result then .success else .failure) else []
  if result ∧ isStart k then
    if c.session then (resumeReading { c with trace := c.trace ++ [.started] }).pre acts
    else R.fail c .assertion acts
  else R.ok c acts

/-- `_process_request` + `_service_next_request` (channel.py:646, 414); all handlers here are synchronous,
    so the request queue holds only the request being served.  Handlers touch `self._session`: a request
    for a channel without session raises AttributeError. -/
def processRequest (c : Chan) (k : ReqKind) (wantReply : Bool) : R :=
  if recvLive c.recvSt = false then R.fail c .proto
  else
    let needsSession : Bool := (c.server ∧ (k = .pty ∨ isStart k)) ∨ (c.server = false ∧ k = .exitStatus)
    if needsSession ∧ c.session = false then R.fail c .attr
    else
      let (r, result) := handleReq c k
      r.andThen fun c => reportResponse c k wantReply result

/-- `_process_response` (channel.py:665) -/
def processResponse (c : Chan) (ok : Bool) : R :=
  if c.reqWaiter then R.ok { c with reqWaiter := false, wakeVal := some (.reqVal ok) } [.wake]
  else R.fail c .proto

/-- `process_open_confirmation` (channel.py:519) -/
def processOpenConf (c : Chan) (sc win : Nat) : R :=
  if c.openWaiter = false then R.fail c .proto
  else R.ok { c with sendChan := some sc, sendWin := win, sendSt := .opn, recvSt := .opn, openWaiter := false,
                     wakeVal := some .openOk } [.wake]

/-- `process_open_failure` (channel.py:541) -/
def processOpenFailure (c : Chan) : R :=
  if c.openWaiter = false then R.fail c .proto
  else R.ok { c with openWaiter := false, wakeVal := some (.openFail true) } [.wake, .sched .clean]

/-- `write` of one byte (channel.py:896): BrokenPipeError unless open -/
def write (c : Chan) : R :=
  if c.sendSt ≠ .opn then R.fail c .reset
  else flushSendBuf { c with sendBuf := c.sendBuf + 1 }

/-- `abort` (channel.py:749) -/
def abort (c : Chan) : R :=
  let r1 := if c.sendSt ≠ .closePending ∧ c.sendSt ≠ .closed then closeSend c else R.ok c
  r1.andThen fun c => if c.recvSt ≠ .closed then discardRecv c else R.ok c

/-- `close` (channel.py:818); `self._send_eof_pending = self._send_state == 'eof_pending'` -/
def close (c : Chan) : R :=
  let r1 := if c.sendSt ≠ .closePending ∧ c.sendSt ≠ .closed then
              flushSendBuf { c with sendEofPending := decide (c.sendSt = .eofPending), sendSt := .closePending }
            else R.ok c
  r1.andThen fun c => if c.recvSt ≠ .closed then discardRecv c else R.ok c

/-- `SSHServerChannel.exit(status)` (channel.py:1952) -/
def exit (c : Chan) : R :=
  if c.sendSt ≠ .closePending ∧ c.sendSt ≠ .closed then
    (close c).pre (sendPkt c (.req .exitStatus false))
  else R.ok c

/-- `set_write_buffer_limits(high, low)` (channel.py:913) with `0 ≤ low ≤ high` -/
def setLimits (c : Chan) (hi lo : Nat) : R := pauseResumeWriting { c with hiWater := hi, loWater := lo }

/-- `drain()` of a session that follows `pause_writing` / `resume_writing` / `connection_lost`
    (`SSHStreamSession.drain`, stream.py:669): blocks while writing is paused and the channel is not lost -/
def drain (c : Chan) : Chan :=
  if c.sendPaused ∧ c.session then { c with drainPending := c.drainPending + 1 }
  else { c with drainDone := c.drainDone + 1 }

/-- `wait_closed()` started: blocks unless `_close_event` is set -/
def waitClosed (c : Chan) : Chan :=
  if c.closeEvent then { c with wcDone := c.wcDone + 1 } else { c with wcPending := c.wcPending + 1 }

/-- `_make_request` as used by `create()`: `False` at once when `_send_chan is None`, else a new waiter -/
def makeRequest (c : Chan) (k : ReqKind) : Chan × List Act × Bool :=
  match c.sendChan with
  | none => (c, [], false)
  | some n => ({ c with reqWaiter := true }, [.send n (.req k true)], true)

/-- `create()` after a failed request: `self.close(); raise ChannelOpenError(code)` -/
def createFail (c : Chan) (code : Nat) : R :=
  close { c with stage := .done, outcome := .openErr code }    -- (the task's result does not interact with `close`)

/-- the main request of `create()` (exec / subsystem / shell), channel.py:1249-1262 -/
def createMainReq (c : Chan) : R :=
  let (c1, acts, waiting) := makeRequest c c.kind
  if waiting then R.ok { c1 with stage := .waitReq } acts else (createFail c1 4).pre acts

/-- `create()` once the session object exists (channel.py:1157-1208): env requests, then pty or main request -/
def createAfterMade (c1 : Chan) : R :=
  let envActs := (List.replicate c1.nenv ()).flatMap (fun _ => sendPkt c1 (.req .env false))
  if c1.wantPty then
    let (c2, acts, waiting) := makeRequest c1 .pty
    if waiting then R.ok { c2 with stage := .waitPty } (envActs ++ acts)
    else (createFail c2 3).pre (envActs ++ acts)
  else (createMainReq c1).pre envActs

/-- `create()` right after the open confirmation (channel.py:1149-1155): `session_factory()`, `connection_made` -/
def createAfterOpen (c : Chan) : R :=
  createAfterMade { c with session := true, trace := c.trace ++ [.made] }

/-- `create()` resumes with the outcome `v` of the future it awaited (a value that does not fit the
    suspension point cannot occur; the coroutine then simply stays where it is) -/
def createResume (c : Chan) (v : WakeVal) : R :=
  match v with
  | .openOk => if c.stage = .waitOpen then createAfterOpen c else R.ok c
  | .openFail _ =>
    if c.stage = .waitOpen then R.ok { c with stage := .done, outcome := .openErr 2 } else R.ok c
  | .reqVal true =>
    if c.stage = .waitPty then createMainReq c
    else if c.stage = .waitReq then
      if c.session then
        R.ok { c with trace := c.trace ++ [.started], stage := .done, outcome := .ok } [.spawnRead]
      else R.ok { c with stage := .done, outcome := .exc .attr }       -- `None.session_started()`
    else R.ok c
  | .reqVal false =>
    if c.stage = .waitPty then createFail c 3 else if c.stage = .waitReq then createFail c 4 else R.ok c
  | .exc e =>
    if c.stage = .waitPty ∨ c.stage = .waitReq then R.ok { c with stage := .done, outcome := .exc e } else R.ok c

/-- the task wake-up scheduled when the awaited future was resolved -/
def createWake (c : Chan) : R :=
  match c.wakeVal with
  | none => R.ok c
  | some v => createResume { c with wakeVal := none } v

/-- `_finish_open_request` once the session object is known (channel.py:490-510);
    this channel's own number in the confirmation is filled in by the connection -/
def finishOpenGranted (c : Chan) : R :=
  let c0 : Chan := { c with fo := .finished }
  if c0.reg = false then R.ok c0 [.sched .clean]          -- `raise ChannelOpenError` → `call_soon(_cleanup)`
  else
    let c1 : Chan := { c0 with session := true, sendSt := .opn, recvSt := .opn, trace := c0.trace ++ [.made] }
    match c0.sendChan with
    | some sc => R.ok c1 [.sendConf sc c0.recvWin]
    | none => R.ok c1

/-- the application refused: `ChannelOpenError` out of the awaited factory (channel.py:511-517) -/
def finishOpenDenied (c : Chan) : R :=
  let a : List Act := if c.reg then (match c.sendChan with | some sc => [.sendFail sc] | none => []) else []
  R.ok { c with fo := .finished } (a ++ [.sched .clean])

/-- first step of the task `_finish_open_request` -/
def finishOpen (c : Chan) : R :=
  if c.fo ≠ .start then R.ok c
  else if c.later then
    match c.decided with
    | some true => finishOpenGranted c
    | some false => finishOpenDenied c
    | none => R.ok { c with fo := .awaiting }
  else finishOpenGranted c

/-- the task resumes when the application resolved the awaitable -/
def finishOpenResume (c : Chan) (g : Bool) : R :=
  if c.fo ≠ .awaiting then R.ok c
  else if g then finishOpenGranted c else finishOpenDenied c

/-- dispatch of a received channel message (`SSHChannel._packet_handlers`) -/
def processMsg (c : Chan) (m : CMsg) : R :=
  match m with
  | .data => processData c
  | .eof => processEof c
  | .close => processClose c
  | .adjust n => processAdjust c n
  | .req k w => processRequest c k w
  | .success => processResponse c true
  | .failure => processResponse c false

/-- application calls on a channel object -/
inductive AppOp where
  | write | eof | close | abort | pause | resume | exit
  | limits (hi lo : Nat)      -- `set_write_buffer_limits(high=hi, low=lo)`
  | drain                     -- `ensure_future(drain())` on the session's writer
  deriving DecidableEq, Repr, Inhabited

/-! ### the code before the repairs of the audit findings (witness theorems in Props/C09.lean) -/

/-- `_process_data` before the repair: dropped data was not credited -/
def processDataPreFix (c : Chan) : R :=
  if c.recvSt ≠ .opn then R.fail c .proto
  else if c.recvWin - c.recvBuf < 1 then R.fail c .proto
  else acceptDataPreFix c

def abortPreFix (c : Chan) : R :=
  let r1 := if c.sendSt ≠ .closePending ∧ c.sendSt ≠ .closed then closeSend c else R.ok c
  r1.andThen fun c => if c.recvSt ≠ .closed then discardRecvPreFix c else R.ok c

def closePreFix (c : Chan) : R :=
  let r1 := if c.sendSt ≠ .closePending ∧ c.sendSt ≠ .closed then
              flushSendBuf { c with sendEofPending := decide (c.sendSt = .eofPending), sendSt := .closePending }
            else R.ok c
  r1.andThen fun c => if c.recvSt ≠ .closed then discardRecvPreFix c else R.ok c

def exitPreFix (c : Chan) : R :=
  if c.sendSt ≠ .closePending ∧ c.sendSt ≠ .closed then
    (closePreFix c).pre (sendPkt c (.req .exitStatus false))
  else R.ok c

def processMsgPreFix (c : Chan) (m : CMsg) : R :=
  match m with
  | .data => processDataPreFix c
  | .close => processClosePreFix c
  | m => processMsg c m

def appOp (c : Chan) : AppOp → R
  | .write => write c
  | .eof => writeEof c
  | .close => close c
  | .abort => abort c
  | .pause => pauseReading c
  | .resume => resumeReading c
  | .exit => if c.server then exit c else R.ok c
  | .limits hi lo => setLimits c hi lo
  | .drain => R.ok (drain c)

def appOpPreFix (c : Chan) : AppOp → R
  | .close => closePreFix c
  | .abort => abortPreFix c
  | .exit => if c.server then exitPreFix c else R.ok c
  | o => appOp c o

end AsyncsshModel.Lifecycle
