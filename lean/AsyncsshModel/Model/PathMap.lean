import AsyncsshModel.Base.Path
/-
  Model of the path-confinement logic (property C13):
  * `SFTPServer.map_path` / `reverse_map_path`            (asyncssh/sftp.py)
  * SCP sink: `_parse_cd_args` and the record loop of `_SCPSink._recv_files`  (asyncssh/scp.py)
  * recursive SFTP copy: name joining in `SFTPClient._copy`                    (asyncssh/sftp.py)
-/
namespace AsyncsshModel.PathMap

open AsyncsshModel AsyncsshModel.Path

/-- `SFTPServer.map_path` with a chroot set:
    `posixpath.join(chroot, posixpath.normpath(posixpath.join(b'/', path)).lstrip(b'/'))` -/
def mapPath (root p : Bytes) : Bytes :=
  join root (lstripSlash (normpath (join [slash] p)))

/-- The pre-fix code (`normpath[1:]` instead of `.lstrip(b'/')`), kept to state the witness of defect F4. -/
def mapPathOld (root p : Bytes) : Bytes :=
  join root ((normpath (join [slash] p)).drop 1)

/-- `SFTPServer.reverse_map_path` with a chroot set; `none` = `SFTPNoSuchFile`. -/
def reverseMapPath (root p : Bytes) : Option Bytes :=
  if p = root then some [slash]
  else if (root ++ [slash]).isPrefixOf p then some (p.drop root.length)
  else none

/-! ### SCP sink -/

def isSpace (c : UInt8) : Bool :=
  c = 32 ∨ c = 9 ∨ c = 10 ∨ c = 11 ∨ c = 12 ∨ c = 13

/-- next whitespace-delimited token and the rest (`bytes.split(None, k)` scanning step) -/
def nextToken (s : Bytes) : Bytes × Bytes :=
  let s := s.dropWhile isSpace
  (s.takeWhile (fun c => !isSpace c), s.dropWhile (fun c => !isSpace c))

/-- `args.split(None, 2)` when it yields exactly three fields -/
def split3 (s : Bytes) : Option (Bytes × Bytes × Bytes) :=
  let (a, r1) := nextToken s
  let (b, r2) := nextToken r1
  let c := r2.dropWhile isSpace
  if a = [] ∨ b = [] ∨ c = [] then none else some (a, b, c)

def backslash : UInt8 := 92

/-- the name test of `_parse_cd_args` -/
def scpNameOk (name : Bytes) : Bool :=
  !(name.contains slash) && !(name.contains backslash) && name != dotdot

inductive ScpRec where
  | file (name : Bytes)      -- 'C' record with a name that passed `_parse_cd_args`
  | dir (name : Bytes)       -- 'D' record, likewise
  | bad (name : Bytes)       -- 'C'/'D' record whose name is rejected: error, nothing created
  | endDir                   -- 'E'
  | time                     -- 'T'
  deriving Repr, DecidableEq

/-- classify a raw C/D record -/
def classify (isDir : Bool) (name : Bytes) : ScpRec :=
  if scpNameOk name then (if isDir then .dir name else .file name) else .bad name

/-- The sink's record loop (`_recv_files`/`_recv_dir`), destination directories existing:
    `stack` is the list of directory names entered so far (innermost first); the result lists the
    paths created or written, relative component lists below the destination.  An 'E' at the top
    level ends the transfer. -/
def sink : List ScpRec → List Bytes → List (List Bytes)
  | [], _ => []
  | .file n :: rest, stack => (stack.reverse ++ [n]) :: sink rest stack
  | .dir n :: rest, stack => (stack.reverse ++ [n]) :: sink rest (n :: stack)
  | .bad _ :: rest, stack => sink rest stack
  | .time :: rest, stack => sink rest stack
  | .endDir :: rest, stack =>
    match stack with
    | [] => []
    | _ :: up => sink rest up

/-- the same loop with levels that may contribute no path component: `none` is the destination itself, created
    by the first 'D' record when the destination path did not exist (its name is dropped) -/
def sinkO : List ScpRec → List (Option Bytes) → List (List Bytes)
  | [], _ => []
  | .file n :: rest, stack => (stack.reverse.filterMap id ++ [n]) :: sinkO rest stack
  | .dir n :: rest, stack => (stack.reverse.filterMap id ++ [n]) :: sinkO rest (some n :: stack)
  | .bad _ :: rest, stack => sinkO rest stack
  | .time :: rest, stack => sinkO rest stack
  | .endDir :: rest, stack =>
    match stack with
    | [] => []
    | _ :: up => sinkO rest up

/-- The sink when the destination path does not exist yet (`isFile = false`) or is a regular file
    (`isFile = true`): a 'C' record writes the destination itself (path `[]`); a 'D' record creates it as a
    directory and enters it (or fails with "Not a directory" when it is a file); `_recv_files` computes
    `new_dstpath = dstpath` whenever `dstpath` is not a directory. -/
def sinkNew : List ScpRec → Bool → List (List Bytes)
  | [], _ => []
  | .file _ :: rest, _ => [] :: sinkNew rest true
  | .dir _ :: rest, false => [] :: sinkO rest [none]
  | .dir _ :: rest, true => sinkNew rest true
  | .bad _ :: rest, f => sinkNew rest f
  | .time :: rest, f => sinkNew rest f
  | .endDir :: _, _ => []

/-! ### recursive SFTP get -/

/-- the entry-name filter of `SFTPClient._copy`: `.`/`..` are skipped, a name containing `/` raises. -/
inductive NameVerdict where
  | skip | reject | use
  deriving Repr, DecidableEq

def getNameVerdict (name : Bytes) : NameVerdict :=
  if name = dot ∨ name = dotdot then .skip
  else if name.contains slash then .reject
  else .use

end AsyncsshModel.PathMap

namespace AsyncsshModel.PathMap
open AsyncsshModel AsyncsshModel.Path

/-- what a (possibly hostile) server presents as a directory tree -/
inductive Entry where
  | file (name : Bytes)
  | dir (name : Bytes) (children : List Entry)

/-- `SFTPClient._copy` on a directory listing: the list of destination paths (component lists below
    the destination directory, `pre` reversed = current directory) created before the copy finishes
    or aborts (`true` = aborted by `SFTPBadMessage`). -/
def copyEntries (pre : List Bytes) : List Entry → List (List Bytes) × Bool
  | [] => ([], false)
  | .file n :: rest =>
    match getNameVerdict n with
    | .skip => copyEntries pre rest
    | .reject => ([], true)
    | .use =>
      let (ps, ab) := copyEntries pre rest
      ((pre.reverse ++ [n]) :: ps, ab)
  | .dir n ch :: rest =>
    match getNameVerdict n with
    | .skip => copyEntries pre rest
    | .reject => ([], true)
    | .use =>
      let (ps1, ab1) := copyEntries (n :: pre) ch
      if ab1 then ((pre.reverse ++ [n]) :: ps1, true)
      else
        let (ps2, ab2) := copyEntries pre rest
        ((pre.reverse ++ [n]) :: ps1 ++ ps2, ab2)

end AsyncsshModel.PathMap
