import AsyncsshModel.Base.Path
/-
  Model of the path-confinement logic (property C13):
  * `SFTPServer.map_path` / `reverse_map_path`            (asyncssh/sftp.py)
  * SCP sink: `_parse_cd_args` and the record loop of `_SCPSink._recv_files`  (asyncssh/scp.py)
  * recursive SFTP copy: name joining in `SFTPClient._copy`                    (asyncssh/sftp.py)
  * glob downloads (`mget`): `SFTPGlob._match_pattern` on the names of a listing and the local top-level name
    `_begin_copy` derives from each match (`basename`)                          (asyncssh/sftp.py)
  * `SFTPServer.readlink` under a chroot: the path handed to `realpath`        (asyncssh/sftp.py)
-/
namespace AsyncsshModel.PathMap

open AsyncsshModel AsyncsshModel.Path

/-- `SFTPServer.map_path` with a chroot set:
    `posixpath.join(chroot, posixpath.normpath(posixpath.join(b'/', path)).lstrip(b'/'))` -/
def mapPath (root p : Bytes) : Bytes :=
  join root (lstripSlash (normpath (join [slash] p)))

/-- The pre-fix code (`normpath[1:]` instead of `.lstrip(b'/')`), kept to state the witness of defect F4. -/
def mapPathOld (root p : Bytes) : Bytes :=
  join root ((normpath (join [slash] p)).drop 1)

/-- `SFTPServer.reverse_map_path` with a chroot set; `none` = `SFTPNoSuchFile`. -/
def reverseMapPath (root p : Bytes) : Option Bytes :=
  if p = root then some [slash]
  else if (root ++ [slash]).isPrefixOf p then some (p.drop root.length)
  else none

/-! ### SCP sink -/

def isSpace (c : UInt8) : Bool :=
  c = 32 ∨ c = 9 ∨ c = 10 ∨ c = 11 ∨ c = 12 ∨ c = 13

/-- next whitespace-delimited token and the rest (`bytes.split(None, k)` scanning step) -/
def nextToken (s : Bytes) : Bytes × Bytes :=
  let s := s.dropWhile isSpace
  (s.takeWhile (fun c => !isSpace c), s.dropWhile (fun c => !isSpace c))

/-- `args.split(None, 2)` when it yields exactly three fields -/
def split3 (s : Bytes) : Option (Bytes × Bytes × Bytes) :=
  let (a, r1) := nextToken s
  let (b, r2) := nextToken r1
  let c := r2.dropWhile isSpace
  if a = [] ∨ b = [] ∨ c = [] then none else some (a, b, c)

def backslash : UInt8 := 92

/-- the name test of `_parse_cd_args` -/
def scpNameOk (name : Bytes) : Bool :=
  !(name.contains slash) && !(name.contains backslash) && name != dotdot

inductive ScpRec where
  | file (name : Bytes)      -- 'C' record with a name that passed `_parse_cd_args`
  | dir (name : Bytes)       -- 'D' record, likewise
  | bad (name : Bytes)       -- 'C'/'D' record whose name is rejected: error, nothing created
  | endDir                   -- 'E'
  | time                     -- 'T'
  deriving Repr, DecidableEq

/-- classify a raw C/D record -/
def classify (isDir : Bool) (name : Bytes) : ScpRec :=
  if scpNameOk name then (if isDir then .dir name else .file name) else .bad name

/-- The sink's record loop (`_recv_files`/`_recv_dir`), destination directories existing:
    `stack` is the list of directory names entered so far (innermost first); the result lists the
    paths created or written, relative component lists below the destination.  An 'E' at the top
    level ends the transfer. -/
def sink : List ScpRec → List Bytes → List (List Bytes)
  | [], _ => []
  | .file n :: rest, stack => (stack.reverse ++ [n]) :: sink rest stack
  | .dir n :: rest, stack => (stack.reverse ++ [n]) :: sink rest (n :: stack)
  | .bad _ :: rest, stack => sink rest stack
  | .time :: rest, stack => sink rest stack
  | .endDir :: rest, stack =>
    match stack with
    | [] => []
    | _ :: up => sink rest up

/-- the same loop with levels that may contribute no path component: `none` is the destination itself, created
    by the first 'D' record when the destination path did not exist (its name is dropped) -/
def sinkO : List ScpRec → List (Option Bytes) → List (List Bytes)
  | [], _ => []
  | .file n :: rest, stack => (stack.reverse.filterMap id ++ [n]) :: sinkO rest stack
  | .dir n :: rest, stack => (stack.reverse.filterMap id ++ [n]) :: sinkO rest (some n :: stack)
  | .bad _ :: rest, stack => sinkO rest stack
  | .time :: rest, stack => sinkO rest stack
  | .endDir :: rest, stack =>
    match stack with
    | [] => []
    | _ :: up => sinkO rest up

/-- The sink when the destination path does not exist yet (`isFile = false`) or is a regular file
    (`isFile = true`): a 'C' record writes the destination itself (path `[]`); a 'D' record creates it as a
    directory and enters it (or fails with "Not a directory" when it is a file); `_recv_files` computes
    `new_dstpath = dstpath` whenever `dstpath` is not a directory. -/
def sinkNew : List ScpRec → Bool → List (List Bytes)
  | [], _ => []
  | .file _ :: rest, _ => [] :: sinkNew rest true
  | .dir _ :: rest, false => [] :: sinkO rest [none]
  | .dir _ :: rest, true => sinkNew rest true
  | .bad _ :: rest, f => sinkNew rest f
  | .time :: rest, f => sinkNew rest f
  | .endDir :: _, _ => []

/-! ### recursive SFTP get -/

/-- the entry-name filter of `SFTPClient._copy`: `.`/`..` are skipped, a name containing `/` raises. -/
inductive NameVerdict where
  | skip | reject | use
  deriving Repr, DecidableEq

def getNameVerdict (name : Bytes) : NameVerdict :=
  if name = dot ∨ name = dotdot then .skip
  else if name.contains slash then .reject
  else .use

end AsyncsshModel.PathMap

namespace AsyncsshModel.PathMap
open AsyncsshModel AsyncsshModel.Path

/-- what a (possibly hostile) server presents as a directory tree -/
inductive Entry where
  | file (name : Bytes)
  | dir (name : Bytes) (children : List Entry)

/-- `SFTPClient._copy` on a directory listing: the list of destination paths (component lists below
    the destination directory, `pre` reversed = current directory) created before the copy finishes
    or aborts (`true` = aborted by `SFTPBadMessage`). -/
def copyEntries (pre : List Bytes) : List Entry → List (List Bytes) × Bool
  | [] => ([], false)
  | .file n :: rest =>
    match getNameVerdict n with
    | .skip => copyEntries pre rest
    | .reject => ([], true)
    | .use =>
      let (ps, ab) := copyEntries pre rest
      ((pre.reverse ++ [n]) :: ps, ab)
  | .dir n ch :: rest =>
    match getNameVerdict n with
    | .skip => copyEntries pre rest
    | .reject => ([], true)
    | .use =>
      let (ps1, ab1) := copyEntries (n :: pre) ch
      if ab1 then ((pre.reverse ++ [n]) :: ps1, true)
      else
        let (ps2, ab2) := copyEntries pre rest
        ((pre.reverse ++ [n]) :: ps1 ++ ps2, ab2)

/-! ### glob downloads: `SFTPClient.mget(pattern, dest, recurse=True)` -/

/-- `posixpath.basename`: `p[p.rfind(b'/') + 1:]` -/
def basename (p : Bytes) : Bytes := (splitSlash p).getLast?.getD []

/-- `SFTPGlob._match_pattern` on one name of a directory listing (pattern `*`: every name matches):
    `.`/`..` are skipped; with the repair (`fixed`) a name containing `/` raises `SFTPBadMessage`;
    before it such a name was joined onto the directory like any other. -/
def globNameVerdict (fixed : Bool) (name : Bytes) : NameVerdict :=
  if name = dot ∨ name = dotdot then .skip
  else if fixed = true ∧ name.contains slash then .reject
  else .use

def Entry.name : Entry → Bytes
  | .file n => n
  | .dir n _ => n

/-- the matches of `dir/*` over a listing, in listing order; `none`: the match raised -/
def globMatches (fixed : Bool) : List Entry → Option (List Entry)
  | [] => some []
  | e :: rest =>
    match globNameVerdict fixed e.name with
    | .skip => globMatches fixed rest
    | .reject => none
    | .use => (globMatches fixed rest).map (e :: ·)

/-- `_begin_copy` over the matches: the local name of a match `join(dir, name)` is its `basename`, composed
    onto the destination; a directory is then copied by `_copy` (`copyEntries`).  Result as for `copyEntries`:
    destination paths (component lists below the destination the caller named) and whether it aborted. -/
def beginCopy (dir : Bytes) : List Entry → List (List Bytes) × Bool
  | [] => ([], false)
  | .file n :: rest =>
    let (ps, ab) := beginCopy dir rest
    ([basename (join dir n)] :: ps, ab)
  | .dir n ch :: rest =>
    let top := basename (join dir n)
    let (ps1, ab1) := copyEntries [top] ch
    if ab1 then ([top] :: ps1, true)
    else
      let (ps2, ab2) := beginCopy dir rest
      ([top] :: ps1 ++ ps2, ab2)

/-- `mget(dir + b'/*', dest, recurse=True)` against a server presenting `es` as the listing of `dir` -/
def mget (fixed : Bool) (dir : Bytes) (es : List Entry) : List (List Bytes) × Bool :=
  match globMatches fixed es with
  | none => ([], true)
  | some ms => beginCopy dir ms

/-! ### `SFTPServer.readlink` under a chroot -/

/-- the path `SFTPServer.readlink` resolves (`os.path.realpath`) for a link at the mapped path `lp` whose
    target string is `t`; `cwd` is the current directory of the server process (what the kernel resolves a
    relative path against).  With the repair: `os.path.join(os.path.dirname(lp), t)`; before: `t` itself. -/
def readlinkBase (fixed : Bool) (cwd lp t : Bytes) : Bytes :=
  join (if fixed then dirname lp else cwd) t

/-- the answer when no symbolic link lies on the way (`realpath` = `normpath`), `none` = `SFTPNoSuchFile` -/
def readlinkAnswer (fixed : Bool) (root cwd p t : Bytes) : Option Bytes :=
  reverseMapPath root (normpath (readlinkBase fixed cwd (mapPath root p) t))

end AsyncsshModel.PathMap
