import AsyncsshModel.Model.Channel
/-
  What two subclasses of `SSHChannel` add to the data path of `Model/Channel.lean`
  (asyncssh/channel.py, tree with the repairs e7dbee0 and 9f86e20).

  * `SSHServerChannel`: the channel requests `shell` / `exec` / `subsystem` start the session
    (`_start_session`, `_report_response`: `session_started()` then `resume_reading()`).  Since repair e7dbee0 a
    request of this kind that arrives after one has succeeded is answered with CHANNEL_FAILURE and touches nothing
    (`_session_started`), so the data path has NO event for it: only the application ends its own pause
    (`Ev.resume`, `Ev.startReading`).  `sessionRequestPreFix` is the code before the repair: the peer's second
    request ran `resume_reading()` behind the application's back (audit finding D2).

  * `SSHTunTapChannel` in point-to-point (layer 3) mode: `write` puts a 4-byte address family in front of every
    packet, `_accept_data` strips it before the base class sees the data.  The sender counts the 4 bytes against
    its send window and so does the window check of `_process_data`; since repair 9f86e20 `_accept_data` subtracts
    them from `_recv_window` as well (`tunAcceptData`), so they come back with the next WINDOW_ADJUST.
    `tunAcceptDataPreFix` is the code before: every packet leaked 4 bytes of window for ever (D4).
    NOT repaired (D5): `write` appends header + packet as ONE entry of the byte-stream send buffer and
    `_flush_send_buf` cuts entries wherever the window or the maximum packet size ends (`splitHead`), while the
    receiver strips 4 bytes from EVERY CHANNEL_DATA message.

  Mathlib-free.
-/
namespace AsyncsshModel.Channel
open AsyncsshModel

/-! ### SSHServerChannel: a second shell / exec / subsystem request -/

/-- BEFORE repair e7dbee0: `_report_response(True)` for a `shell` / `exec` / `subsystem` request — also one that
    arrives on a running session — called `session_started()` and `self.resume_reading()` -/
def sessionRequestPreFix (c : Chan) : StepRes := step c .resume

/-! ### SSHTunTapChannel, point-to-point mode -/

/-- what the receiver still allows the peer to send, as the window check sees it:
    `self._recv_window - self._recv_buf_len` -/
def credit (c : Chan) : Int := c.recvWindow - bufBytes c.recvBuf

/-- `SSHTunTapChannel._accept_data` (mode POINTTOPOINT): `self._recv_window -= len(data[:4])`, `data = data[4:]`,
    then the base class -/
def tunAcceptData (c : Chan) (data : Bytes) (dt : DType) : Chan × List Msg × List Out :=
  acceptData { c with recvWindow := c.recvWindow - ((data.take 4).length : Int) } (data.drop 4) dt

/-- the same BEFORE repair 9f86e20: the stripped bytes are not accounted -/
def tunAcceptDataPreFix (c : Chan) (data : Bytes) (dt : DType) : Chan × List Msg × List Out :=
  acceptData c (data.drop 4) dt

/-- `_process_data` of a tunnel channel: the checks of the base class (on the FULL length), then the override -/
def tunRecvData (c : Chan) (bs : Bytes) : StepRes :=
  if c.recvState ≠ .opn then .error .notOpen
  else if (bs.length : Int) > c.recvWindow - bufBytes c.recvBuf then .error .windowExceeded
  else .ok (tunAcceptData c bs none)

def tunRecvDataPreFix (c : Chan) (bs : Bytes) : StepRes :=
  if c.recvState ≠ .opn then .error .notOpen
  else if (bs.length : Int) > c.recvWindow - bufBytes c.recvBuf then .error .windowExceeded
  else .ok (tunAcceptDataPreFix c bs none)

/-- `SSHTunTapChannel.write`: `data = UInt32(family) + data`, then the base class `write`: ONE buffer entry -/
def tunWrite (c : Chan) (family pkt : Bytes) : StepRes := step c (.write none (family ++ pkt))

end AsyncsshModel.Channel
