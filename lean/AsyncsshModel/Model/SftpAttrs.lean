import AsyncsshModel.Model.SftpWire
import AsyncsshModel.Gen.C14
/-
  SFTP attribute and name codecs for protocol versions 3–6, mirroring
  asyncssh/sftp.py `SFTPAttrs.encode` (1751–1866), `SFTPAttrs.decode` (1868–1989),
  `_stat_mode_to_filetype` (380–402), `SFTPName.encode/decode` (2138–2154).

  Python `str` fields (`owner`, `group`, `mime_type`) are represented by their UTF-8 bytes; the decoder's
  `.decode('utf-8')` check is `validUtf8`.  Numbers are `Nat`; `encode?` returns `none` exactly where
  Python raises (`OverflowError` from `to_bytes`, `ValueError` from `Byte`, the explicit `ValueError` for
  owner/group in version 3).  All flag values and `_valid_attr_flags` come from `Gen/C14.lean`.
-/
namespace AsyncsshModel.Sftp
open AsyncsshModel.Gen.C14

structure Attrs where
  type : Nat := FILEXFER_TYPE_UNKNOWN
  size : Option Nat := none
  allocSize : Option Nat := none
  uid : Option Nat := none
  gid : Option Nat := none
  owner : Option Bytes := none
  group : Option Bytes := none
  permissions : Option Nat := none
  atime : Option Nat := none
  atimeNs : Option Nat := none
  crtime : Option Nat := none
  crtimeNs : Option Nat := none
  mtime : Option Nat := none
  mtimeNs : Option Nat := none
  ctime : Option Nat := none
  ctimeNs : Option Nat := none
  acl : Option Bytes := none
  attribBits : Option Nat := none
  attribValid : Option Nat := none
  textHint : Option Nat := none
  mimeType : Option Bytes := none
  nlink : Option Nat := none
  untransName : Option Bytes := none
  extended : List (Bytes × Bytes) := []
  deriving DecidableEq, Repr

/-- `_stat_mode_to_filetype` -/
def modeToFiletype (mode : Nat) : Nat :=
  let fmt := mode &&& S_IFMT
  if fmt = S_IFREG then FILEXFER_TYPE_REGULAR
  else if fmt = S_IFDIR then FILEXFER_TYPE_DIRECTORY
  else if fmt = S_IFLNK then FILEXFER_TYPE_SYMLINK
  else if fmt = S_IFSOCK then FILEXFER_TYPE_SOCKET
  else if fmt = S_IFCHR then FILEXFER_TYPE_CHAR_DEVICE
  else if fmt = S_IFBLK then FILEXFER_TYPE_BLOCK_DEVICE
  else if fmt = S_IFIFO then FILEXFER_TYPE_FIFO
  else if fmt ≠ 0 then FILEXFER_TYPE_SPECIAL
  else FILEXFER_TYPE_UNKNOWN

/-! ## encoding -/

/-- the type byte written for versions ≥ 4 (sftp.py:1757–1763) -/
def wireType (v t : Nat) : Nat :=
  if v < 5 ∧ t ≥ FILEXFER_TYPE_SOCKET then FILEXFER_TYPE_SPECIAL else t

def opt {α : Type} (o : Option α) (f : α → Bytes) : Bytes :=
  match o with
  | some x => f x
  | none => []

/-- `str(n)` as UTF-8 bytes -/
def decStr (n : Nat) : Bytes := (toString n).toUTF8.toList

def subsecond (a : Attrs) : Bool :=
  a.atimeNs.isSome || a.crtimeNs.isSome || a.mtimeNs.isSome || a.ctimeNs.isSome

/-- `alloc_size` is written: since the fix d57da49 only for version 6; `fixed := false` is the encoder
    before that fix (kept for the witness theorem in Props/C14.lean). -/
def allocGate (fixed : Bool) (v : Nat) : Bool := !fixed || decide (v ≥ 6)

def cOwnerGroup (a : Attrs) : Bool :=
  (a.owner.isSome && a.group.isSome) || (a.uid.isSome && a.gid.isSome)

/-- the flags word computed by `encode` (every `flags |= …` of sftp.py:1765–1862) -/
def encodeFlagsG (fixed : Bool) (v : Nat) (a : Attrs) : Nat :=
  flagIf a.size.isSome FILEXFER_ATTR_SIZE |||
  flagIf (allocGate fixed v && a.allocSize.isSome) FILEXFER_ATTR_ALLOCATION_SIZE |||
  (if v = 3 then flagIf (a.uid.isSome && a.gid.isSome) FILEXFER_ATTR_UIDGID
   else flagIf (cOwnerGroup a) FILEXFER_ATTR_OWNERGROUP) |||
  flagIf a.permissions.isSome FILEXFER_ATTR_PERMISSIONS |||
  (if v = 3 then flagIf (a.atime.isSome && a.mtime.isSome) FILEXFER_ATTR_ACMODTIME
   else
     flagIf (subsecond a) FILEXFER_ATTR_SUBSECOND_TIMES |||
     flagIf a.atime.isSome FILEXFER_ATTR_ACCESSTIME |||
     flagIf a.crtime.isSome FILEXFER_ATTR_CREATETIME |||
     flagIf a.mtime.isSome FILEXFER_ATTR_MODIFYTIME |||
     flagIf (decide (v ≥ 6) && a.ctime.isSome) FILEXFER_ATTR_CTIME) |||
  flagIf (decide (v ≥ 4) && a.acl.isSome) FILEXFER_ATTR_ACL |||
  flagIf (decide (v ≥ 5) && a.attribBits.isSome && a.attribValid.isSome) FILEXFER_ATTR_BITS |||
  flagIf (decide (v ≥ 6) && a.textHint.isSome) FILEXFER_ATTR_TEXT_HINT |||
  flagIf (decide (v ≥ 6) && a.mimeType.isSome) FILEXFER_ATTR_MIME_TYPE |||
  flagIf (decide (v ≥ 6) && a.nlink.isSome) FILEXFER_ATTR_LINK_COUNT |||
  flagIf (decide (v ≥ 6) && a.untransName.isSome) FILEXFER_ATTR_UNTRANSLATED_NAME |||
  flagIf (!a.extended.isEmpty) FILEXFER_ATTR_EXTENDED

def segType (v : Nat) (a : Attrs) : Bytes := if v ≥ 4 then putU8 (wireType v a.type) else []

def segAlloc (fixed : Bool) (v : Nat) (a : Attrs) : Bytes :=
  if allocGate fixed v then opt a.allocSize putU64 else []

def segOwner (v : Nat) (a : Attrs) : Bytes :=
  if v = 3 then
    match a.uid, a.gid with
    | some u, some g => putU32 u ++ putU32 g
    | _, _ => []
  else
    match a.owner, a.group with
    | some o, some g => putStr o ++ putStr g
    | _, _ =>
      match a.uid, a.gid with
      | some u, some g => putStr (decStr u) ++ putStr (decStr g)
      | _, _ => []

/-- one v4+ time field: seconds, then nanoseconds (`ns or 0`) when any `*_ns` is set -/
def segTime (sub : Bool) (t ns : Option Nat) : Bytes :=
  match t with
  | some x => putU64 x ++ (if sub then putU32 (ns.getD 0) else [])
  | none => []

def segTimes (v : Nat) (a : Attrs) : Bytes :=
  if v = 3 then
    match a.atime, a.mtime with
    | some x, some y => putU32 x ++ putU32 y
    | _, _ => []
  else
    segTime (subsecond a) a.atime a.atimeNs ++
    segTime (subsecond a) a.crtime a.crtimeNs ++
    segTime (subsecond a) a.mtime a.mtimeNs ++
    (if v ≥ 6 then segTime (subsecond a) a.ctime a.ctimeNs else [])

def segBits (v : Nat) (a : Attrs) : Bytes :=
  if v ≥ 5 then
    match a.attribBits, a.attribValid with
    | some x, some y => putU32 x ++ putU32 y
    | _, _ => []
  else []

def segV6 (v : Nat) (a : Attrs) : Bytes :=
  if v ≥ 6 then
    opt a.textHint putU8 ++ opt a.mimeType putStr ++ opt a.nlink putU32 ++ opt a.untransName putStr
  else []

def putPairs : List (Bytes × Bytes) → Bytes
  | [] => []
  | (k, d) :: r => putStr k ++ putStr d ++ putPairs r

def segExtended (a : Attrs) : Bytes :=
  if a.extended.isEmpty then [] else putU32 a.extended.length ++ putPairs a.extended

/-- everything after the flags word, in the order `encode` appends it -/
def encodeBodyG (fixed : Bool) (v : Nat) (a : Attrs) : Bytes :=
  segType v a ++ (opt a.size putU64 ++ (segAlloc fixed v a ++ (segOwner v a ++
  (opt a.permissions putU32 ++ (segTimes v a ++ ((if v ≥ 4 then opt a.acl putStr else []) ++
  (segBits v a ++ (segV6 v a ++ segExtended a))))))))

def encodeRawG (fixed : Bool) (v : Nat) (a : Attrs) : Bytes :=
  putU32 (encodeFlagsG fixed v a) ++ encodeBodyG fixed v a

def ltO (o : Option Nat) (bound : Nat) : Bool :=
  match o with
  | some x => decide (x < bound)
  | none => true

def lenO (o : Option Bytes) : Bool :=
  match o with
  | some b => decide (b.length < 2^32)
  | none => true

def timeOk (sub : Bool) (t ns : Option Nat) : Bool :=
  match t with
  | some x => decide (x < 2^64) && (!sub || decide (ns.getD 0 < 2^32))
  | none => true

def pairsOk : List (Bytes × Bytes) → Bool
  | [] => true
  | (k, d) :: r => decide (k.length < 2^32) && decide (d.length < 2^32) && pairsOk r

/-- Python's `encode` returns (does not raise) -/
def encodableG (fixed : Bool) (v : Nat) (a : Attrs) : Bool :=
  (decide (v < 4) || decide (wireType v a.type < 256)) &&
  ltO a.size (2^64) &&
  (!allocGate fixed v || ltO a.allocSize (2^64)) &&
  (if v = 3 then
     (if a.uid.isSome && a.gid.isSome then ltO a.uid (2^32) && ltO a.gid (2^32)
      else !(a.owner.isSome && a.group.isSome))          -- ValueError: needs SFTPv4
   else
     (if a.owner.isSome && a.group.isSome then lenO a.owner && lenO a.group else true)) &&
  ltO a.permissions (2^32) &&
  (if v = 3 then
     (if a.atime.isSome && a.mtime.isSome then ltO a.atime (2^32) && ltO a.mtime (2^32) else true)
   else
     timeOk (subsecond a) a.atime a.atimeNs && timeOk (subsecond a) a.crtime a.crtimeNs &&
     timeOk (subsecond a) a.mtime a.mtimeNs &&
     (decide (v < 6) || timeOk (subsecond a) a.ctime a.ctimeNs)) &&
  (decide (v < 4) || lenO a.acl) &&
  (decide (v < 5) || !(a.attribBits.isSome && a.attribValid.isSome) ||
     (ltO a.attribBits (2^32) && ltO a.attribValid (2^32))) &&
  (decide (v < 6) ||
     (ltO a.textHint 256 && lenO a.mimeType && ltO a.nlink (2^32) && lenO a.untransName)) &&
  decide (a.extended.length < 2^32) && pairsOk a.extended

/-- `SFTPAttrs.encode(v)`: bytes, or `none` where Python raises -/
def encodeG? (fixed : Bool) (v : Nat) (a : Attrs) : Option Bytes :=
  if encodableG fixed v a then some (encodeRawG fixed v a) else none

/-- the encoder of the tree under test -/
abbrev encodeFlags := encodeFlagsG true
abbrev encodeBody := encodeBodyG true
abbrev encodeRaw := encodeRawG true
abbrev encodable := encodableG true
abbrev encode? := encodeG? true

/-! ## decoding -/

abbrev St := Attrs × Bytes
abbrev Stage := St → Except DecErr St

/-- read one value and store it -/
def rd {α : Type} (p : P α) (set : Attrs → α → Attrs) : Stage := fun s =>
  match p s.2 with
  | .ok (x, r) => .ok (set s.1 x, r)
  | .error e => .error e

def whenS (c : Bool) (f : Stage) : Stage := fun s => if c then f s else .ok s

def seqS (f g : Stage) : Stage := fun s =>
  match f s with
  | .ok s' => g s'
  | .error e => .error e

infixr:55 " ⨾ " => seqS

/-- a string that must be UTF-8 -/
def rdUtf8 (err : DecErr) (set : Attrs → Bytes → Attrs) : Stage := fun s =>
  match getStr s.2 with
  | .ok (b, r) => if validUtf8 b then .ok (set s.1 b, r) else .error err
  | .error e => .error e

def getPairs : Nat → Bytes → Except DecErr (List (Bytes × Bytes) × Bytes)
  | 0, inp => .ok ([], inp)
  | n + 1, inp =>
    match getStr inp with
    | .error e => .error e
    | .ok (k, r1) =>
      match getStr r1 with
      | .error e => .error e
      | .ok (d, r2) =>
        match getPairs n r2 with
        | .error e => .error e
        | .ok (l, r3) => .ok ((k, d) :: l, r3)

def rdExtended : Stage := fun s =>
  match getU32 s.2 with
  | .error e => .error e
  | .ok (n, r) =>
    match getPairs n r with
    | .error e => .error e
    | .ok (l, r') => .ok ({ s.1 with extended := l }, r')

/-- one v4+ time field -/
def stTime (flags f : Nat) (setT setNs : Attrs → Nat → Attrs) : Stage :=
  whenS (hasFlag flags f)
    (rd getU64 setT ⨾ whenS (hasFlag flags FILEXFER_ATTR_SUBSECOND_TIMES) (rd getU32 setNs))

/-- the Huawei work-around (sftp.py:1879–1881) -/
def fixFlagsV3 (v flags : Nat) : Nat :=
  if v = 3 ∧ hasFlag flags (FILEXFER_ATTR_ACMODTIME ||| FILEXFER_ATTR_MODIFYTIME) then
    andNot flags FILEXFER_ATTR_MODIFYTIME
  else flags

/-- the field readers of `SFTPAttrs.decode` in source order (sftp.py:1889–1987) -/
def decodeBody (v flags : Nat) : Stage :=
  whenS (decide (v ≥ 4)) (rd getU8 fun a x => { a with type := x }) ⨾
  whenS (hasFlag flags FILEXFER_ATTR_SIZE) (rd getU64 fun a x => { a with size := some x }) ⨾
  whenS (hasFlag flags FILEXFER_ATTR_ALLOCATION_SIZE) (rd getU64 fun a x => { a with allocSize := some x }) ⨾
  (if v = 3 then
     whenS (hasFlag flags FILEXFER_ATTR_UIDGID)
       ((rd getU32 fun a x => { a with uid := some x }) ⨾ (rd getU32 fun a x => { a with gid := some x }))
   else
     whenS (hasFlag flags FILEXFER_ATTR_OWNERGROUP)
       (rdUtf8 .ownerInvalid (fun a b => { a with owner := some b }) ⨾
        rdUtf8 .groupInvalid (fun a b => { a with group := some b }))) ⨾
  whenS (hasFlag flags FILEXFER_ATTR_PERMISSIONS)
    (rd getU32 fun a m =>
      if v = 3 then { a with type := modeToFiletype m, permissions := some (m &&& 0xffff) }
      else { a with permissions := some (m &&& 0xfff) }) ⨾
  (if v = 3 then
     whenS (hasFlag flags FILEXFER_ATTR_ACMODTIME)
       ((rd getU32 fun a x => { a with atime := some x }) ⨾ (rd getU32 fun a x => { a with mtime := some x }))
   else
     stTime flags FILEXFER_ATTR_ACCESSTIME (fun a x => { a with atime := some x })
       (fun a x => { a with atimeNs := some x }) ⨾
     stTime flags FILEXFER_ATTR_CREATETIME (fun a x => { a with crtime := some x })
       (fun a x => { a with crtimeNs := some x }) ⨾
     stTime flags FILEXFER_ATTR_MODIFYTIME (fun a x => { a with mtime := some x })
       (fun a x => { a with mtimeNs := some x }) ⨾
     stTime flags FILEXFER_ATTR_CTIME (fun a x => { a with ctime := some x })
       (fun a x => { a with ctimeNs := some x })) ⨾
  whenS (hasFlag flags FILEXFER_ATTR_ACL) (rd getStr fun a b => { a with acl := some b }) ⨾
  whenS (hasFlag flags FILEXFER_ATTR_BITS)
    ((rd getU32 fun a x => { a with attribBits := some x }) ⨾
     (rd getU32 fun a x => { a with attribValid := some x })) ⨾
  whenS (hasFlag flags FILEXFER_ATTR_TEXT_HINT) (rd getU8 fun a x => { a with textHint := some x }) ⨾
  whenS (hasFlag flags FILEXFER_ATTR_MIME_TYPE) (rdUtf8 .badMime fun a b => { a with mimeType := some b }) ⨾
  whenS (hasFlag flags FILEXFER_ATTR_LINK_COUNT) (rd getU32 fun a x => { a with nlink := some x }) ⨾
  whenS (hasFlag flags FILEXFER_ATTR_UNTRANSLATED_NAME)
    (rd getStr fun a b => { a with untransName := some b }) ⨾
  whenS (hasFlag flags FILEXFER_ATTR_EXTENDED) rdExtended

/-- `SFTPAttrs.decode(packet, v)`: the attributes and the unconsumed rest of the packet -/
def decode (v : Nat) : P Attrs := fun inp =>
  match getU32 inp with
  | .error e => .error e
  | .ok (flags0, r) =>
    let flags := fixFlagsV3 v flags0
    let unsupported := andNot flags (validAttrFlags v)
    if unsupported ≠ 0 then .error (.badFlags unsupported)
    else decodeBody v flags ({}, r)

/-! ## names -/

/-- `SFTPName`: `longname` is `None` (`none`) after decoding in versions ≥ 4 -/
structure Name where
  filename : Bytes := []
  longname : Option Bytes := some []
  attrs : Attrs := {}
  deriving DecidableEq, Repr

/-- `SFTPName.encode(v)` (`String(None)` raises `TypeError` in version 3) -/
def encodeName? (v : Nat) (n : Name) : Option Bytes :=
  if n.filename.length < 2^32 then
    match (if v = 3 then n.longname.bind (fun l => if l.length < 2^32 then some (putStr l) else none)
           else some []) with
    | none => none
    | some ln =>
      match encode? v n.attrs with
      | none => none
      | some ab => some (putStr n.filename ++ ln ++ ab)
  else none

/-- `SFTPName.decode(packet, v)` -/
def decodeName (v : Nat) : P Name := fun inp =>
  match getStr inp with
  | .error e => .error e
  | .ok (fnm, r1) =>
    match (if v = 3 then (match getStr r1 with
                          | .ok (l, r) => Except.ok (some l, r)
                          | .error e => .error e)
           else .ok (none, r1)) with
    | .error e => .error e
    | .ok (ln, r2) =>
      match decode v r2 with
      | .error e => .error e
      | .ok (a, r3) => .ok ({ filename := fnm, longname := ln, attrs := a }, r3)

/-! ## what a version can carry -/

/-- a v4+ time field and its nanoseconds survive: nanoseconds only with seconds, and if any `*_ns` is set
    (the sub-second flag is global) every present time must carry its own -/
def timeCarry (sub : Bool) (t ns : Option Nat) : Bool :=
  match t with
  | some x => decide (x < 2^64) && (if sub then (match ns with | some n => decide (n < 2^32) | none => false)
                                    else ns.isNone)
  | none => ns.isNone

def utf8O (o : Option Bytes) : Bool :=
  match o with
  | some b => validUtf8 b
  | none => true

/-- **`Carryable v a`**: the attribute record `a` is one that protocol version `v` can carry, i.e. every
    field that is set has a slot in version `v`'s encoding, is in the slot's range, and paired fields
    (uid/gid, owner/group, atime/mtime in v3, attrib_bits/attrib_valid, time/time_ns) are set together. -/
def carryable (v : Nat) (a : Attrs) : Bool :=
  ltO a.size (2^64) &&
  (if v ≥ 6 then ltO a.allocSize (2^64) else a.allocSize.isNone) &&
  ltO a.permissions (if v = 3 then 2^16 else 2^12) &&
  decide (a.extended.length < 2^32) && pairsOk a.extended &&
  (if v = 3 then
     decide (a.type = (match a.permissions with | some m => modeToFiletype m | none => FILEXFER_TYPE_UNKNOWN)) &&
     (a.uid.isSome == a.gid.isSome) && ltO a.uid (2^32) && ltO a.gid (2^32) &&
     a.owner.isNone && a.group.isNone &&
     (a.atime.isSome == a.mtime.isSome) && ltO a.atime (2^32) && ltO a.mtime (2^32) &&
     a.atimeNs.isNone && a.crtime.isNone && a.crtimeNs.isNone && a.mtimeNs.isNone
   else
     decide (a.type < (if v < 5 then FILEXFER_TYPE_SOCKET else 256)) &&
     a.uid.isNone && a.gid.isNone &&
     (a.owner.isSome == a.group.isSome) && lenO a.owner && lenO a.group && utf8O a.owner && utf8O a.group &&
     timeCarry (subsecond a) a.atime a.atimeNs && timeCarry (subsecond a) a.crtime a.crtimeNs &&
     timeCarry (subsecond a) a.mtime a.mtimeNs) &&
  (if v ≥ 6 then timeCarry (subsecond a) a.ctime a.ctimeNs else a.ctime.isNone && a.ctimeNs.isNone) &&
  (if v ≥ 4 then lenO a.acl else a.acl.isNone) &&
  (if v ≥ 5 then (a.attribBits.isSome == a.attribValid.isSome) && ltO a.attribBits (2^32) && ltO a.attribValid (2^32)
   else a.attribBits.isNone && a.attribValid.isNone) &&
  (if v ≥ 6 then ltO a.textHint 256 && lenO a.mimeType && utf8O a.mimeType && ltO a.nlink (2^32) &&
                 lenO a.untransName
   else a.textHint.isNone && a.mimeType.isNone && a.nlink.isNone && a.untransName.isNone)

/-- the explicit decidable predicate of the property statement -/
def Carryable (v : Nat) (a : Attrs) : Prop := carryable v a = true

instance (v : Nat) (a : Attrs) : Decidable (Carryable v a) := by unfold Carryable; infer_instance

def carryableName (v : Nat) (n : Name) : Bool :=
  decide (n.filename.length < 2^32) && carryable v n.attrs &&
  (if v = 3 then lenO n.longname && n.longname.isSome else n.longname.isNone)

def CarryableName (v : Nat) (n : Name) : Prop := carryableName v n = true

instance (v : Nat) (n : Name) : Decidable (CarryableName v n) := by unfold CarryableName; infer_instance

end AsyncsshModel.Sftp
