/-
  Model of key re-exchange at the packet-submission level (property C11):
  `SSHConnection.send_packet` (rekey trigger, deferral rule, MSG_IGNORE insertion), `_send_kexinit`,
  `_process_kexinit` (simultaneous initiation), `send_newkeys` (switch of send keys, flush of deferred packets),
  `_process_newkeys` (switch of receive keys) — asyncssh/connection.py — with an abstract two-message key
  exchange (client INIT 30, server REPLY 31) and symbolic key epochs.
-/
namespace AsyncsshModel.Rekey

def MSG_IGNORE : Nat := 2
def MSG_DEBUG : Nat := 4
def MSG_SERVICE_REQUEST : Nat := 5
def MSG_SERVICE_ACCEPT : Nat := 6
def MSG_KEXINIT : Nat := 20
def MSG_NEWKEYS : Nat := 21
def MSG_KEX_INIT : Nat := 30
def MSG_KEX_REPLY : Nat := 31
def MSG_KEX_LAST : Nat := 49
def MSG_USERAUTH_BANNER : Nat := 53
def MSG_USERAUTH_LAST : Nat := 79

/-- a packet as upper layers submit it: message type and an opaque identity (its payload) -/
structure Pkt where
  type : Nat
  tag : Nat
  deriving Repr, DecidableEq

/-- a packet on the wire: the key epoch it was sealed under (0 = cleartext) -/
structure Wire where
  pkt : Pkt
  epoch : Nat
  duringKex : Bool      -- ghost: written while `_kex_complete` was false
  deriving Repr, DecidableEq

structure Endpoint where
  server : Bool
  kexinitSent : Bool := false
  kexComplete : Bool := true
  kexActive : Bool := false        -- `self._kex is not None`
  authInProgress : Bool := false
  authComplete : Bool := true
  rekeyDue : Bool := false         -- byte or time limit reached
  lateArmed : Bool := false        -- the time limit will have passed when the clock is read a SECOND time within one
                                   -- `send_packet` call (by the nested call that inserts MSG_IGNORE)
  deferred : List Pkt := []
  sendEpoch : Nat := 1
  recvEpoch : Nat := 1
  nextRecvReady : Bool := false
  sessionId : Option Nat := none   -- exchange hash of the first exchange (symbolic: its ordinal)
  out : List Wire := []            -- everything written so far, in order
  delivered : List Pkt := []       -- non-kex packets handed to upper layers
  failed : Bool := false
  deriving Repr

/-- the deferral test of `send_packet` -/
def mustDefer (e : Endpoint) (t : Nat) : Bool :=
  (((t == MSG_DEBUG || t == MSG_SERVICE_REQUEST || t == MSG_SERVICE_ACCEPT || t > MSG_KEX_LAST) && !e.kexComplete) ||
   (t == MSG_USERAUTH_BANNER && !(e.authInProgress || e.authComplete)) ||
   (t > MSG_USERAUTH_LAST && !e.authComplete))

def emit (e : Endpoint) (p : Pkt) : Endpoint :=
  { e with out := e.out ++ [⟨p, e.sendEpoch, !e.kexComplete⟩] }

/-- `_send_kexinit`: `_kex_complete = False`, limits restart, KEXINIT goes out (never deferred) -/
def sendKexinit (e : Endpoint) : Endpoint :=
  emit { e with kexComplete := false, rekeyDue := false } ⟨MSG_KEXINIT, 0⟩

/-- the nested `self.send_packet(MSG_IGNORE, String(b''))`: the rekey trigger is evaluated again, and the clock may
    by now have passed the time limit (`lateArmed`); MSG_IGNORE itself is never deferred and gets no IGNORE -/
def sendIgnore (e : Endpoint) : Endpoint :=
  if e.authComplete && e.kexComplete then
    let e0 := { e with lateArmed := false }
    let e1 := if e.rekeyDue || e.lateArmed then { sendKexinit e0 with kexinitSent := true } else e0
    emit e1 ⟨MSG_IGNORE, 0⟩
  else emit e ⟨MSG_IGNORE, 0⟩

/-- `send_packet(pkttype, ...)`.  After the IGNORE packet has been inserted the code checks whether that nested
    call started a key exchange and defers the packet if so (repair of F58). -/
def sendPacket (e : Endpoint) (p : Pkt) : Endpoint :=
  let e1 := if e.authComplete && e.kexComplete && e.rekeyDue
            then { sendKexinit e with kexinitSent := true } else e
  if mustDefer e1 p.type then { e1 with deferred := e1.deferred ++ [p] }
  else if e1.sendEpoch ≠ 0 ∧ p.type > MSG_KEX_LAST then
    let e2 := sendIgnore e1
    if e2.kexComplete then emit e2 p else { e2 with deferred := e2.deferred ++ [p] }
  else emit e1 p

/-- the code before the repair of F58: the packet went out after the nested call whatever that call had done -/
def sendPacketPreFix (e : Endpoint) (p : Pkt) : Endpoint :=
  let e1 := if e.authComplete && e.kexComplete && e.rekeyDue
            then { sendKexinit e with kexinitSent := true } else e
  if mustDefer e1 p.type then { e1 with deferred := e1.deferred ++ [p] }
  else if e1.sendEpoch ≠ 0 ∧ p.type > MSG_KEX_LAST then emit (sendIgnore e1) p
  else emit e1 p

/-- `_send_deferred_packets` -/
def flushDeferred (e : Endpoint) : Endpoint :=
  e.deferred.foldl sendPacket { e with deferred := [] }

/-- `send_newkeys`: NEWKEYS under the old keys, switch send keys, stage receive keys, restart the rekey timer
    (repair of F145: a time limit that ran out DURING the exchange is forgotten, the byte count cannot have
    advanced), flush -/
def sendNewkeys (e : Endpoint) : Endpoint :=
  let e1 := sendPacket e ⟨MSG_NEWKEYS, 0⟩
  flushDeferred { e1 with sendEpoch := e1.sendEpoch + 1, nextRecvReady := true, kexActive := false,
                          kexComplete := true, rekeyDue := false,
                          sessionId := match e1.sessionId with
                            | some h => some h
                            | none => some e1.sendEpoch }

/-- the code before the repair of F145: the rekey timer was restarted only when KEXINIT was sent, so a limit that
    ran out during the exchange was still due when the deferred packets were flushed -/
def sendNewkeysPreFix (e : Endpoint) : Endpoint :=
  let e1 := sendPacket e ⟨MSG_NEWKEYS, 0⟩
  flushDeferred { e1 with sendEpoch := e1.sendEpoch + 1, nextRecvReady := true, kexActive := false,
                          kexComplete := true,
                          sessionId := match e1.sessionId with
                            | some h => some h
                            | none => some e1.sendEpoch }

/-- a decrypted packet reaches the endpoint (the receive loop of C01/C02 already checked the epoch) -/
def recvPacket (e : Endpoint) (w : Wire) : Endpoint :=
  if e.failed then e
  else if w.epoch ≠ e.recvEpoch then { e with failed := true }          -- MAC failure: wrong keys
  else
    let t := w.pkt.type
    if t = MSG_KEXINIT then
      if e.kexActive then { e with failed := true }
      else
        let e1 := if e.kexinitSent then { e with kexinitSent := false } else sendKexinit e
        let e2 := { e1 with kexActive := true }
        if e2.server then e2 else sendPacket e2 ⟨MSG_KEX_INIT, 0⟩
    else if t = MSG_KEX_INIT then
      if e.kexActive ∧ e.server then sendNewkeys (sendPacket e ⟨MSG_KEX_REPLY, 0⟩) else { e with failed := true }
    else if t = MSG_KEX_REPLY then
      if e.kexActive ∧ ¬ e.server then sendNewkeys e else { e with failed := true }
    else if t = MSG_NEWKEYS then
      if e.nextRecvReady then { e with recvEpoch := e.recvEpoch + 1, nextRecvReady := false }
      else { e with failed := true }
    else if t = MSG_IGNORE then e
    else { e with delivered := e.delivered ++ [w.pkt] }

/-- what the environment can do to one endpoint -/
inductive Ev where
  | submit (p : Pkt)        -- an upper layer calls send_packet
  | limit                   -- the byte/time limit is reached: the next send starts a re-exchange
  | late                    -- the time limit will pass between the two clock readings of one `send_packet` call
  | recv (w : Wire)         -- the next packet from the peer arrives
  deriving Repr

def step (e : Endpoint) : Ev → Endpoint
  | .submit p => sendPacket e p
  | .limit => { e with rekeyDue := true }
  | .late => { e with lateArmed := true }
  | .recv w => recvPacket e w

def run (e : Endpoint) (evs : List Ev) : Endpoint := evs.foldl step e

/-! ### two endpoints with one FIFO link per direction -/

structure Sys where
  c : Endpoint
  s : Endpoint
  cDelivered : Nat := 0      -- how many of `c.out` have been delivered to the server
  sDelivered : Nat := 0
  deriving Repr

inductive SysEv where
  | submitC (p : Pkt) | submitS (p : Pkt) | limitC | limitS | lateC | lateS
  | deliverCS               -- next client→server packet arrives
  | deliverSC
  deriving Repr

def sysStep (y : Sys) : SysEv → Sys
  | .submitC p => { y with c := sendPacket y.c p }
  | .submitS p => { y with s := sendPacket y.s p }
  | .limitC => { y with c := { y.c with rekeyDue := true } }
  | .limitS => { y with s := { y.s with rekeyDue := true } }
  | .lateC => { y with c := { y.c with lateArmed := true } }
  | .lateS => { y with s := { y.s with lateArmed := true } }
  | .deliverCS =>
    match y.c.out[y.cDelivered]? with
    | some w => { y with s := recvPacket y.s w, cDelivered := y.cDelivered + 1 }
    | none => y
  | .deliverSC =>
    match y.s.out[y.sDelivered]? with
    | some w => { y with c := recvPacket y.c w, sDelivered := y.sDelivered + 1 }
    | none => y

def sysRun (y : Sys) (evs : List SysEv) : Sys := evs.foldl sysStep y

def Sys.init : Sys := { c := { server := false }, s := { server := true } }

end AsyncsshModel.Rekey
