import AsyncsshModel.Model.Pattern
/-
  C17 — IP addresses and CIDR host patterns.

  `parseAddress` / `parseNetwork` transcribe what `asyncssh.misc.ip_address` / `ip_network`
  (misc.py:283-298) accept, i.e. CPython 3.12 `ipaddress.ip_address` / `ip_network(strict=True)`:
  `IPv4Address._ip_int_from_string`, `_parse_octet`, `IPv6Address._ip_int_from_string`, `_parse_hextet`,
  `_prefix_from_prefix_string`, `_prefix_from_ip_string`, `_prefix_from_ip_int`, and the strict
  "has host bits set" test.  Scope ids (`%zone`) and the IDNA folding done by `socket.getaddrinfo`
  inside `_normalize_scoped_ip` are outside the model (see TRUSTED in harness/props/C17.py); for scope-free
  ASCII text `_normalize_scoped_ip` only re-spells an IPv6 address canonically, which does not change its value.

  `Net.contains` is `IPv4Network.__contains__` (`other._ip & self.netmask._ip == self.network_address._ip`
  after the version test), `HostPat` is pattern.py:56-78 and `HostPatternList.build_pattern` (pattern.py:139-145).
-/
namespace AsyncsshModel.Pattern
open AsyncsshModel

/-! ### numbers -/

def isAsciiDigit (c : Char) : Bool := '0' ≤ c && c ≤ '9'

def digitVal (c : Char) : Nat := c.toNat - 48

/-- `int(s, 10)` for a string of ASCII digits -/
def decVal (s : Str) : Nat := s.foldl (fun a c => a * 10 + digitVal c) 0

def hexDigitVal (c : Char) : Option Nat :=
  if '0' ≤ c ∧ c ≤ '9' then some (c.toNat - 48)
  else if 'a' ≤ c ∧ c ≤ 'f' then some (c.toNat - 87)
  else if 'A' ≤ c ∧ c ≤ 'F' then some (c.toNat - 55)
  else none

def isHexDigit (c : Char) : Bool := (hexDigitVal c).isSome

def hexVal (s : Str) : Nat := s.foldl (fun a c => a * 16 + (hexDigitVal c).getD 0) 0

/-- `'%x' % n` -/
def toHexStr (n : Nat) : Str := Nat.toDigits 16 n

/-! ### IPv4 -/

/-- `_BaseV4._parse_octet` -/
def parseOctet (s : Str) : Option Nat :=
  if s = [] then none
  else if !s.all isAsciiDigit then none
  else if s.length > 3 then none
  else if s ≠ ['0'] ∧ s.head? = some '0' then none
  else if decVal s > 255 then none
  else some (decVal s)

/-- `_BaseV4._ip_int_from_string` -/
def parseIPv4 (s : Str) : Option Nat :=
  if s = [] then none else
  match splitOn '.' s with
  | [a, b, c, d] =>
    match parseOctet a, parseOctet b, parseOctet c, parseOctet d with
    | some a, some b, some c, some d => some (((a * 256 + b) * 256 + c) * 256 + d)
    | _, _, _, _ => none
  | _ => none

/-! ### IPv6 -/

/-- `_BaseV6._parse_hextet` (`int('', 16)` raises, so the empty hextet is rejected too) -/
def parseHextet (s : Str) : Option Nat :=
  if s = [] then none
  else if !s.all isHexDigit then none
  else if s.length > 4 then none
  else some (hexVal s)

/-- fold hextets into an integer: `ip_int <<= 16; ip_int |= hextet` -/
def foldHextets (acc : Nat) : List Str → Option Nat
  | [] => some acc
  | h :: hs => match parseHextet h with
    | none => none
    | some v => foldHextets (acc * 65536 + v) hs

/-- positions `1 .. len-2` holding an empty part -/
def innerEmpties (parts : List Str) : List Nat :=
  (List.range parts.length).filter fun i =>
    decide (1 ≤ i) && decide (i + 1 < parts.length) && (parts.getD i [] == [])

/-- the two hextet loops around the skipped run: `hi` parts from the front, `8 - (hi + lo)` zero
    hextets, the last `lo` parts -/
def assemble (parts : List Str) (hi lo : Nat) : Option Nat :=
  if 8 - (hi + lo) < 1 then none
  else
    match foldHextets 0 (parts.take hi) with
    | none => none
    | some v => foldHextets (v * 65536 ^ (8 - (hi + lo))) (parts.drop (parts.length - lo))

/-- `_BaseV6._ip_int_from_string` after the optional IPv4 suffix has been rewritten into two hextets -/
def ipv6FromParts (parts : List Str) : Option Nat :=
  if parts.length > 9 then none else
  let n := parts.length
  let first := parts.headD []
  let lastp := parts.getLastD []
  match innerEmpties parts with
  | _ :: _ :: _ => none                      -- at most one '::'
  | [skip] =>
    let hi0 := skip
    let lo0 := n - skip - 1
    if first = [] ∧ hi0 - 1 ≠ 0 then none
    else if lastp = [] ∧ lo0 - 1 ≠ 0 then none
    else assemble parts (if first = [] then hi0 - 1 else hi0) (if lastp = [] then lo0 - 1 else lo0)
  | [] =>
    if n ≠ 8 then none
    else if first = [] then none
    else if lastp = [] then none
    else foldHextets 0 parts

/-- `_BaseV6._ip_int_from_string` -/
def parseIPv6 (s : Str) : Option Nat :=
  if s = [] then none else
  let parts0 := splitOn ':' s
  if parts0.length < 3 then none else
  let last := parts0.getLastD []
  if last.contains '.' then
    match parseIPv4 last with
    | none => none
    | some v => ipv6FromParts (parts0.dropLast ++ [toHexStr ((v / 65536) % 65536), toHexStr (v % 65536)])
  else ipv6FromParts parts0

/-- Python `str.partition('%')` and `IPv6Address._split_scope_id`: the address part, or `none` if malformed -/
def splitScope (s : Str) : Option Str :=
  match splitOn '%' s with
  | [a] => some a
  | [a, sc] => if sc = [] then none else some a
  | _ => none

/-! ### addresses and networks -/

structure IP where
  v6 : Bool
  val : Nat
  deriving Repr, DecidableEq

structure Net where
  v6 : Bool
  addr : Nat
  plen : Nat
  deriving Repr, DecidableEq

def bitsOf (v6 : Bool) : Nat := if v6 then 128 else 32

/-- `ipaddress.ip_address(s)`: IPv4 first, then IPv6 -/
def parseAddress (s : Str) : Option IP :=
  if s.contains '/' then none else
  match parseIPv4 s with
  | some v => some ⟨false, v⟩
  | none =>
    match splitScope s with
    | none => none
    | some a => (parseIPv6 a).map (IP.mk true)

/-- `_count_righthand_zero_bits(number, bits)` -/
def trailingZeros : Nat → Nat → Nat
  | 0, _ => 0
  | bits + 1, n => if n = 0 then bits + 1 else if n % 2 = 1 then 0 else 1 + trailingZeros bits (n / 2)

/-- `_prefix_from_ip_int` for `bits`-wide masks: `none` when zeroes and ones are mixed -/
def prefixFromMaskInt (bits m : Nat) : Option Nat :=
  let tz := trailingZeros bits m
  let plen := bits - tz
  if m / 2 ^ tz = 2 ^ plen - 1 then some plen else none

/-- `_prefix_from_prefix_string` -/
def prefixFromDigits (bits : Nat) (s : Str) : Option Nat :=
  if s = [] ∨ !s.all isAsciiDigit then none
  else if decVal s ≤ bits then some (decVal s) else none

/-- `IPv4Network._make_netmask` for a string: prefix length, else netmask, else hostmask -/
def prefixV4 (s : Str) : Option Nat :=
  match prefixFromDigits 32 s with
  | some p => some p
  | none =>
    match parseIPv4 s with
    | none => none
    | some m =>
      match prefixFromMaskInt 32 m with
      | some p => some p
      | none => prefixFromMaskInt 32 (m ^^^ (2 ^ 32 - 1))

/-- the netmask `_ALL_ONES ^ (_ALL_ONES >> prefixlen)` -/
def netmask (bits plen : Nat) : Nat := (2 ^ bits - 1) ^^^ ((2 ^ bits - 1) >>> plen)

/-- strict test of the network constructors: `packed & netmask == packed` -/
def strictOk (bits addr plen : Nat) : Bool := addr &&& netmask bits plen == addr

/-- `ipaddress.ip_network(s, strict=True)` -/
def parseNetwork (s : Str) : Option Net :=
  match splitOn '/' s with
  | [a] =>
    (parseAddress a).map fun ip => ⟨ip.v6, ip.val, bitsOf ip.v6⟩
  | [a, m] =>
    match parseIPv4 a with
    | some v =>
      match prefixV4 m with
      | some p => if strictOk 32 v p then some ⟨false, v, p⟩ else none
      | none => none
    | none =>
      match splitScope a with
      | none => none
      | some a6 =>
        match parseIPv6 a6, prefixFromDigits 128 m with
        | some v, some p => if strictOk 128 v p then some ⟨true, v, p⟩ else none
        | _, _ => none
  | _ => none

/-- `_BaseNetwork.__contains__` for an address operand -/
def Net.contains (n : Net) (ip : IP) : Bool :=
  n.v6 == ip.v6 && (ip.val &&& netmask (bitsOf n.v6) n.plen == n.addr)

/-! ### host patterns -/

inductive HostPat where
  | wild (p : Str)
  | cidr (n : Net)
  deriving Repr, DecidableEq

/-- `HostPatternList.build_pattern`: CIDR if `ip_network` accepts the text, else wildcard -/
def buildHostPat (s : Str) : HostPat :=
  match parseNetwork s with
  | some n => .cidr n
  | none => .wild s

/-- `WildcardHostPattern.matches` / `CIDRHostPattern.matches` -/
def HostPat.matches (host addr : Str) (ip : Option IP) : HostPat → Bool
  | .wild p => (!host.isEmpty && globMatch p host) || (!addr.isEmpty && globMatch p addr)
  | .cidr n => match ip with
    | some a => n.contains a
    | none => false

def parseHostList (patterns : Str) : PatList HostPat := parsePatList buildHostPat patterns

/-- `HostPatternList(patterns).matches(host, addr, ip)` -/
def hostListMatches (pl : PatList HostPat) (host addr : Str) (ip : Option IP) : Bool :=
  pl.matchesWith (HostPat.matches host addr ip)

end AsyncsshModel.Pattern
