import AsyncsshModel.Base.Hex
/-
  Model of the stream read API (property C19), mirroring asyncssh/stream.py:

  * `SSHStreamSession._recv_buf[datatype]` — a list of chunks and exception markers (`Item`)
  * `data_received`, `eof_received`, `exception_received`, `_maybe_pause_reading`, `_maybe_resume_reading`
  * the receiving half of the channel as far as the reader can see it (asyncssh/channel.py:
    `_accept_data`, `_flush_recv_buf`, `pause_reading`, `resume_reading`, `_process_eof`):
    data queued in the channel while the session has paused reading, EOF queued behind it
  * `read(n, exact)` (stream.py:529-581), `readuntil` (591-665) with its incremental search window,
    `readline` (583-589), `at_eof`

  A blocking read is a function of the state and of the *schedule*: the list of groups of wire events that
  arrive while the reader is blocked; the reader task wakes once after every group (asyncio: the waiter future is
  completed by the first event of a group, the task runs after the group).  `Res.blocked` = waits forever.
-/
namespace AsyncsshModel.Stream

open AsyncsshModel

/-- things other than data that the session appends to a receive buffer -/
inductive Exc where
  | softEof                 -- `SoftEOFReceived`
  | other (code : Nat)      -- `BreakReceived` / `SignalReceived` / `TerminalSizeChanged` / connection exception
deriving DecidableEq, Repr

inductive Item where
  | data (b : Bytes)
  | exc (e : Exc)
deriving DecidableEq, Repr

/-- session + receive half of its channel, one datatype -/
structure St where
  buf     : List Item := []      -- `_recv_buf[datatype]`
  bufLen  : Int := 0             -- `_recv_buf_len`
  eof     : Bool := false        -- `_eof_received`
  paused  : Bool := false        -- `_read_paused` (= channel `_recv_paused` once the session has started)
  limit   : Nat := 0             -- `_limit` (the channel's receive window; 0 = never pause)
  chanQ   : List Bytes := []     -- channel `_recv_buf`: data accepted while reading is paused
  chanEof : Bool := false        -- channel `_recv_state == 'eof_pending'`: EOF waiting behind `chanQ`
deriving DecidableEq, Repr

/-- `_should_pause_reading`: `bool(self._limit) and self._recv_buf_len >= self._limit` -/
def shouldPause (s : St) : Bool := s.limit != 0 && decide ((s.limit : Int) ≤ s.bufLen)

/-- `SSHStreamSession.data_received` followed by `_maybe_pause_reading` -/
def deliver (s : St) (b : Bytes) : St :=
  let s := { s with buf := s.buf ++ [.data b], bufLen := s.bufLen + b.length }
  if !s.paused && shouldPause s then { s with paused := true } else s

/-- `SSHChannel._flush_recv_buf`: deliver queued data while the session does not pause again;
    once the queue is empty a pending EOF is handed over (whether or not reading is paused). -/
def flush : St → List Bytes → St
  | s, [] =>
    let s := { s with chanQ := [] }
    if s.chanEof then { s with eof := true, chanEof := false } else s
  | s, b :: q => if s.paused then { s with chanQ := b :: q } else flush (deliver s b) q

/-- `_maybe_resume_reading` (+ `SSHChannel.resume_reading`); the flag says whether reading was resumed -/
def maybeResume (s : St) : St × Bool :=
  if s.paused && !shouldPause s then (flush { s with paused := false } s.chanQ, true) else (s, false)

/-- events that reach the session from outside while a reader runs or waits -/
inductive Arrival where
  | data (b : Bytes)     -- CHANNEL_DATA handled by `_accept_data` (empty data is dropped, paused data queued)
  | feed (b : Bytes)     -- `SSHReader.feed_data` / direct `data_received` (bypasses the channel queue)
  | eof                  -- CHANNEL_EOF handled by `_process_eof`
  | exc (e : Exc)        -- `exception_received` (signal, break, soft EOF, ...): appended at once
deriving DecidableEq, Repr

def arrive (s : St) : Arrival → St
  | .data b =>
    if b.isEmpty then s
    else if s.paused then { s with chanQ := s.chanQ ++ [b] }
    else deliver s b
  | .feed b => deliver s b
  | .eof => if s.chanQ.isEmpty then { s with eof := true } else { s with chanEof := true }
  | .exc e => { s with buf := s.buf ++ [.exc e] }

def absorb (s : St) (g : List Arrival) : St := g.foldl arrive s

abbrev Sched := List (List Arrival)

inductive Res where
  | ok (b : Bytes)
  | incomplete (part : Bytes)     -- `asyncio.IncompleteReadError(partial)`
  | raised (e : Exc)              -- an exception item raised to the caller
  | typeError                     -- `raise <non-exception>` (see `scan`)
  | valueError                    -- empty separator
  | blocked                       -- the call never returns on this schedule
deriving DecidableEq, Repr

/-! ### read / readexactly -/

/-- result of the inner `while recv_buf and n != 0` loop of `read` -/
structure Inner where
  buf    : List Item
  bufLen : Int
  acc    : Bytes          -- `b''.join(data)`
  got    : Bool           -- truthiness of the list `data` (a chunk was appended, possibly an empty one)
  n      : Int
  brk    : Bool           -- `break_read`
  exc    : Option Exc     -- exception raised out of the loop
deriving DecidableEq, Repr

def readInner : List Item → Int → Bytes → Bool → Int → Inner
  | [], bl, acc, got, n => ⟨[], bl, acc, got, n, false, none⟩
  | it :: rest, bl, acc, got, n =>
    if n = 0 then ⟨it :: rest, bl, acc, got, n, false, none⟩
    else match it with
      | .exc e =>
        if got then ⟨it :: rest, bl, acc, got, n, true, none⟩
        else match e with
          | .softEof => ⟨rest, bl, acc, got, 0, false, none⟩
          | e => ⟨rest, bl, acc, got, n, false, some e⟩
      | .data b =>
        if 0 < n ∧ n < (b.length : Int) then
          ⟨.data (b.drop n.toNat) :: rest, bl - n, acc ++ b.take n.toNat, true, 0, false, none⟩
        else readInner rest (bl - b.length) (acc ++ b) true (n - b.length)

/-- what the part of `read` between two `await`s leaves behind -/
structure Drained where
  st  : St
  acc : Bytes
  got : Bool
  n   : Int
  brk : Bool
  exc : Option Exc
deriving DecidableEq, Repr

/-- inner loop, then `if self._maybe_resume_reading(): continue` — repeated until reading was not resumed.
    `fuel` bounds the number of resumptions (each one takes at least one chunk out of the channel queue
    or leaves reading unpaused), see `drainFuel`. -/
def readDrain : Nat → St → Bytes → Bool → Int → Bool → Drained
  | 0, s, acc, got, n, brk => ⟨s, acc, got, n, brk, none⟩
  | fuel + 1, s, acc, got, n, brk =>
    let r := readInner s.buf s.bufLen acc got n
    let s1 := { s with buf := r.buf, bufLen := r.bufLen }
    match r.exc with
    | some e => ⟨s1, r.acc, r.got, r.n, brk || r.brk, some e⟩
    | none =>
      let (s2, resumed) := maybeResume s1
      if resumed then readDrain fuel s2 r.acc r.got r.n (brk || r.brk)
      else ⟨s2, r.acc, r.got, r.n, brk || r.brk, none⟩

def drainFuel (s : St) : Nat := s.chanQ.length + 2

/-- the `while True` loop of `read`; one schedule group is consumed per `await self._block_read()` -/
def readLoop (exact : Bool) : St → Bytes → Bool → Int → Bool → Sched → Res × St × Sched
  | s, acc, got, n, brk, sched =>
    let d := readDrain (drainFuel s) s acc got n brk
    match d.exc with
    | some e => (.raised e, d.st, sched)
    | none =>
      if d.n = 0 ∨ (0 < d.n ∧ d.got ∧ !exact) ∨ (d.n < 0 ∧ !d.st.buf.isEmpty) ∨ d.st.eof ∨ d.brk then
        if 0 < d.n ∧ exact then (.incomplete d.acc, d.st, sched) else (.ok d.acc, d.st, sched)
      else match sched with
        | [] => (.blocked, d.st, [])
        | g :: rest => readLoop exact (absorb d.st g) d.acc d.got d.n d.brk rest

/-- `SSHReader.read(n)` (`exact = false`) / `SSHReader.readexactly(n)` (`exact = true`) -/
def read (exact : Bool) (n : Int) (s : St) (sched : Sched) : Res × St × Sched :=
  readLoop exact s [] false n false sched

/-! ### readuntil / readline -/

/-- first alternative of `sep1|sep2|...` that matches at the start of `s`; returns its length -/
def matchAt : List Bytes → Bytes → Option Nat
  | [], _ => none
  | p :: ps, s => if p.isPrefixOf s then some p.length else matchAt ps s

/-- `pat.search` over the remaining text `s` that starts at offset `pos`: leftmost position, first alternative
    there; returns `match.end()` -/
def searchFrom (seps : List Bytes) : Bytes → Nat → Option Nat
  | [], pos => (matchAt seps []).map (pos + ·)
  | c :: t, pos =>
    match matchAt seps (c :: t) with
    | some l => some (pos + l)
    | none => searchFrom seps t (pos + 1)

/-- `pat.search(buf, start).end()` for the pattern built from literal separators -/
def search (seps : List Bytes) (buf : Bytes) (start : Nat) : Option Nat :=
  if start ≤ buf.length then searchFrom seps (buf.drop start) start else none

/-- `min(match.end() for the patterns that match)` over one compiled pattern per literal separator: the
    separator that ENDS first wins (repair of F10; before it the list was one alternation, see `search`) -/
def searchMin : List Bytes → Bytes → Nat → Option Nat
  | [], _, _ => none
  | sep :: rest, buf, start =>
    match search [sep] buf start, searchMin rest buf start with
    | some a, some b => some (min a b)
    | some a, none => some a
    | none, r => r

/-- the search `readuntil` makes: `minEnd` = one pattern per separator, earliest end (separator lists);
    otherwise one pattern, leftmost start, first alternative (a single separator or the caller's regex) -/
def srch (minEnd : Bool) (seps : List Bytes) (buf : Bytes) (start : Nat) : Option Nat :=
  if minEnd then searchMin seps buf start else search seps buf start

/-- `start = 0 if seplen == 0 else max(buflen + 1 - seplen, 0)` -/
def searchStart (buflen seplen : Nat) : Nat :=
  if seplen = 0 then 0 else buflen + 1 - seplen

inductive ScanOut where
  | found (res : Bytes) (newBuf : List Item) (idx : Nat)
  | excPartial (part : Bytes) (newBuf : List Item)     -- exception item reached with data read before it
  | excRaise (e : Exc) (newBuf : List Item)            -- exception item first: popped and raised
  | softEof (newBuf : List Item)                       -- soft EOF first: `return buf` (empty)
  | popType (newBuf : List Item)                       -- `recv_buf.pop(0)` removed an (empty) data chunk: TypeError
  | more (rbuf : Bytes) (curbuf : Nat)                 -- everything scanned, no match yet
deriving DecidableEq, Repr

/-- the `while curbuf < len(recv_buf)` loop of `readuntil` over the not yet scanned items;
    `rbuf` is the local `buf` (`buflen = len(buf)` at the head of every iteration), `curbuf` items precede -/
def scan (me : Bool) (seps : List Bytes) (seplen : Nat) : Bytes → Nat → List Item → ScanOut
  | rbuf, cur, [] => .more rbuf cur
  | rbuf, cur, .exc e :: rest =>
    if !rbuf.isEmpty then .excPartial rbuf (.exc e :: rest)
    else if cur = 0 then
      match e with
      | .softEof => .softEof rest
      | e => .excRaise e rest
    else .popType (List.replicate (cur - 1) (.data []) ++ .exc e :: rest)
  | rbuf, cur, .data b :: rest =>
    let buf' := rbuf ++ b
    match srch me seps buf' (searchStart rbuf.length seplen) with
    | some idx =>
      let left := buf'.drop idx
      .found (buf'.take idx) (if left.isEmpty then rest else .data left :: rest) idx
    | none => scan me seps seplen buf' (cur + 1) rest

/-- the `while True` loop of `readuntil` -/
def untilLoop (me : Bool) (seps : List Bytes) (seplen : Nat) : St → Bytes → Nat → Sched → Res × St × Sched
  | s, rbuf, cur, sched =>
    match scan me seps seplen rbuf cur (s.buf.drop cur) with
    | .found res nb idx =>
      let s1 := { s with buf := nb, bufLen := s.bufLen - idx }
      (.ok res, (maybeResume s1).1, sched)
    | .excPartial part nb => (.incomplete part, { s with buf := nb, bufLen := s.bufLen - part.length }, sched)
    | .excRaise e nb => (.raised e, { s with buf := nb }, sched)
    | .softEof nb => (.ok [], { s with buf := nb }, sched)
    | .popType nb => (.typeError, { s with buf := nb }, sched)
    | .more rbuf' cur' =>
      -- `if (self._read_paused and buf) or self._eof_received:` — `_read_paused` belongs to the whole session
      -- (stdout and stderr count together), so the call gives up on a pause only when THIS stream has data to return
      if (s.paused && !rbuf'.isEmpty) || s.eof then
        let s1 := { s with buf := s.buf.drop cur', bufLen := s.bufLen - rbuf'.length }
        (.incomplete rbuf', (maybeResume s1).1, sched)
      else match sched with
        | [] => (.blocked, s, [])
        | g :: rest => untilLoop me seps seplen (absorb s g) rbuf' cur' rest

/-- the `while True` loop of `readuntil` BEFORE the repair of finding A-C19-3: the call gave up whenever the
    session had paused reading (`if self._read_paused or self._eof_received:`), also when the pause was caused by
    the other stream's unread data and nothing at all was buffered for this one (kept for the witness theorems) -/
def untilLoopPreFix (me : Bool) (seps : List Bytes) (seplen : Nat) : St → Bytes → Nat → Sched → Res × St × Sched
  | s, rbuf, cur, sched =>
    match scan me seps seplen rbuf cur (s.buf.drop cur) with
    | .found res nb idx =>
      let s1 := { s with buf := nb, bufLen := s.bufLen - idx }
      (.ok res, (maybeResume s1).1, sched)
    | .excPartial part nb => (.incomplete part, { s with buf := nb, bufLen := s.bufLen - part.length }, sched)
    | .excRaise e nb => (.raised e, { s with buf := nb }, sched)
    | .softEof nb => (.ok [], { s with buf := nb }, sched)
    | .popType nb => (.typeError, { s with buf := nb }, sched)
    | .more rbuf' cur' =>
      if s.paused || s.eof then
        let s1 := { s with buf := s.buf.drop cur', bufLen := s.bufLen - rbuf'.length }
        (.incomplete rbuf', (maybeResume s1).1, sched)
      else match sched with
        | [] => (.blocked, s, [])
        | g :: rest => untilLoopPreFix me seps seplen (absorb s g) rbuf' cur' rest

def maxLen : List Bytes → Nat
  | [] => 0
  | p :: ps => max p.length (maxLen ps)

/-- `readuntil(separator)` for a list (any iterable) of literal separators: one escaped pattern per separator,
    the match that ends first is taken, `seplen = max(len(sep))`; an empty list raises ValueError. -/
def readuntil (seps : List Bytes) (s : St) (sched : Sched) : Res × St × Sched :=
  if seps.isEmpty then (.valueError, s, sched)
  else untilLoop true seps (maxLen seps) s [] 0 sched

/-- the code before the repair of F10: the list was compiled into ONE alternation `sep1|sep2|...`, whose match
    is the leftmost-starting one (kept for the machine-checked witness of the defect) -/
def readuntilPreFix (seps : List Bytes) (s : St) (sched : Sched) : Res × St × Sched :=
  if seps.isEmpty then (.valueError, s, sched)
  else untilLoop false seps (maxLen seps) s [] 0 sched

/-- `readuntil(separator)` for one `bytes`/`str` separator; the empty one raises ValueError. -/
def readuntilOne (sep : Bytes) (s : St) (sched : Sched) : Res × St × Sched :=
  if sep.isEmpty then (.valueError, s, sched)
  else untilLoop false [sep] sep.length s [] 0 sched

/-- `readuntil(re.compile(b'sep1|sep2|...'), max_separator_len)`: the caller states the window -/
def readuntilPat (seps : List Bytes) (maxSepLen : Nat) (s : St) (sched : Sched) : Res × St × Sched :=
  untilLoop false seps maxSepLen s [] 0 sched

def newline : UInt8 := 10

/-- `readline`: `readuntil(b'\n')`, the partial data of an IncompleteReadError is returned instead -/
def readline (s : St) (sched : Sched) : Res × St × Sched :=
  match untilLoop false [[newline]] 1 s [] 0 sched with
  | (.incomplete part, s', r) => (.ok part, s', r)
  | x => x

/-- `readline` of the code before the repair of A-C19-3 -/
def readlinePreFix (s : St) (sched : Sched) : Res × St × Sched :=
  match untilLoopPreFix false [[newline]] 1 s [] 0 sched with
  | (.incomplete part, s', r) => (.ok part, s', r)
  | x => x

/-- `at_eof` -/
def atEof (s : St) : Bool := s.eof && s.buf.isEmpty

/-! ### the other stream of the same session

  `_recv_buf_len`, `_limit` and `_read_paused` belong to the SESSION: a client process has one `St.buf` per
  datatype (stdout, stderr) but one `bufLen` / `paused` for both.  Seen from the reader of one stream, the other
  stream is an amount of bytes that counts in `bufLen` without being in `buf`. -/

/-- `data_received(data, other_datatype)` with `len(data) = n` (+ `_maybe_pause_reading`) -/
def otherDeliver (s : St) (n : Nat) : St :=
  let s := { s with bufLen := s.bufLen + n }
  if !s.paused && shouldPause s then { s with paused := true } else s

/-- the application takes `n` buffered bytes out of the other stream (`read` on its reader: `_recv_buf_len -= n`,
    then `_maybe_resume_reading`) -/
def otherRead (s : St) (n : Nat) : St := (maybeResume { s with bufLen := s.bufLen - n }).1

/-! ### scripts: what an application does with one reader over time -/

inductive Op where
  | read (n : Int)
  | exactly (n : Int)
  | until (seps : List Bytes)
  | untilOne (sep : Bytes)
  | untilPat (seps : List Bytes) (maxSepLen : Nat)
  | line
deriving DecidableEq, Repr

def runOp (op : Op) (s : St) (sched : Sched) : Res × St × Sched :=
  match op with
  | .read n => read false n s sched
  | .exactly n => read true n s sched
  | .until seps => readuntil seps s sched
  | .untilOne sep => readuntilOne sep s sched
  | .untilPat seps m => readuntilPat seps m s sched
  | .line => readline s sched

/-- run the calls one after the other.  Each call comes with the groups of events that arrive from the
    moment it is made until the next call is made; what it does not consume while waiting arrives (and is
    buffered) before the next call.  A call that never returns ends the run. -/
def runOps : List (Op × Sched) → St → List Res
  | [], _ => []
  | (op, sched) :: rest, s =>
    match runOp op s sched with
    | (.blocked, _, _) => [.blocked]
    | (r, s', left) => r :: runOps rest (left.foldl absorb s')

end AsyncsshModel.Stream
