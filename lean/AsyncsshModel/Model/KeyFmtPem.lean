import AsyncsshModel.Model.KeyFmtBase64
import AsyncsshModel.Model.Der
import AsyncsshModel.Gen.C15
/-
  Text framing of keys as written and read by asyncssh:

  * writer: `wrap_base64` (misc.py:431-443) and the OpenSSH public-key line / RFC 4716 block of
    `SSHKey.export_public_key` (public_key.py:1257-1279);
  * reader: `_match_next` (public_key.py:2369-2420), `match_base64` (misc.py:419-428),
    `_parse_pem` (2305-2329), `_parse_rfc4716` (2332-2366), `_parse_openssh` (2282-2302).

  The reader works on *lines*: `data.find(b'\n', start)` walks line by line and the footer regular
  expression of `match_base64` (`^-----END …-----[ \t\n\r\f\v]*$`, `re.M`) can only match at the start
  of a line, so the model splits the data at `\n` once and keeps byte offsets next to the lines.
  Python semantics kept exactly: `bytes.rstrip()/strip()/split(None, 2)`, the "`end == 0` when the
  last line has no newline" convention, and where the regex match ends (at the end of the data, or
  just *before* the last newline of the whitespace run that follows the footer).
-/
namespace AsyncsshModel.KeyFmt
open AsyncsshModel

/-! ### Python bytes helpers -/

/-- `bytes.isspace` characters: space, \t, \n, \v, \f, \r -/
def isSpace (c : UInt8) : Bool := c == 32 || (9 ≤ c && c ≤ 13)

def lstrip (b : Bytes) : Bytes := b.dropWhile isSpace
def rstrip (b : Bytes) : Bytes := (b.reverse.dropWhile isSpace).reverse
def strip (b : Bytes) : Bytes := lstrip (rstrip b)

/-- `bytes.split(b'\n')` -/
def splitNl : Bytes → List Bytes
  | [] => [[]]
  | c :: cs =>
    if c = nl then [] :: splitNl cs
    else match splitNl cs with
      | [] => [[c]]
      | h :: t => (c :: h) :: t

/-- each line followed by a newline: `data[a:b]` for whole lines -/
def unlines (ls : List Bytes) : Bytes := (ls.map (· ++ [nl])).flatten

/-- `b'\n'.join(lines)` -/
def joinNl : List Bytes → Bytes
  | [] => []
  | [l] => l
  | l :: ls => l ++ nl :: joinNl ls

def colon : UInt8 := 58
def quote : UInt8 := 34
def backslash : UInt8 := 92

/-- `line.split(b':', 1)` when `b':' in line` -/
def splitColon : Bytes → Option (Bytes × Bytes)
  | [] => none
  | c :: cs =>
    if c = colon then some ([], cs)
    else (splitColon cs).map fun (a, b) => (c :: a, b)

/-- one word of `split(None, …)`: (word, rest after the word) of a string that starts with a non-space -/
def takeWord (b : Bytes) : Bytes × Bytes := (b.takeWhile (!isSpace ·), b.dropWhile (!isSpace ·))

/-- `line.split(None, 2)` (stringlib `split_whitespace` with maxcount 2) -/
def splitWs2 (line : Bytes) : List Bytes :=
  let s0 := lstrip line
  if s0.isEmpty then [] else
  let (w1, r1) := takeWord s0
  let s1 := lstrip r1
  if s1.isEmpty then [w1] else
  let (w2, r2) := takeWord s1
  let s2 := lstrip r2
  if s2.isEmpty then [w1, w2] else [w1, w2, s2]

/-! ### writer -/

def dashes4 : Bytes := strBytes "----"
def sBegin : Bytes := strBytes "BEGIN "
def sEnd : Bytes := strBytes "END "

/-- `wrap_base64(data, block_type, headers, space, wrap)`; `none` when `wrap = 0` (ValueError) -/
def wrapBase64 (data blockType headers : Bytes) (space : Bool) (wrap : Nat) : Option Bytes :=
  let h : UInt8 := if space then 32 else 45
  (wrapJoin? wrap (b2a data)).map fun body =>
    dashes4 ++ [h] ++ sBegin ++ blockType ++ [h] ++ dashes4 ++ [nl] ++ headers ++ body ++
    [nl] ++ dashes4 ++ [h] ++ sEnd ++ blockType ++ [h] ++ dashes4 ++ [nl]

/-- the OpenSSH public key line as written (public_key.py, `export_public_key('openssh')`) once the comment is
    accepted; an empty comment is not written -/
def opensshPublicLine (alg blob comment : Bytes) : Bytes :=
  alg ++ [32] ++ b2a blob ++ (if comment.isEmpty then [] else 32 :: comment) ++ [nl]

def rfc4716Type : Bytes := strBytes "SSH2 PUBLIC KEY"

/-- RFC 4716 block (public_key.py:1266-1273): `Comment: "<comment>"` header, wrap 70 -/
def rfc4716Block (blob comment : Bytes) : Option Bytes :=
  let hdr := if comment.isEmpty then [] else strBytes "Comment: \"" ++ comment ++ [quote, nl]
  wrapBase64 blob rfc4716Type hdr true Gen.C15.defaultWrapLen

/-- `export_public_key('openssh')` / `export_certificate('openssh')` as a partial function: since the fix
    "refuse to export … whose comment contains a newline" the exporter raises `KeyExportError` (`none`) for such a
    comment; whether the tree under check does so is the generated `Gen.C15.exportRefusesNewlineComment`. -/
def exportPublicLine? (alg blob comment : Bytes) : Option Bytes :=
  if Gen.C15.exportRefusesNewlineComment = true ∧ nl ∈ comment then none
  else some (opensshPublicLine alg blob comment)

/-- `export_public_key('rfc4716')` / `export_certificate('rfc4716')`, same refusal -/
def exportRfc4716? (blob comment : Bytes) : Option Bytes :=
  if Gen.C15.exportRefusesNewlineComment = true ∧ nl ∈ comment then none
  else rfc4716Block blob comment

/-! ### reader -/

/-- what `_match_next` found -/
inductive Found where
  | der (v : Der.DerVal) (stop : Nat)
  | pem (name : Bytes) (headers : List (Bytes × Bytes)) (payload : Bytes) (stop : Nat)
  | rfc4716 (comment : Option Bytes) (payload : Bytes) (stop : Nat)
  | openssh (alg : Bytes) (comment : Option Bytes) (payload : Bytes) (stop : Nat)
  | nothing (stop : Nat)
  | missingFooter            -- KeyImportError('Missing PEM footer' / 'Missing RFC 4716 footer')
  | badBase64                -- KeyImportError('Invalid PEM data' / 'Invalid RFC 4716 data')
  | derOther (e : Der.DerErr) -- a non-ASN1DecodeError exception escaped der_decode_partial
  | unmodelled               -- the BEGIN line contains regular-expression metacharacters
  deriving Inhabited

/-- characters with a special meaning in the regular expression built from the BEGIN line -/
def isRegexMeta (c : UInt8) : Bool :=
  c == 46 || c == 94 || c == 36 || c == 42 || c == 43 || c == 63 || c == 123 || c == 125 ||
  c == 91 || c == 93 || c == 92 || c == 124 || c == 40 || c == 41

/-- the footer text `header[:5] + b'END' + header[10:]` -/
def footerOf (header : Bytes) : Bytes := header.take 5 ++ strBytes "END" ++ header.drop 10

/-- a line (without its newline) is `footer` followed only by white space -/
def footerLine (footer line : Bytes) : Bool :=
  footer.isPrefixOf line && (line.drop footer.length).all isSpace

/-- Where the regex match ends when the footer line starts at offset `off`: `rest` are the lines after
    the footer line (if any), `total = len(data)`.  The white-space run is followed to the first line that is
    not entirely white space; the match ends just before the newline preceding that line, or at the end of
    the data when there is no such line. -/
def footerStop (total : Nat) : (off : Nat) → (rest : List Bytes) → Nat
  | _, [] => total
  | off, l :: ls => if l.all isSpace then footerStop total (off + l.length + 1) ls else off - 1

/-- `match_base64(data, start, header)` over the candidate lines (first one at offset `off`):
    returns `data[start:match.start()]` and `match.end()` -/
def findFooter (footer : Bytes) (total : Nat) : (off : Nat) → (cands : List Bytes) → (acc : List Bytes) →
    Option (Bytes × Nat)
  | _, [], _ => none
  | off, l :: ls, acc =>
    if footerLine footer l then
      some (unlines acc.reverse, if ls.isEmpty then total else footerStop total (off + l.length + 1) ls)
    else findFooter footer total (off + l.length + 1) ls (l :: acc)

/-- header lines of `_parse_pem`: lines with a colon, until the first line without one; returns the
    headers (in order; a later duplicate wins in the Python dict) and `data[start:]` -/
def pemHeaders : List Bytes → List (Bytes × Bytes) × Bytes
  | [] => ([], [])
  | l :: ls =>
    match splitColon (rstrip l) with
    | some (k, v) =>
      let (hs, body) := pemHeaders ls
      ((strip k, strip v) :: hs, body)
    | none => ([], joinNl (l :: ls))

/-- `_parse_pem(data)`; `none` = `KeyImportError('Invalid PEM data')` -/
def parsePem (block : Bytes) : Option (List (Bytes × Bytes) × Bytes) :=
  let (hs, body) := pemHeaders (splitNl block)
  (a2b body).map fun p => (hs, p)

def commentKey : Bytes := strBytes "Comment"

/-- `_parse_rfc4716` header loop; `hdr` accumulates continuation lines -/
def rfcComment (comment : Option Bytes) (k v : Bytes) : Option Bytes :=
  if strip k = commentKey then
    let c := strip v
    if c.head? = some quote ∧ c.getLast? = some quote then some (c.drop 1).dropLast else some c
  else comment

def rfcHeaders (hdr : Bytes) (comment : Option Bytes) : List Bytes → Option Bytes × Bytes
  | [] =>
    -- past the end of the data the loop sees one more empty line: a pending continuation is flushed
    match splitColon hdr with
    | some (k, v) => (rfcComment comment k v, [])
    | none => (comment, [])
  | l :: ls =>
    let line := rstrip l
    if line.getLast? = some backslash then rfcHeaders (hdr ++ line.dropLast) comment ls
    else
      match splitColon (hdr ++ line) with
      | some (k, v) => rfcHeaders [] (rfcComment comment k v) ls
      | none => (comment, joinNl (l :: ls))

/-- `_parse_rfc4716(data)`; `none` = `KeyImportError('Invalid RFC 4716 data')` -/
def parseRfc4716 (block : Bytes) : Option (Option Bytes × Bytes) :=
  let (c, body) := rfcHeaders [] none (splitNl block)
  (a2b body).map fun p => (c, p)

/-- `_parse_openssh(line)`; `none` = `KeyImportError` (the caller then tries the next line) -/
def parseOpenssh (line : Bytes) : Option (Bytes × Option Bytes × Bytes) :=
  match splitWs2 line with
  | [alg, b64] =>
    if Gen.C15.publicKeyAlgs.contains alg || Gen.C15.certificateAlgs.contains alg then
      (a2b b64).map fun p => (alg, none, p)
    else none
  | [alg, b64, comment] =>
    if Gen.C15.publicKeyAlgs.contains alg || Gen.C15.certificateAlgs.contains alg then
      (a2b b64).map fun p => (alg, some comment, p)
    else none
  | _ => none

def beginPrefix : Bytes := strBytes "-----BEGIN "
def rfcBegin : Bytes := strBytes "---- BEGIN SSH2 PUBLIC KEY ----"
def dashes5 : Bytes := strBytes "-----"

def endsWith (s suffix : Bytes) : Bool := suffix.reverse.isPrefixOf s.reverse

/-- the text part of `_match_next`: `all` = every line of the data, `off` = offset of the current line -/
def scanLines (keytype : Bytes) (pub : Bool) (all : List Bytes) (total : Nat) :
    (off : Nat) → List Bytes → Found
  | _, [] => .nothing total
  | off, raw :: rest =>
    let line := rstrip raw
    let isLast := rest.isEmpty
    let endOff := off + raw.length + 1
    if beginPrefix.isPrefixOf line && endsWith line (32 :: keytype ++ dashes5) then
      let name := strip ((line.drop 11).take (line.length - 11 - (6 + keytype.length)))
      if line.any isRegexMeta then .unmodelled else
      -- last line without newline: `end == 0`, the footer is searched from the start of the data
      match (if isLast then findFooter (footerOf line) total 0 all []
             else findFooter (footerOf line) total endOff rest []) with
      | none => .missingFooter
      | some (block, stop) =>
        match parsePem block with
        | none => .badBase64
        | some (hs, payload) => .pem name hs payload stop
    else if pub && line == rfcBegin then
      match (if isLast then findFooter (footerOf line) total 0 all []
             else findFooter (footerOf line) total endOff rest []) with
      | none => .missingFooter
      | some (block, stop) =>
        match parseRfc4716 block with
        | none => .badBase64
        | some (c, payload) => .rfc4716 c payload stop
    else
      match (if pub then parseOpenssh line else none) with
      | some (alg, c, payload) => .openssh alg c payload (if isLast then total else endOff)
      | none => if isLast then .nothing total else scanLines keytype pub all total endOff rest

/-- `_match_next(data, keytype, public)` -/
def matchNext (keytype : Bytes) (pub : Bool) (data : Bytes) : Found :=
  let text := scanLines keytype pub (splitNl data) data.length 0 (splitNl data)
  if data.head? = some 0x30 then
    match Der.decodePartial (data.length + 1) data with
    | .ok (v, n) => .der v n
    | .error .fuel => .derOther .fuel
    -- every content error is an ASN1DecodeError since repair 1ed480b (the type constructors' own exceptions are
    -- converted by der_decode_partial): the data is then read as text
    | .error _ => text
  else text

/-- the `while data:` loops of `_decode_private_list` / `_decode_public_list` at container level:
    every item found, until the data is exhausted or an exception stops the import -/
def matchAll (keytype : Bytes) (pub : Bool) : Nat → Bytes → List Found
  | 0, _ => []
  | _, [] => []
  | fuel + 1, data =>
    let f := matchNext keytype pub data
    match f with
    | .der _ stop => f :: matchAll keytype pub fuel (data.drop stop)
    | .pem _ _ _ stop => f :: matchAll keytype pub fuel (data.drop stop)
    | .rfc4716 _ _ stop => f :: matchAll keytype pub fuel (data.drop stop)
    | .openssh _ _ _ stop => f :: matchAll keytype pub fuel (data.drop stop)
    | .nothing _ => []
    | _ => [f]

end AsyncsshModel.KeyFmt
