import AsyncsshModel.Base.Wire
/-
  ASN.1 DER as implemented by /repo/asyncssh/asn1.py: `der_encode` (asn1.py:653-696),
  `der_decode_partial` (699-747), `der_decode` (750-786) and the per-type classes
  (`_Null`, `_Boolean`, `_Integer`, `_OctetString`, `_UTF8String`, `_Sequence`, `_Set`, `BitString`,
  `IA5String`, `ObjectIdentifier`, `RawDERObject`, `TaggedDERObject`, asn1.py:155-650).

  Python value            model
  ----------------------  ----------------------------------------------
  None                    .null
  bool                    .bool b
  int                     .int v
  bytes                   .octets b
  str                     .utf8 b          (b = the UTF-8 encoding; valid UTF-8)
  tuple / list            .seq items
  frozenset / set         .set items       (canonical listing: encodings strictly increasing)
  BitString(value,unused) .bits unused value
  IA5String(value)        .ia5 value
  ObjectIdentifier('a.b') .oid [a, b, …]
  TaggedDERObject(t,v,c)  .tagged c t v
  RawDERObject(t,b,c)     .raw c t b
-/
namespace AsyncsshModel.Der
open AsyncsshModel AsyncsshModel.Wire

inductive DerVal where
  | null
  | bool (b : Bool)
  | int (v : Int)
  | octets (b : Bytes)
  | utf8 (b : Bytes)
  | ia5 (b : Bytes)
  | bits (unused : Nat) (b : Bytes)
  | oid (comps : List Nat)
  | seq (items : List DerVal)
  | set (items : List DerVal)
  | tagged (cls tag : Nat) (v : DerVal)
  | raw (cls tag : Nat) (content : Bytes)
  deriving Repr, Inhabited

/-- which Python exception a failed decode raises -/
inductive DerErr where
  | decode     -- ASN1DecodeError
  | encode     -- ASN1EncodeError (raised by the BitString constructor during decode)
  | unicode    -- UnicodeDecodeError (str.decode in _UTF8String.decode)
  | fuel       -- model ran out of fuel (never happens with fuel = length + 1)
  deriving Repr, DecidableEq, Inhabited

/-! ### base-128 digits (OID components, high tag numbers) -/

/-- continuation digits of `n` (most significant first), each with the top bit set -/
def b128hi (n : Nat) : Bytes :=
  if _h : n = 0 then [] else b128hi (n / 128) ++ [UInt8.ofNat (128 + n % 128)]
decreasing_by omega

/-- `_bytes(component)` of `ObjectIdentifier.encode` / the tag part of `_encode_identifier` -/
def b128 (n : Nat) : Bytes := b128hi (n / 128) ++ [UInt8.ofNat (n % 128)]

/-! ### identifier and length octets -/

/-- `_encode_identifier(asn1_class, constructed, tag)` (asn1.py:67-87) -/
def identBytes (cls : Nat) (constructed : Bool) (tag : Nat) : Bytes :=
  let flags := cls * 64 + (if constructed then 32 else 0)
  if tag < 32 then [UInt8.ofNat (flags + tag)] else UInt8.ofNat (flags + 31) :: b128 tag

/-- number of bytes `(length.bit_length() + 7) // 8` -/
def lenSize (n : Nat) : Nat := (bitLength (n : Int) + 7) / 8

/-- the length octets written by `der_encode` (asn1.py:689-694) -/
def encLen (n : Nat) : Bytes :=
  if n < 128 then [UInt8.ofNat n]
  else UInt8.ofNat (128 + lenSize n) :: beBytes (lenSize n) n

def tlv (ident content : Bytes) : Bytes := ident ++ encLen content.length ++ content

/-! ### per-type content encoders -/

/-- `_Integer.encode` (asn1.py:296-304) -/
def intContent (v : Int) : Bytes :=
  let l := bitLength v
  let l := if l % 8 = 0 then l / 8 + 1 else (l + 7) / 8
  let r := twosComp v l
  match r with
  | a :: b :: rest => if a = 0xff ∧ b = 0x80 then b :: rest else r
  | _ => r

/-- `ObjectIdentifier.encode` after the validity checks (asn1.py:590-622) -/
def oidContent : List Nat → Bytes
  | c0 :: c1 :: rest => b128 (c0 * 40 + c1) ++ (rest.map b128).flatten
  | _ => []

/-- lexicographic order on byte strings (Python `bytes.__le__`) -/
def bytesLe : Bytes → Bytes → Bool
  | [], _ => true
  | _ :: _, [] => false
  | a :: as, b :: bs => a < b || (a == b && bytesLe as bs)

def bytesLt (a b : Bytes) : Bool := bytesLe a b && a != b

def insertSorted (x : Bytes) : List Bytes → List Bytes
  | [] => [x]
  | y :: ys => if bytesLe x y then x :: y :: ys else y :: insertSorted x ys

/-- `sorted(...)` on a list of byte strings -/
def sortBytes (l : List Bytes) : List Bytes := l.foldr insertSorted []

mutual
/-- `der_encode(value)` -/
def enc : DerVal → Bytes
  | .null => tlv (identBytes 0 false 5) []
  | .bool b => tlv (identBytes 0 false 1) [if b then 0xff else 0]
  | .int v => tlv (identBytes 0 false 2) (intContent v)
  | .octets b => tlv (identBytes 0 false 4) b
  | .utf8 b => tlv (identBytes 0 false 12) b
  | .ia5 b => tlv (identBytes 0 false 22) b
  | .bits u b => tlv (identBytes 0 false 3) (UInt8.ofNat u :: b)
  | .oid comps => tlv (identBytes 0 false 6) (oidContent comps)
  | .seq items => tlv (identBytes 0 true 16) (encList items)
  | .set items => tlv (identBytes 0 true 17) (sortBytes (encEach items)).flatten
  | .tagged cls tag v => tlv (identBytes cls true tag) (enc v)
  | .raw cls tag content => tlv (identBytes cls false tag) content
/-- `b''.join(der_encode(item) for item in value)` -/
def encList : List DerVal → Bytes
  | [] => []
  | x :: xs => enc x ++ encList xs
def encEach : List DerVal → List Bytes
  | [] => []
  | x :: xs => enc x :: encEach xs
end

/-! ### which values Python can encode, and which are in decoder-normal form -/

def universalTags : List Nat := [1, 2, 3, 4, 5, 6, 12, 16, 17, 22]

def sortedStrict : List Bytes → Bool
  | a :: b :: rest => bytesLt a b && sortedStrict (b :: rest)
  | _ => true

/-- strict UTF-8 validity, as enforced by CPython's `bytes.decode('utf-8')` -/
def validUtf8 : Bytes → Bool
  | [] => true
  | b0 :: r =>
    let cont (x : UInt8) : Bool := 0x80 ≤ x && x ≤ 0xbf
    if b0 < 0x80 then validUtf8 r
    else if 0xc2 ≤ b0 && b0 ≤ 0xdf then
      match r with
      | b1 :: r' => cont b1 && validUtf8 r'
      | _ => false
    else if 0xe0 ≤ b0 && b0 ≤ 0xef then
      match r with
      | b1 :: b2 :: r' =>
        (if b0 = 0xe0 then 0xa0 ≤ b1 && b1 ≤ 0xbf
         else if b0 = 0xed then 0x80 ≤ b1 && b1 ≤ 0x9f
         else cont b1) && cont b2 && validUtf8 r'
      | _ => false
    else if 0xf0 ≤ b0 && b0 ≤ 0xf4 then
      match r with
      | b1 :: b2 :: b3 :: r' =>
        (if b0 = 0xf0 then 0x90 ≤ b1 && b1 ≤ 0xbf
         else if b0 = 0xf4 then 0x80 ≤ b1 && b1 ≤ 0x8f
         else cont b1) && cont b2 && cont b3 && validUtf8 r'
      | _ => false
    else false

/-- the low `u` bits of the last byte are zero and `u` unused bits need a byte to live in
    (the checks of `BitString.__init__`, asn1.py:436-446) -/
def bitsOk (u : Nat) (b : Bytes) : Bool :=
  u ≤ 7 && (u == 0 || match b.getLast? with
    | none => false
    | some x => x.toNat % 2 ^ u == 0)

/-- `ObjectIdentifier.encode` does not raise (asn1.py:607-617) -/
def oidOk : List Nat → Bool
  | c0 :: c1 :: _ => c0 ≤ 2 && (c0 == 2 || c1 ≤ 39)
  | _ => false

/-- the first two arcs fit the first content byte (`40*c0 + c1 < 128`) -/
def oidFirstByte : List Nat → Bool
  | c0 :: c1 :: _ => c0 * 40 + c1 < 128
  | _ => false

mutual
/-- `der_encode` does not raise for this value -/
def encodable : DerVal → Bool
  | .bits u b => bitsOk u b
  | .oid comps => oidOk comps
  | .utf8 b => validUtf8 b
  | .seq items => encodableList items
  | .set items => encodableList items
  | .tagged cls _ v => cls < 4 && encodable v
  | .raw cls _ _ => cls < 4
  | _ => true
def encodableList : List DerVal → Bool
  | [] => true
  | x :: xs => encodable x && encodableList xs
end

mutual
/-- The value is encodable **and** is what `der_decode` returns for its own encoding.
    Beyond `encodable` this excludes exactly:
    * tag number 31 in tagged/raw objects (`_encode_identifier` writes it in the short form, which the
      decoder reads as the long-form escape),
    * OIDs whose first two arcs need more than one byte (`2.x` with `x ≥ 48`: the decoder splits the
      first *byte*, not the first sub-identifier),
    * tagged/raw objects that carry a universal tag owned by a built-in type (they decode as that type),
    * sets not listed in canonical order. -/
def wf : DerVal → Bool
  | .bits u b => bitsOk u b
  | .oid comps => oidOk comps && oidFirstByte comps
  | .utf8 b => validUtf8 b
  | .seq items => wfList items
  | .set items => wfList items && sortedStrict (encEach items)
  | .tagged cls tag v => cls < 4 && tag ≠ 31 && !(cls == 0 && universalTags.contains tag) && wf v
  | .raw cls tag _ => cls < 4 && tag ≠ 31 && !(cls == 0 && universalTags.contains tag)
  | _ => true
def wfList : List DerVal → Bool
  | [] => true
  | x :: xs => wf x && wfList xs
end

/-! ### decoder -/

/-- the long-form tag loop of `der_decode_partial` (asn1.py:709-720): returns the tag and the
    bytes after it; `none` = `'Incomplete tag'`.  `acc` is the Python variable `tag`, always a multiple
    of 128 here, so `tag |= x` is an addition. -/
def parseHighTag (acc : Nat) : Bytes → Option (Nat × Bytes)
  | [] => none
  | b :: rest =>
    if b < 0x80 then some (acc + b.toNat, rest)
    else parseHighTag ((acc + b.toNat % 128) * 128) rest

/-- identifier octets → (class, constructed, tag, rest) -/
def parseIdent : Bytes → Option (Nat × Bool × Nat × Bytes)
  | [] => none
  | b :: rest =>
    let cls := b.toNat / 64
    let cons := b.toNat / 32 % 2 == 1
    let tag := b.toNat % 32
    if tag = 31 then
      (parseHighTag 0 rest).map fun (t, r) => (cls, cons, t, r)
    else some (cls, cons, tag, rest)

/-- length octets → (content, bytes after the content); mirrors asn1.py:722-737 including the
    acceptance of non-minimal long-form lengths -/
def parseLenContent : Bytes → Option (Bytes × Bytes)
  | [] => none                                  -- 'Incomplete data'
  | lb :: rest =>
    if lb > 0x80 then
      let k := lb.toNat % 128
      if rest.length < k then none
      else
        let n := beNat (rest.take k)
        let r := rest.drop k
        if r.length < n then none else some (r.take n, r.drop n)
    else if lb = 0x80 then none                 -- 'Indefinite length not allowed'
    else
      let n := lb.toNat
      if rest.length < n then none else some (rest.take n, rest.drop n)

/-- `ObjectIdentifier.decode` component loop (asn1.py:637-650) -/
def oidLoop (component : Nat) : Bytes → Option (List Nat)
  | [] => if component = 0 then some [] else none        -- 'Incomplete component'
  | b :: rest =>
    if b = 0x80 ∧ component = 0 then none                -- 'Invalid component'
    else if b < 0x80 then (oidLoop 0 rest).map (fun l => (component + b.toNat) :: l)
    else oidLoop ((component + b.toNat % 128) * 128) rest

def oidDecode : Bytes → Option (List Nat)
  | [] => none
  | b :: rest =>
    let first := if b.toNat < 80 then [b.toNat / 40, b.toNat % 40] else [2, b.toNat - 80]
    (oidLoop 0 rest).map (first ++ ·)

/-- The type dispatch at the end of `der_decode_partial` (asn1.py:739-747) together with the
    `decode` classmethods; `recItems`/`recPartial` are the recursive calls on the content. -/
def dispatch (recItems : Bytes → Except DerErr (List DerVal))
    (recPartial : Bytes → Except DerErr (DerVal × Nat))
    (cls : Nat) (cons : Bool) (tag : Nat) (content : Bytes) : Except DerErr DerVal :=
  if cls = 0 ∧ tag = 5 then
    if cons then .error .decode else if content ≠ [] then .error .decode else .ok .null
  else if cls = 0 ∧ tag = 1 then
    if cons then .error .decode
    else if content = [0] then .ok (.bool false)
    else if content = [0xff] then .ok (.bool true)
    else .error .decode
  else if cls = 0 ∧ tag = 2 then
    if cons then .error .decode else .ok (.int (fromBytesSigned content))
  else if cls = 0 ∧ tag = 4 then
    if cons then .error .decode else .ok (.octets content)
  else if cls = 0 ∧ tag = 12 then
    if cons then .error .decode
    else if validUtf8 content then .ok (.utf8 content) else .error .unicode
  else if cls = 0 ∧ tag = 22 then
    if cons then .error .decode else .ok (.ia5 content)
  else if cls = 0 ∧ tag = 3 then
    if cons then .error .decode
    else match content with
      | [] => .error .decode
      | u :: value =>
        if u > 7 then .error .decode
        else if bitsOk u.toNat value then .ok (.bits u.toNat value)
        else .error .encode
  else if cls = 0 ∧ tag = 6 then
    if cons then .error .decode
    else match oidDecode content with
      | none => .error .decode
      | some comps => .ok (.oid comps)
  else if cls = 0 ∧ tag = 16 then
    if !cons then .error .decode
    else (recItems content).map .seq
  else if cls = 0 ∧ tag = 17 then
    if !cons then .error .decode
    else (recItems content).map .set
  else if cons then
    -- TaggedDERObject(tag, der_decode(content), asn1_class)
    match recPartial content with
    | .error e => .error e
    | .ok (v, n) =>
      if n < content.length then .error .decode      -- 'Data contains unexpected bytes at end'
      else .ok (.tagged cls tag v)
  else .ok (.raw cls tag content)

mutual
/-- `der_decode_partial(data)`: value and number of bytes consumed -/
def decodePartial : Nat → Bytes → Except DerErr (DerVal × Nat)
  | 0, _ => .error .fuel
  | fuel + 1, data =>
    match parseIdent data with
    | none => .error .decode
    | some (cls, cons, tag, afterIdent) =>
      match parseLenContent afterIdent with
      | none => .error .decode
      | some (content, rest) =>
        (dispatch (decodeItems fuel) (decodePartial fuel) cls cons tag content).map
          fun v => (v, data.length - rest.length)
/-- the `while offset < length` loop of `_Sequence.decode` / `_Set.decode` -/
def decodeItems : Nat → Bytes → Except DerErr (List DerVal)
  | _, [] => .ok []
  | 0, _ :: _ => .error .fuel
  | fuel + 1, b :: bs =>
    match decodePartial fuel (b :: bs) with
    | .error e => .error e
    | .ok (v, n) =>
      match decodeItems fuel ((b :: bs).drop n) with
      | .error e => .error e
      | .ok vs => .ok (v :: vs)
end

/-- `der_decode(data)` -/
def decode (data : Bytes) : Except DerErr DerVal :=
  match decodePartial (data.length + 1) data with
  | .error e => .error e
  | .ok (v, n) => if n < data.length then .error .decode else .ok v

end AsyncsshModel.Der
