import AsyncsshModel.Base.Hex
/-
  Model of the SOURCE side of redirection (property C19, "redirections copy all data and then EOF"):
  asyncssh/process.py `SSHProcess.set_reader` / `clear_reader` / `feed_data` / `feed_eof`, as far as the channel can
  see it.  A server process can have two sources at once (stdout and stderr of a local program), a client process
  one (stdin).  CHANNEL_EOF ends the channel's send side for ALL of its streams: after it `chan.write` raises
  `BrokenPipeError('Channel not open for sending')`.
-/
namespace AsyncsshModel.StreamSrc

open AsyncsshModel

inductive SEv where
  | redirect (err sendEof : Bool)   -- `redirect(stdout/stderr=source, send_eof=...)` → `set_reader`
  | data (err : Bool) (b : Bytes)   -- the source of that stream delivers data → `feed_data`
  | srcEof (err : Bool)             -- the source of that stream ends → `feed_eof`
deriving DecidableEq, Repr

structure SSt where
  out     : Option Bool := none          -- `_readers[None]` is set; value: `_send_eof[None]`
  err     : Option Bool := none          -- `_readers[EXTENDED_DATA_STDERR]`, `_send_eof[...]`
  eofSent : Bool := false                -- the channel's `_send_state` is no longer 'open'
  wire    : List (Bool × Bytes) := []    -- what `chan.write` accepted (is-stderr, data), in order
  refused : Nat := 0                     -- `chan.write` raised BrokenPipeError: data of a source dropped
  stray   : Nat := 0                     -- `feed_eof` for a stream without a reader (KeyError)
deriving DecidableEq, Repr

def reg (s : SSt) (err : Bool) : Option Bool := if err then s.err else s.out

def setReg (s : SSt) (err : Bool) (v : Option Bool) : SSt :=
  if err then { s with err := v } else { s with out := v }

/-- `any(self._send_eof.values())` -/
def anyWantsEof (s : SSt) : Bool := s.out == some true || s.err == some true

/-- `feed_data`: `self._chan.write(data, datatype)` (empty data is accepted and ignored by `write` only while the
    channel is open for sending: the state test comes first) -/
def feedData (s : SSt) (err : Bool) (b : Bytes) : SSt :=
  if s.eofSent then { s with refused := s.refused + 1 }
  else if b.isEmpty then s else { s with wire := s.wire ++ [(err, b)] }

/-- `feed_eof` as repaired (finding A-C19-2): the reader is cleared first, EOF goes out only when it was asked
    for and no other registered source still wants it sent -/
def feedEof (s : SSt) (err : Bool) : SSt :=
  match reg s err with
  | none => { s with stray := s.stray + 1 }
  | some sendEof =>
    let s1 := setReg s err none
    if sendEof && !anyWantsEof s1 then { s1 with eofSent := true } else s1

/-- `feed_eof` before the repair: `if self._send_eof[datatype]: self._chan.write_eof()` — the FIRST source to end
    closed the channel's send side for the other one as well -/
def feedEofPreFix (s : SSt) (err : Bool) : SSt :=
  match reg s err with
  | none => { s with stray := s.stray + 1 }
  | some sendEof =>
    let s1 := setReg s err none
    if sendEof then { s1 with eofSent := true } else s1

def sstepW (fixed : Bool) (s : SSt) : SEv → SSt
  | .redirect err sendEof => setReg s err (some sendEof)
  | .data err b => feedData s err b
  | .srcEof err => if fixed then feedEof s err else feedEofPreFix s err

def srun (s : SSt) (evs : List SEv) : SSt := evs.foldl (sstepW true) s

def srunPreFix (s : SSt) (evs : List SEv) : SSt := evs.foldl (sstepW false) s

/-- everything the sources delivered (non-empty pieces), in order -/
def delivered : List SEv → List (Bool × Bytes)
  | [] => []
  | .data err b :: r => if b.isEmpty then delivered r else (err, b) :: delivered r
  | _ :: r => delivered r

/-- a history of two well-behaved sources: a source delivers data only while it is registered and ends once -/
def WellFormed : Option Bool → Option Bool → List SEv → Prop
  | _, _, [] => True
  | o, e, .data err _ :: r => (if err then e else o).isSome ∧ WellFormed o e r
  | o, e, .srcEof err :: r =>
    (if err then e else o).isSome ∧ WellFormed (if err then o else none) (if err then none else e) r
  | _, _, .redirect _ _ :: _ => False

end AsyncsshModel.StreamSrc
