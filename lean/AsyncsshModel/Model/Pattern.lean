import AsyncsshModel.Base.Hex
/-
  C17 — model of asyncssh/pattern.py (wildcard patterns, CIDR patterns, positive/negative
  pattern lists) over Python `str` modelled as `List Char`.

  * `WildcardPattern` / `WildcardHostPattern`  (pattern.py:33-65): the pattern is rewritten
    (`[` -> `[[]`, `]` -> `[]]`) and handed to `fnmatch.fnmatch`.  `fnTokens` transcribes the parser of
    CPython 3.12 `fnmatch.translate` for the fragment without `-` inside a bracket set (everything the
    rewritten patterns can contain), `matchToks` is `re.match` of the translated pattern.
    `globMatch` is the same matcher on the *unescaped* pattern with only `*` and `?` special;
    `Props/C17.lean` proves the two coincide, the correspondence run compares both with the real classes.
  * `CIDRHostPattern` (pattern.py:68-78) with `ipaddress` network containment, see PatternIP.lean.
  * `_PatternList` (pattern.py:81-125).
-/
namespace AsyncsshModel.Pattern
open AsyncsshModel

abbrev Str := List Char

/-! ### tokens of a translated fnmatch pattern -/

/-- one-character matchers -/
inductive CharClass where
  | any                                   -- `?`   -> `.` (DOTALL)
  | lit (c : Char)                        -- `re.escape(c)`
  | set (neg : Bool) (items : Str)        -- `[stuff]` / `[^stuff]` without ranges
  deriving Repr, DecidableEq

inductive Tok where
  | star
  | one (cc : CharClass)
  deriving Repr, DecidableEq

def CharClass.accepts : CharClass → Char → Bool
  | .any, _ => true
  | .lit c, d => c == d
  | .set neg items, d => items.contains d != neg

/-- `f` holds of some suffix of the string (what `.*` followed by the rest of the regex tries) -/
def anySuffix (f : Str → Bool) : Str → Bool
  | [] => f []
  | d :: s => f (d :: s) || anySuffix f s

/-- `re.compile(translate(pat)).match(s)`: anchored at both ends; `*` may absorb any prefix. -/
def matchToks : List Tok → Str → Bool
  | [], s => s.isEmpty
  | .star :: ts, s => anySuffix (matchToks ts) s
  | .one _ :: _, [] => false
  | .one cc :: ts, d :: s => cc.accepts d && matchToks ts s

/-- tokens of a pattern in which only `*` and `?` are special (OpenSSH `match_pattern`) -/
def globTok (c : Char) : Tok :=
  if c = '*' then .star else if c = '?' then .one .any else .one (.lit c)

def globToks (p : Str) : List Tok := p.map globTok

/-- The matcher asyncssh's wildcard classes amount to: `*` any string, `?` any one character,
    every other character (including `[`, `]`, `!`, `\`) itself; case-sensitive. -/
def globMatch (p s : Str) : Bool := matchToks (globToks p) s

/-! ### `fnmatch.translate` bracket parsing (CPython 3.12 fnmatch.py:93-145) -/

/-- the `while j < n and pat[j] != ']'` scan: `(pat[j0:j], pat[j+1:])`, or `none` when no `]` follows -/
def scanClose : Str → Option (Str × Str)
  | [] => none
  | c :: r => if c = ']' then some ([], r) else
      match scanClose r with
      | none => none
      | some (stuff, rest) => some (c :: stuff, rest)

/-- after a `[`: optional `!`, optional `]` taken literally, then scan to the closing `]`.
    Returns `(stuff, rest)` with `stuff = pat[i:j]`, `rest = pat[j+1:]`. -/
def findClose (p : Str) : Option (Str × Str) :=
  let (pre1, p1) := match p with
    | '!' :: r => (['!'], r)
    | _ => ([], p)
  let (pre2, p2) := match p1 with
    | ']' :: r => ([']'], r)
    | _ => ([], p1)
  match scanClose p2 with
  | none => none
  | some (stuff, rest) => some (pre1 ++ pre2 ++ stuff, rest)

/-- the character class a bracket expression without `-` denotes -/
def setOf (stuff : Str) : CharClass :=
  match stuff with
  | '!' :: items => .set true items
  | items => .set false items

/-- `translate(pat)` as a token list; `none` = outside the modelled fragment (a set containing `-`).
    `fuel` bounds the number of loop iterations (`pat.length` always suffices). -/
def fnTokensAux : Nat → Str → Option (List Tok)
  | _, [] => some []
  | 0, _ :: _ => none
  | fuel + 1, c :: p =>
    if c = '*' then (fnTokensAux fuel p).map (Tok.star :: ·)
    else if c = '?' then (fnTokensAux fuel p).map (Tok.one .any :: ·)
    else if c = '[' then
      match findClose p with
      | none => (fnTokensAux fuel p).map (Tok.one (.lit '[') :: ·)
      | some (stuff, rest) =>
        if stuff.contains '-' then none
        else (fnTokensAux fuel rest).map (Tok.one (setOf stuff) :: ·)
    else (fnTokensAux fuel p).map (Tok.one (.lit c) :: ·)

def fnTokens (p : Str) : Option (List Tok) := fnTokensAux p.length p

/-- `fnmatch.fnmatchcase(s, pat)` on the modelled fragment -/
def fnmatchLite (pat s : Str) : Option Bool := (fnTokens pat).map (matchToks · s)

/-- `_BaseWildcardPattern.__init__`: `[` -> `[[]`, `]` -> `[]]` -/
def escapeBrackets : Str → Str
  | [] => []
  | c :: p =>
    if c = '[' then '[' :: '[' :: ']' :: escapeBrackets p
    else if c = ']' then '[' :: ']' :: ']' :: escapeBrackets p
    else c :: escapeBrackets p

/-- `WildcardPattern(pattern).matches(value)` exactly as the code computes it -/
def wildcardMatchesViaFnmatch (pattern value : Str) : Option Bool :=
  fnmatchLite (escapeBrackets pattern) value

/-! ### splitting -/

/-- Python `str.split(sep)` for a one-character separator (always at least one piece) -/
def splitOn (sep : Char) : Str → List Str
  | [] => [[]]
  | c :: s =>
    if c = sep then [] :: splitOn sep s
    else match splitOn sep s with
      | [] => [[c]]
      | w :: ws => (c :: w) :: ws

/-! ### pattern lists (`_PatternList`) -/

structure PatList (α : Type) where
  pos : List α
  neg : List α
  deriving Repr, DecidableEq

/-- `_PatternList.__init__`: split at commas, a leading `!` negates -/
def parsePatList {α : Type} (build : Str → α) (patterns : Str) : PatList α :=
  let elems := splitOn ',' patterns
  { pos := elems.filterMap fun e => match e with
      | '!' :: _ => none
      | _ => some (build e),
    neg := elems.filterMap fun e => match e with
      | '!' :: r => some (build r)
      | _ => none }

/-- `_PatternList.matches` -/
def PatList.matchesWith {α : Type} (m : α → Bool) (pl : PatList α) : Bool :=
  pl.pos.any m && !pl.neg.any m

/-- `WildcardPatternList(patterns).matches(value)` -/
def wildcardListMatches (patterns value : Str) : Bool :=
  (parsePatList id patterns).matchesWith (globMatch · value)

end AsyncsshModel.Pattern
