import AsyncsshModel.Model.Config
/-
  C18 — evaluation layer of `asyncssh/config.py`: option values, the setters (config.py:248-391, 572-597),
  `Host` / `Match` blocks (182-246, 545-570, 700-714), `Include` over an abstract file map (152-180),
  `SSHConfig.parse` (398-477) with its end-of-file token expansion, `SSHConfig.load` (484-503) and the
  two-pass flow of `connection._connect` (connection.py:476-483).

  The model is faithful to the code, including where the code deviates from OpenSSH (expansion at the end
  of every `parse()` call, the restart of the final pass); `Props/C18.lean`
  proves what holds and exhibits witnesses for what does not.
-/
namespace AsyncsshModel.Config
open AsyncsshModel

/-! ### values -/

/-- one half of a `RekeyLimit` value: `()` (default), `None`, or a string -/
inductive RekeyPart
  | dflt | none | str (s : Bytes)
  deriving DecidableEq, Repr

/-- Python values stored in `SSHConfig._options` -/
inductive Value
  | bool (b : Bool)
  | int (i : Int)
  | str (s : Bytes)
  | none
  | list (l : List Bytes)
  | rekey (b t : RekeyPart)
  deriving DecidableEq, Repr

abbrev Opts := List (Bytes × Value)

def optGet (o : Opts) (k : Bytes) : Option Value := (o.find? (fun p => p.1 = k)).map (·.2)

/-- `d[k] = v` on an insertion-ordered dict -/
def optSet : Opts → Bytes → Value → Opts
  | [], k, v => [(k, v)]
  | (k', v') :: rest, k, v => if k' = k then (k, v) :: rest else (k', v') :: optSet rest k v

/-! ### the environment of one `load` call -/

/-- target of the lookup and the ambient facts the code reads (all fixed during one load) -/
structure Env where
  canonical : Bool
  final : Bool
  -- SSHClientConfig.__init__
  origHost : Bytes
  localUser : Bytes
  -- SSHServerConfig.__init__
  localAddr : Bytes
  localPort : Bytes          -- `str(local_port)`
  user : Bytes
  host : Bytes               -- `host or addr`
  addr : Bytes
  -- ambient
  environ : List (Bytes × Bytes)     -- `os.environ`
  localHost : Bytes                  -- `socket.gethostname()`
  home : Option Bytes                -- `os.path.expanduser('~')` when it is not `~`
  uid : Option Bytes                 -- `str(os.getuid())`
  defaultDir : Bytes                 -- `Path('~', '.ssh').expanduser()`
  files : List (Bytes × Bytes)       -- regular files: absolute path ↦ text
  exec : Bytes → Bool                -- exit status 0 of `Match exec` commands
  hashC : Bytes → Bytes              -- `sha1(...).hexdigest()` of `%C`
  ifaddr : Bool                      -- the optional `ifaddr` module is importable
  /-- `self._last_options`: the options inherited from `last_config` (a subset of the `init` a load starts
      from).  They were expanded when that config was loaded and are not expanded again. -/
  inherited : Opts := []

/-- ghost record of one executed setter call: the option, the value it was asked to store (for the
    append setters: the items to add) and whether it was an append setter -/
structure LogEntry where
  opt : Bytes
  val : Value
  append : Bool
  deriving DecidableEq, Repr

/-- parser state: the fields of `SSHConfig` that change while files are read; `log` is a ghost
    field recording every executed setter call in reading order (through included files) -/
structure St where
  opts : Opts
  matching : Bool
  tokens : Tokens
  final : Option Bool
  log : List LogEntry
  deriving DecidableEq, Repr

/-! ### setters -/

def sYes : Bytes := [121, 101, 115]
def sTrue : Bytes := [116, 114, 117, 101]
def sNo : Bytes := [110, 111]
def sFalse : Bytes := [102, 97, 108, 115, 101]
def sNone : Bytes := [110, 111, 110, 101]
def sAny : Bytes := [97, 110, 121]
def sInet : Bytes := [105, 110, 101, 116]
def sInet6 : Bytes := [105, 110, 101, 116, 54]
def sAlways : Bytes := [97, 108, 119, 97, 121, 115]
def sForce : Bytes := [102, 111, 114, 99, 101]
def sAuto : Bytes := [97, 117, 116, 111]
def sDefault : Bytes := [100, 101, 102, 97, 117, 108, 116]
def sAll : Bytes := [97, 108, 108]
def sCanonical : Bytes := [99, 97, 110, 111, 110, 105, 99, 97, 108]
def sFinal : Bytes := [102, 105, 110, 97, 108]
def sExec : Bytes := [101, 120, 101, 99]
def sHost : Bytes := [104, 111, 115, 116]
def sOriginalhost : Bytes := [111, 114, 105, 103, 105, 110, 97, 108, 104, 111, 115, 116]
def sLocalnetwork : Bytes := [108, 111, 99, 97, 108, 110, 101, 116, 119, 111, 114, 107]
def sLocaluser : Bytes := [108, 111, 99, 97, 108, 117, 115, 101, 114]
def sUser : Bytes := [117, 115, 101, 114]
def sTagged : Bytes := [116, 97, 103, 103, 101, 100]
def sLocaladdress : Bytes := [108, 111, 99, 97, 108, 97, 100, 100, 114, 101, 115, 115]
def sLocalport : Bytes := [108, 111, 99, 97, 108, 112, 111, 114, 116]
def sAddress : Bytes := [97, 100, 100, 114, 101, 115, 115]
def oHostname : Bytes := [72, 111, 115, 116, 110, 97, 109, 101]   -- "Hostname"
def oUser : Bytes := [85, 115, 101, 114]                          -- "User"
def oPort : Bytes := [80, 111, 114, 116]                          -- "Port"
def oTag : Bytes := [84, 97, 103]                                 -- "Tag"

/-- `value_str in ('yes','true')` / `('no','false')` -/
def pyBool (s : Bytes) : Option Bool :=
  if s = sYes ∨ s = sTrue then some true
  else if s = sNo ∨ s = sFalse then some false
  else none

/-- `if option not in self._options: self._options[option] = value` -/
def setOnceOpts (o : Opts) (opt : Bytes) (v : Value) : Opts :=
  if (optGet o opt).isSome then o else optSet o opt v

/-- `self._options[option].extend(items)` or `self._options[option] = items` -/
def appendOpts (o : Opts) (opt : Bytes) (items : List Bytes) : Opts :=
  match optGet o opt with
  | some (.list l) => optSet o opt (.list (l ++ items))
  | some _ => o          -- not reachable: an append option only ever holds a list
  | none => optSet o opt (.list items)

/-- store `v` under `opt` unless the option is already set; always logged -/
def setOnce (st : St) (opt : Bytes) (v : Value) : St :=
  { st with opts := setOnceOpts st.opts opt v, log := st.log ++ [⟨opt, v, false⟩] }

/-- extend the list stored under `opt` (or start one); always logged -/
def appendTo (st : St) (opt : Bytes) (items : List Bytes) : St :=
  { st with opts := appendOpts st.opts opt items, log := st.log ++ [⟨opt, .list items, true⟩] }

/-- the scalar setters that do not look at the parser state: value and remaining arguments.
    `args` is never empty when a handler is called (config.py:456). -/
def scalarValue (k : Kind) (args : List Bytes) : Except Err (Value × List Bytes) :=
  match args with
  | [] => .error .index
  | a :: rest =>
    match k with
    | .setBool =>
      match pyBool (lower a) with
      | some b => .ok (.bool b, rest)
      | none => .error .parse
    | .setBoolOrStr =>
      match pyBool (lower a) with
      | some b => .ok (.bool b, rest)
      | none => .ok (.str a, rest)
    | .setInt =>
      match pyInt a with
      | some i => .ok (.int i, rest)
      | none => .error .parse
    | .setString => .ok (if lower a = sNone then .none else .str a, rest)
    | .setStringList =>
      .ok (if rest = [] ∧ lower a = sNone then .list [] else .list (a :: rest), [])
    | .setAddressFamily =>
      if lower a = sAny then .ok (.int 0, rest)            -- socket.AF_UNSPEC
      else if lower a = sInet then .ok (.int 2, rest)      -- socket.AF_INET
      else if lower a = sInet6 then .ok (.int 10, rest)    -- socket.AF_INET6 (Linux)
      else .error .parse
    | .setCanonicalizeHost =>
      match pyBool (lower a) with
      | some b => .ok (.bool b, rest)
      | none => if lower a = sAlways then .ok (.str (lower a), rest) else .error .parse
    | .setRequestTty =>
      match pyBool (lower a) with
      | some b => .ok (.bool b, rest)
      | none =>
        if lower a = sForce ∨ lower a = sAuto then .ok (.str (lower a), rest) else .error .parse
    | .setRekeyLimits =>
      let b := if lower a = sDefault then RekeyPart.dflt else .str (lower a)
      match rest with
      | [] => .ok (.rekey b .dflt, [])
      | t :: rest' => .ok (.rekey b (if lower t = sNone then .none else .str (lower t)), rest')
    | _ => .error .index

/-! ### `Host` and `Match` -/

/-- `SSHClientConfig._match_val` / `SSHServerConfig._match_val`: outer `none` = Python `None` -/
def matchVal (cfg : Table) (env : Env) (st : St) (m : Bytes) : Option Bytes :=
  if cfg.server then
    if m = sLocaladdress then some env.localAddr
    else if m = sLocalport then some env.localPort
    else if m = sUser then some env.user
    else if m = sHost then some env.host
    else if m = sAddress then some env.addr
    else none
  else
    if m = sHost then
      match optGet st.opts oHostname with
      | some (.str h) => some h
      | some _ => none
      | none => some env.origHost
    else if m = sOriginalhost then some env.origHost
    else if m = sLocaluser then some env.localUser
    else if m = sUser then
      match optGet st.opts oUser with
      | some (.str u) => some u
      | some _ => none             -- `User none` stores None: "Invalid match condition"
      | none => some env.localUser
    else if m = sTagged then
      match optGet st.opts oTag with
      | some (.str t) => some t
      | some _ => none
      | none => some []
    else none

/-- a criterion is a flag (`all`, `canonical`, `final`: truth value known) or takes a pattern argument -/
inductive CritKind
  | flag (res : Bool)
  | value (m : Bytes)
  deriving DecidableEq, Repr

/-- the head of one iteration of the `while args` loop of `SSHConfig._match` (config.py:190-215):
    negation, keyword, the update of `_final`, and the errors that do not depend on the argument -/
def critHead (cfg : Table) (env : Env) (st : St) (fin : Option Bool) (a : Bytes) :
    Except Err (Bool × CritKind × Option Bool) :=
  match lower a with
  | [] => .error .index                              -- `match[0]`
  | c :: ms =>
    let negated : Bool := c = chBang
    let m := if negated then ms else c :: ms
    let fin := if m = sFinal ∧ fin = none then some false else fin
    if m = sAll then .ok (negated, .flag true, fin)
    else if m = sCanonical then .ok (negated, .flag env.canonical, fin)
    else if m = sFinal then .ok (negated, .flag (fin == some true), fin)
    else if m = sLocalnetwork then .error .parse     -- no `ifaddr` module here (else: not modelled)
    else if m ≠ sExec ∧ matchVal cfg env st m = none then .error .parse
    else .ok (negated, .value m, fin)

/-- truth value of a criterion that takes a pattern argument (config.py:222-241) -/
def critValue (cfg : Table) (env : Env) (st : St) (m arg : Bytes) : Bool :=
  if m = sExec then env.exec arg
  else if m = sAddress ∨ m = sLocaladdress then hostPatListMatches arg ((matchVal cfg env st m).getD [])
  else patListMatches arg ((matchVal cfg env st m).getD [])

/-- the `while args` loop of `SSHConfig._match`: returns (matching, `_final`).  The code evaluates a
    pattern criterion only while `matching` is still true; as a value this is `matching ∧ result ≠ negated`. -/
def matchLoop (cfg : Table) (env : Env) (st : St) : Bool → Option Bool → List Bytes → Except Err (Bool × Option Bool)
  | matching, fin, [] => .ok (matching, fin)
  | matching, fin, a :: rest =>
    match critHead cfg env st fin a with
    | .error e => .error e
    | .ok (negated, .flag res, fin') => matchLoop cfg env st (matching && (res != negated)) fin' rest
    | .ok (negated, .value m, fin') =>
      match rest with
      | [] => .error .parse                          -- "Missing ... match pattern"
      | arg :: rest' =>
        matchLoop cfg env st (matching && (critValue cfg env st m arg != negated)) fin' rest'

/-! ### `Include` -/

def chSlash : UInt8 := 47

/-- pattern components as `pathlib` sees them: empty and `.` components vanish -/
def patComps (p : Bytes) : List Bytes := (splitOn chSlash p).filter (fun c => c ≠ [] ∧ c ≠ [46])

/-- does the relative path (components) match the pattern components one by one -/
def compsMatch : List Bytes → List Bytes → Bool
  | [], [] => true
  | p :: ps, c :: cs => wildMatch p c && compsMatch ps cs
  | _, _ => false

/-- strip `base/` from an absolute path -/
def relTo (base path : Bytes) : Option Bytes :=
  let b := if base.getLast? = some chSlash then base else base ++ [chSlash]
  if b.isPrefixOf path then some (path.drop b.length) else none

/-- `Path(pattern).expanduser()`, split into the directory to glob from and the relative pattern
    (config.py:161-167) -/
def includeBase (env : Env) (pattern : Bytes) : Bytes × Bytes :=
  let p :=
    match pattern with
    | 126 :: 47 :: rest => (env.home.getD [126]) ++ chSlash :: rest      -- `~/...`
    | [126] => env.home.getD [126]
    | _ => pattern
  if p.head? = some chSlash then ([chSlash], p) else (env.defaultDir, p)

/-- `str.__lt__` on UTF-8 text (code-point order = byte order) -/
def bytesLt : Bytes → Bytes → Bool
  | [], [] => false
  | [], _ :: _ => true
  | _ :: _, [] => false
  | a :: as, b :: bs => a < b || (a = b && bytesLt as bs)

/-- `PurePath.__lt__`: paths compare as their lists of components -/
def compsLt : List Bytes → List Bytes → Bool
  | [], [] => false
  | [], _ :: _ => true
  | _ :: _, [] => false
  | a :: as, b :: bs => bytesLt a b || (a = b && compsLt as bs)

def insertSorted {α : Type} (lt : α → α → Bool) (x : α) : List α → List α
  | [] => [x]
  | y :: ys => if lt x y then x :: y :: ys else y :: insertSorted lt x ys

/-- `sorted(...)` (keys are distinct here, so stability does not matter) -/
def sortBy {α : Type} (lt : α → α → Bool) (l : List α) : List α := l.foldr (insertSorted lt) []

/-- a leading dot in a file or directory name is only matched by a pattern component which begins with
    one (config.py `_include`, the `all(pat.startswith('.') or not part.startswith('.') ...)` test) -/
def hiddenOK : List Bytes → List Bytes → Bool
  | p :: ps, c :: cs => (p.head? = some 46 || c.head? != some 46) && hiddenOK ps cs
  | _, _ => true

/-- the files an `Include` pattern resolves to (config.py `_include`): `path.glob(pattern)` filtered by
    `is_file()`, without paths that have a component starting with `.` which the corresponding pattern
    component does not start with, and `sorted` as paths.  (`env.files` may list the files in any order.) -/
def includeTargets (env : Env) (pattern : Bytes) : List Bytes :=
  let (base, pat) := includeBase env pattern
  let pcs := patComps pat
  let hits := env.files.filterMap (fun f =>
    match relTo base f.1 with
    | some rel =>
      let comps := (splitOn chSlash rel).filter (· ≠ [])
      if compsMatch pcs comps ∧ hiddenOK pcs comps
      then some (comps, f.2) else none
    | none => none)
  (sortBy (fun a b => compsLt a.1 b.1) hits).map (·.2)

/-- `includeTargets` before the repair: only the file's own name was tested for a leading dot, so a wildcard
    in a directory component also matched hidden directories -/
def includeTargetsPreFix (env : Env) (pattern : Bytes) : List Bytes :=
  let (base, pat) := includeBase env pattern
  let pcs := patComps pat
  let matchHidden := (pcs.getLast?.getD []).head? = some 46
  let hits := env.files.filterMap (fun f =>
    match relTo base f.1 with
    | some rel =>
      let comps := (splitOn chSlash rel).filter (· ≠ [])
      if compsMatch pcs comps ∧ (matchHidden ∨ (comps.getLast?.getD []).head? ≠ some 46)
      then some (comps, f.2) else none
    | none => none)
  (sortBy (fun a b => compsLt a.1 b.1) hits).map (·.2)

/-! ### one line -/

def findHandlerOpt (cfg : Table) (lopt : Bytes) : Option (Bytes × Kind) := cfg.handler lopt

/-- a scalar setter: compute the value (this may raise), then store it if the option is unset -/
def runScalar (st : St) (opt : Bytes) (k : Kind) (args : List Bytes) : Except Err (St × List Bytes) :=
  match scalarValue k args with
  | .error e => .error e
  | .ok (v, rest) => .ok (setOnce st opt v, rest)

/-- dispatch of one handler call; `rec` parses an included file (text) from a state.
    Returns the new state and the arguments the handler left over. -/
def runHandler (cfg : Table) (env : Env) (rec : St → Bytes → Except Err St)
    (st : St) (opt : Bytes) (k : Kind) (args : List Bytes) : Except Err (St × List Bytes) :=
  match k with
  | .matchHost =>
    -- `_match_host`: WildcardPatternList(list(args)).matches(self._orig_host)  (repair of the comma split)
    .ok ({ st with matching := patListMatchesL args env.origHost }, [])
  | .matchBlock =>
    match matchLoop cfg env st true st.final args with
    | .error e => .error e
    | .ok (m, fin) => .ok ({ st with matching := m, final := fin }, [])
  | .includeFile =>
    -- every file of every pattern in turn, then `_matching = True`, `args.clear()`
    let texts := args.flatMap (includeTargets env)
    match texts.foldlM rec st with
    | .error e => .error e
    | .ok st' => .ok ({ st' with matching := true }, [])
  | .appendString =>
    match args with
    | [] => .error .index
    | a :: rest =>
      if lower a ≠ sNone then .ok (appendTo st opt [a], rest)
      else .ok (appendTo st opt [], rest)      -- `none`: start an empty list if unset, else nothing
  | .appendStringList => .ok (appendTo st opt args, [])
  | .setHostname =>
    match args with
    | [] => .error .index
    | a :: rest =>
      if (optGet st.opts opt).isSome then .ok (st, rest)
      else
        -- `_tokens['h'] = orig_host`, then `_expand_val(value)`
        let toks := (104, env.origHost) :: st.tokens
        match expandVal toks env.environ a with
        | .error e => .error e
        | .ok v => .ok (setOnce { st with tokens := toks } opt (.str v), rest)
  | _ => runScalar st opt k args

/-- config.py:449-455: options in `_no_split` take the rest of the line as their single argument -/
def lineArgs (cfg : Table) (line lopt : Bytes) (args0 : List Bytes) : List Bytes :=
  if cfg.noSplit.contains lopt then
    let rest := lstrip (line.drop lopt.length)
    [strip (if rest.head? = some chEq then rest.tail else rest)]      -- one `=` separator is dropped
  else args0

/-- what one line asks for (config.py:409-457): nothing (blank line, comment, inactive block, unknown
    option) or a handler call `(option, handler kind, args)` -/
def lineCmd (cfg : Table) (matching : Bool) (rawLine : Bytes) : Except Err (Option (Bytes × Kind × List Bytes)) :=
  let line := strip rawLine
  if line = [] ∨ line.head? = some chHash then .ok none
  else
    match shlexSplit line with
    | .error e => .error e
    | .ok splitArgs =>
      match splitEq cfg.conditionals splitArgs with
      | .error e => .error e
      | .ok (lopt, args0) =>
        if !matching ∧ !cfg.conditionals.contains lopt then .ok none
        else
          match cfg.handler lopt with
          | none => .ok none
          | some (opt, k) =>
            if lineArgs cfg line lopt args0 = [] then .error .parse          -- "Missing ... value"
            else .ok (some (opt, k, lineArgs cfg line lopt args0))

/-- body of the `for line in file` loop (config.py:409-462) -/
def handleLine (cfg : Table) (env : Env) (rec : St → Bytes → Except Err St)
    (st : St) (rawLine : Bytes) : Except Err St :=
  match lineCmd cfg st.matching rawLine with
  | .error e => .error e
  | .ok none => .ok st
  | .ok (some (opt, k, args)) =>
    match runHandler cfg env rec st opt k args with
    | .error e => .error e
    | .ok (st', rest) => if rest = [] then .ok st' else .error .parse       -- "Extra data at end"

/-! ### end of `parse()`: `_set_tokens` and the expansion of `_percent_expand` options -/

def natToBytes (n : Nat) : Bytes := (toString n).toUTF8.toList
def intToBytes (i : Int) : Bytes := (toString i).toUTF8.toList

/-- `SSHClientConfig._set_tokens` / `SSHServerConfig._set_tokens`: the tokens to merge in -/
def setTokens (cfg : Table) (env : Env) (st : St) : Except Err Tokens :=
  if cfg.server then
    if unsafeUser cfg.unsafeUserAlts env.user then .error .illegalUser
    else .ok [(117, env.user)]                                   -- 'u'
  else
    let host := match optGet st.opts oHostname with
      | some (.str h) => h
      | _ => env.origHost
    let port := match optGet st.opts oPort with
      | some (.int p) => intToBytes p
      | _ => [50, 50]                                              -- str(DEFAULT_PORT)
    let user := match optGet st.opts oUser with
      | some (.str u) => if u = [] then env.localUser else u      -- `get('User') or local_user`
      | _ => env.localUser
    let short := (splitOn 46 env.localHost).headD []               -- up to the first '.'
    let base : Tokens :=
      [(67, env.hashC (env.localHost ++ host ++ port ++ user)),    -- 'C'
       (104, host), (76, short), (108, env.localHost), (110, env.origHost),
       (112, port), (114, user), (117, env.localUser)]
    let base := match env.home with | some h => base ++ [(100, h)] | none => base      -- 'd'
    let base := match env.uid with | some u => base ++ [(105, u)] | none => base       -- 'i'
    .ok base

/-- `[self._expand_val(item) for item in value]` -/
def expandList (toks : Tokens) (environ : List (Bytes × Bytes)) : List Bytes → Except Err (List Bytes)
  | [] => .ok []
  | a :: rest =>
    match expandVal toks environ a with
    | .error e => .error e
    | .ok a' => (expandList toks environ rest).map (a' :: ·)

/-- expansion of one stored value (the end of `parse()`); `last` is what `_last_options` holds for the option:
    a value inherited from the previous config object has already been expanded there, so an inherited
    string is kept and of a list only the items added by this object (behind the inherited ones) are expanded -/
def expandValue (last : Option Value) (toks : Tokens) (environ : List (Bytes × Bytes)) : Value → Except Err Value
  | .str s => if last.isSome then .ok (.str s) else (expandVal toks environ s).map Value.str
  | .list l =>
    let skip := match last with
      | some (.list l0) => l0.length
      | _ => 0
    (expandList toks environ (l.drop skip)).map fun t => Value.list (l.take skip ++ t)
  | v => .ok v

/-- the loop over `_percent_expand` at the end of `parse()`; `inh` is `_last_options` -/
def expandOpts (inh : Opts) (toks : Tokens) (environ : List (Bytes × Bytes)) : List Bytes → Opts → Except Err Opts
  | [], o => .ok o
  | k :: ks, o =>
    match optGet o k with
    | none => expandOpts inh toks environ ks o
    | some v =>
      match expandValue (optGet inh k) toks environ v with
      | .error e => .error e
      | .ok v' => expandOpts inh toks environ ks (optSet o k v')

/-- everything `parse()` does after the last line -/
def epilogue (cfg : Table) (env : Env) (st : St) : Except Err St :=
  match setTokens cfg env st with
  | .error e => .error e
  | .ok newToks =>
    let toks := newToks ++ st.tokens          -- dict.update: new entries shadow old ones
    match expandOpts env.inherited toks env.environ cfg.percentExpand st.opts with
    | .error e => .error e
    | .ok o => .ok { st with tokens := toks, opts := o }

/-- start of `parse()`: `_matching = True`, `_tokens = {'%': '%'}` -/
def prologue (st : St) : St := { st with matching := true, tokens := [(chPct, [chPct])] }

/-- the lines of a file -/
def fileLines (text : Bytes) : List Bytes := splitOn chNl text

/-- `SSHConfig.parse` of a file with the given text; `fuel` bounds the include nesting -/
def parseText (cfg : Table) (env : Env) : Nat → St → Bytes → Except Err St
  | 0, _, _ => .error .depth
  | fuel + 1, st, text =>
    match (fileLines text).foldlM (handleLine cfg env (parseText cfg env fuel)) (prologue st) with
    | .error e => .error e
    | .ok st' => epilogue cfg env st'

/-! ### `load` and the connection flow -/

/-- state of a fresh config object (`SSHConfig.__init__` + subclass `__init__`): `init` are the options
    inherited from `last_config` followed by the `user` / `port` arguments of the client -/
def initSt (env : Env) (init : Opts) : St :=
  { opts := init, matching := true, tokens := [], final := if env.final then some true else none,
    log := init.map fun p => ⟨p.1, p.2, false⟩ }

def lookupFile (env : Env) (path : Bytes) : Option Bytes :=
  (env.files.find? (fun f => f.1 = path)).map (·.2)

/-- `SSHConfig.load` over a list of top-level paths -/
def load (cfg : Table) (env : Env) (fuel : Nat) (init : Opts) (paths : List Bytes) : Except Err St :=
  paths.foldlM (fun st p =>
    match lookupFile env p with
    | none => .error .io
    | some text => parseText cfg env fuel st text) (initSt env init)

/-- `SSHClientConnectionOptions.prepare` followed by `_connect` (connection.py `_connect`): a first load with
    `canonical = final = False`; if the host was canonicalised (`canon = some h`) or the config has a
    `Match final`, a second load of the same files, starting again from the same inherited options
    (`last_config` is the config of the caller's options object in both passes). -/
def resolveClient (cfg : Table) (env : Env) (fuel : Nat) (init : Opts) (paths : List Bytes)
    (canon : Option Bytes) : Except Err St :=
  match load cfg { env with canonical := false, final := false } fuel init paths with
  | .error e => .error e
  | .ok st1 =>
    if canon.isSome ∨ st1.final.isSome then
      load cfg { env with canonical := canon.isSome, final := st1.final.isSome,
                          origHost := canon.getD env.origHost } fuel init paths
    else .ok st1

/-- `resolveClient` before the repair: the second pass was made with `reload=True`, and `get_options(True)`
    of the caller's options object returns the options *that object* started from (`base`), not its own
    (`init`): everything the options object had loaded was dropped for the second pass. -/
def resolveClientPreFix (cfg : Table) (env : Env) (fuel : Nat) (base init : Opts) (paths : List Bytes)
    (canon : Option Bytes) : Except Err St :=
  match load cfg { env with canonical := false, final := false } fuel init paths with
  | .error e => .error e
  | .ok st1 =>
    if canon.isSome ∨ st1.final.isSome then
      load cfg { env with canonical := canon.isSome, final := st1.final.isSome,
                          origHost := canon.getD env.origHost } fuel base paths
    else .ok st1

/-! ### config objects based on one another

`SSHConfig.__init__` copies the inherited options *and the lists in them* (`_copy_options`), so a config object
is a value: nothing a later load does is visible in the object it was based on.  This is what the pure
functions above always said.  Before the repair the dictionaries were copied shallowly: the list stored for an
append option was the same object in the parent, in `_last_options` and in `_options`, and `.append` /
`.extend` wrote through. -/

/-- the parent's options as seen after a child was loaded from them, before the repair: every list the parent
    holds is the object the child appended to -/
def aliasedParentPreFix (parent child : Opts) : Opts :=
  parent.map fun p =>
    match p.2, optGet child p.1 with
    | .list _, some (.list l) => (p.1, .list l)
    | _, _ => p

/-- two connections made one after the other from the same options object (options `parent`, both inherited
    and the start of the load), each with its own files -/
def twoConnections (cfg : Table) (env : Env) (fuel : Nat) (parent : Opts) (paths1 paths2 : List Bytes) :
    Except Err (St × St) :=
  match load cfg { env with inherited := parent } fuel parent paths1 with
  | .error e => .error e
  | .ok s1 =>
    match load cfg { env with inherited := parent } fuel parent paths2 with
    | .error e => .error e
    | .ok s2 => .ok (s1, s2)

/-- the same before the repair: the second connection starts from the parent as the first one left it -/
def twoConnectionsPreFix (cfg : Table) (env : Env) (fuel : Nat) (parent : Opts) (paths1 paths2 : List Bytes) :
    Except Err (St × St) :=
  match load cfg env fuel parent paths1 with
  | .error e => .error e
  | .ok s1 =>
    match load cfg env fuel (aliasedParentPreFix parent s1.opts) paths2 with
    | .error e => .error e
    | .ok s2 => .ok (s1, s2)

end AsyncsshModel.Config
