import AsyncsshModel.Gen.C06
/-
  Model of the phase gate of asyncssh's receive path (property C06):
  the cascade in `SSHConnection._recv_packet` that decides which handler (connection, key exchange,
  authentication, channel) may see a decrypted packet, `SSHPacketHandler.process_packet` (table lookup),
  the strict-KEX rules, and the state guards at the top of the connection-level handlers.
  Message numbers, handler tables and role guards come from the regenerated `Gen.C06`.
-/
namespace AsyncsshModel.Gate
open AsyncsshModel.Gen.C06

structure Flags where
  server : Bool                  -- this endpoint is the server
  kexActive : Bool               -- `self._kex is not None`
  kexHandlers : List (Nat × Nat) -- handlers of the active kex object: (message number, role guard)
  ignoreFirstKex : Bool          -- `self._ignore_first_kex`
  recvEnc : Bool                 -- `self._recv_encryption is not None`
  nextRecvReady : Bool           -- `self._next_recv_encryption is not None`
  strict : Bool                  -- `self._strict_kex`
  recvSeq : Nat                  -- `self._recv_seq`
  authActive : Bool              -- `self._auth is not None`.  On a client this is NOT "a request of its own is
                                 -- outstanding": `try_next_auth` creates the auth object before its `_start()`
                                 -- has written anything (it first awaits `password_auth_requested()`,
                                 -- `public_key_auth_requested()`, ...), and the object outlives the FAILURE that
                                 -- answered the previous request until the next object replaces it.  So the flag
                                 -- over-approximates the property's wording (audit C06 #2); see `connGuard`.
  authHandlers : List Nat        -- message numbers the current auth object handles
  authComplete : Bool
  authFinal : Bool               -- `self._auth_final`
  canRecvExtInfo : Bool
  channels : List Nat            -- keys of `self._channels`
  deriving Repr

inductive Target where
  | conn | kex | auth | chan (n : Nat)
  deriving Repr, DecidableEq

/-- result of the cascade -/
inductive Route where
  | dispatch (t : Target)
  | error            -- `exc_reason` set: ProtocolError after logging
  | skip             -- ignored first kex packet
  deriving Repr, DecidableEq

/-- the `if/elif` cascade of `_recv_packet`; `chanField` is the uint32 after the type byte, if present -/
def route (f : Flags) (t : Nat) (chanField : Option Nat) : Route :=
  if MSG_KEX_FIRST ≤ t ∧ t ≤ MSG_KEX_LAST then
    if f.kexActive then (if f.ignoreFirstKex then .skip else .dispatch .kex) else .error
  else if f.strict ∧ ¬ f.recvEnc ∧ MSG_IGNORE ≤ t ∧ t ≤ MSG_DEBUG then .error
  else if MSG_USERAUTH_FIRST ≤ t ∧ t ≤ MSG_USERAUTH_LAST then
    if f.authActive then .dispatch .auth else .error
  else if t > MSG_KEX_LAST ∧ ¬ f.recvEnc then .error
  else if t > MSG_USERAUTH_LAST ∧ ¬ f.authComplete then .error
  else if MSG_CHANNEL_FIRST ≤ t ∧ t ≤ MSG_CHANNEL_LAST then
    match chanField with
    | none => .error
    | some n => if n ∈ f.channels then .dispatch (.chan n) else .error
  else .dispatch .conn

def roleOk (server : Bool) (guard : Nat) : Bool :=
  match guard with
  | 1 => server          -- handler raises if the receiver is the client
  | 2 => !server         -- handler raises if the receiver is the server
  | _ => true

/-- what finally happens to the packet -/
inductive Effect where
  | handled (t : Target)     -- a handler ran past its state/role guards
  | error                    -- the connection ends (ProtocolError / ServiceNotAvailable / ...)
  | unimplemented            -- answered with MSG_UNIMPLEMENTED, nothing else changes
  | ignored                  -- dropped, nothing changes
  deriving Repr, DecidableEq

/-- state guards at the top of the connection-level handlers (`_process_service_request`,
    `_process_service_accept`, `_process_ext_info`, `_process_kexinit`, `_process_newkeys`,
    `_process_userauth_request/failure/success`); `true` = the handler goes on.

    What this does and does not say (audit of the model against the code, C06 #2 and #9):
    * USERAUTH_SUCCESS / FAILURE: the code's test is literally `self.is_client() and self._auth`
      (connection.py `_process_userauth_success`), i.e. "an authentication object exists".  That is weaker than the
      property's "only while a request of its own is outstanding": while the application is being asked for a
      password (the `none` request already answered, the password request not yet written) an unsolicited SUCCESS
      is accepted and `connect()` returns; shown on the real client.  Only the (host-key authenticated) server can
      send it and it could as well have accepted `none`, so nothing is gained; `Props/C06.lean`
      `success_needs_outstanding_request` proves exactly the weaker statement and
      `success_accepted_before_request_is_written` states the gap.
    * the final `else true` is over-permissive: for USERAUTH_BANNER at a server, REQUEST_SUCCESS / REQUEST_FAILURE
      with no global request outstanding, SERVICE_REQUEST / SERVICE_ACCEPT naming another service, and
      CHANNEL_OPEN_CONFIRMATION / FAILURE for a channel that is not being opened, the code ends the connection
      (ProtocolError / ServiceNotAvailable) where the model says `handled .conn`.  That is the safe direction for
      the "handled only if ..." theorems, but it means `wrong_role_rejected` does not cover BANNER-to-server although
      the code does reject it, and the correspondence cannot notice (it accepts `error` where the model says
      `handled`).
    * `handled .auth` / `handled (.chan n)` mean "reached that object's handler": what the handler then does with a
      message its own dialogue does not call for (a keyboard-interactive INFO_RESPONSE with no INFO_REQUEST
      outstanding: protocol error since the repair of audit C06 #1) is modelled in `Model/Auth.lean` (`onInfo`,
      property C05), not here. -/
def connGuard (f : Flags) (t : Nat) : Bool :=
  if t = MSG_SERVICE_REQUEST then f.server && f.recvEnc
  else if t = MSG_SERVICE_ACCEPT then !f.server && f.recvEnc
  else if t = MSG_EXT_INFO then f.canRecvExtInfo
  else if t = MSG_KEXINIT then
    !f.kexActive && !(f.strict && !f.recvEnc && f.recvSeq != 0)
  else if t = MSG_NEWKEYS then f.nextRecvReady
  else if t = MSG_USERAUTH_REQUEST then f.server && !(f.authComplete && f.authFinal)
  else if t = MSG_USERAUTH_FAILURE then !f.server && f.authActive
  else if t = MSG_USERAUTH_SUCCESS then !f.server && f.authActive
  else true

/-- unknown message for the chosen handler: `process_packet` returned `False` -/
def unknownEffect (f : Flags) : Effect :=
  if f.strict ∧ ¬ f.recvEnc then .error else .unimplemented

def effect (f : Flags) (t : Nat) (chanField : Option Nat) : Effect :=
  match route f t chanField with
  | .error => .error
  | .skip => .ignored
  | .dispatch .kex =>
    match f.kexHandlers.find? (·.1 = t) with
    | some (_, g) => if roleOk f.server g then .handled .kex else .error
    | none => unknownEffect f
  | .dispatch .auth =>
    if t ∈ f.authHandlers then .handled .auth else unknownEffect f
  | .dispatch (.chan n) =>
    if t ∈ channelHandlers then .handled (.chan n) else unknownEffect f
  | .dispatch .conn =>
    match connHandlers.find? (·.1 = t) with
    | some (_, g) => if roleOk f.server g && connGuard f t then .handled .conn else .error
    | none => unknownEffect f

/-- `_finish_recv_packet` / `send_packet`: sequence number after a packet of type `t` (both directions use
    the same rule) -/
def seqAfter (strict : Bool) (t seq : Nat) : Nat :=
  if t = MSG_NEWKEYS ∧ strict then 0 else (seq + 1) % 4294967296

end AsyncsshModel.Gate
