import AsyncsshModel.Gen.C04
/-
  C04 — the client's host-key trust decision.

  Mirrors (asyncssh/connection.py)
    * `SSHClientConnection._connection_made`   : which (host, addr, port) are looked up in known_hosts and which
                                                 host-key algorithms are offered in KEXINIT;
    * `SSHConnection._match_known_hosts`       : the three result sets kept on the connection;
    * `SSHConnection._validate_host_key`       : certificate first, then plain key, else "Unable to decode";
    * `SSHConnection._validate_openssh_host_certificate`;
    * `SSHClientConnection.validate_server_host_key` (ValueError -> HostKeyNotVerifiable);
  and (asyncssh/public_key.py) `SSHOpenSSHCertificate.validate`, whose individual tests, their order and the
  arguments passed to it are REGENERATED from the source into `Gen/C04.lean`.

  Keys are abstract identities (`KeyId`): two keys get the same id iff their public data are equal.  The
  trusted / CA / revoked sets hold *public* keys: known_hosts text only ever yields public keys, and
  `load_public_keys` converts a key object handed over in the key-list form to its public key (`SSHKey.__eq__`
  also compares the private values, so before that repair a revoked or trusted list holding a private key
  object never matched the public key a server presents — the harness reaches that form, the model does not).
  Decoding of the blob (`decode_ssh_certificate` / `decode_ssh_public_key`) is outside this model (C15/C16):
  the server's blob arrives already classified as `Presented`.  The trusted / CA / revoked sets are the output of
  `match_known_hosts` (C17) for the lookup arguments computed by `lookupHost` / `lookupPort`.
-/
namespace AsyncsshModel.HostTrust

open AsyncsshModel.Gen

abbrev KeyId := Nat

/-- An OpenSSH certificate as `_validate_openssh_host_certificate` sees it after a successful decode
    (the CA signature over the certificate body was verified by the decoder). -/
structure Cert where
  key : KeyId                 -- cert.key         (the certified host key)
  ca : KeyId                  -- cert.signing_key
  certType : Nat              -- cert._cert_type  (1 user, 2 host)
  validAfter : Nat            -- seconds
  validBefore : Nat           -- seconds
  principals : List String
  deriving Repr, DecidableEq

/-- What the host key blob of the KEX reply decodes to. -/
inductive Presented where
  | cert (c : Cert)           -- `decode_ssh_certificate` succeeded, OpenSSH certificate
  | x509                      -- `decode_ssh_certificate` succeeded, X.509 chain (verdict is a parameter)
  | key (k : KeyId)           -- certificate decode raised KeyImportError, `decode_ssh_public_key` succeeded
  | garbage                   -- both raised KeyImportError
  deriving Repr, DecidableEq

/-- `self._trusted_host_keys`, `self._trusted_ca_keys`, `self._revoked_host_keys` after `_match_known_hosts`. -/
structure Trust where
  trusted : List KeyId
  cas : List KeyId
  revoked : List KeyId
  deriving Repr

/-- Why `_validate_host_key` raised ValueError (one constructor per `raise`). -/
inductive Reject where
  | keyRevoked | keyUntrusted | caRevoked | caUntrusted
  | certType | notYetValid | expired | principal
  | undecodable | x509
  /-- the decoded certificate / key cannot be used with the negotiated host key algorithm
      (`key_alg not in cert.host_key_algorithms` / `key_alg not in key.sig_algorithms`) -/
  | algMismatch
  /-- raised by `validate_server_host_key` after the trust decision: the signature names another signature
      algorithm than the one of the negotiated host key algorithm (KeyExchangeFailed, not a host key error) -/
  | sigAlg
  deriving Repr, DecidableEq

instance : DecidableEq (Except Reject KeyId) := fun a b =>
  match a, b with
  | .ok x, .ok y => if h : x = y then isTrue (by rw [h]) else isFalse (fun e => h (by cases e; rfl))
  | .error x, .error y => if h : x = y then isTrue (by rw [h]) else isFalse (fun e => h (by cases e; rfl))
  | .ok _, .error _ => isFalse (fun e => by cases e)
  | .error _, .ok _ => isFalse (fun e => by cases e)

def Reject.name : Reject → String
  | .keyRevoked => "key-revoked" | .keyUntrusted => "key-untrusted"
  | .caRevoked => "ca-revoked" | .caUntrusted => "ca-untrusted"
  | .certType => "cert-type" | .notYetValid => "not-yet-valid" | .expired => "expired"
  | .principal => "principal" | .undecodable => "undecodable" | .x509 => "x509"
  | .algMismatch => "alg-mismatch" | .sigAlg => "sig-alg"

/-- The application's answers (`SSHClient.validate_host_public_key`, `validate_host_ca_key`) and the verdict of
    the X.509 chain validation, which is outside this model. -/
structure App where
  hostKeyOk : String → String → Nat → KeyId → Bool
  caKeyOk : String → String → Nat → KeyId → Bool
  x509Verdict : Except Reject KeyId

/-- `asyncssh.SSHClient`'s defaults: both callbacks answer False. -/
def App.default : App := ⟨fun _ _ _ _ => false, fun _ _ _ _ => false, .error .x509⟩

/-! ### what is looked up (`_connection_made`) -/

/-- `self._host_key_alias or self._host` — an empty alias is falsy. -/
def lookupHost (alias host : String) : String := if alias.isEmpty then host else alias

/-- `port = self._port if self._port != DEFAULT_PORT else None` -/
def lookupPort (port : Nat) : Option Nat := if port ≠ C04.defaultPort then some port else none

/-! ### certificate checks (`SSHOpenSSHCertificate.validate`) — time in quarter seconds so that the float
    `time.time()` can fall strictly between two integer bounds -/

def checkFails (c : Cert) (want : Int) (now4 : Nat) (principal : Option String) (chk : Nat) : Option Reject :=
  match chk with
  | 0 => if C04.wrongTypeExpr want c.certType then some .certType else none
  | 1 => if C04.notYetValidExpr now4 (4 * c.validAfter) then some .notYetValid else none
  | 2 => if C04.expiredExpr now4 (4 * c.validBefore) then some .expired else none
  | 3 => if C04.principalMismatchExpr principal c.principals then some .principal else none
  | _ => none

/-- runs the checks in the order they have in the source; first failure wins -/
def runChecks (c : Cert) (want : Int) (now4 : Nat) (principal : Option String) : List Nat → Except Reject Unit
  | [] => .ok ()
  | chk :: rest =>
    match checkFails c want now4 principal chk with
    | some r => .error r
    | none => runChecks c want now4 principal rest

def certValidate (c : Cert) (want : Int) (now4 : Nat) (principal : Option String) : Except Reject Unit :=
  runChecks c want now4 principal C04.certChecks

/-! ### `_validate_openssh_host_certificate` -/

/-- the revocation look-ups the code performs on a certificate, in source order (`Gen.C04.certRevocationChecks`):
    0 = the certified key, 1 = the CA key; first hit wins -/
def revocationFails (t : Trust) (c : Cert) : List Nat → Option Reject
  | [] => none
  | chk :: rest =>
    if chk = 0 ∧ t.revoked.contains c.key = true then some .keyRevoked
    else if chk = 1 ∧ t.revoked.contains c.ca = true then some .caRevoked
    else revocationFails t c rest

def validateCert (trust : Option Trust) (app : App) (host addr : String) (port now4 : Nat) (c : Cert) :
    Except Reject KeyId :=
  match trust with
  | none => .ok c.key                       -- known_hosts=None: `_trusted_ca_keys is None`, nothing is checked
  | some t =>
    match revocationFails t c C04.certRevocationChecks with
    | some r => .error r
    | none =>
    if !t.cas.contains c.ca && !app.caKeyOk host addr port c.ca then .error .caUntrusted
    else
      match certValidate c C04.hostCertTypeArg now4 (if C04.passesHostAsPrincipal then some host else none) with
      | .error r => .error r
      | .ok () => .ok c.key

/-! ### `_validate_host_key` -/

def validatePlain (trust : Option Trust) (app : App) (host addr : String) (port : Nat) (k : KeyId) :
    Except Reject KeyId :=
  match trust with
  | none => .ok k
  | some t =>
    if t.revoked.contains k then .error .keyRevoked
    else if !t.trusted.contains k && !app.hostKeyOk host addr port k then .error .keyUntrusted
    else .ok k

/-- The decision: which key (if any) the client will use to verify the exchange-hash signature.
    `host` is already `lookupHost alias host`; `port` is `self._port` (not mapped to None here). -/
def validateHostKey (trust : Option Trust) (app : App) (host addr : String) (port now4 : Nat) :
    Presented → Except Reject KeyId
  | .cert c => validateCert trust app host addr port now4 c
  | .x509 => app.x509Verdict
  | .key k => validatePlain trust app host addr port k
  | .garbage => .error .undecodable

/-- `acceptHostKey`: the decision as a Boolean. -/
def acceptHostKey (trust : Option Trust) (app : App) (host addr : String) (port now4 : Nat) (p : Presented) : Bool :=
  match validateHostKey trust app host addr port now4 p with
  | .ok _ => true
  | .error _ => false

/-- Which application callback is consulted (observable: a call into the application object). -/
inductive Consulted where
  | none | hostKey (k : KeyId) | caKey (k : KeyId)
  deriving Repr, DecidableEq

def consulted (trust : Option Trust) : Presented → Consulted
  | .key k => match trust with
    | some t => if !t.revoked.contains k && !t.trusted.contains k then .hostKey k else .none
    | none => .none
  | .cert c => match trust with
    | some t => if (revocationFails t c C04.certRevocationChecks).isNone && !t.cas.contains c.ca then .caKey c.ca
                else .none
    | none => .none
  | _ => .none

/-! ### host-key algorithms offered in the client's KEXINIT (`_connection_made`, `_select_algs`) -/

/-- `_match_known_hosts`: `if key.algorithm not in algs: algs.extend(key.sig_algorithms)`, in list order.
    `keyAlgs` are the `algorithm` names of the trusted keys in the order `match_known_hosts` returned them. -/
def trustedKeyAlgs (sigTable : List (String × List String)) : List String → List String → List String
  | acc, [] => acc
  | acc, a :: rest =>
    if acc.contains a then trustedKeyAlgs sigTable acc rest
    else trustedKeyAlgs sigTable (acc ++ ((sigTable.lookup a).getD [a])) rest

/-- The `server_host_key_algs` option: not given, the string 'default', or an explicit list. -/
inductive AlgOpt where
  | unset | default | explicit (algs : List String)
  deriving Repr

def dedup : List String → List String → List String
  | acc, [] => acc
  | acc, a :: rest => if acc.contains a then dedup acc rest else dedup (acc ++ [a]) rest

/-- `self._server_host_key_algs` (X.509 trust not configured). -/
def offeredAlgs (opt : AlgOpt) (trust : Option Trust) (keyAlgs : List String) : List String :=
  let fromTrust : List String :=
    match opt with
    | .default => []
    | _ =>
      let d := trustedKeyAlgs C04.sigAlgs [] keyAlgs
      match trust with
      | some t => if t.cas.isEmpty then d else C04.defaultCertAlgs ++ d
      | none => d
  let dflt := if fromTrust.isEmpty then C04.defaultCertAlgs ++ C04.defaultPubkeyAlgs else fromTrust
  match opt with
  | .explicit algs => dedup [] algs
  | _ => dflt

/-- `_choose_alg` / `choose_server_host_key`: the earliest client algorithm for which the server has a key;
    returns the index of the server credential registered for it (first registration wins). -/
def chooseCred (clientAlgs : List String) (serverCreds : List (List String)) : Option Nat :=
  match clientAlgs with
  | [] => none
  | a :: rest =>
    match serverCreds.findIdx? (·.contains a) with
    | some i => some i
    | none => chooseCred rest serverCreds

end AsyncsshModel.HostTrust
