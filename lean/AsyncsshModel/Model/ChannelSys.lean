import AsyncsshModel.Model.Channel
/-
  Two channel endpoints composed with one FIFO link per direction.

  * `Sys`  : one channel.  `link x` holds the channel messages in flight *to* endpoint `x` (head = next to arrive).
             The environment chooses every event: application calls at either side (`write`, `write_eof`, `close`,
             `pause_reading`, `resume_reading`, arming a pause inside `data_received`, the `_start_reading` task)
             and "the next message on the link to `x` is processed by `x`" (`deliver x`).  An API error
             (`BrokenPipeError`, `OSError`) leaves the state unchanged; a `ProtocolError` or a non-terminating
             send loop ends the run (`Except.error`).  Ghost fields record the history the theorems talk about:
             writes accepted, callbacks made, who closed / signalled EOF, wire accounting.
  * `MSys` : N channels multiplexed on ONE link per direction, dispatched by recipient number
             (connection.py:1696-1707).  `MSys.proj i` is the single-channel view; `Lemmas/ChannelSys.lean`
             proves that a multiplexed step is a step (or a stutter) of every projection (`channels_independent`).

  Mathlib-free.
-/
namespace AsyncsshModel.Channel
open AsyncsshModel

inductive Side where
  | a | b
  deriving DecidableEq, Repr, Inhabited

def Side.other : Side → Side
  | .a => .b
  | .b => .a

/-- pointwise update of a `Side`-indexed family -/
def upd {α : Type} (f : Side → α) (x : Side) (v : α) : Side → α :=
  fun y => if y = x then v else f y

/-- application-level events -/
inductive AppEv where
  | write (dt : DType) (bs : Bytes)
  | writeEof
  | close
  | pause
  | resume
  | armPause (k : Nat)
  | startReading
  deriving DecidableEq, Repr, Inhabited

def AppEv.toEv : AppEv → Ev
  | .write dt bs => .write dt bs
  | .writeEof => .writeEof
  | .close => .close
  | .pause => .pause
  | .resume => .resume
  | .armPause k => .armPause k
  | .startReading => .startReading

inductive Event where
  | app (x : Side) (e : AppEv)
  | deliver (x : Side)
  deriving DecidableEq, Repr, Inhabited

/-- data bytes of the DATA / EXTENDED_DATA messages in a list, with their datatype -/
def dataOf : List Msg → Buf
  | [] => []
  | .data dt bs :: rest => (bs, dt) :: dataOf rest
  | _ :: rest => dataOf rest

/-- sum of the WINDOW_ADJUST values in a list of messages -/
def adjustSum : List Msg → Nat
  | [] => 0
  | .adjust n :: rest => n + adjustSum rest
  | _ :: rest => adjustSum rest

/-- chunks handed to `data_received`, in order -/
def dataOuts : List Out → Buf
  | [] => []
  | .data dt bs :: rest => (bs, dt) :: dataOuts rest
  | _ :: rest => dataOuts rest

/-- ghost history of one side -/
structure Hist where
  /-- writes accepted from the application, in order -/
  wr : Buf := []
  /-- callbacks made to the session, in order -/
  dl : List Out := []
  /-- the application called `close()` -/
  appClosed : Bool := false
  /-- the send half left `open` through `write_eof` (by the application or on behalf of `eof_received()`) -/
  eofSig : Bool := false
  /-- an EOF message was put on the wire -/
  eofSent : Bool := false
  /-- data bytes put on the wire -/
  sentBytes : Nat := 0
  /-- sum of WINDOW_ADJUST values processed -/
  adjIn : Nat := 0
  /-- sum of WINDOW_ADJUST values put on the wire -/
  adjOut : Nat := 0
  /-- bytes accepted from the peer and never delivered: dropped after the local `close()` or discarded by it
      (their window is given back by a WINDOW_ADJUST of their own, fix ae15f0e) -/
  dropped : Nat := 0
  deriving Repr, Inhabited

def Hist.record (h : Hist) (pre post : Chan) (ms : List Msg) (os : List Out) : Hist :=
  { h with dl := h.dl ++ os,
           eofSig := h.eofSig || (decide (pre.sendState = .opn) &&
                                  (decide (post.sendState = .eofPending) || decide (post.sendState = .eof))),
           eofSent := h.eofSent || decide (Msg.eof ∈ ms),
           sentBytes := h.sentBytes + bufBytes (dataOf ms),
           adjOut := h.adjOut + adjustSum ms }

/-- `pre` = the endpoint before the event -/
def Hist.recordApp (h : Hist) (e : AppEv) (pre : Chan) : Hist :=
  match e with
  | .write dt bs => { h with wr := h.wr ++ [(bs, dt)] }
  | .close => { h with appClosed := true, dropped := h.dropped + evCredit .close pre }
  | _ => h

def Hist.recordRecv (h : Hist) (m : Msg) (pre : Chan) : Hist :=
  match m with
  | .adjust n => { h with adjIn := h.adjIn + n }
  | .data dt bs => { h with dropped := h.dropped + evCredit (.recv (.data dt bs)) pre }
  | _ => h

structure Sys where
  ep : Side → Chan
  link : Side → List Msg
  hist : Side → Hist

/-- install the result of an endpoint step at side `x` -/
def Sys.apply (s : Sys) (x : Side) (h : Hist) (r : Chan × List Msg × List Out) : Sys :=
  { ep := upd s.ep x r.1,
    link := upd s.link x.other (s.link x.other ++ r.2.1),
    hist := upd s.hist x (h.record (s.ep x) r.1 r.2.1 r.2.2) }

def Sys.step (s : Sys) : Event → Except Err Sys
  | .app x e =>
    match Channel.step (s.ep x) e.toEv with
    | .error err => if err.isApi then .ok s else .error err
    | .ok r => .ok (s.apply x ((s.hist x).recordApp e (s.ep x)) r)
  | .deliver x =>
    match s.link x with
    | [] => .ok s
    | m :: rest =>
      match Channel.step (s.ep x) (.recv m) with
      | .error err => .error err
      | .ok r => .ok (({ s with link := upd s.link x rest }).apply x ((s.hist x).recordRecv m (s.ep x)) r)

/-- run a list of events; `none` after a fatal error -/
def Sys.run (s : Sys) : List Event → Except Err Sys
  | [] => .ok s
  | e :: es =>
    match s.step e with
    | .error err => .error err
    | .ok s' => s'.run es

/-! ### the composition over the endpoints as they were before the fixes (witness theorems only) -/

def Sys.stepOld (s : Sys) : Event → Except Err Sys
  | .app x e =>
    match Channel.stepOld (s.ep x) e.toEv with
    | .error err => if err.isApi then .ok s else .error err
    | .ok r => .ok (s.apply x ((s.hist x).recordApp e (s.ep x)) r)
  | .deliver x =>
    match s.link x with
    | [] => .ok s
    | m :: rest =>
      match Channel.stepOld (s.ep x) (.recv m) with
      | .error err => .error err
      | .ok r => .ok (({ s with link := upd s.link x rest }).apply x ((s.hist x).recordRecv m (s.ep x)) r)

def Sys.runOld (s : Sys) : List Event → Except Err Sys
  | [] => .ok s
  | e :: es =>
    match s.stepOld e with
    | .error err => .error err
    | .ok s' => s'.runOld es

/-- the composition over the endpoints as they were before fix ae15f0e (`stepPreCredit`; witness theorems only) -/
def Sys.stepPreCredit (s : Sys) : Event → Except Err Sys
  | .app x e =>
    match Channel.stepPreCredit (s.ep x) e.toEv with
    | .error err => if err.isApi then .ok s else .error err
    | .ok r => .ok (s.apply x ((s.hist x).recordApp e (s.ep x)) r)
  | .deliver x =>
    match s.link x with
    | [] => .ok s
    | m :: rest =>
      match Channel.stepPreCredit (s.ep x) (.recv m) with
      | .error err => .error err
      | .ok r => .ok (({ s with link := upd s.link x rest }).apply x ((s.hist x).recordRecv m (s.ep x)) r)

def Sys.runPreCredit (s : Sys) : List Event → Except Err Sys
  | [] => .ok s
  | e :: es =>
    match s.stepPreCredit e with
    | .error err => .error err
    | .ok s' => s'.runPreCredit es

/-- configuration of one channel: what each side advertises and how its session behaves -/
structure SideCfg where
  window : Nat
  pktsize : Nat
  readTypes : List Nat
  writeTypes : List Nat
  eofKeep : Bool := true
  paused : Paused := .no
  deriving Repr, Inhabited

/-- both endpoints right after CHANNEL_OPEN / OPEN_CONFIRMATION: each side's send window / packet size are the
    values the other side advertised -/
def Sys.init (ca cb : SideCfg) : Sys :=
  { ep := fun x => match x with
      | .a => Chan.opened ca.window ca.readTypes ca.writeTypes ca.eofKeep cb.window cb.pktsize ca.paused
      | .b => Chan.opened cb.window cb.readTypes cb.writeTypes cb.eofKeep ca.window ca.pktsize cb.paused,
    link := fun _ => [],
    hist := fun _ => {} }

/-! ### N channels on one connection -/

/-- pointwise update of a channel-indexed family at one side -/
def updCh {α : Type} (f : Side → Nat → α) (x : Side) (i : Nat) (v : α) : Side → Nat → α :=
  fun y j => if y = x ∧ j = i then v else f y j

structure MSys where
  ep : Side → Nat → Chan
  /-- ONE link per direction: (recipient channel, message) -/
  link : Side → List (Nat × Msg)
  hist : Side → Nat → Hist

inductive MEvent where
  | app (x : Side) (i : Nat) (e : AppEv)
  | deliver (x : Side)
  deriving DecidableEq, Repr, Inhabited

def MSys.apply (s : MSys) (x : Side) (i : Nat) (h : Hist) (r : Chan × List Msg × List Out) : MSys :=
  { ep := updCh s.ep x i r.1,
    link := upd s.link x.other (s.link x.other ++ r.2.1.map (fun m => (i, m))),
    hist := updCh s.hist x i (h.record (s.ep x i) r.1 r.2.1 r.2.2) }

def MSys.step (s : MSys) : MEvent → Except Err MSys
  | .app x i e =>
    match Channel.step (s.ep x i) e.toEv with
    | .error err => if err.isApi then .ok s else .error err
    | .ok r => .ok (s.apply x i ((s.hist x i).recordApp e (s.ep x i)) r)
  | .deliver x =>
    match s.link x with
    | [] => .ok s
    | (i, m) :: rest =>
      match Channel.step (s.ep x i) (.recv m) with
      | .error err => .error err
      | .ok r => .ok (({ s with link := upd s.link x rest }).apply x i ((s.hist x i).recordRecv m (s.ep x i)) r)

/-- the messages of channel `i` on a multiplexed link -/
def chanMsgs (i : Nat) : List (Nat × Msg) → List Msg
  | [] => []
  | (j, m) :: rest => if j = i then m :: chanMsgs i rest else chanMsgs i rest

/-- the single-channel view of channel `i` -/
def MSys.proj (s : MSys) (i : Nat) : Sys :=
  { ep := fun x => s.ep x i, link := fun x => chanMsgs i (s.link x), hist := fun x => s.hist x i }

def MSys.init (cfg : Nat → SideCfg × SideCfg) : MSys :=
  { ep := fun x i => (Sys.init (cfg i).1 (cfg i).2).ep x, link := fun _ => [], hist := fun _ _ => {} }

end AsyncsshModel.Channel
