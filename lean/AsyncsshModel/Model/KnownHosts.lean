import AsyncsshModel.Model.PatternIP
import AsyncsshModel.Gen.C17
/-
  C17 — model of asyncssh/known_hosts.py (`SSHKnownHosts.load`, `_add_exact`, `_add_pattern`,
  `_PlainHost`, `_HashedHost`, `_match`, `match`, and the certificate check of `match_known_hosts`).

  Parameters of the model (never axioms):
  * `Importer` — the outcome of `import_public_key` / `import_certificate` /
    `import_certificate_subject` on a data field, three-valued: a key, `KeyImportError`, or *another*
    exception (the third value is defect candidate F14);
  * `hmac : Bytes → Bytes → Bytes` — HMAC-SHA1 (salt, message).

  Python text primitives transcribed here: `str.split('\n')` / `str.splitlines` (before the fix), `str.strip`, `str.split(None, n)`
  (tables of white-space / line-break code points regenerated from the interpreter into Gen/C17.lean) and
  non-strict `binascii.a2b_base64` (CPython 3.12 binascii.c).
-/
namespace AsyncsshModel.KnownHosts
open AsyncsshModel AsyncsshModel.Pattern

/-! ### Python text primitives -/

def isPySpace (c : Char) : Bool := Gen.C17.pySpaceCodes.contains c.toNat
/-- where `load` ends a line.  After the fix "split ... at newline only" the loaders cut their text with
    `.split('\n')`: only a newline ends a line (a `\r` before it is removed by the `strip()` that follows), as
    in OpenSSH.  `Gen.C17.lineSplitNewlineOnly` is read from the tree under check; when it is `false` the tree
    still uses `str.splitlines()` and the model follows it (`lines_end_at_newline_only` then fails to check). -/
def isLineBreak (c : Char) : Bool :=
  if Gen.C17.lineSplitNewlineOnly then c = '\n' else Gen.C17.pyLineBreakCodes.contains c.toNat

/-- before the fix: every character at which `str.splitlines()` breaks ends a line -/
def isLineBreakPreFix (c : Char) : Bool := Gen.C17.pyLineBreakCodes.contains c.toNat

/-- Split at every character `brk` holds for.  `str.split('\n')` gives exactly these pieces;
    `str.splitlines()` additionally merges `\r\n` and drops a final empty piece; both only affect empty
    lines, which every caller skips. -/
def splitAt (brk : Char → Bool) : Str → List Str
  | [] => [[]]
  | c :: s =>
    if brk c then [] :: splitAt brk s
    else match splitAt brk s with
      | [] => [[c]]
      | w :: ws => (c :: w) :: ws

def splitLines (s : Str) : List Str := splitAt isLineBreak s

/-- the lines the loaders saw before the fix (`str.splitlines()`) -/
def splitLinesPreFix (s : Str) : List Str := splitAt isLineBreakPreFix s

def lstrip (s : Str) : Str := s.dropWhile isPySpace
def rstrip (s : Str) : Str := (s.reverse.dropWhile isPySpace).reverse
def strip (s : Str) : Str := rstrip (lstrip s)

/-- first white-space delimited word and the remainder with its leading white space removed:
    the two pieces `s.split(None, 1)` produces when both are non-empty -/
def splitWord (s : Str) : Str × Str :=
  let s1 := lstrip s
  (s1.takeWhile (fun c => !isPySpace c), lstrip (s1.dropWhile (fun c => !isPySpace c)))

/-! ### non-strict base64 (binascii.a2b_base64) -/

def b64Val (c : Char) : Option Nat :=
  if 'A' ≤ c ∧ c ≤ 'Z' then some (c.toNat - 65)
  else if 'a' ≤ c ∧ c ≤ 'z' then some (c.toNat - 97 + 26)
  else if '0' ≤ c ∧ c ≤ '9' then some (c.toNat - 48 + 52)
  else if c = '+' then some 62
  else if c = '/' then some 63
  else none

/-- the decoding loop: `q` = quad_pos, `l` = leftchar, `pads`; `acc` is the output reversed.
    `none` = `binascii.Error` -/
def a2bAux : Str → Nat → Nat → Nat → Bytes → Option Bytes
  | [], q, _, _, acc => if q = 0 then some acc.reverse else none
  | c :: r, q, l, pads, acc =>
    if c = '=' then
      if q ≥ 2 ∧ q + (pads + 1) ≥ 4 then some acc.reverse
      else a2bAux r q l (if q ≥ 2 then pads + 1 else pads) acc
    else match b64Val c with
      | none => a2bAux r q l pads acc
      | some v =>
        if q = 0 then a2bAux r 1 v 0 acc
        else if q = 1 then a2bAux r 2 (v % 16) 0 (UInt8.ofNat ((l * 4 + v / 16) % 256) :: acc)
        else if q = 2 then a2bAux r 3 (v % 4) 0 (UInt8.ofNat ((l * 16 + v / 4) % 256) :: acc)
        else a2bAux r 0 0 0 (UInt8.ofNat ((l * 64 + v) % 256) :: acc)

/-- `binascii.a2b_base64(s)` for a `str` argument (`none` = `ValueError`/`binascii.Error`) -/
def a2bBase64 (s : Str) : Option Bytes :=
  if s.all (fun c => c.toNat < 128) then a2bAux s 0 0 0 [] else none

/-- decidable equality of results-or-exceptions (needed to `decide` the concrete examples) -/
instance exceptDecEq {ε α : Type} [DecidableEq ε] [DecidableEq α] : DecidableEq (Except ε α)
  | .ok a, .ok b => if h : a = b then isTrue (by rw [h]) else isFalse (fun e => by cases e; exact h rfl)
  | .error a, .error b => if h : a = b then isTrue (by rw [h]) else isFalse (fun e => by cases e; exact h rfl)
  | .ok _, .error _ => isFalse (fun e => by cases e)
  | .error _, .ok _ => isFalse (fun e => by cases e)

/-! ### importer outcome, entries -/

inductive Outcome (α : Type) where
  | ok (a : α)
  | importError                 -- `KeyImportError`
  | exc (cls : String)          -- any other exception class
  deriving Repr

structure Importer where
  key : Str → Outcome Nat                 -- key identity
  cert : Str → Outcome (Nat × Bool)       -- certificate identity, `is_x509`
  subject : Str → Outcome Nat             -- X.509 subject pattern identity

inductive Marker where
  | plain | ca | revoked
  deriving Repr, DecidableEq

inductive Payload where
  | key (id : Nat)
  | cert (id : Nat) (x509 : Bool)
  | subject (id : Nat)
  deriving Repr, DecidableEq

structure Entry where
  marker : Marker
  payload : Payload
  deriving Repr, DecidableEq

/-- hosts field of a line that went to the pattern list -/
inductive HostSpec where
  | plain (pl : PatList HostPat)                -- `_PlainHost`
  | hashed (salt hash : Bytes)                  -- `_HashedHost`
  deriving Repr, DecidableEq

/-- one index record: `_exact_entries[name].append(entry)` or `_pattern_entries.append((pat, entry))` -/
inductive Rec where
  | exact (name : Str) (e : Entry)
  | pat (h : HostSpec) (e : Entry)
  deriving Repr, DecidableEq

def Rec.entry : Rec → Entry
  | .exact _ e => e
  | .pat _ e => e

/-! ### loading (`SSHKnownHosts.load`) -/

/-- `_HashedHost.__init__`; `none` = `ValueError` -/
def parseHashed (pattern : Str) : Option (Bytes × Bytes) :=
  match splitOn '|' (pattern.drop 1) with
  | [magic, salt, hh] =>
    match a2bBase64 salt, a2bBase64 hh with
    | some s, some h => if magic = Gen.C17.khHashMagic.toList then some (s, h) else none
    | _, _ => none
  | _ => none

/-- marker word (text after `@`) -/
def parseMarker (m : Str) : Option Marker :=
  if Gen.C17.khAcceptedMarkers.any (·.toList = m) then
    some (if m = Gen.C17.khMarkerRevoked.toList then .revoked
          else if m = Gen.C17.khMarkerCA.toList then .ca else .plain)
  else none

/-- the `try: import_public_key … except KeyImportError: import_certificate …` chain of `load`.
    `ok none` = the line is skipped. -/
def importPayload (x509 : Bool) (imp : Importer) (data : Str) : Except String (Option Payload) :=
  match imp.key data with
  | .ok k => .ok (some (.key k))
  | .exc c => .error c
  | .importError =>
    match imp.cert data with
    | .ok (c, isX) => .ok (some (.cert c isX))
    | .exc c => .error c
    | .importError =>
      if !x509 then .ok none
      else match imp.subject data with
        | .ok s => .ok (some (.subject s))
        | .exc c => .error c
        | .importError => .ok none

/-- does the hosts field go to the pattern list (`any(c in pattern for c in '*?|/!')`) -/
def isPatternField (pattern : Str) : Bool := pattern.any (Gen.C17.khMetaChars.contains ·)

/-- `_add_exact` / `_add_pattern` -/
def indexRecs (pattern : Str) (e : Entry) : Except String (List Rec) :=
  if isPatternField pattern then
    if pattern.head? = some '|' then
      match parseHashed pattern with
      | some (s, h) => .ok [.pat (.hashed s h) e]
      | none => .error "ValueError"
    else .ok [.pat (.plain (parseHostList pattern)) e]
  else .ok ((splitOn ',' pattern).map (Rec.exact · e))

/-- the three fields of a (stripped, non-comment) line: marker, hosts field, key data;
    `none` = `ValueError('Invalid known hosts entry')` / `'Invalid known hosts marker'` -/
def lineFields (line : Str) : Option (Marker × Str × Str) :=
  match line with
  | '@' :: rest =>
    let (m, r1) := splitWord rest
    let (pattern, data) := splitWord r1
    if m = [] ∨ pattern = [] ∨ data = [] then none
    else (parseMarker m).map (·, pattern, data)
  | _ =>
    let (pattern, data) := splitWord line
    if pattern = [] ∨ data = [] then none else some (.plain, pattern, data)

/-- what one raw line contributes: records, nothing, or an exception aborting the load -/
def lineRecs (x509 : Bool) (imp : Importer) (raw : Str) : Except String (List Rec) :=
  let line := strip raw
  if line = [] ∨ line.head? = some '#' then .ok []
  else match lineFields line with
    | none => .error "ValueError"
    | some (marker, pattern, data) =>
      match importPayload x509 imp data with
      | .error c => .error c
      | .ok none => .ok []
      | .ok (some p) => indexRecs pattern ⟨marker, p⟩

/-- lines are processed in order; the first exception aborts -/
def loadLines (x509 : Bool) (imp : Importer) : List Str → Except String (List Rec)
  | [] => .ok []
  | l :: ls =>
    match lineRecs x509 imp l with
    | .error c => .error c
    | .ok rs =>
      match loadLines x509 imp ls with
      | .error c => .error c
      | .ok rest => .ok (rs ++ rest)

/-- `import_known_hosts(text)` -/
def load (x509 : Bool) (imp : Importer) (text : Str) : Except String (List Rec) :=
  loadLines x509 imp (splitLines text)

/-! ### matching (`SSHKnownHosts._match`, `match`) -/

def utf8 (s : Str) : Bytes := strBytes (String.ofList s)

/-- `_PlainHost.matches` / `_HashedHost.matches` -/
def HostSpec.matches (hmac : Bytes → Bytes → Bytes) (host addr : Str) (ip : Option IP) : HostSpec → Bool
  | .plain pl => hostListMatches pl host addr ip
  | .hashed salt hash => hmac salt (utf8 host) == hash || hmac salt (utf8 addr) == hash

/-- `_exact_entries.get(name, [])` in insertion order -/
def exactGet (recs : List Rec) (name : Str) : List Entry :=
  recs.filterMap fun
    | .exact n e => if n = name then some e else none
    | .pat _ _ => none

def patGet (hmac : Bytes → Bytes → Bytes) (recs : List Rec) (host addr : Str) (ip : Option IP) : List Entry :=
  recs.filterMap fun
    | .exact _ _ => none
    | .pat h e => if h.matches hmac host addr ip then some e else none

/-- `f'[{host}]:{port}' if host else ''` -/
def portName (name : Str) (port : Nat) : Str :=
  if name = [] then [] else '[' :: name ++ (']' :: ':' :: (toString port).toList)

/-- the IP object `_match` hands to the patterns: `ip_address(addr)` if `addr` (a `ValueError` escapes
    when it is not an address), else `ip_address(host)` or `None` -/
def lookupIP (host addr : Str) : Except String (Option IP) :=
  if addr ≠ [] then
    match parseAddress addr with
    | some ip => .ok (some ip)
    | none => .error "ValueError"
  else .ok (parseAddress host)

/-- the `matches` list of `_match`; `port = 0` stands for `None`/`0`.  An empty name is never looked up in
    the exact-name dictionary (`if host:` / `if addr:`, fix cfdf9ae). -/
def matchEntries (hmac : Bytes → Bytes → Bytes) (recs : List Rec) (host addr : Str) (port : Nat)
    (ip : Option IP) : List Entry :=
  let h := if port ≠ 0 then portName host port else host
  let a := if port ≠ 0 then portName addr port else addr
  (if h ≠ [] then exactGet recs h else []) ++ (if a ≠ [] then exactGet recs a else [])
    ++ patGet hmac recs h a ip

/-- `_match` before fix cfdf9ae: the dictionary was consulted for empty names too -/
def matchEntriesOld (hmac : Bytes → Bytes → Bytes) (recs : List Rec) (host addr : Str) (port : Nat)
    (ip : Option IP) : List Entry :=
  let h := if port ≠ 0 then portName host port else host
  let a := if port ≠ 0 then portName addr port else addr
  exactGet recs h ++ exactGet recs a ++ patGet hmac recs h a ip

/-- the seven result lists -/
structure Result where
  hostKeys : List Nat
  caKeys : List Nat
  revokedKeys : List Nat
  x509Certs : List (Nat × Bool)
  revokedCerts : List (Nat × Bool)
  x509Subjects : List Nat
  revokedSubjects : List Nat
  deriving Repr, DecidableEq

def classify (es : List Entry) : Result :=
  { hostKeys := es.filterMap fun e => match e.marker, e.payload with
      | .plain, .key k => some k | _, _ => none,
    caKeys := es.filterMap fun e => match e.marker, e.payload with
      | .ca, .key k => some k | _, _ => none,
    revokedKeys := es.filterMap fun e => match e.marker, e.payload with
      | .revoked, .key k => some k | _, _ => none,
    x509Certs := es.filterMap fun e => match e.marker, e.payload with
      | .plain, .cert c x => some (c, x) | .ca, .cert c x => some (c, x) | _, _ => none,
    revokedCerts := es.filterMap fun e => match e.marker, e.payload with
      | .revoked, .cert c x => some (c, x) | _, _ => none,
    x509Subjects := es.filterMap fun e => match e.marker, e.payload with
      | .plain, .subject s => some s | .ca, .subject s => some s | _, _ => none,
    revokedSubjects := es.filterMap fun e => match e.marker, e.payload with
      | .revoked, .subject s => some s | _, _ => none }

/-- nothing trusted found: the condition of `match` for retrying without the port -/
def Result.noneTrusted (r : Result) : Bool :=
  r.hostKeys.isEmpty && r.caKeys.isEmpty && r.x509Certs.isEmpty && r.x509Subjects.isEmpty

/-- the fallback answer of `match`: everything from the plain-name lookup, with the revocations found under
    the port-qualified names kept in front (fix 183e93e) -/
def mergeRevoked (r1 r2 : Result) : Result :=
  { r2 with revokedKeys := r1.revokedKeys ++ r2.revokedKeys,
            revokedCerts := r1.revokedCerts ++ r2.revokedCerts,
            revokedSubjects := r1.revokedSubjects ++ r2.revokedSubjects }

/-- `SSHKnownHosts.match(host, addr, port)` -/
def matchHosts (hmac : Bytes → Bytes → Bytes) (recs : List Rec) (host addr : Str) (port : Nat) :
    Except String Result :=
  match lookupIP host addr with
  | .error c => .error c
  | .ok ip =>
    let r1 := classify (matchEntries hmac recs host addr port ip)
    if port ≠ 0 ∧ r1.noneTrusted then
      .ok (mergeRevoked r1 (classify (matchEntries hmac recs host addr 0 ip)))
    else .ok r1

/-- `match` before fix 183e93e: the fallback replaced the whole answer, revocations included -/
def matchHostsOld (hmac : Bytes → Bytes → Bytes) (recs : List Rec) (host addr : Str) (port : Nat) :
    Except String Result :=
  match lookupIP host addr with
  | .error c => .error c
  | .ok ip =>
    let r1 := classify (matchEntries hmac recs host addr port ip)
    if port ≠ 0 ∧ r1.noneTrusted then .ok (classify (matchEntries hmac recs host addr 0 ip))
    else .ok r1

/-- `match_known_hosts(data, host, addr, port)` for known-hosts text: load, match, then refuse
    OpenSSH certificates in the certificate lists -/
def matchKnownHosts (x509 : Bool) (imp : Importer) (hmac : Bytes → Bytes → Bytes)
    (text host addr : Str) (port : Nat) : Except String Result :=
  match load x509 imp text with
  | .error c => .error c
  | .ok recs =>
    match matchHosts hmac recs host addr port with
    | .error c => .error c
    | .ok r =>
      if (r.x509Certs ++ r.revokedCerts).any (fun c => !c.2) then .error "ValueError" else .ok r

end AsyncsshModel.KnownHosts
