import AsyncsshModel.Base.Wire
/-
  C10 — the DER decoder of /repo/asyncssh/asn1.py as a total function that also reports the work it does.

    `der_decode_partial` (asn1.py:699-747), `der_decode` (750-786) and the `decode` classmethods of the built-in
    types (243-650).

  Values are not rebuilt here (that is C15's model); what matters for C10 is
    * which exception class a byte string produces (`DerErr`),
    * how many bytes a successful decode consumes,
    * `depth`  — how deep the Python recursion goes (`der_decode_partial` → `cls.decode`/`der_decode` →
                 `der_decode_partial` …); one level = one nested `der_decode_partial` activation,
    * `calls`  — how many times `der_decode_partial` is entered (the work, in steps).

  `lim` is the number of nested activations the interpreter still allows: CPython raises `RecursionError`
  instead of entering a call when the limit is reached.  With `lim ≥ length/2 + 1` that never happens
  (`Props/C10.lean: der_depth`); with CPython's default of 1000 frames, i.e. about 500 levels, it does for
  inputs of under 2 kB (`der_recursion_witness`, defect F6).

  `fuel` is only Lean's structural termination argument; `fuel = length + 1` is always enough
  (`der_fuel_enough`), so `.fuel` is never observed.
-/
namespace AsyncsshModel.Hostile.Der
open AsyncsshModel AsyncsshModel.Wire

inductive DerErr where
  | decode      -- ASN1DecodeError                       (documented)
  | encode      -- ASN1EncodeError from BitString(...)   (escapes from der_decode)
  | unicode     -- UnicodeDecodeError from str.decode     (escapes)
  | intStr      -- ValueError: int -> str conversion limit, ObjectIdentifier.decode (escapes)
  | recursion   -- RecursionError                         (escapes; F6)
  | fuel        -- model artefact, never produced with fuel = length + 1
  deriving Repr, DecidableEq, Inhabited

structure Out where
  res : Except DerErr Nat     -- bytes consumed (`end`) on success
  depth : Nat
  calls : Nat
  deriving Inhabited

/-- the long-form tag loop (asn1.py:709-720); `none` = 'Incomplete tag' -/
def parseHighTag (acc : Nat) : Bytes → Option (Nat × Bytes)
  | [] => none
  | b :: rest =>
    if b < 0x80 then some (acc + b.toNat, rest)
    else parseHighTag ((acc + b.toNat % 128) * 128) rest

/-- identifier octets → (class, constructed, tag, rest) -/
def parseIdent : Bytes → Option (Nat × Bool × Nat × Bytes)
  | [] => none
  | b :: rest =>
    let cls := b.toNat / 64
    let cons := b.toNat / 32 % 2 == 1
    let tag := b.toNat % 32
    if tag = 31 then (parseHighTag 0 rest).map fun (t, r) => (cls, cons, t, r)
    else some (cls, cons, tag, rest)

/-- length octets → (content, bytes after the content) (asn1.py:722-737); `none` = ASN1DecodeError -/
def parseLenContent : Bytes → Option (Bytes × Bytes)
  | [] => none
  | lb :: rest =>
    if lb > 0x80 then
      let k := lb.toNat % 128
      if rest.length < k then none
      else
        let n := beNat (rest.take k)
        let r := rest.drop k
        if r.length < n then none else some (r.take n, r.drop n)
    else if lb = 0x80 then none
    else
      let n := lb.toNat
      if rest.length < n then none else some (rest.take n, rest.drop n)

/-- strict UTF-8 validity, as `bytes.decode('utf-8')` enforces it -/
def validUtf8 : Bytes → Bool
  | [] => true
  | b0 :: r =>
    let cont (x : UInt8) : Bool := 0x80 ≤ x && x ≤ 0xbf
    if b0 < 0x80 then validUtf8 r
    else if 0xc2 ≤ b0 && b0 ≤ 0xdf then
      match r with
      | b1 :: r' => cont b1 && validUtf8 r'
      | _ => false
    else if 0xe0 ≤ b0 && b0 ≤ 0xef then
      match r with
      | b1 :: b2 :: r' =>
        (if b0 = 0xe0 then 0xa0 ≤ b1 && b1 ≤ 0xbf
         else if b0 = 0xed then 0x80 ≤ b1 && b1 ≤ 0x9f
         else cont b1) && cont b2 && validUtf8 r'
      | _ => false
    else if 0xf0 ≤ b0 && b0 ≤ 0xf4 then
      match r with
      | b1 :: b2 :: b3 :: r' =>
        (if b0 = 0xf0 then 0x90 ≤ b1 && b1 ≤ 0xbf
         else if b0 = 0xf4 then 0x80 ≤ b1 && b1 ≤ 0x8f
         else cont b1) && cont b2 && cont b3 && validUtf8 r'
      | _ => false
    else false

/-- checks of `BitString.__init__` on a byte value (asn1.py:436-446) -/
def bitsOk (u : Nat) (b : Bytes) : Bool :=
  u == 0 || match b.getLast? with
    | none => false
    | some x => x.toNat % 2 ^ u == 0

/-- `ObjectIdentifier.decode` component loop (asn1.py:637-650); `none` = ASN1DecodeError -/
def oidLoop (component : Nat) : Bytes → Option (List Nat)
  | [] => if component = 0 then some [] else none
  | b :: rest =>
    if b = 0x80 ∧ component = 0 then none
    else if b < 0x80 then (oidLoop 0 rest).map (fun l => (component + b.toNat) :: l)
    else oidLoop ((component + b.toNat % 128) * 128) rest

/-- outcome of a primitive (non-recursive) universal type; `strLimit` is CPython's
    `sys.get_int_max_str_digits()` (`str(component)` in `ObjectIdentifier.decode`) -/
def leaf (strLimit : Nat) (tag : Nat) (cons : Bool) (content : Bytes) : Except DerErr Unit :=
  if cons then .error .decode
  else if tag = 5 then (if content ≠ [] then .error .decode else .ok ())
  else if tag = 1 then (if content = [0] ∨ content = [0xff] then .ok () else .error .decode)
  else if tag = 2 ∨ tag = 4 ∨ tag = 22 then .ok ()
  else if tag = 12 then (if validUtf8 content then .ok () else .error .unicode)
  else if tag = 3 then
    match content with
    | [] => .error .decode
    | u :: value =>
      if u > 7 then .error .decode
      else if bitsOk u.toNat value then .ok () else .error .encode
  else -- tag = 6
    match content with
    | [] => .error .decode
    | _ :: rest =>
      match oidLoop 0 rest with
      | none => .error .decode
      | some comps =>
        if strLimit ≠ 0 ∧ comps.any (fun c => 10 ^ strLimit ≤ c) then .error .intStr else .ok ()

def primitiveTags : List Nat := [1, 2, 3, 4, 5, 6, 12, 22]

mutual
/-- `der_decode_partial(data)` with `lim` nested activations still allowed -/
def decodePartial (strLimit : Nat) : (fuel lim : Nat) → Bytes → Out
  | 0, _, _ => { res := .error .fuel, depth := 0, calls := 0 }
  | _ + 1, 0, _ => { res := .error .recursion, depth := 0, calls := 0 }
  | fuel + 1, lim + 1, data =>
    if data.length < 2 then { res := .error .decode, depth := 1, calls := 1 }
    else
      match parseIdent data with
      | none => { res := .error .decode, depth := 1, calls := 1 }
      | some (cls, cons, tag, afterIdent) =>
        match parseLenContent afterIdent with
        | none => { res := .error .decode, depth := 1, calls := 1 }
        | some (content, rest) =>
          let consumed := data.length - rest.length
          if cls = 0 ∧ primitiveTags.contains tag then
            { res := (leaf strLimit tag cons content).map fun _ => consumed, depth := 1, calls := 1 }
          else if cls = 0 ∧ (tag = 16 ∨ tag = 17) then
            if !cons then { res := .error .decode, depth := 1, calls := 1 }
            else
              -- `cls.decode` is one Python frame, its `der_decode_partial` calls are the next level
              let r := decodeItems strLimit fuel lim content
              { res := r.res.map fun _ => consumed, depth := 1 + r.depth, calls := 1 + r.calls }
          else if cons then
            -- TaggedDERObject(tag, der_decode(content), asn1_class)
            let r := decodePartial strLimit fuel lim content
            let res : Except DerErr Nat :=
              match r.res with
              | .error e => .error e
              | .ok n => if n < content.length then .error .decode else .ok consumed
            { res := res, depth := 1 + r.depth, calls := 1 + r.calls }
          else { res := .ok consumed, depth := 1, calls := 1 }
/-- the `while offset < length` loop of `_Sequence.decode` / `_Set.decode`; all items run at the same level -/
def decodeItems (strLimit : Nat) : (fuel lim : Nat) → Bytes → Out
  | _, _, [] => { res := .ok 0, depth := 0, calls := 0 }
  | 0, _, _ :: _ => { res := .error .fuel, depth := 0, calls := 0 }
  | fuel + 1, lim, b :: bs =>
    let r := decodePartial strLimit fuel lim (b :: bs)
    match r.res with
    | .error e => { res := .error e, depth := r.depth, calls := r.calls }
    | .ok n =>
      let r2 := decodeItems strLimit fuel lim ((b :: bs).drop n)
      { res := r2.res.map fun m => n + m, depth := max r.depth r2.depth, calls := r.calls + r2.calls }
end

/-- `der_decode(data)`: everything must be consumed -/
def decode (strLimit lim : Nat) (data : Bytes) : Out :=
  let r := decodePartial strLimit (data.length + 1) lim data
  match r.res with
  | .error _ => r
  | .ok n => if n < data.length then { r with res := .error .decode } else r

/-- `depth` nested SEQUENCEs around `leaf`, built with `der_encode`'s definite lengths -/
def lenOctets (n : Nat) : Bytes :=
  if n < 128 then [UInt8.ofNat n]
  else if n < 256 then [0x81, UInt8.ofNat n]
  else if n < 65536 then [0x82, UInt8.ofNat (n / 256), UInt8.ofNat (n % 256)]
  else [0x83, UInt8.ofNat (n / 65536), UInt8.ofNat (n / 256 % 256), UInt8.ofNat (n % 256)]

def nest : Nat → Bytes → Bytes
  | 0, leaf => leaf
  | d + 1, leaf => let inner := nest d leaf; 0x30 :: lenOctets inner.length ++ inner

end AsyncsshModel.Hostile.Der
