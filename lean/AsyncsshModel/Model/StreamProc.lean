import AsyncsshModel.Base.Hex
/-
  Model of the process layer's ordering logic (property C19): the receive half of an `SSHClientChannel`
  together with its `SSHClientProcess` session.

  * channel.py: `_process_data` / `_process_extended_data` / `_accept_data` / `_deliver_data`,
    `_process_eof`, `_process_close`, `_flush_recv_buf`, `pause_reading` / `resume_reading`,
    `_process_exit_status_request` / `_process_exit_signal_request`, `_cleanup`, `process_connection_close`
  * stream.py: `data_received`, `_maybe_pause_reading`, `_maybe_resume_reading`, `eof_received`, `connection_lost`
  * process.py: `SSHProcess.data_received` / `eof_received` / `feed_recv_buf` / `connection_lost` (redirection to
    a writer), `SSHClientProcess.communicate` / `wait` / `collect_output`
  * stream.py `drain` with `pause_writing` / `resume_writing` / `connection_lost`

  Events are what the peer puts on the wire (in any order), the event loop running a scheduled `_cleanup`,
  loss of the connection, and the application calling `wait()` / `redirect(stdout=...)` at any moment.
  The receive window arithmetic is not modelled here (property C08); only the pause limit is.
-/
namespace AsyncsshModel.StreamProc

open AsyncsshModel

inductive RecvState where
  | opened | eofPending | eof | closePending | closed
deriving DecidableEq, Repr

inductive PEv where
  | data (err : Bool) (b : Bytes)   -- CHANNEL_DATA (`err = false`) / CHANNEL_EXTENDED_DATA stderr (`err = true`)
  | eof                             -- CHANNEL_EOF
  | exitStatus (n : Nat)            -- CHANNEL_REQUEST exit-status
  | exitSignal (sig : Nat)          -- CHANNEL_REQUEST exit-signal (signal abstracted to a number)
  | close                           -- CHANNEL_CLOSE
  | tick                            -- the event loop runs callbacks scheduled with `call_soon` (`_cleanup`)
  | disconnect (withExc : Bool)     -- connection closed by the peer / transport lost
  | waitCall                        -- application calls `wait()` (`communicate`: `_limit = 0`, resume reading)
  | redirect (recvEof : Bool)       -- application calls `redirect(stdout=target, recv_eof=...)`
deriving DecidableEq, Repr

/-- outcome of `wait()` -/
inductive WaitRes where
  | done (status signal : Option Nat) (out err : Bytes)   -- SSHCompletedProcess
  | assertionError                                        -- `assert self._session is not None` (channel.py:355)
deriving DecidableEq, Repr

structure PSt where
  recvState  : RecvState := .opened
  paused     : Bool := false
  chanQ      : List (Bool × Bytes) := []   -- channel `_recv_buf` (data, is-stderr)
  out        : List Bytes := []            -- session `_recv_buf[None]`
  err        : List Bytes := []            -- session `_recv_buf[EXTENDED_DATA_STDERR]`
  bufLen     : Int := 0
  limit      : Nat := 0
  eofSeen    : Bool := false               -- session `_eof_received`
  exitStatus : Option Nat := none
  exitSignal : Option Nat := none
  cleanupPending : Bool := false           -- `call_soon(self._cleanup)` not yet run
  lost       : Bool := false               -- session `connection_lost` was called (`_close_event` set)
  abrupt     : Bool := false               -- ... because the connection went away / a protocol error, not by CLOSE
  lostExc    : Bool := false
  waiting    : Bool := false               -- `wait()` has been called
  result     : Option WaitRes := none      -- what `wait()` returned / raised
  redirErr   : Bool := false               -- `redirect()` raised AssertionError (same assertion)
  writer     : Option Bool := none         -- stdout redirected to a writer (value: `recv_eof`)
  target     : List Bytes := []            -- what the writer was given
  targetEof  : Nat := 0                    -- number of `write_eof` calls on the writer
deriving DecidableEq, Repr

def shouldPause (s : PSt) : Bool := s.limit != 0 && decide ((s.limit : Int) ≤ s.bufLen)

/-- `SSHProcess.data_received`: to the writer if one is set for the datatype, else buffer it
    (`SSHStreamSession.data_received`) and `_maybe_pause_reading` -/
def deliver (s : PSt) (err : Bool) (b : Bytes) : PSt :=
  if !err && s.writer.isSome then { s with target := s.target ++ [b] }
  else
    { s with
      err := if err then s.err ++ [b] else s.err
      out := if err then s.out else s.out ++ [b]
      bufLen := s.bufLen + b.length
      paused := s.paused || (s.limit != 0 && decide ((s.limit : Int) ≤ s.bufLen + b.length)) }

/-- `SSHProcess.eof_received`: `write_eof` on the writer if `recv_eof`, then the stream session's flag -/
def sessionEof (s : PSt) : PSt :=
  { s with eofSeen := true, targetEof := if s.writer = some true then s.targetEof + 1 else s.targetEof }

/-- `SSHChannel._flush_recv_buf` -/
def flush : PSt → List (Bool × Bytes) → PSt
  | s, [] =>
    let s := { s with chanQ := [] }
    let s := if s.recvState = .eofPending then sessionEof { s with recvState := .eof } else s
    if s.recvState = .closePending then { s with recvState := .closed, cleanupPending := true } else s
  | s, (e, b) :: q => if s.paused then { s with chanQ := (e, b) :: q } else flush (deliver s e b) q

def maybeResume (s : PSt) : PSt :=
  if s.paused && !shouldPause s then flush { s with paused := false } s.chanQ else s

/-- `SSHChannel._cleanup(exc)` → `SSHProcess.connection_lost(exc)` (which calls `eof_received()` unless EOF was
    seen before); queued channel data is not delivered -/
def cleanup (s : PSt) (abrupt withExc : Bool) : PSt :=
  if s.lost then s
  else
    { s with
      eofSeen := true
      targetEof := if !s.eofSeen && s.writer = some true then s.targetEof + 1 else s.targetEof
      lost := true, abrupt := abrupt, lostExc := withExc, cleanupPending := false }

/-- a handler raised ProtocolError: the connection is torn down, every channel sees `_cleanup(exc)` -/
def protoError (s : PSt) : PSt := cleanup s true true

/-- `collect_output()` at the end of `communicate()` -/
def collect (s : PSt) : PSt :=
  { s with result := some (.done s.exitStatus s.exitSignal s.out.flatten s.err.flatten), out := [], err := [] }

/-- application calls `wait()` -/
def onWait (s : PSt) : PSt :=
  if s.waiting then s
  else
    let s := { s with waiting := true, limit := 0 }
    if s.lost then
      -- `communicate()` on a channel that was already cleaned up: `_maybe_resume_reading()` makes the channel
      -- flush what it still holds into a session that is gone; a pending EOF trips the assertion
      if s.paused then
        let s := { s with paused := false, chanQ := [] }
        if s.recvState = .eofPending then { s with result := some .assertionError } else collect s
      else collect s
    else maybeResume s

/-- the `_maybe_resume_reading()` at the end of `feed_recv_buf` (on a channel that may already be gone) -/
def resumeAfterFeed (s : PSt) : PSt :=
  if s.lost then
    if s.paused && !shouldPause s then
      { s with paused := false, chanQ := [], redirErr := s.redirErr || decide (s.recvState = .eofPending) }
    else s
  else maybeResume s

/-- application calls `redirect(stdout=writer, recv_eof=r)`:
    `_create_writer` → `set_writer`; `feed_recv_buf`: buffered data, EOF if already seen, maybe resume -/
def onRedirect (s : PSt) (r : Bool) : PSt :=
  if s.writer.isSome then s
  else
    resumeAfterFeed { s with
      writer := some r, target := s.target ++ s.out, out := []
      bufLen := s.bufLen - (((s.out.map List.length).sum : Nat) : Int)
      targetEof := if s.eofSeen && r then s.targetEof + 1 else s.targetEof }

/-- `feed_recv_buf` BEFORE the repair of finding A-C19-4: `if self._eof_received: writer.write_eof()` without the
    test of `recv_eof` that `eof_received` makes.  File and StreamWriter targets re-check `recv_eof` themselves
    (`needs_close` / `_recv_eof`), another process's stdin (`_ProcessWriter.write_eof`) does not: for that target
    kind a redirect set up after EOF had arrived closed the target in spite of `recv_eof=False`. -/
def onRedirectPreFix (s : PSt) (r : Bool) : PSt :=
  if s.writer.isSome then s
  else
    resumeAfterFeed { s with
      writer := some r, target := s.target ++ s.out, out := []
      bufLen := s.bufLen - (((s.out.map List.length).sum : Nat) : Int)
      targetEof := if s.eofSeen then s.targetEof + 1 else s.targetEof }

/-- the event loop runs what was scheduled: a pending `_cleanup`, then the task blocked in `wait_closed()` -/
def onTick (s : PSt) : PSt :=
  let s := if s.cleanupPending then cleanup s false false else s
  if s.waiting ∧ s.lost ∧ s.result.isNone then collect s else s

/-- `_process_data` / `_process_extended_data` + `_accept_data`
    (once the channel is gone the message is for an unknown channel: connection level, not modelled) -/
def onData (s : PSt) (err : Bool) (b : Bytes) : PSt :=
  if s.lost then s
  else if s.recvState ≠ .opened then protoError s
  else if b.isEmpty then s
  else if s.paused then { s with chanQ := s.chanQ ++ [(err, b)] }
  else deliver s err b

/-- `_process_eof` -/
def onEof (s : PSt) : PSt :=
  if s.lost then s
  else if s.recvState ≠ .opened then protoError s
  else flush { s with recvState := .eofPending } s.chanQ

def requestsAllowed (s : PSt) : Bool :=
  s.recvState = .opened || s.recvState = .eofPending || s.recvState = .eof

/-- `_process_request` → `_process_exit_status_request` -/
def onExitStatus (s : PSt) (n : Nat) : PSt :=
  if s.lost then s
  else if requestsAllowed s then { s with exitStatus := some (n % 256) } else protoError s

/-- `_process_request` → `_process_exit_signal_request` -/
def onExitSignal (s : PSt) (sig : Nat) : PSt :=
  if s.lost then s
  else if requestsAllowed s then { s with exitSignal := some sig } else protoError s

/-- `_process_close` -/
def onClose (s : PSt) : PSt :=
  if s.lost then s
  else if requestsAllowed s then flush { s with recvState := .closePending } s.chanQ else protoError s

def pstep (s : PSt) : PEv → PSt
  | .waitCall => onWait s
  | .redirect r => onRedirect s r
  | .tick => onTick s
  | .disconnect e => cleanup s true e
  | .data err b => onData s err b
  | .eof => onEof s
  | .exitStatus n => onExitStatus s n
  | .exitSignal sig => onExitSignal s sig
  | .close => onClose s

def prun (s : PSt) (evs : List PEv) : PSt := evs.foldl pstep s

/-- the process before the repair of A-C19-4 with an SSHWriter (another process's stdin) as redirect target -/
def pstepPreFix (s : PSt) : PEv → PSt
  | .redirect r => onRedirectPreFix s r
  | ev => pstep s ev

def prunPreFix (s : PSt) (evs : List PEv) : PSt := evs.foldl pstepPreFix s

/-- everything the peer sent on a stream before its CLOSE -/
def sentBeforeClose : List PEv → Bool → Bytes
  | [], _ => []
  | .close :: _, _ => []
  | .data e b :: r, err => (if e = err then b else []) ++ sentBeforeClose r err
  | _ :: r, err => sentBeforeClose r err

/-! ### drain

  `SSHStreamSession.drain(datatype)` is `while self._should_block_drain(datatype): await <a new waiter>`; the waiter
  is completed by `_unblock_drain(datatype)`, which the session calls from `resume_writing`, `connection_lost` and
  `clear_reader` and which completes the waiters only `if not self._should_block_drain(datatype)` at that moment.
  Every process session runs the override `SSHProcess._should_block_drain`:
  `datatype in self._readers or super()._should_block_drain(datatype)` — a stream that is fed by a redirect source
  blocks `drain` until the source has ended. -/

inductive DEv where
  | pauseWriting           -- channel send buffer above the high-water mark
  | resumeWriting          -- ... back below the low-water mark
  | lost (withExc : Bool)  -- `connection_lost(exc)`
  | setReader              -- `redirect(stdin/stdout=source)`: `set_reader` registers a source for the stream
  | readerDone             -- the source ended (`feed_eof` → `clear_reader`) or was replaced by `PIPE`
  | peerClose (unsent : Bool)
      -- the peer's CHANNEL_CLOSE arrives while `connection_lost` has to wait (received data is still queued behind a
      -- paused reader): `SSHChannel._process_close` → `_close_send()` throws the send buffer away (`unsent`: it was
      -- not empty) and then `_pause_resume_writing()` resumes a session that was paused for writing
deriving DecidableEq, Repr

structure DSt where
  writePaused : Bool := false
  connLost    : Bool := false
  exc         : Bool := false
  reader      : Bool := false   -- `datatype in self._readers`
  discarded   : Bool := false   -- channel `_send_discarded`: unsent data was thrown away when the channel closed
deriving DecidableEq, Repr

/-- which of the repairs the code has (all `true` = the code as it is) -/
structure DCfg where
  wakeAfterClear    : Bool := true   -- A-C19-1: `SSHProcess.connection_lost` signals the drain waiters again after
                                     -- `self._readers = {}`
  resumeOnPeerClose : Bool := true   -- C09 (repo 352f310): `_process_close` calls `_pause_resume_writing()` after
                                     -- `_close_send()`
  failOnDiscard     : Bool := true   -- `drain`: a call that had to wait and finds that unsent data was discarded fails
deriving DecidableEq, Repr

/-- `SSHProcess._should_block_drain` -/
def shouldBlockDrain (s : DSt) : Bool := s.reader || (s.writePaused && !s.connLost)

/-- One event: the state after it and whether a `drain()` waiting at that moment is woken (the event called
    `_unblock_drain` at a point where `_should_block_drain` was false). -/
def dstepW (cfg : DCfg) (s : DSt) : DEv → DSt × Bool
  | .pauseWriting => ({ s with writePaused := true }, false)
  | .resumeWriting =>
    let s' := { s with writePaused := false }
    (s', !shouldBlockDrain s')
  | .setReader => ({ s with reader := true }, false)
  | .readerDone =>
    if s.reader then
      let s' := { s with reader := false }
      (s', !shouldBlockDrain s')
    else (s, false)
  | .lost e =>
    let s1 := { s with connLost := true, exc := e }     -- `super().connection_lost(exc)` ... `_unblock_drain`
    let s2 := { s1 with reader := false }               -- `self._readers = {}`
    (s2, !shouldBlockDrain s1 || (cfg.wakeAfterClear && !shouldBlockDrain s2))
  | .peerClose unsent =>
    -- a session paused for writing has more than the low-water mark buffered: that data is discarded, too
    let s1 := { s with discarded := s.discarded || unsent || s.writePaused }
    if cfg.resumeOnPeerClose && s.writePaused then
      let s2 := { s1 with writePaused := false }        -- `resume_writing()`
      (s2, !shouldBlockDrain s2)
    else (s1, false)

def dstep (s : DSt) (e : DEv) : DSt := (dstepW {} s e).1

inductive DrainRes where
  | returned | raisedExc | brokenPipe | blocked
deriving DecidableEq, Repr

/-- the part of `drain` after its loop: fail if the connection was lost with an exception, or was lost while
    writing was still paused; otherwise (`elif blocked and self._chan and self._chan.was_write_discarded()`) fail if
    this call had to wait and what it waited for was thrown away -/
def drainFinish (cfg : DCfg) (blocked : Bool) (s : DSt) : DrainRes :=
  if s.connLost then
    if s.exc then .raisedExc else if s.writePaused then .brokenPipe else .returned
  else if cfg.failOnDiscard && blocked && s.discarded then .brokenPipe
  else .returned

/-- a `drain()` call that is waiting (`blocked = True`): it runs again only when an event wakes it (the woken task
    runs before the next event; nothing else can intervene, so its loop test passes) -/
def drainWait (cfg : DCfg) : DSt → List DEv → DrainRes × DSt
  | s, [] => (.blocked, s)
  | s, e :: rest =>
    let r := dstepW cfg s e
    if r.2 then (drainFinish cfg true r.1, r.1) else drainWait cfg r.1 rest

/-- `SSHStreamSession.drain` on a process session -/
def drainW (cfg : DCfg) (s : DSt) (evs : List DEv) : DrainRes × DSt :=
  if shouldBlockDrain s then drainWait cfg s evs else (drainFinish cfg false s, s)

/-- the code as it is (repaired) -/
def drain (s : DSt) (evs : List DEv) : DrainRes × DSt := drainW {} s evs

/-- the code before the repair of A-C19-1 -/
def drainPreFix (s : DSt) (evs : List DEv) : DrainRes × DSt := drainW { wakeAfterClear := false } s evs

/-- the code before C09's repair (repo 352f310): the peer's CLOSE did not resume a session paused for writing -/
def drainNoResumeOnClose (s : DSt) (evs : List DEv) : DrainRes × DSt := drainW { resumeOnPeerClose := false } s evs

/-- C09's repair alone: the session is resumed at the peer's CLOSE and `drain` has no test of its own -/
def drainNoDiscardTest (s : DSt) (evs : List DEv) : DrainRes × DSt := drainW { failOnDiscard := false } s evs

end AsyncsshModel.StreamProc
