import AsyncsshModel.Base.Hex
/-
  Model of the process layer's ordering logic (property C19): the receive half of an `SSHClientChannel`
  together with its `SSHClientProcess` session.

  * channel.py: `_process_data` / `_process_extended_data` / `_accept_data` / `_deliver_data`,
    `_process_eof`, `_process_close`, `_flush_recv_buf`, `pause_reading` / `resume_reading`,
    `_process_exit_status_request` / `_process_exit_signal_request`, `_cleanup`, `process_connection_close`
  * stream.py: `data_received`, `_maybe_pause_reading`, `_maybe_resume_reading`, `eof_received`, `connection_lost`
  * process.py: `SSHProcess.data_received` / `eof_received` / `feed_recv_buf` / `connection_lost` (redirection to
    a writer), `SSHClientProcess.communicate` / `wait` / `collect_output`
  * stream.py `drain` with `pause_writing` / `resume_writing` / `connection_lost`

  Events are what the peer puts on the wire (in any order), the event loop running a scheduled `_cleanup`,
  loss of the connection, and the application calling `wait()` / `redirect(stdout=...)` at any moment.
  The receive window arithmetic is not modelled here (property C08); only the pause limit is.
-/
namespace AsyncsshModel.StreamProc

open AsyncsshModel

inductive RecvState where
  | opened | eofPending | eof | closePending | closed
deriving DecidableEq, Repr

inductive PEv where
  | data (err : Bool) (b : Bytes)   -- CHANNEL_DATA (`err = false`) / CHANNEL_EXTENDED_DATA stderr (`err = true`)
  | eof                             -- CHANNEL_EOF
  | exitStatus (n : Nat)            -- CHANNEL_REQUEST exit-status
  | exitSignal (sig : Nat)          -- CHANNEL_REQUEST exit-signal (signal abstracted to a number)
  | close                           -- CHANNEL_CLOSE
  | tick                            -- the event loop runs callbacks scheduled with `call_soon` (`_cleanup`)
  | disconnect (withExc : Bool)     -- connection closed by the peer / transport lost
  | waitCall                        -- application calls `wait()` (`communicate`: `_limit = 0`, resume reading)
  | redirect (recvEof : Bool)       -- application calls `redirect(stdout=target, recv_eof=...)`
deriving DecidableEq, Repr

/-- outcome of `wait()` -/
inductive WaitRes where
  | done (status signal : Option Nat) (out err : Bytes)   -- SSHCompletedProcess
  | assertionError                                        -- `assert self._session is not None` (channel.py:355)
deriving DecidableEq, Repr

structure PSt where
  recvState  : RecvState := .opened
  paused     : Bool := false
  chanQ      : List (Bool × Bytes) := []   -- channel `_recv_buf` (data, is-stderr)
  out        : List Bytes := []            -- session `_recv_buf[None]`
  err        : List Bytes := []            -- session `_recv_buf[EXTENDED_DATA_STDERR]`
  bufLen     : Int := 0
  limit      : Nat := 0
  eofSeen    : Bool := false               -- session `_eof_received`
  exitStatus : Option Nat := none
  exitSignal : Option Nat := none
  cleanupPending : Bool := false           -- `call_soon(self._cleanup)` not yet run
  lost       : Bool := false               -- session `connection_lost` was called (`_close_event` set)
  abrupt     : Bool := false               -- ... because the connection went away / a protocol error, not by CLOSE
  lostExc    : Bool := false
  waiting    : Bool := false               -- `wait()` has been called
  result     : Option WaitRes := none      -- what `wait()` returned / raised
  redirErr   : Bool := false               -- `redirect()` raised AssertionError (same assertion)
  writer     : Option Bool := none         -- stdout redirected to a writer (value: `recv_eof`)
  target     : List Bytes := []            -- what the writer was given
  targetEof  : Nat := 0                    -- number of `write_eof` calls on the writer
deriving DecidableEq, Repr

def shouldPause (s : PSt) : Bool := s.limit != 0 && decide ((s.limit : Int) ≤ s.bufLen)

/-- `SSHProcess.data_received`: to the writer if one is set for the datatype, else buffer it
    (`SSHStreamSession.data_received`) and `_maybe_pause_reading` -/
def deliver (s : PSt) (err : Bool) (b : Bytes) : PSt :=
  if !err && s.writer.isSome then { s with target := s.target ++ [b] }
  else
    { s with
      err := if err then s.err ++ [b] else s.err
      out := if err then s.out else s.out ++ [b]
      bufLen := s.bufLen + b.length
      paused := s.paused || (s.limit != 0 && decide ((s.limit : Int) ≤ s.bufLen + b.length)) }

/-- `SSHProcess.eof_received`: `write_eof` on the writer if `recv_eof`, then the stream session's flag -/
def sessionEof (s : PSt) : PSt :=
  { s with eofSeen := true, targetEof := if s.writer = some true then s.targetEof + 1 else s.targetEof }

/-- `SSHChannel._flush_recv_buf` -/
def flush : PSt → List (Bool × Bytes) → PSt
  | s, [] =>
    let s := { s with chanQ := [] }
    let s := if s.recvState = .eofPending then sessionEof { s with recvState := .eof } else s
    if s.recvState = .closePending then { s with recvState := .closed, cleanupPending := true } else s
  | s, (e, b) :: q => if s.paused then { s with chanQ := (e, b) :: q } else flush (deliver s e b) q

def maybeResume (s : PSt) : PSt :=
  if s.paused && !shouldPause s then flush { s with paused := false } s.chanQ else s

/-- `SSHChannel._cleanup(exc)` → `SSHProcess.connection_lost(exc)` (which calls `eof_received()` unless EOF was
    seen before); queued channel data is not delivered -/
def cleanup (s : PSt) (abrupt withExc : Bool) : PSt :=
  if s.lost then s
  else
    { s with
      eofSeen := true
      targetEof := if !s.eofSeen && s.writer = some true then s.targetEof + 1 else s.targetEof
      lost := true, abrupt := abrupt, lostExc := withExc, cleanupPending := false }

/-- a handler raised ProtocolError: the connection is torn down, every channel sees `_cleanup(exc)` -/
def protoError (s : PSt) : PSt := cleanup s true true

/-- `collect_output()` at the end of `communicate()` -/
def collect (s : PSt) : PSt :=
  { s with result := some (.done s.exitStatus s.exitSignal s.out.flatten s.err.flatten), out := [], err := [] }

/-- application calls `wait()` -/
def onWait (s : PSt) : PSt :=
  if s.waiting then s
  else
    let s := { s with waiting := true, limit := 0 }
    if s.lost then
      -- `communicate()` on a channel that was already cleaned up: `_maybe_resume_reading()` makes the channel
      -- flush what it still holds into a session that is gone; a pending EOF trips the assertion
      if s.paused then
        let s := { s with paused := false, chanQ := [] }
        if s.recvState = .eofPending then { s with result := some .assertionError } else collect s
      else collect s
    else maybeResume s

/-- the `_maybe_resume_reading()` at the end of `feed_recv_buf` (on a channel that may already be gone) -/
def resumeAfterFeed (s : PSt) : PSt :=
  if s.lost then
    if s.paused && !shouldPause s then
      { s with paused := false, chanQ := [], redirErr := s.redirErr || decide (s.recvState = .eofPending) }
    else s
  else maybeResume s

/-- application calls `redirect(stdout=writer, recv_eof=r)`:
    `_create_writer` → `set_writer`; `feed_recv_buf`: buffered data, EOF if already seen, maybe resume -/
def onRedirect (s : PSt) (r : Bool) : PSt :=
  if s.writer.isSome then s
  else
    resumeAfterFeed { s with
      writer := some r, target := s.target ++ s.out, out := []
      bufLen := s.bufLen - (((s.out.map List.length).sum : Nat) : Int)
      targetEof := if s.eofSeen && r then s.targetEof + 1 else s.targetEof }

/-- the event loop runs what was scheduled: a pending `_cleanup`, then the task blocked in `wait_closed()` -/
def onTick (s : PSt) : PSt :=
  let s := if s.cleanupPending then cleanup s false false else s
  if s.waiting ∧ s.lost ∧ s.result.isNone then collect s else s

/-- `_process_data` / `_process_extended_data` + `_accept_data`
    (once the channel is gone the message is for an unknown channel: connection level, not modelled) -/
def onData (s : PSt) (err : Bool) (b : Bytes) : PSt :=
  if s.lost then s
  else if s.recvState ≠ .opened then protoError s
  else if b.isEmpty then s
  else if s.paused then { s with chanQ := s.chanQ ++ [(err, b)] }
  else deliver s err b

/-- `_process_eof` -/
def onEof (s : PSt) : PSt :=
  if s.lost then s
  else if s.recvState ≠ .opened then protoError s
  else flush { s with recvState := .eofPending } s.chanQ

def requestsAllowed (s : PSt) : Bool :=
  s.recvState = .opened || s.recvState = .eofPending || s.recvState = .eof

/-- `_process_request` → `_process_exit_status_request` -/
def onExitStatus (s : PSt) (n : Nat) : PSt :=
  if s.lost then s
  else if requestsAllowed s then { s with exitStatus := some (n % 256) } else protoError s

/-- `_process_request` → `_process_exit_signal_request` -/
def onExitSignal (s : PSt) (sig : Nat) : PSt :=
  if s.lost then s
  else if requestsAllowed s then { s with exitSignal := some sig } else protoError s

/-- `_process_close` -/
def onClose (s : PSt) : PSt :=
  if s.lost then s
  else if requestsAllowed s then flush { s with recvState := .closePending } s.chanQ else protoError s

def pstep (s : PSt) : PEv → PSt
  | .waitCall => onWait s
  | .redirect r => onRedirect s r
  | .tick => onTick s
  | .disconnect e => cleanup s true e
  | .data err b => onData s err b
  | .eof => onEof s
  | .exitStatus n => onExitStatus s n
  | .exitSignal sig => onExitSignal s sig
  | .close => onClose s

def prun (s : PSt) (evs : List PEv) : PSt := evs.foldl pstep s

/-- everything the peer sent on a stream before its CLOSE -/
def sentBeforeClose : List PEv → Bool → Bytes
  | [], _ => []
  | .close :: _, _ => []
  | .data e b :: r, err => (if e = err then b else []) ++ sentBeforeClose r err
  | _ :: r, err => sentBeforeClose r err

/-! ### drain -/

inductive DEv where
  | pauseWriting           -- channel send buffer above the high-water mark
  | resumeWriting          -- ... back below the low-water mark
  | lost (withExc : Bool)  -- `connection_lost(exc)`
deriving DecidableEq, Repr

structure DSt where
  writePaused : Bool := false
  connLost    : Bool := false
  exc         : Bool := false
deriving DecidableEq, Repr

def dstep (s : DSt) : DEv → DSt
  | .pauseWriting => { s with writePaused := true }
  | .resumeWriting => { s with writePaused := false }
  | .lost e => { s with connLost := true, exc := e }

inductive DrainRes where
  | returned | raisedExc | brokenPipe | blocked
deriving DecidableEq, Repr

/-- `SSHStreamSession.drain`: wait while `write_paused and not connection_lost`, then fail if the connection
    was lost with an exception, or was lost while writing was still paused -/
def drain : DSt → List DEv → DrainRes × DSt
  | s, evs =>
    if s.writePaused && !s.connLost then
      match evs with
      | [] => (.blocked, s)
      | e :: rest => drain (dstep s e) rest
    else if s.connLost then
      if s.exc then (.raisedExc, s) else if s.writePaused then (.brokenPipe, s) else (.returned, s)
    else (.returned, s)

end AsyncsshModel.StreamProc
