import AsyncsshModel.Model.Lifecycle
import AsyncsshModel.Gen.C09
/-
  Waiters that sit on top of a channel's session callbacks:
    * `SSHStreamSession` (asyncssh/stream.py:373-686): one read waiter per data type, a set of drain waiters,
      `connection_lost` / `eof_received` / `data_received` / `pause_writing` / `resume_writing`;
    * `SFTPClientHandler` (asyncssh/sftp.py:2577-2696): the table `_requests` of reply waiters, `_cleanup`,
      and the `recv_packets` task whose `except` clauses decide whether `_cleanup` runs at all.
  Data items are one byte each; read pausing by the receive-buffer limit is not modelled.
-/
namespace AsyncsshModel.Lifecycle.Waiters
open AsyncsshModel.Lifecycle

/-- an entry of `_recv_buf[datatype]`: data or an exception object -/
inductive Entry where
  | data
  | exc (e : Exc)
  deriving DecidableEq, Repr, Inhabited

/-- result of an awaited stream call -/
inductive Res where
  | pending
  | ret (n : Nat)             -- returned n bytes (read) / returned (drain: n = 0)
  | raised (e : Exc)          -- the stored exception
  | incomplete (n : Nat)      -- asyncio.IncompleteReadError (an EOFError) with n bytes
  | brokenPipe
  deriving DecidableEq, Repr, Inhabited

/-- a `read(n, exact)` call in progress -/
structure Reader where
  n : Int
  exact : Bool
  got : Nat := 0
  deriving DecidableEq, Repr, Inhabited

structure StreamSess where
  eofReceived : Bool := false
  connectionLost : Bool := false
  exception : Exc := .clean
  writePaused : Bool := false
  buf0 : List Entry := []          -- `_recv_buf[None]`
  buf1 : List Entry := []          -- `_recv_buf[EXTENDED_DATA_STDERR]`
  reader0 : Option Reader := none  -- reader blocked in `_block_read(None)`
  reader1 : Option Reader := none
  reads : List Res := []           -- results of finished read calls, in completion order
  drainers : Nat := 0              -- tasks blocked in `drain()`
  drains : List Res := []
  deriving Repr

/-- inner loop of `read` (stream.py:538-563) over one-byte items; returns remaining buffer, reader, and
    `some res` when the call ends inside the loop (exception popped) or `breakRead` -/
def readInner : List Entry → Reader → List Entry × Reader × Option Res × Bool
  | [], r => ([], r, none, false)
  | .exc e :: rest, r =>
    if r.n = 0 then (.exc e :: rest, r, none, false)
    else if r.got > 0 then (.exc e :: rest, r, none, true)        -- break_read
    else (rest, r, some (.raised e), false)                        -- `raise exc`
  | .data :: rest, r =>
    if r.n = 0 then (.data :: rest, r, none, false)
    else readInner rest { r with n := r.n - 1, got := r.got + 1 }

/-- one pass of the outer loop of `read`: `none` = blocks in `_block_read` -/
def readPass (eof : Bool) (buf : List Entry) (r : Reader) : List Entry × Reader × Option Res :=
  let (buf', r', res, brk) := readInner buf r
  match res with
  | some x => (buf', r', some x)
  | none =>
    if r'.n = 0 ∨ (r'.n > 0 ∧ r'.got > 0 ∧ r'.exact = false) ∨ (r'.n < 0 ∧ buf' ≠ []) ∨ eof ∨ brk then
      (buf', r', some (if r'.n > 0 ∧ r'.exact then .incomplete r'.got else .ret r'.got))
    else (buf', r', none)

/-- (re)run the reader of data type `dt` against the buffer -/
def runReader (s : StreamSess) (dt : Nat) : StreamSess :=
  if dt = 0 then
    match s.reader0 with
    | none => s
    | some r =>
      let (b, r', res) := readPass s.eofReceived s.buf0 r
      match res with
      | some x => { s with buf0 := b, reader0 := none, reads := s.reads ++ [x] }
      | none => { s with buf0 := b, reader0 := some r' }
  else
    match s.reader1 with
    | none => s
    | some r =>
      let (b, r', res) := readPass s.eofReceived s.buf1 r
      match res with
      | some x => { s with buf1 := b, reader1 := none, reads := s.reads ++ [x] }
      | none => { s with buf1 := b, reader1 := some r' }

/-- `_should_block_drain` -/
def shouldBlockDrain (s : StreamSess) : Bool := s.writePaused && !s.connectionLost

/-- what `drain()` returns once it does not block (stream.py:679-686) -/
def drainResult (s : StreamSess) : Res :=
  if s.connectionLost then
    if s.exception ≠ .clean then .raised s.exception
    else if s.writePaused then .brokenPipe else .ret 0
  else .ret 0

/-- `_unblock_drain` for every data type, followed by the woken `drain()` loops re-checking -/
def unblockDrain (s : StreamSess) : StreamSess :=
  if shouldBlockDrain s then s
  else { s with drains := s.drains ++ List.replicate s.drainers (drainResult s), drainers := 0 }

/-- `eof_received` (stream.py:501) -/
def onEof (s : StreamSess) : StreamSess :=
  runReader (runReader { s with eofReceived := true } 0) 1

/-- `connection_lost(exc)` (stream.py:477) -/
def onLost (s : StreamSess) (e : Exc) : StreamSess :=
  let s1 : StreamSess := { s with connectionLost := true, exception := e }
  let s2 : StreamSess :=
    if s1.eofReceived = false then
      let s' : StreamSess := if e ≠ .clean then { s1 with buf0 := s1.buf0 ++ [.exc e], buf1 := s1.buf1 ++ [.exc e] } else s1
      onEof s'
    else s1
  unblockDrain s2

/-- `data_received` (stream.py:493) -/
def dataReceived (s : StreamSess) (dt : Nat) : StreamSess :=
  if dt = 0 then runReader { s with buf0 := s.buf0 ++ [.data] } 0
  else runReader { s with buf1 := s.buf1 ++ [.data] } 1

def pauseWriting (s : StreamSess) : StreamSess := { s with writePaused := true }
def resumeWriting (s : StreamSess) : StreamSess := unblockDrain { s with writePaused := false }

/-- a task calls `read(n, exact)` on data type `dt` (no other reader on it) -/
def startRead (s : StreamSess) (dt : Nat) (n : Int) (exact : Bool) : StreamSess :=
  if dt = 0 then
    if s.reader0.isSome then s else runReader { s with reader0 := some { n := n, exact := exact } } 0
  else
    if s.reader1.isSome then s else runReader { s with reader1 := some { n := n, exact := exact } } 1

/-- a task calls `drain()` -/
def startDrain (s : StreamSess) : StreamSess :=
  if shouldBlockDrain s then { s with drainers := s.drainers + 1 }
  else { s with drains := s.drains ++ [drainResult s] }

inductive SEv where
  | data (dt : Nat) | eof | lost (e : Exc) | pauseW | resumeW
  | read (dt : Nat) (n : Int) (exact : Bool) | drain
  deriving Repr, Inhabited

def StreamSess.step (s : StreamSess) : SEv → StreamSess
  | .data dt => dataReceived s dt
  | .eof => onEof s
  | .lost e => onLost s e
  | .pauseW => pauseWriting s
  | .resumeW => resumeWriting s
  | .read dt n x => startRead s dt n x
  | .drain => startDrain s

/-! ### SFTP client request table -/

/-- outcome of one SFTP request as its caller sees it -/
inductive SRes where
  | pending
  | reply                      -- a response packet arrived
  | failed (e : Exc)           -- the exception the connection died with
  | connClosed                 -- SFTPConnectionLost('Connection closed')
  | badMessage                 -- SFTPBadMessage (invalid response id)
  | noConn                     -- SFTPNoConnection('Connection not open'): request made after cleanup
  deriving DecidableEq, Repr, Inhabited

structure Sftp where
  nextId : Nat := 0
  requests : List Nat := []           -- keys of `_requests`
  results : List (Nat × SRes) := []
  writer : Bool := true               -- `_writer is not None`
  readerAlive : Bool := true          -- the `recv_packets` task has not finished
  deriving Repr

/-- how the `recv_packets` loop ends -/
inductive ReaderEnd where
  | eof                      -- EOFError (IncompleteReadError)
  | error (e : Exc)          -- `except (OSError, Error)`
  | other (e : Exc)          -- any other exception class: not caught
  deriving DecidableEq, Repr, Inhabited

/-- `SFTPClientHandler._cleanup(exc)` (sftp.py:2634) -/
def sftpCleanup (s : Sftp) (r : SRes) : Sftp :=
  { s with results := s.results ++ s.requests.map (fun i => (i, r)), requests := [], writer := false,
           readerAlive := false }      -- `_reader = None`: the `while self._reader` loop of `recv_packets` ends

/-- `_make_request` → `_send_request` → `send_packet` -/
def sftpRequest (s : Sftp) : Sftp :=
  let i := s.nextId
  if s.writer then { s with nextId := i + 1, requests := s.requests ++ [i] }
  else { s with nextId := i + 1, results := s.results ++ [(i, .noConn)] }
  -- (`_requests[pktid] = waiter` is executed before `send_packet` raises; that waiter is then never awaited)

/-- `_process_packet` (sftp.py:2649) -/
def sftpReply (s : Sftp) (i : Nat) : Sftp :=
  if s.readerAlive = false then s
  else if i ∈ s.requests then { s with requests := s.requests.erase i, results := s.results ++ [(i, .reply)] }
  else sftpCleanup s .badMessage

/-- is the exception class caught by one of the `except` clauses of `recv_packets` (sftp.py; the clause list is
    regenerated from the source into `Gen/C09.lean`)?  `OSError` and `asyncssh.Error` subclasses are; anything
    else only if a catch-all clause exists. -/
def caughtBySftp (e : Exc) : Bool :=
  Gen.C09.recvPacketsCatchesAll ||
  (match e with
   | .connLost | .proto | .byApp | .reset => true
   | _ => false)

/-- classify the outcome of `readexactly` in `recv_packet` once the channel is gone -/
def readerEndOf (r : Res) : Option ReaderEnd :=
  match r with
  | .raised e => some (if caughtBySftp e then .error e else .other e)
  | .incomplete _ => some .eof
  | _ => none

/-- the `recv_packets` task ends (sftp.py:2590-2595) -/
def sftpReaderEnd (s : Sftp) : ReaderEnd → Sftp
  | .eof => { sftpCleanup s .connClosed with readerAlive := false }
  | .error e => { sftpCleanup s (.failed e) with readerAlive := false }
  | .other _ => { s with readerAlive := false }

/-- the whole chain: the channel's `_cleanup(exc)` calls the stream session's `connection_lost(exc)`; the
    `recv_packets` task is blocked in `readexactly(4)` on stdout; its outcome decides the request table -/
def sftpOnChannelLost (st : StreamSess) (s : Sftp) (e : Exc) : StreamSess × Sftp :=
  let st1 := onLost st e
  if s.readerAlive = false then (st1, s) else
  match st1.reads.getLast? with
  | some r => (match readerEndOf r with
               | some k => (st1, sftpReaderEnd s k)
               | none => (st1, s))
  | none => (st1, s)

end AsyncsshModel.Lifecycle.Waiters
