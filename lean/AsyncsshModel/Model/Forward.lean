import AsyncsshModel.Base.Hex
/-
  Model of connection forwarding (property C20), part 1: the relay.

  Code mirrored: asyncssh/forward.py
    * `SSHForwarder`            (41-189)  one half of a relay: a protocol object with a transport, a peer
                                          forwarder, an input buffer and an "EOF received" flag
    * `SSHLocalForwarder`       (192-226) the socket-side half on the listening side; it exists (and receives
                                          data / EOF / connection loss from its socket) *before* the SSH channel is
                                          confirmed; `_forward` links the channel-side half once the open succeeds,
                                          flushes the early-data buffer and a pending EOF, or closes on failure

  One relay = two forwarders:
      sock  — the forwarder whose transport is the TCP/UNIX socket   (`SSHLocalForwarder`, or on the
              destination side the `SSHForwarder` handed to `loop.create_connection`)
      chan  — the forwarder whose transport is the SSH channel        (`SSHForwarder(peer)` made by
              `session_factory()` / `forward_connection`)
  The environment (asyncio socket transport, SSH channel, the `_forward` task) produces the events; the
  relay answers with calls on the two transports, which are the outputs.

  Two more places where a relayed socket exists while the SSH side of its relay does not: the open ending with
  an exception other than `ChannelOpenError` (`crashStep`) and the destination side of a forwarded connection
  whose SSH connection is lost while the destination is being connected (`destOpen`), each with the behaviour
  before its repair as `...PreFix`.

  `Variant.asIs` is the code as it stands.  A `Variant` says which of the two small repairs proposed in the
  C20 report are present (close both halves once EOF has been seen in both directions; close the freshly opened
  channel when the socket was lost while the channel was being opened); the theorems say which statements need
  which repair, and the correspondence run tells which variant the checked tree follows.
-/
namespace AsyncsshModel.Forward
open AsyncsshModel

inductive Side where
  | sock | chan
  deriving DecidableEq, Repr

def Side.other : Side → Side
  | .sock => .chan
  | .chan => .sock

/-- which of the two repairs proposed in the C20 report the modelled code contains -/
structure Variant where
  fixEof : Bool      -- `eof_received` closes both halves once EOF has been seen in both directions
  fixEarly : Bool    -- `_forward` closes the new channel when the socket was lost while it was being opened
  deriving DecidableEq, Repr

/-- the code as it stands -/
def Variant.asIs : Variant := ⟨false, false⟩
/-- the code with both repairs -/
def Variant.fixed : Variant := ⟨true, true⟩

/-- one `SSHForwarder` object -/
structure Fwd where
  tr : Bool := false      -- `self._transport is not None`
  peer : Bool := false    -- `self._peer is not None`
  buf : Bytes := []       -- `self._inpbuf`
  eof : Bool := false     -- `self._eof_received`
  gone : Bool := false    -- ghost: the transport has already called `connection_lost` (it does so once)
  deriving DecidableEq, Repr

/-- state of the `_forward` task of the socket-side half -/
inductive Phase where
  | opening     -- `await self._coro(session_factory, ...)` has not returned
  | linked      -- it returned: the channel-side half exists and the two are peers
  | failed      -- it raised `ChannelOpenError`
  deriving DecidableEq, Repr

structure Relay where
  s : Fwd
  c : Fwd
  phase : Phase
  early : Bool := false   -- ghost: the socket-side half had no transport any more when the channel was confirmed
  deriving DecidableEq, Repr

def Relay.get (r : Relay) : Side → Fwd
  | .sock => r.s
  | .chan => r.c

def Relay.set (r : Relay) : Side → Fwd → Relay
  | .sock, f => { r with s := f }
  | .chan, f => { r with c := f }

/-- what the environment decides -/
inductive Ev where
  | data (x : Side) (d : Bytes)   -- transport x calls `data_received(d)`
  | eof (x : Side)                -- transport x calls `eof_received()`
  | lost (x : Side)               -- transport x calls `connection_lost(exc)`
  | pauseW (x : Side)             -- transport x calls `pause_writing()`  (its write buffer is full)
  | resumeW (x : Side)            -- transport x calls `resume_writing()`
  | confirm                       -- the channel open succeeded (`_forward` continues after the await)
  | fail                          -- the channel open failed (`ChannelOpenError`, also: SSH connection lost)
  deriving DecidableEq, Repr

/-- calls the relay makes on its two transports (and what it returns to them) -/
inductive Out where
  | write (x : Side) (d : Bytes)
  | writeEof (x : Side)
  | close (x : Side)
  | pauseR (x : Side)
  | resumeR (x : Side)
  | eofRet (x : Side) (keepOpen : Bool)   -- return value of `eof_received()` on side x
  | assertFail                            -- `assert self._transport is not None` fails (AssertionError escapes)
  deriving DecidableEq, Repr

/-- `SSHForwarder.close` (forward.py:179-189) called on the half of side `x`:
      if self._transport: self._transport.close(); self._transport = None
      if self._peer: peer = self._peer; self._peer = None; peer.close()
    the nested `peer.close()` closes the peer's transport and clears its `_peer`; the call it makes back
    into `x` finds nothing left to do. -/
def closeFwd (r : Relay) (x : Side) : Relay × List Out :=
  let fx := r.get x
  let o1 := if fx.tr then [Out.close x] else []
  if fx.peer then
    let fy := r.get x.other
    let o2 := if fy.tr then [Out.close x.other] else []
    ((r.set x { fx with tr := false, peer := false }).set x.other { fy with tr := false, peer := false },
     o1 ++ o2)
  else (r.set x { fx with tr := false }, o1)

/-- the channel-side half exists only once the channel is confirmed -/
def Relay.has (r : Relay) : Side → Bool
  | .sock => true
  | .chan => r.phase == .linked

/-- One atomic step of the relay. -/
def step (v : Variant) (r : Relay) : Ev → Relay × List Out
  | .data x d =>
    if !r.has x then (r, []) else
    let fx := r.get x
    -- data_received (144-153): `if self._peer: self._peer.write(data) else: self._inpbuf += data`
    -- write (85-94): `if not self._transport: return`
    if fx.peer then (r, if (r.get x.other).tr then [.write x.other d] else [])
    else (r.set x { fx with buf := fx.buf ++ d }, [])
  | .eof x =>
    if !r.has x then (r, []) else
    -- eof_received (155-165)
    let fx := { r.get x with eof := true }
    let r1 := r.set x fx
    if fx.peer then
      let fy := r.get x.other
      let o := if fy.tr then [Out.writeEof x.other] else []
      if !v.fixEof then (r1, o ++ [.eofRet x (!fy.eof)])    -- `return not self._peer.was_eof_received()`
      else if fy.eof then
        let (r2, oc) := closeFwd r1 x                         -- repair: both directions are finished
        (r2, o ++ oc ++ [.eofRet x false])
      else (r1, o ++ [.eofRet x true])
    else (r1, [.eofRet x true])
  | .lost x =>
    if !r.has x then (r, []) else
    -- connection_lost (134-139): `self.close()`
    closeFwd (r.set x { r.get x with gone := true }) x
  | .pauseW x =>
    if !r.has x then (r, []) else
    -- pause_writing (167-171) -> peer.pause_reading (112-116) with its assert
    if (r.get x).peer then (r, if (r.get x.other).tr then [.pauseR x.other] else [.assertFail]) else (r, [])
  | .resumeW x =>
    if !r.has x then (r, []) else
    if (r.get x).peer then (r, if (r.get x.other).tr then [.resumeR x.other] else [.assertFail]) else (r, [])
  | .confirm =>
    -- `_forward` (200-221) after the await; `session_factory()` = `SSHForwarder(self)` links the halves,
    -- the channel calls `connection_made(chan)` on the new half, all in the same task step
    if r.phase != .opening then (r, []) else
    let s1 := { r.s with peer := true }
    let c1 : Fwd := { tr := true, peer := true }
    let early := !r.s.tr
    if v.fixEarly && early then
      -- repair: `if not self._transport: self._peer.close(); return`
      closeFwd { s := s1, c := c1, phase := .linked, early := true } .chan
    else
      let o1 := if s1.buf ≠ [] then [Out.write .chan s1.buf] else []   -- `if self._inpbuf: self._peer.write(...)`
      let o2 := if s1.eof then [Out.writeEof .chan] else []             -- `if self._eof_received: ...write_eof()`
      ({ s := { s1 with buf := [] }, c := c1, phase := .linked, early := early }, o1 ++ o2)
  | .fail =>
    -- `except ChannelOpenError as exc: self.connection_lost(exc)`
    if r.phase != .opening then (r, []) else
    closeFwd { r with phase := .failed } .sock

/-- a connection has just been accepted on a forwarding listener -/
def initListener : Relay := { s := { tr := true }, c := {}, phase := .opening }

/-! ### the open ends with an exception that is not `ChannelOpenError`

  `await self._coro(session_factory, *args)` in `_forward` (forward.py) can also raise something else: a
  `PacketDecodeError` from `packet.check_end()` on the peer's OPEN_CONFIRMATION (channel.py `_open_forward`), an
  exception of the application's `accept_handler` (connection.py `tunnel_connection`).  Since the repair
  (`except Exception: self.close(); raise`) the socket-side half is closed exactly as for `ChannelOpenError`
  before the exception travels on to the task (which ends the SSH connection): `crashStep true = step v · .fail`
  (theorem `crash_is_fail`), so that `Ev.fail` covers every failed outcome of the open.  Before the repair nothing
  was closed: the task just died. -/
def crashStep (fix : Bool) (r : Relay) : Relay × List Out :=
  if r.phase != .opening then (r, []) else
  if fix then closeFwd { r with phase := .failed } .sock
  else ({ r with phase := .failed }, [])

/-- the code before the repair -/
def crashStepPreFix : Relay → Relay × List Out := crashStep false

/-! ### the destination side of a forwarded connection

  connection.py `forward_connection` / `forward_unix_connection` (session factory of direct-tcpip,
  direct-streamlocal on the server and of forwarded-tcpip, forwarded-streamlocal on the client):
      _, peer = await self._loop.create_connection(SSHForwarder, dest_host, dest_port)   # socket-side half
      if self.is_closed(): peer.close(); raise ChannelOpenError(...)                     # the repair
      return SSHForwarder(peer)                                                          # channel-side half
  and channel.py `_finish_open_request`, resumed in the same task step: `if not self._conn: raise
  ChannelOpenError` (the new session is dropped), else `session.connection_made(chan)`.  The environment
  decides whether the SSH connection is still there when the connect completes (`connAlive`). -/
def destOpen (fix : Bool) (connAlive : Bool) : Relay × List Out :=
  let s1 : Fwd := { tr := true, peer := true }
  if connAlive then ({ s := s1, c := { tr := true, peer := true }, phase := .linked }, [])
  else if fix then
    -- `peer.close()` on the socket-side half, which has no peer yet; the channel-side half is never made
    ({ s := {}, c := {}, phase := .failed }, [.close .sock])
  else
    -- `SSHForwarder(peer)` links the two halves, `_finish_open_request` drops the new half without ever
    -- giving it a transport: nothing refers to the pair any more except the socket's own transport
    ({ s := s1, c := { peer := true }, phase := .failed }, [])

/-- the code before the repair -/
def destOpenPreFix : Bool → Relay × List Out := destOpen false

def run (v : Variant) : Relay → List Ev → Relay × List Out
  | r, [] => (r, [])
  | r, e :: es =>
    let (r1, o1) := step v r e
    let (r2, o2) := run v r1 es
    (r2, o1 ++ o2)

/-- The contract of the two transports (asyncio selector transports, `SSHChannel`): data and EOF are
    delivered only while the protocol still holds the transport and before EOF; `connection_lost` is called
    once; `pause_writing`/`resume_writing` come from a live transport; the open completes once. -/
def legal (r : Relay) : Ev → Bool
  | .data x _ => (r.get x).tr && !(r.get x).eof
  | .eof x => (r.get x).tr && !(r.get x).eof
  | .lost x => r.has x && !(r.get x).gone
  | .pauseW x => (r.get x).tr
  | .resumeW x => (r.get x).tr
  | .confirm => r.phase == .opening
  | .fail => r.phase == .opening

def legalRun (v : Variant) : Relay → List Ev → Bool
  | _, [] => true
  | r, e :: es => legal r e && legalRun v (step v r e).1 es

/-! observations -/

/-- bytes written to transport `x`, in order -/
def sent (x : Side) : List Out → Bytes
  | [] => []
  | .write y d :: r => if y = x then d ++ sent x r else sent x r
  | _ :: r => sent x r

/-- bytes that arrived from transport `x`, in order -/
def recvd (x : Side) : List Ev → Bytes
  | [] => []
  | .data y d :: r => if y = x then d ++ recvd x r else recvd x r
  | _ :: r => recvd x r

def eofOut (x : Side) (o : List Out) : Bool := o.contains (.writeEof x)
def closeOut (x : Side) (o : List Out) : Bool := o.contains (.close x)
def eofIn (x : Side) (e : List Ev) : Bool := e.contains (.eof x)
def lostIn (x : Side) (e : List Ev) : Bool := e.contains (.lost x)

/-! ## Part 2: the server's permission decision

  Code mirrored: asyncssh/connection.py
    * `_process_direct_tcpip_open`                                   (direct-tcpip)
    * `_process_tcpip_forward_global_request` + `_finish_port_forward` (tcpip-forward)
    * `_process_direct_streamlocal_at_openssh_dot_com_open`           (direct-streamlocal@openssh.com)
    * `_process_streamlocal_forward_at_openssh_dot_com_global_request` + `_finish_path_forward`
    * `check_key_permission`, `check_certificate_permission`, `get_key_option`
    * asyncssh/auth_keys.py `_add_permitopen`
-/

inductive ReqKind where
  | directTcpip | tcpipForward | directStreamlocal | streamlocalForward
  deriving DecidableEq, Repr

/-- the authorized_keys options that matter: `no-port-forwarding` present, and the `permitopen` set of
    (host, port) pairs with `none` for the port wildcard `*` (empty = option absent) -/
structure KeyOpts where
  noPortForwarding : Bool := false
  permitopen : List (Bytes × Option Nat) := []
  deriving DecidableEq, Repr

/-- options of the OpenSSH user certificate used to authenticate (`_cert_options`, the decoded critical options
    and extensions; an extension is stored only when granted): whether `permit-port-forwarding` is among
    them, and whether anything else is (other permits, force-command, source-address).  A certificate that
    grants nothing and restricts nothing decodes to the EMPTY dictionary: both fields false. -/
structure CertOpts where
  permitPortForwarding : Bool
  other : Bool := true
  deriving DecidableEq, Repr

/-- the dictionary is non-empty (its Python truth value) -/
def CertOpts.truthy (c : CertOpts) : Bool := c.permitPortForwarding || c.other

/-- how the two permission lookups read the options, regenerated from their source (`Gen/C20.lean`):
      check_key_permission:          `return not self._key_options.get('no-' + p, <keyDefault>)`
      check_certificate_permission:  `if <guard on self._cert_options>: return self._cert_options.get('permit-' + p,
                                      <certDefault>)  else: return <certAbsent>` -/
structure Lookup where
  keyRevokes : Bool      -- the key lookup is negated (`not ...get(...)`): the `no-` option revokes
  keyDefault : Bool      -- default of the key lookup
  certPresence : Bool    -- the certificate guard is the presence test `is not None` (false: a truth-value test)
  certDefault : Bool     -- default of the certificate lookup
  certAbsent : Bool      -- answer when the guard does not hold
  deriving DecidableEq, Repr

/-- destination of a direct open / address of a listen request (UNIX: the path, port 0) -/
structure Dest where
  host : Bytes
  port : Nat
  deriving DecidableEq, Repr

/-- which checks the handler of a request kind performs (regenerated from the source by the translator:
    `Gen/C20.lean`), in the order key permission, certificate permission, permitopen -/
structure Checks where
  key : Bool
  cert : Bool
  permitopen : Bool
  maxPort : Option Nat      -- `if <port> > N: <deny>` ahead of the credential checks: the largest port served
  pathNul : Bool            -- `if '\0' in path and not path.startswith('\0'): <deny>` ahead of them
  deriving DecidableEq, Repr

/-- request kinds that name a TCP address (the others name a UNIX domain socket path) -/
def ReqKind.isTcp : ReqKind → Bool
  | .directTcpip | .tcpipForward => true
  | .directStreamlocal | .streamlocalForward => false

/-- `'\0' in dest_path and not dest_path.startswith('\0')`: a path name (as opposed to the name of an abstract
    socket, which begins with NUL and is used in full) with a NUL inside -/
def nulInPathName (p : Bytes) : Bool := p.contains 0 && p.head? != some 0

/-- the request names an address the socket layer can take literally (as far as the handler tests it) -/
def wellFormed (ch : Checks) (d : Dest) : Bool :=
  (match ch.maxPort with
   | none => true
   | some m => decide (d.port ≤ m)) && !(ch.pathNul && nulInPathName d.host)

/-- What the socket layer makes of the address in the request.  Ports are 32-bit numbers on the wire
    (`packet.get_uint32()`); `getaddrinfo` (glibc) reduces a numeric service below 2^31 modulo 2^16 (a larger
    one it refuses: nothing is made, which is no concern here).  The kernel reads the path name of a UNIX domain
    socket up to its first NUL (`connect`; abstract names are taken whole).  Compared with the socket layer of
    the machine on every run (correspondence leg `sockdest`). -/
def sockDest (kind : ReqKind) (d : Dest) : Dest :=
  if kind.isTcp then { d with port := d.port % 65536 }
  else if d.host.head? = some 0 then d
  else { d with host := d.host.takeWhile (· != 0) }

/-- `check_key_permission('port-forwarding')` as the source reads -/
def keyPermits (l : Lookup) (k : KeyOpts) : Bool :=
  let got := if k.noPortForwarding then true else l.keyDefault      -- `.get('no-port-forwarding', default)`
  if l.keyRevokes then !got else got

/-- `check_certificate_permission('port-forwarding')` as the source reads: the guard decides whether the
    certificate's options are consulted at all -/
def certPermits (l : Lookup) : Option CertOpts → Bool
  | none => l.certAbsent                                              -- `_cert_options is None`
  | some c =>
    if l.certPresence || c.truthy then
      (if c.permitPortForwarding then true else l.certDefault)        -- `.get('permit-port-forwarding', default)`
    else l.certAbsent

/-- the permitopen test of `_process_direct_tcpip_open`:
    `permitted_opens and (host, port) not in permitted_opens and (host, None) not in permitted_opens` denies -/
def permitopenAllows (k : KeyOpts) (d : Dest) : Bool :=
  k.permitopen.isEmpty || k.permitopen.contains (d.host, some d.port) || k.permitopen.contains (d.host, none)

/-- the credential's restrictions permit this request -/
def permittedBy (l : Lookup) (ch : Checks) (k : KeyOpts) (c : Option CertOpts) (d : Dest) : Bool :=
  (!ch.key || keyPermits l k) && (!ch.cert || certPermits l c) && (!ch.permitopen || permitopenAllows k d)

inductive Verdict where
  | created            -- channel opened / listener created and registered
  | prohibited         -- refused by the credential (OPEN_ADMINISTRATIVELY_PROHIBITED / request failure)
  | refusedByApp       -- the application's callback answered no (OPEN_CONNECT_FAILED / request failure)
  deriving DecidableEq, Repr

/-- decision and whether the application callback was consulted at all
    (`connection_requested`, `server_requested`, `unix_connection_requested`, `unix_server_requested`) -/
def decideReq (l : Lookup) (ch : Checks) (k : KeyOpts) (c : Option CertOpts) (d : Dest) (appSaysYes : Bool) :
    Verdict × Bool :=
  if !wellFormed ch d then (.prohibited, false)
  else if !permittedBy l ch k c d then (.prohibited, false)
  else if appSaysYes then (.created, true) else (.refusedByApp, true)

/-- the handlers before the repair: no test of the port range, no test for NUL in a path name -/
def checksPreFix (ch : Checks) : Checks := { ch with maxPort := none, pathNul := false }

def decideReqPreFix (l : Lookup) (ch : Checks) : KeyOpts → Option CertOpts → Dest → Bool → Verdict × Bool :=
  decideReq l (checksPreFix ch)

/-! `permitopen="host:port"` value parsing (auth_keys.py `_add_permitopen`):
    `host, port_str = value.rsplit(':', 1)`; brackets around the host are dropped; `*` is the wildcard;
    otherwise `int(port_str)`.  The model covers port strings made of ASCII digits with an optional sign
    and surrounding ASCII blanks (what `int()` accepts from this alphabet, underscores aside). -/

def colon : UInt8 := 58

/-- split at the last colon: (before, after) -/
def rsplitColon (v : Bytes) : Option (Bytes × Bytes) :=
  let rev := v.reverse
  let after := (rev.takeWhile (· != colon)).reverse
  match rev.dropWhile (· != colon) with
  | [] => none
  | _ :: before => some (before.reverse, after)

def isDigit (c : UInt8) : Bool := 48 ≤ c && c ≤ 57
def isBlank (c : UInt8) : Bool := c = 32 || (9 ≤ c && c ≤ 13) || (28 ≤ c && c ≤ 31)

def digitsVal : Bytes → Nat → Nat
  | [], acc => acc
  | c :: r, acc => digitsVal r (acc * 10 + (c.toNat - 48))

/-- Python `int(s)` for the modelled alphabet; `none` = ValueError -/
def pyInt (s : Bytes) : Option Int :=
  let t := ((s.dropWhile isBlank).reverse.dropWhile isBlank).reverse
  let (neg, ds) := match t with
    | 45 :: r => (true, r)
    | 43 :: r => (false, r)
    | r => (false, r)
  if ds.isEmpty || !ds.all isDigit then none
  else some (if neg then - (digitsVal ds 0 : Int) else (digitsVal ds 0 : Int))

inductive PermitPort where
  | any | port (n : Int)
  deriving DecidableEq, Repr

/-- `_add_permitopen`; `none` = ValueError('Illegal permitopen value') -/
def parsePermitopen (v : Bytes) : Option (Bytes × PermitPort) :=
  match rsplitColon v with
  | none => none
  | some (host, portStr) =>
    let host := if host.head? = some 91 && host.getLast? = some 93 && host.length ≥ 1
      then (host.drop 1).dropLast else host
    if portStr = [42] then some (host, .any)
    else match pyInt portStr with
      | some n => some (host, .port n)
      | none => none

/-! ## Part 3: the table of local listeners of a connection

  Code mirrored: asyncssh/connection.py `_local_listeners` (1020), `forward_local_port`/`forward_local_path`/
  `forward_socks` (register after `await create_*_listener`), `_finish_port_forward` (6454-6496),
  `_process_cancel_tcpip_forward_global_request` (6498-6522), `close_forward_listener` (3372-3375),
  `_cleanup` (1078-1079); asyncssh/listener.py `SSHForwardListener.close` (252-261).

  A listener is created by a task that awaits `getaddrinfo`/`create_server`; the connection can be cleaned up
  while that task is in flight.  `closeListener` of a listener whose table entry was overwritten (possible only
  before the duplicate-path repair) is not modelled: it leaves the state unchanged. -/

/-- key of `_local_listeners`: the tuple `(listen_host, listen_port)` of a TCP listener or the string
    `listen_path` of a UNIX one (never equal to each other in Python either) -/
inductive LKey where
  | tcp (host : Bytes) (port : Nat)
  | unix (path : Bytes)
  deriving DecidableEq, Repr

def LKey.isUnix : LKey → Bool
  | .tcp _ _ => false
  | .unix _ => true

/-- which repairs of the listener code the modelled tree contains -/
structure LVariant where
  fixRace : Bool    -- a listener whose creation completes after `_cleanup` is closed, not registered (F40)
  fixDup : Bool     -- a UNIX path already in the table is refused before anything is created
  deriving DecidableEq, Repr

def LVariant.asIs : LVariant := ⟨false, false⟩
def LVariant.fixed : LVariant := ⟨true, true⟩

structure LState where
  table : List (LKey × Nat) := []     -- `_local_listeners`: key -> listener id
  listening : List Nat := []          -- ids of listeners whose sockets are open
  pending : List (Nat × LKey) := []   -- listener-creation tasks in flight
  next : Nat := 0
  cleaned : Bool := false             -- `_cleanup` has run
  deriving DecidableEq, Repr

inductive LEv where
  | request (k : LKey) (granted : Bool)   -- forward request; `granted` = permission decision ∧ application
  | created (id : Nat)                     -- the creation task of listener `id` finishes (socket bound, registered)
  | createFailed (id : Nat)                -- the task ends with OSError
  | cancel (k : LKey)                      -- cancel-tcpip-forward / cancel-streamlocal-forward
  | closeListener (id : Nat)               -- the application calls `listener.close()`
  | cleanup                                -- `_cleanup` of the connection
  deriving DecidableEq, Repr

def tableErase (t : List (LKey × Nat)) (k : LKey) : List (LKey × Nat) := t.filter (·.1 != k)

def hasKey (t : List (LKey × Nat)) (k : LKey) : Bool := (t.find? (·.1 == k)).isSome

/-- `SSHForwardListener.close`: `conn.close_forward_listener(key)` pops the key, the servers are closed -/
def closeL (s : LState) (k : LKey) (id : Nat) : LState :=
  { s with table := tableErase s.table k, listening := s.listening.filter (· != id) }

def closeAll : List (LKey × Nat) → LState → LState
  | [], s => s
  | (k, id) :: r, s => closeAll r (closeL s k id)

def lstep (v : LVariant) (s : LState) : LEv → LState
  | .request k granted =>
    if !granted then s
    else if v.fixDup && k.isUnix && hasKey s.table k then
      -- repair (`forward_local_path`, `forward_local_path_to_port`): `if listen_path in self._local_listeners:
      -- raise OSError(EADDRINUSE)`: the creation task fails at once, before anything is created
      { s with next := s.next + 1 }
    else { s with pending := s.pending ++ [(s.next, k)], next := s.next + 1 }
  | .created id =>
    match s.pending.find? (·.1 == id) with
    | none => s
    | some (_, k) =>
      let s1 := { s with pending := s.pending.filter (·.1 != id) }
      if hasKey s.table k && !k.isUnix then s1      -- the TCP address is still bound by a listener of this
                                                    -- connection: `bind` fails (kernel), OSError path
      else if v.fixRace && s.cleaned then s1        -- repair: the connection is gone, close the new socket
      else
        -- `self._local_listeners[key] = listener`.  For a UNIX path still in the table this is reached too:
        -- asyncio's `create_unix_server` removes an existing socket file before it binds, so the second bind
        -- succeeds; the assignment overwrites the entry of the first listener, which keeps listening but is no
        -- longer known to the connection
        { s1 with table := (k, id) :: tableErase s1.table k, listening := id :: s1.listening }
  | .createFailed id => { s with pending := s.pending.filter (·.1 != id) }
  | .cancel k =>
    match s.table.find? (·.1 == k) with
    | none => s                                     -- ProtocolError('listener not found')
    | some (_, id) => closeL s k id
  | .closeListener id =>
    match s.table.find? (·.2 == id) with
    | none => s
    | some (k, _) => closeL s k id
  | .cleanup => { closeAll s.table s with cleaned := true }

def lrun (v : LVariant) : LState → List LEv → LState
  | s, [] => s
  | s, e :: es => lrun v (lstep v s e) es

/-- What the theorems about the table assume of a history.  Two creations for the same UNIX path are never in
    flight at once on one connection (the server works through global requests one at a time, connection.py
    `_service_next_global_request`; an application that calls `forward_local_path` twice concurrently for one path is
    outside the model).  For the code before the repair in addition: no request names a UNIX path that is already
    being forwarded (the repaired code refuses that request itself). -/
def llegal (v : LVariant) (s : LState) : LEv → Bool
  | .request k true =>
    !k.isUnix || (!(s.pending.any (·.2 == k)) && (v.fixDup || !hasKey s.table k))
  | _ => true

def llegalRun (v : LVariant) : LState → List LEv → Bool
  | _, [] => true
  | s, e :: es => llegal v s e && llegalRun v (lstep v s e) es

end AsyncsshModel.Forward
