import AsyncsshModel.Base.Path
/-
  C18 — lexical layer of the OpenSSH-style config reader of asyncssh (`asyncssh/config.py`):

  * `strip`, `lower`                       — `str.strip()`, `str.lower()` on ASCII text
  * `shlexSplit`                           — `shlex.split(line)` (POSIX mode, `whitespace_split`, no
                                             comment characters), CPython 3.12 `shlex.read_token`
  * `splitEq`                              — the `=` handling loop of `SSHConfig.parse` (config.py:421-443)
  * `pyInt`                                — `int(str)` on ASCII text
  * `wildMatch`, `patListMatches`          — `fnmatch` with `[`/`]` escaped (pattern.py `_BaseWildcardPattern`)
                                             and `_PatternList.matches`
  * `expandTokens`, `expandEnv`, `expandVal` — `_token_pattern.sub`, `_env_pattern.sub`, `_expand_val`
                                             (config.py:50-51, 119-150)
  * `UserPat`, `unsafeUser`                — `_unsafe_user_pattern.search` (config.py:52), the alternatives of
                                             the regex are regenerated from the source by the translator
  * `Kind`, `Table`                        — the option tables (`_handlers`, `_conditionals`, `_no_split`,
                                             `_percent_expand`), regenerated into `Gen/C18.lean`

  Text is modelled as UTF-8 bytes.  Every character that is special to the code is ASCII, so a byte model
  agrees with the `str` code on valid UTF-8 provided the text has no non-ASCII whitespace / cased letters
  (assumption recorded in the harness module).
-/
namespace AsyncsshModel.Config
open AsyncsshModel

/-! ### errors, characters -/

/-- exception classes that can leave `SSHConfig.load` -/
inductive Err
  | parse        -- ConfigParseError (`_error`, invalid token / environment expansion)
  | index        -- IndexError (`match[0]` on an empty criterion, `args.pop(0)` for a line starting with `=`)
  | illegalUser  -- IllegalUserName (unsafe user name in a server config)
  | depth        -- include nesting exhausted the fuel (RecursionError in CPython)
  | io           -- a top-level config file does not exist
  deriving DecidableEq, Repr

deriving instance DecidableEq for Except

def chPct : UInt8 := 37      -- '%'
def chDollar : UInt8 := 36   -- '$'
def chLBrace : UInt8 := 123  -- '{'
def chRBrace : UInt8 := 125  -- '}'
def chNl : UInt8 := 10       -- '\n'
def chEq : UInt8 := 61       -- '='
def chBang : UInt8 := 33     -- '!'
def chComma : UInt8 := 44    -- ','
def chHash : UInt8 := 35     -- '#'
def chBackslash : UInt8 := 92
def chSQuote : UInt8 := 39
def chDQuote : UInt8 := 34
def chStar : UInt8 := 42
def chQuest : UInt8 := 63
def chTilde : UInt8 := 126

/-- `str.lower()` restricted to ASCII -/
def lowerByte (c : UInt8) : UInt8 := if 65 ≤ c ∧ c ≤ 90 then c + 32 else c
def lower (s : Bytes) : Bytes := s.map lowerByte

/-- ASCII characters removed by `str.strip()`: TAB LF VT FF CR FS GS RS US SPACE -/
def isPyWs (c : UInt8) : Bool := (9 ≤ c ∧ c ≤ 13) ∨ (28 ≤ c ∧ c ≤ 32)

def lstrip (s : Bytes) : Bytes := s.dropWhile isPyWs
def rstrip (s : Bytes) : Bytes := (s.reverse.dropWhile isPyWs).reverse
def strip (s : Bytes) : Bytes := rstrip (lstrip s)

/-- `bytes.split(sep)` for a one-byte separator -/
def splitOn (sep : UInt8) : Bytes → List Bytes
  | [] => [[]]
  | c :: cs =>
    if c = sep then [] :: splitOn sep cs
    else match splitOn sep cs with
      | [] => [[c]]
      | h :: t => (c :: h) :: t

def joinWith (sep : Bytes) : List Bytes → Bytes
  | [] => []
  | [a] => a
  | a :: rest => a ++ sep ++ joinWith sep rest

/-! ### `shlex.split` -/

/-- states of `shlex.read_token` that occur in POSIX mode with `whitespace_split`:
    `' '`, `'a'`, `"'"`, `'"'`, and the escape state with `escapedstate` `'a'` resp. `'"'` -/
inductive ShState
  | sp | word | sq | dq | escW | escD
  deriving DecidableEq, Repr

/-- `shlex.whitespace` -/
def isShWs (c : UInt8) : Bool := c = 32 ∨ c = 9 ∨ c = 13 ∨ c = 10

def emitTok (acc : List Bytes) (tok : Bytes) (quoted : Bool) : List Bytes :=
  if tok ≠ [] ∨ quoted then acc ++ [tok] else acc

/-- the token loop of `shlex.shlex` over the remaining characters -/
def shlexGo : ShState → Bytes → Bool → List Bytes → Bytes → Except Err (List Bytes)
  | .sp, _, _, acc, [] => .ok acc
  | .word, tok, q, acc, [] => .ok (emitTok acc tok q)
  | .sq, _, _, _, [] => .error .parse              -- "No closing quotation"
  | .dq, _, _, _, [] => .error .parse
  | .escW, _, _, _, [] => .error .parse            -- "No escaped character"
  | .escD, _, _, _, [] => .error .parse
  | .sp, tok, q, acc, c :: cs =>
    if isShWs c then shlexGo .sp tok q acc cs
    else if c = chBackslash then shlexGo .escW [] false acc cs
    else if c = chSQuote then shlexGo .sq [] false acc cs
    else if c = chDQuote then shlexGo .dq [] false acc cs
    else shlexGo .word [c] false acc cs
  | .word, tok, q, acc, c :: cs =>
    if isShWs c then shlexGo .sp [] false (emitTok acc tok q) cs
    else if c = chSQuote then shlexGo .sq tok q acc cs
    else if c = chDQuote then shlexGo .dq tok q acc cs
    else if c = chBackslash then shlexGo .escW tok q acc cs
    else shlexGo .word (tok ++ [c]) q acc cs
  | .sq, tok, _, acc, c :: cs =>
    if c = chSQuote then shlexGo .word tok true acc cs
    else shlexGo .sq (tok ++ [c]) true acc cs
  | .dq, tok, _, acc, c :: cs =>
    if c = chDQuote then shlexGo .word tok true acc cs
    else if c = chBackslash then shlexGo .escD tok true acc cs
    else shlexGo .dq (tok ++ [c]) true acc cs
  | .escW, tok, q, acc, c :: cs => shlexGo .word (tok ++ [c]) q acc cs
  | .escD, tok, _, acc, c :: cs =>
    if c ≠ chBackslash ∧ c ≠ chDQuote then shlexGo .dq (tok ++ [chBackslash, c]) true acc cs
    else shlexGo .dq (tok ++ [c]) true acc cs

/-- `shlex.split(line)` -/
def shlexSplit (line : Bytes) : Except Err (List Bytes) := shlexGo .sp [] false [] line

/-! ### the `=` handling of `SSHConfig.parse` -/

/-- `arg.split('=', 1)` when `'=' in arg` -/
def splitFirstEq : Bytes → Option (Bytes × Bytes)
  | [] => none
  | c :: cs =>
    if c = chEq then some ([], cs)
    else match splitFirstEq cs with
      | some (a, b) => some (c :: a, b)
      | none => none

/-- loop body of config.py:425-443.  `first` is `i == 1`; returns `(loption, args)` -/
def splitEqGo (conds : List Bytes) : Bool → Bool → Bytes → List Bytes → List Bytes → Except Err (Bytes × List Bytes)
  | _, _, lopt, args, [] => .ok (lopt, args)
  | first, allowEq, lopt, args, arg :: rest =>
    if arg.head? = some chEq then
      let args' := if arg.length > 1 then args ++ [arg.tail] else args
      if first then
        match args' with
        | [] => .error .index
        | a :: r => splitEqGo conds false (conds.contains (lower a)) (lower a) r rest
      else splitEqGo conds false allowEq lopt args' rest
    else if !allowEq then .ok (lopt, args ++ arg :: rest)
    else
      let args' :=
        if arg.getLast? = some chEq then args ++ [arg.dropLast]
        else match splitFirstEq arg with
          | some (a, b) => args ++ [a, b]
          | none => args ++ [arg]
      if first then
        match args' with
        | [] => .error .index
        | a :: r => splitEqGo conds false (conds.contains (lower a)) (lower a) r rest
      else splitEqGo conds false allowEq lopt args' rest

def splitEq (conds : List Bytes) (splitArgs : List Bytes) : Except Err (Bytes × List Bytes) :=
  splitEqGo conds true true [] [] splitArgs

/-! ### `int(str)` -/

def isDigit (c : UInt8) : Bool := 48 ≤ c ∧ c ≤ 57

/-- digits with single underscores between them; `prevDigit` says whether the previous char was a digit -/
def pyDigits : Bool → Nat → Bytes → Option Nat
  | prev, acc, [] => if prev then some acc else none
  | prev, acc, c :: cs =>
    if isDigit c then pyDigits true (acc * 10 + (c.toNat - 48)) cs
    else if c = 95 ∧ prev then
      match cs with
      | d :: _ => if isDigit d then pyDigits false acc cs else none
      | [] => none
    else none

/-- whitespace skipped by `int()` around an ASCII literal (C `isspace`): TAB LF VT FF CR SPACE -/
def isIntWs (c : UInt8) : Bool := (9 ≤ c ∧ c ≤ 13) ∨ c = 32

/-- `int(s)` for ASCII `s`; `none` = ValueError -/
def pyInt (s : Bytes) : Option Int :=
  match ((s.dropWhile isIntWs).reverse.dropWhile isIntWs).reverse with
  | [] => none
  | c :: cs =>
    if c = 45 then (pyDigits false 0 cs).map (fun n => -(n : Int))
    else if c = 43 then (pyDigits false 0 cs).map (fun n => (n : Int))
    else (pyDigits false 0 (c :: cs)).map (fun n => (n : Int))

/-! ### wildcard patterns -/

/-- UTF-8 continuation byte -/
def isCont (c : UInt8) : Bool := 128 ≤ c ∧ c < 192

/-- does `f` accept some suffix of the string that starts at a character boundary (the `*` of a glob) -/
def starAny (f : Bytes → Bool) : Bytes → Bool
  | [] => f []
  | c :: cs => (!isCont c && f (c :: cs)) || starAny f cs

/-- `fnmatch.fnmatch(value, pattern)` for a pattern in which only `*` and `?` are special
    (`_BaseWildcardPattern` escapes `[` and `]`); arguments: pattern, value.  The value is UTF-8 text and
    `?` stands for one character, i.e. a lead byte with its continuation bytes. -/
def wildMatch : Bytes → Bytes → Bool
  | [], s => s.isEmpty
  | p :: ps, s =>
    if p = chStar then starAny (wildMatch ps) s
    else match s with
      | [] => false
      | c :: ss => if p = chQuest then wildMatch ps (ss.dropWhile isCont) else p = c && wildMatch ps ss

/-- positive / negative patterns of `_PatternList.__init__` -/
def patPos (pats : Bytes) : List Bytes := (splitOn chComma pats).filter (fun p => p.head? ≠ some chBang)
def patNeg (pats : Bytes) : List Bytes :=
  ((splitOn chComma pats).filter (fun p => p.head? = some chBang)).map List.tail

/-- `WildcardPatternList(pats).matches(value)` -/
def patListMatches (pats value : Bytes) : Bool :=
  (patPos pats).any (fun p => wildMatch p value) && !(patNeg pats).any (fun p => wildMatch p value)

/-- `WildcardPatternList(list_of_patterns).matches(value)`: the patterns are given one by one (a `Host` line's
    whitespace-separated arguments; a comma is an ordinary character there, as in OpenSSH) -/
def patListMatchesL (pats : List Bytes) (value : Bytes) : Bool :=
  (pats.filter (fun p => p.head? ≠ some chBang)).any (fun p => wildMatch p value) &&
  !((pats.filter (fun p => p.head? = some chBang)).map List.tail).any (fun p => wildMatch p value)

/-- `HostPatternList(pats).matches(None, addr, ip)` for patterns that are not CIDR networks:
    `WildcardHostPattern.matches` requires a non-empty address -/
def hostPatListMatches (pats addr : Bytes) : Bool :=
  !addr.isEmpty && patListMatches pats addr

/-! ### percent-token and environment expansion -/

abbrev Tokens := List (UInt8 × Bytes)

def tokLookup (toks : Tokens) (c : UInt8) : Option Bytes := (toks.find? (fun p => p.1 = c)).map (·.2)

/-- `_token_pattern.sub(self._expand_token, value)` with `_token_pattern = %(.)`:
    left to right, `%` followed by any character except a newline is a token reference; the
    replacement text is not scanned again. -/
def expandTokens (toks : Tokens) : Bytes → Except Err Bytes
  | [] => .ok []
  | [c] => .ok [c]
  | c :: d :: rest =>
    if c = chPct ∧ d ≠ chNl then
      match tokLookup toks d with
      | none => .error .parse
      | some v => (expandTokens toks rest).map (v ++ ·)
    else (expandTokens toks (d :: rest)).map (c :: ·)

/-- the text up to the first `}` if no newline comes before it: the `(.*?)}` of `_env_pattern` -/
def envName : Bytes → Option (Bytes × Bytes)
  | [] => none
  | c :: cs =>
    if c = chRBrace then some ([], cs)
    else if c = chNl then none
    else match envName cs with
      | some (n, r) => some (c :: n, r)
      | none => none

theorem envName_length {s n r : Bytes} (h : envName s = some (n, r)) : r.length < s.length := by
  induction s generalizing n r with
  | nil => simp [envName] at h
  | cons c cs ih =>
    unfold envName at h
    split at h
    · simp at h; rw [← h.2]; simp
    · split at h
      · simp at h
      · split at h
        · rename_i n' r' heq
          simp at h
          have := ih heq
          rw [← h.2]; simp; omega
        · simp at h

def envLookup (environ : List (Bytes × Bytes)) (n : Bytes) : Option Bytes :=
  (environ.find? (fun p => p.1 = n)).map (·.2)

/-- `_env_pattern.sub(self._expand_env, value)` with `_env_pattern = \${(.*?)}`, by recursion on a fuel
    that bounds the number of remaining characters: at `${`, if a `}` follows with no newline in between,
    the reference is replaced by the variable (unknown variable: ConfigParseError) and scanning resumes
    after the `}`; the replacement text is not scanned again. -/
def expandEnvF (environ : List (Bytes × Bytes)) : Nat → Bytes → Except Err Bytes
  | 0, s => .ok s
  | _ + 1, [] => .ok []
  | _ + 1, [c] => .ok [c]
  | f + 1, c :: d :: rest =>
    if c = chDollar ∧ d = chLBrace then
      match envName rest with
      | some (n, r) =>
        match envLookup environ n with
        | none => .error .parse
        | some v => (expandEnvF environ f r).map (v ++ ·)
      | none => (expandEnvF environ f (d :: rest)).map (c :: ·)
    else (expandEnvF environ f (d :: rest)).map (c :: ·)

def expandEnv (environ : List (Bytes × Bytes)) (s : Bytes) : Except Err Bytes :=
  expandEnvF environ (s.length + 1) s

/-- `SSHConfig._expand_val`: environment expansion applied to the result of token expansion -/
def expandVal (toks : Tokens) (environ : List (Bytes × Bytes)) (s : Bytes) : Except Err Bytes :=
  match expandTokens toks s with
  | .error e => .error e
  | .ok t => expandEnv environ t

/-! ### unsafe user names (server side `%u`) -/

/-- the shapes of alternatives that occur in `_unsafe_user_pattern`; the translator maps each
    alternative of the regular expression in the source to one of them (and refuses anything else) -/
inductive UserPat
  | exact (s : Bytes)                                    -- `^s$`
  | prefixLit (s : Bytes)                                -- `^s`
  | prefixClassLit (ranges : List (UInt8 × UInt8)) (s : Bytes)   -- `^[a-b...]s`
  | containsAny (cs : List UInt8)                        -- `[cs]`
  | containsSpan (o c : Bytes)                           -- `o.*?c`
  deriving DecidableEq, Repr

/-- `c` occurs later with no newline in between (`.*?c`) -/
def spanClose (c : Bytes) : Bytes → Bool
  | [] => c.isEmpty
  | x :: xs => c.isPrefixOf (x :: xs) || (x != chNl && spanClose c xs)

/-- some suffix starts with `o` and continues with `.*?c` -/
def hasSpan (o c : Bytes) : Bytes → Bool
  | [] => o.isEmpty && c.isEmpty
  | x :: xs => (o.isPrefixOf (x :: xs) && spanClose c ((x :: xs).drop o.length)) || hasSpan o c xs

def inRanges (rs : List (UInt8 × UInt8)) (c : UInt8) : Bool := rs.any (fun r => r.1 ≤ c && c ≤ r.2)

/-- `re.search` of one alternative (no `re.MULTILINE`: `^` is the start of the string, `$` is the end
    of the string or just before a final newline) -/
def UserPat.matches (u : Bytes) : UserPat → Bool
  | .exact s => u = s || u = s ++ [chNl]
  | .prefixLit s => s.isPrefixOf u
  | .prefixClassLit rs s =>
    match u with
    | [] => false
    | c :: rest => inRanges rs c && s.isPrefixOf rest
  | .containsAny cs => u.any (fun c => cs.contains c)
  | .containsSpan o c => hasSpan o c u

/-- `_unsafe_user_pattern.search(user)` is not `None` -/
def unsafeUser (alts : List UserPat) (u : Bytes) : Bool := alts.any (fun a => a.matches u)

/-! ### option tables -/

/-- handler functions of `SSHConfig` / `SSHClientConfig` -/
inductive Kind
  | matchHost | matchBlock | includeFile
  | setBool | setBoolOrStr | setInt | setString | appendString | setStringList | appendStringList
  | setAddressFamily | setCanonicalizeHost | setRekeyLimits | setHostname | setRequestTty
  deriving DecidableEq, Repr

/-- setters that store a value only when the option is not set yet -/
def Kind.isScalar : Kind → Bool
  | .setBool | .setBoolOrStr | .setInt | .setString | .setStringList | .setAddressFamily
  | .setCanonicalizeHost | .setRekeyLimits | .setHostname | .setRequestTty => true
  | _ => false

/-- setters that extend a list -/
def Kind.isAppend : Kind → Bool
  | .appendString | .appendStringList => true
  | _ => false

/-- class-level tables of a config class -/
structure Table where
  server : Bool
  handlers : List (Bytes × (Bytes × Kind))    -- `_handlers`: lower-case name ↦ (option name, handler)
  conditionals : List Bytes                   -- `_conditionals`
  noSplit : List Bytes                        -- `_no_split`
  percentExpand : List Bytes                  -- `_percent_expand`
  unsafeUserAlts : List UserPat               -- alternatives of `_unsafe_user_pattern`

def Table.handler (t : Table) (lopt : Bytes) : Option (Bytes × Kind) :=
  (t.handlers.find? (fun p => p.1 = lopt)).map (·.2)

end AsyncsshModel.Config
