import AsyncsshModel.Model.Transport
import AsyncsshModel.Model.HostileWire
import AsyncsshModel.Gen.C10
/-
  C10 — work done per chunk: the generic handler loop, the packet receive loop with a step counter, the
  channel-open parameter handling and the send loop.

    generic loop   : `while self._inpbuf and self._recv_handler(): pass`       (connection.py:1558)
    receive loop   : the `drain` of Model/Transport.lean, here with the number of handler invocations
    channel open   : `_process_channel_open` / `_process_channel_open_confirmation` (connection.py:2718-2783),
                     guards as generated in Gen/C10.lean
    send loop      : `SSHChannel._flush_send_buf` (channel.py:305-335)
-/
namespace AsyncsshModel.Hostile
open AsyncsshModel

/-! ### the generic handler loop -/

/-- A receive handler in the abstract: from a state and a non-empty buffer it either declines (`none`: needs
    more bytes, or the connection is closing) or consumes at least one byte and emits at most `emits` packets. -/
structure Handler (σ Out : Type) where
  step : σ → Bytes → Option (σ × Bytes × List Out)
  emits : Nat
  consumes : ∀ s b s' b' o, step s b = some (s', b', o) → b'.length < b.length
  bounded : ∀ s b s' b' o, step s b = some (s', b', o) → o.length ≤ emits

/-- `while buf and handler(): pass` — state, unread bytes, everything emitted, number of successful dispatches.
    Well-founded recursion on the buffer length; `consumes` is the termination proof. -/
def Handler.run {σ Out : Type} (h : Handler σ Out) (s : σ) (b : Bytes) : σ × Bytes × List Out × Nat :=
  if b.isEmpty then (s, b, [], 0)
  else
    match hs : h.step s b with
    | none => (s, b, [], 0)
    | some (s', b', o) =>
      let r := h.run s' b'
      (r.1, r.2.1, o ++ r.2.2.1, r.2.2.2 + 1)
termination_by b.length
decreasing_by exact h.consumes _ _ _ _ _ hs

/-! ### the packet receive loop, counting handler invocations -/

open Transport in
/-- number of `_recv_handler()` calls made by `drain` (successful ones plus the final declining one) -/
def drainSteps (p : Params) (sh : Shim) (enc : Bool) : Nat → RState → Nat
  | 0, _ => 0
  | fuel + 1, st =>
    if st.buf.isEmpty then 0
    else
      match stepOnce p sh enc st with
      | none => 1
      | some (st', _) => 1 + drainSteps p sh enc fuel st'

/-! ### dispatch of a synchronous handler -/

/-- what `_recv_packet` does with a handler that only decodes its payload with getters
    (connection.py:1715-1719): `except PacketDecodeError as exc: raise ProtocolError(str(exc))`, which `_recv_data`
    turns into a DISCONNECT and a close reported to the owner as `ProtocolError` -/
inductive Dispatch where
  | carriesOn
  | closeProtocolError
  deriving Repr, DecidableEq

def syncDispatch (schema : List FieldTy) (payload : Bytes) : Dispatch :=
  match decodeFields schema payload with
  | .error _ => .closeProtocolError
  | .ok _ => .carriesOn

/-! ### channel-open parameters -/

inductive OpenOutcome where
  | accept (pktsize : Int)      -- channel opened with this `_send_pktsize`
  | protocolError               -- clean close of the connection
  deriving Repr, DecidableEq

/-- `send_pktsize` as stored by `process_open` after `_process_channel_open` (advertised value, dropbear
    work-around, zero check as generated) -/
def openPktsize (advertised : Nat) (dropbear : Bool) : OpenOutcome :=
  if !Gen.C10.openGuardAfterAdjust && Gen.C10.openRejectsPktsize advertised then .protocolError
  else
    let p : Int := if dropbear then (advertised : Int) - 1 else advertised
    if Gen.C10.openGuardAfterAdjust && Gen.C10.openRejectsPktsize p then .protocolError else .accept p

/-- the same for `_process_channel_open_confirmation` -/
def confirmPktsize (advertised : Nat) (dropbear : Bool) : OpenOutcome :=
  if !Gen.C10.confirmGuardAfterAdjust && Gen.C10.confirmRejectsPktsize advertised then .protocolError
  else
    let p : Int := if dropbear then (advertised : Int) - 1 else advertised
    if Gen.C10.confirmGuardAfterAdjust && Gen.C10.confirmRejectsPktsize p then .protocolError else .accept p

/-- the send loop leaves when no byte can be sent (the generated break covers every non-positive size) -/
def sendLoopGuarded : Bool := Gen.C10.flushBreaks 0 && Gen.C10.flushBreaks (-1)

/-- both open paths end in a positive `_send_pktsize` or a protocol error -/
def openSafe : Bool :=
  Gen.C10.openGuardAfterAdjust && Gen.C10.openRejectsPktsize 0 && Gen.C10.openRejectsPktsize (-1) &&
  Gen.C10.confirmGuardAfterAdjust && Gen.C10.confirmRejectsPktsize 0 && Gen.C10.confirmRejectsPktsize (-1)

/-- `_process_data`: what a DATA packet of `datalen` bytes does to a channel with receive window `window` of which
    `buffered` bytes are already held for a paused reader -/
inductive DataOutcome where
  | deliver
  | protocolError
  deriving Repr, DecidableEq

def processData (datalen window buffered : Nat) : DataOutcome :=
  if Gen.C10.windowExceeded datalen window buffered then .protocolError else .deliver

/-- `_process_window_adjust`: Python integers do not wrap -/
def windowAdjust (window adjust : Nat) : Nat := window + adjust

/-! ### the send loop -/

structure SendSt where
  bufs : List Bytes       -- `_send_buf` (datatype dropped)
  window : Int            -- `_send_window`
  maxpkt : Int            -- `_send_pktsize`
  deriving Repr

/-- one iteration of `while self._send_buf and self._send_window:`; `none` = the loop is left (condition false,
    or the generated `break` on the packet size) -/
def flushIter (st : SendSt) : Option (SendSt × Bytes) :=
  match st.bufs with
  | [] => none
  | buf :: rest =>
    if st.window = 0 then none
    else
      let pktsize := Gen.C10.flushPktsize st.window st.maxpkt
      if Gen.C10.flushBreaks pktsize then none        -- `if pktsize <= 0: break`, where the tree has it
      else if (buf.length : Int) > pktsize then
        let data := pyTake buf pktsize
        some ({ st with bufs := pyDrop buf pktsize :: rest, window := st.window - data.length }, data)
      else
        some ({ st with bufs := rest, window := st.window - buf.length }, buf)

/-- the loop with fuel: final state, DATA packets sent, `true` iff the loop condition became false -/
def flushLoop : Nat → SendSt → SendSt × List Bytes × Bool
  | 0, st => (st, [], (flushIter st).isNone)
  | fuel + 1, st =>
    match flushIter st with
    | none => (st, [], true)
    | some (st', d) =>
      let r := flushLoop fuel st'
      (r.1, d :: r.2.1, r.2.2)

/-- bytes queued plus number of queue entries: the measure of the send loop -/
def sendMeasure : List Bytes → Nat
  | [] => 0
  | b :: bs => b.length + 1 + sendMeasure bs

end AsyncsshModel.Hostile
