import AsyncsshModel.Base.Hex
/-
  Wire primitives used by the SFTP layer (asyncssh/packet.py): `Byte`, `UInt32`, `UInt64`, `String`
  and `SSHPacket.get_byte/get_uint32/get_uint64/get_string/get_boolean/check_end`, over `Bytes`.

  Encoders are total (big-endian, value taken modulo the field width) and come with the range predicate
  under which Python's `int.to_bytes` does not raise `OverflowError`; the SFTP model only calls them under
  that predicate (see `SftpAttrs.Encodable`).  Decoders return `Except`: `DecErr.short` is
  `PacketDecodeError('Incomplete packet')`.
-/
namespace AsyncsshModel.Sftp

/-- what a decoder can raise (asyncssh/sftp.py `SFTPAttrs.decode`, asyncssh/packet.py) -/
inductive DecErr where
  | short                 -- PacketDecodeError: Incomplete packet
  | trailing              -- PacketDecodeError: Unexpected data at end of packet (check_end)
  | badFlags (bits : Nat) -- SFTPBadMessage: Unsupported attribute flags
  | badMime               -- SFTPBadMessage: Invalid MIME type
  | ownerInvalid          -- SFTPOwnerInvalid
  | groupInvalid          -- SFTPGroupInvalid
  deriving Repr, DecidableEq

deriving instance DecidableEq for Except

abbrev P (α : Type) := Bytes → Except DecErr (α × Bytes)

def b8 (n : Nat) : UInt8 := UInt8.ofNat n

/-- `Byte(n)` -/
def putU8 (n : Nat) : Bytes := [b8 n]
/-- `UInt32(n)` -/
def putU32 (n : Nat) : Bytes := [b8 (n / 2^24), b8 (n / 2^16), b8 (n / 2^8), b8 n]
/-- `UInt64(n)` -/
def putU64 (n : Nat) : Bytes :=
  [b8 (n / 2^56), b8 (n / 2^48), b8 (n / 2^40), b8 (n / 2^32), b8 (n / 2^24), b8 (n / 2^16), b8 (n / 2^8), b8 n]
/-- `String(b)` for a byte string -/
def putStr (b : Bytes) : Bytes := putU32 b.length ++ b
/-- `Boolean(x)` -/
def putBool (x : Bool) : Bytes := [if x then 1 else 0]

/-- `get_byte` -/
def getU8 : P Nat
  | a :: r => .ok (a.toNat, r)
  | [] => .error .short

/-- `get_uint32` -/
def getU32 : P Nat
  | a :: b :: c :: d :: r => .ok (a.toNat * 2^24 + b.toNat * 2^16 + c.toNat * 2^8 + d.toNat, r)
  | _ => .error .short

/-- `get_uint64` -/
def getU64 : P Nat
  | a :: b :: c :: d :: e :: f :: g :: h :: r =>
    .ok (a.toNat * 2^56 + b.toNat * 2^48 + c.toNat * 2^40 + d.toNat * 2^32 +
         e.toNat * 2^24 + f.toNat * 2^16 + g.toNat * 2^8 + h.toNat, r)
  | _ => .error .short

/-- `get_string`: a uint32 length, then that many bytes -/
def getStr : P Bytes := fun inp =>
  match getU32 inp with
  | .error e => .error e
  | .ok (n, r) => if n ≤ r.length then .ok (r.take n, r.drop n) else .error .short

/-- `get_boolean` = `bool(get_byte())` -/
def getBool : P Bool := fun inp =>
  match getU8 inp with
  | .error e => .error e
  | .ok (n, r) => .ok (n != 0, r)

/-- `check_end` -/
def checkEnd (inp : Bytes) : Except DecErr Unit :=
  if inp.isEmpty then .ok () else .error .trailing

/-! ### strict UTF-8 validity (what `bytes.decode('utf-8')` accepts): Unicode Table 3-7 as a DFA -/

inductive U8State where
  | start
  | t1            -- one continuation byte 80..BF expected
  | t2            -- two continuation bytes expected
  | t2lo          -- after E0: A0..BF then t1
  | t2hi          -- after ED: 80..9F then t1
  | t3            -- three continuation bytes expected
  | t3lo          -- after F0: 90..BF then t2
  | t3hi          -- after F4: 80..8F then t2
  deriving DecidableEq, Repr

def u8Step (s : U8State) (b : UInt8) : Option U8State :=
  let n := b.toNat
  match s with
  | .start =>
    if n < 0x80 then some .start
    else if 0xC2 ≤ n ∧ n ≤ 0xDF then some .t1
    else if n = 0xE0 then some .t2lo
    else if n = 0xED then some .t2hi
    else if 0xE1 ≤ n ∧ n ≤ 0xEF then some .t2
    else if n = 0xF0 then some .t3lo
    else if 0xF1 ≤ n ∧ n ≤ 0xF3 then some .t3
    else if n = 0xF4 then some .t3hi
    else none
  | .t1 => if 0x80 ≤ n ∧ n ≤ 0xBF then some .start else none
  | .t2 => if 0x80 ≤ n ∧ n ≤ 0xBF then some .t1 else none
  | .t2lo => if 0xA0 ≤ n ∧ n ≤ 0xBF then some .t1 else none
  | .t2hi => if 0x80 ≤ n ∧ n ≤ 0x9F then some .t1 else none
  | .t3 => if 0x80 ≤ n ∧ n ≤ 0xBF then some .t2 else none
  | .t3lo => if 0x90 ≤ n ∧ n ≤ 0xBF then some .t2 else none
  | .t3hi => if 0x80 ≤ n ∧ n ≤ 0x8F then some .t2 else none

def u8Run : U8State → Bytes → Option U8State
  | s, [] => some s
  | s, b :: r => match u8Step s b with
    | some s' => u8Run s' r
    | none => none

/-- `b.decode('utf-8')` succeeds -/
def validUtf8 (b : Bytes) : Bool := u8Run .start b == some .start

/-! ### bit tests on flag words -/

/-- Python `flags & f` used as a truth value -/
def hasFlag (flags f : Nat) : Bool := flags &&& f != 0

/-- Python `x & ~y` for non-negative `x`, `y`: the bits of `x` that are not in `y` -/
def andNot (x y : Nat) : Nat := x ^^^ (x &&& y)

/-- `flags |= f` when `c` -/
def flagIf (c : Bool) (f : Nat) : Nat := if c then f else 0

end AsyncsshModel.Sftp
