import AsyncsshModel.Base.Hex
/-
  C12 — executable model of asyncssh's parallel SFTP I/O (asyncssh/sftp.py).

  * `IO`, `startTasks`, `finish`, `endBatchIO`  mirror `_SFTPParallelIO` (`_start_tasks`, `iter`).
  * `GState`/`gstep`                             one scheduler + the buffer the blocks are stored into:
        reader  (`_SFTPFileReader.run`)   : buffer = the `bytearray` result, `pad = true`, base = start offset
        writer  (`_SFTPFileWriter`)       : buffer = the server-side file, base = 0 (see `wstep`)
        copier  (`_SFTPFileCopier`)       : buffer = the destination file, base = 0 (see `CState`/`cstep`)
  * `FObj`                                       mirrors `SFTPClientFile` offset tracking (read/write/seek/tell).

  The machine is nondeterministic through its *events*: the environment (server + asyncio) decides which
  outstanding request completes next, with how many bytes / EOF / an error, and where a batch returned by
  `asyncio.wait(..., FIRST_COMPLETED)` ends (`Ev.endBatch`).  Every batch of the real code is a sequence
  `complete … complete endBatch`; the model allows all such sequences (and more), so a statement proved for
  every event list covers every schedule of the real event loop.
-/
namespace AsyncsshModel.SftpIO
open AsyncsshModel

/-- one outstanding request: `_start_task(offset, size)` -/
structure Req where
  off : Nat
  size : Nat
deriving DecidableEq, Repr

/-- byte position `p` lies inside the requested range -/
def Req.covers (r : Req) (p : Nat) : Prop := r.off ≤ p ∧ p < r.off + r.size

/-- `_SFTPParallelIO` fields: `_offset`, `_bytes_left`, `_pending`, plus the `exceptions` list of the batch
    being processed (only its length matters), whether `iter()` has raised, and whether control is inside
    the loop over `done` (the `while self._pending` test is only evaluated between batches). -/
structure IO where
  off : Nat
  left : Nat
  pending : List Req
  excs : Nat
  raised : Bool
  mid : Bool        -- inside the `for task in done` loop (some completion processed, `_start_tasks` not yet run)
deriving Repr

/-- `size = min(self._bytes_left, self._block_size)` (sftp.py `_start_tasks`) -/
def blockSize (left bs : Nat) : Nat := min left bs

/-- `_start_tasks`: `while self._bytes_left and len(self._pending) < self._max_requests: …` -/
def startTasks (bs mr : Nat) (s : IO) : IO :=
  if s.left ≠ 0 ∧ s.pending.length < mr then
    startTasks bs mr { s with off := s.off + blockSize s.left bs,
                              left := s.left - blockSize s.left bs,
                              pending := s.pending ++ [⟨s.off, blockSize s.left bs⟩] }
  else s
termination_by mr - s.pending.length
decreasing_by simp only [List.length_append, List.length_cons, List.length_nil]; omega

/-- continuation rule of `iter`: `if count and count < size: _start_task(offset+count, size-count)` -/
def continuation (r : Req) (count : Nat) : List Req :=
  if count ≠ 0 ∧ count < r.size then [⟨r.off + count, r.size - count⟩] else []

/-- a task finished normally with `count` bytes -/
def finish (s : IO) (r : Req) (count : Nat) : IO :=
  { s with pending := s.pending.erase r ++ continuation r count }

/-- end of the `for task in done` loop: raise the first collected exception (cancelling the rest),
    otherwise `_start_tasks()` -/
def endBatchIO (bs mr : Nat) (s : IO) : IO :=
  if s.excs ≠ 0 then { s with raised := true, pending := [], mid := false }
  else { startTasks bs mr s with mid := false }

/-- `result[pos:pos+len(data)] = data` on a `bytearray`, preceded by zero padding when `pos > len(result)`
    (`_SFTPFileReader.run`); also `pwrite` of non-empty data on a POSIX file. -/
def writeAt (buf : Bytes) (pos : Nat) (d : Bytes) : Bytes :=
  let b := buf ++ List.replicate (pos - buf.length) 0
  b.take pos ++ d ++ b.drop (pos + d.length)

/-- POSIX `pwrite`: writing nothing never extends the file -/
def pwrite (buf : Bytes) (pos : Nat) (d : Bytes) : Bytes :=
  if d.isEmpty then buf else writeAt buf pos d

/-- what the environment answers to one request -/
inductive Reply where
  | data (d : Bytes)     -- FXP_DATA / a completed read+write with `len(d)` bytes
  | eof                  -- SFTPEOFError
  | err                  -- any other OSError / SFTPError
deriving Repr

inductive Ev where
  | complete (r : Req) (rep : Reply)
  | endBatch
deriving Repr

/-- scheduler + buffer + `_bytes_copied` -/
structure GState where
  io : IO
  buf : Bytes
  copied : Nat
deriving Repr

def store (pad : Bool) (buf : Bytes) (pos : Nat) (d : Bytes) : Bytes :=
  if pad then writeAt buf pos d else pwrite buf pos d

def gcomplete (pad : Bool) (base : Nat) (s : GState) (r : Req) : Reply → GState
  | .data d => { io := { finish s.io r d.length with mid := true },
                 buf := store pad s.buf (r.off - base) d,
                 copied := s.copied + d.length }
  | .eof => { s with io := { s.io with pending := s.io.pending.erase r, left := 0, mid := true } }
  | .err => { s with io := { s.io with pending := s.io.pending.erase r, excs := s.io.excs + 1, mid := true } }

/-- one transition.  A completion of something that is not outstanding, or anything after `iter` raised,
    does nothing. -/
def gstep (pad : Bool) (bs mr base : Nat) (s : GState) : Ev → GState
  | .complete r rep =>
    if s.io.raised = true ∨ r ∉ s.io.pending then s else gcomplete pad base s r rep
  | .endBatch => if s.io.raised = true then s else { s with io := endBatchIO bs mr s.io }

def grun (pad : Bool) (bs mr base : Nat) (s : GState) (evs : List Ev) : GState :=
  evs.foldl (gstep pad bs mr base) s

inductive Outcome where
  | running
  | raised
  | ok (b : Bytes)
deriving Repr, DecidableEq

/-- `while self._pending:` evaluated between batches finds nothing outstanding -/
def IO.idle (s : IO) : Prop := s.pending = [] ∧ s.mid = false
instance (s : IO) : Decidable s.idle := by unfold IO.idle; infer_instance

def goutcome (s : GState) : Outcome :=
  if s.io.raised = true then .raised else if s.io.idle then .ok s.buf else .running

/-! ### reader: `_SFTPFileReader(block_size, max_requests, handler, handle, offset, size).run()` -/

def rinit (bs mr start size : Nat) : GState :=
  { io := startTasks bs mr ⟨start, size, [], 0, false, false⟩, buf := [], copied := 0 }

def rstep (bs mr start : Nat) : GState → Ev → GState := gstep true bs mr start
def rrun (bs mr start size : Nat) (evs : List Ev) : GState :=
  grun true bs mr start (rinit bs mr start size) evs

/-- A reader whose `run_task` refuses an empty DATA reply to a non-empty request
    (`if not data and size: raise SFTPFailure`): the task fails like any other failed block.
    `strict = false` is the reader without that check (the tree before the fix). -/
def rev (strict : Bool) : Ev → Ev
  | .complete r (.data d) =>
    if strict ∧ d = [] ∧ r.size ≠ 0 then .complete r .err else .complete r (.data d)
  | e => e

def rrunS (strict : Bool) (bs mr start size : Nat) (evs : List Ev) : GState :=
  rrun bs mr start size (evs.map (rev strict))

/-- a truthful server reading the fixed content `src`: never more than asked, bytes of `src` at the
    requested offset, EOF only at or beyond the end.  (`d` may be empty here; see `NonEmpty`.) -/
def Truthful (src : Bytes) : Ev → Prop
  | .complete r (.data d) => d.length ≤ r.size ∧ ∀ i, i < d.length → src[r.off + i]? = d[i]?
  | .complete r .eof => src.length ≤ r.off
  | _ => True

/-- the hypothesis `1 ≤ c`: a DATA reply to a non-empty request carries at least one byte -/
def NonEmpty : Ev → Prop
  | .complete r (.data d) => d ≠ [] ∨ r.size = 0
  | _ => True

/-! ### writer: `_SFTPFileWriter(block_size, max_requests, handler, handle, offset, data).run()` -/

/-- `self._data[pos:pos+size]` with `pos = offset - self._start` -/
def wslice (data : Bytes) (start : Nat) (r : Req) : Bytes := (data.drop (r.off - start)).take r.size

inductive WEv where
  | ok (r : Req)         -- the server applied the write and answered FX_OK
  | err (r : Req)
  | endBatch
deriving Repr

def wev (data : Bytes) (start : Nat) : WEv → Ev
  | .ok r => .complete r (.data (wslice data start r))
  | .err r => .complete r .err
  | .endBatch => .endBatch

def winit (bs mr start : Nat) (data file0 : Bytes) : GState :=
  { io := startTasks bs mr ⟨start, data.length, [], 0, false, false⟩, buf := file0, copied := 0 }

def wstep (bs mr start : Nat) (data : Bytes) (s : GState) (e : WEv) : GState :=
  gstep false bs mr 0 s (wev data start e)

def wrun (bs mr start : Nat) (data file0 : Bytes) (evs : List WEv) : GState :=
  evs.foldl (wstep bs mr start data) (winit bs mr start data file0)

/-- What the environment can do to one block of a write, in full.  Besides `WEv` (applied whole and answered
    FX_OK / answered with an error / end of a batch):
    * `eof r`     — the WRITE is answered with status FX_EOF (`SFTPEOFError` out of `run_task`);
    * `short r n` — the kernel accepts only the first `n < size` bytes of the block (the write crosses the end
                    of free space, a quota or RLIMIT_FSIZE) and whatever made it short persists. -/
inductive WEvX where
  | base (e : WEv)
  | eof (r : Req)
  | short (r : Req) (n : Nat)
deriving Repr

/-- One step of the writer as the code has it.
    `eofErr`   : `iter()` treats `SFTPEOFError` as the end of the file only for the reader
                 (`_stop_at_eof`); for the writer it is a failed block.  `false` = the code before that
                 repair: the shared `except SFTPEOFError: self._bytes_left = 0` swallows it.
    `writeAll` : `SFTPServer.write` keeps writing until the block is complete, so that the cause of a short
                 `write()` is raised and answered as an error.  `false` = the code before that repair: one
                 `file_obj.write(data)`, count dropped by `_process_write`, FX_OK; the client's `run_task`
                 reports `size, size`. -/
def wstepX (eofErr writeAll : Bool) (bs mr start : Nat) (data : Bytes) (s : GState) : WEvX → GState
  | .base e => wstep bs mr start data s e
  | .eof r => gstep false bs mr 0 s (.complete r (if eofErr then .err else .eof))
  | .short r n =>
    if writeAll then wstep bs mr start data s (.err r)
    else if s.io.raised = true ∨ r ∉ s.io.pending then s
    else { io := { finish s.io r r.size with mid := true },
           buf := pwrite s.buf r.off ((wslice data start r).take n),
           copied := s.copied + r.size }

def wrunX (eofErr writeAll : Bool) (bs mr start : Nat) (data file0 : Bytes) (evs : List WEvX) : GState :=
  evs.foldl (wstepX eofErr writeAll bs mr start data) (winit bs mr start data file0)

/-- with both repairs every `WEvX` is one of the three `WEv` -/
def wevX : WEvX → WEv
  | .base e => e
  | .eof r => .err r
  | .short r _ => .err r

/-! ### copier: `_SFTPFileCopier(block_size, max_requests, total_bytes, sparse, …).run()` -/

structure CState where
  g : GState
  ranges : List (Nat × Nat)     -- ranges not yet started (`async for self._offset, self._bytes_left in ranges`)
deriving Repr

/-- take ranges until one of them has work (`iter()` returns at once when `_start_tasks` created nothing) -/
def advance (bs mr : Nat) (g : GState) : List (Nat × Nat) → GState × List (Nat × Nat)
  | [] => (g, [])
  | (o, l) :: rs =>
    let io' := startTasks bs mr { g.io with off := o, left := l, excs := 0 }
    if io'.pending = [] then advance bs mr { g with io := io' } rs
    else ({ g with io := io' }, rs)

def cinit (bs mr : Nat) (ranges : List (Nat × Nat)) : CState :=
  let a := advance bs mr ⟨⟨0, 0, [], 0, false, false⟩, [], 0⟩ ranges
  ⟨a.1, a.2⟩

def cstep (bs mr : Nat) (s : CState) : Ev → CState
  | .complete r rep => { s with g := gstep false bs mr 0 s.g (.complete r rep) }
  | .endBatch =>
    let g' := gstep false bs mr 0 s.g .endBatch
    if g'.io.raised = false ∧ g'.io.pending = [] then
      let a := advance bs mr g' s.ranges
      ⟨a.1, a.2⟩
    else ⟨g', s.ranges⟩

def crun (bs mr : Nat) (ranges : List (Nat × Nat)) (evs : List Ev) : CState :=
  evs.foldl (cstep bs mr) (cinit bs mr ranges)

/-- The copier's source signals its end by empty data (`SFTPClientFile.read` swallows `SFTPEOFError`,
    a local file returns `b''`), so `SFTPEOFError` can reach the copier's `iter()` only from the
    *destination's* write.  `eofErr = true`: it is a failed block (`_stop_at_eof` is false for the copier);
    `false`: the code before the repair takes it for the end of the file. -/
def cev (eofErr : Bool) : Ev → Ev
  | .complete r .eof => if eofErr then .complete r .err else .complete r .eof
  | e => e

def crunE (eofErr : Bool) (bs mr : Nat) (ranges : List (Nat × Nat)) (evs : List Ev) : CState :=
  crun bs mr ranges (evs.map (cev eofErr))

inductive COutcome where
  | running
  | raised               -- a block failed
  | shortSource          -- `SFTPFailure('Unexpected EOF during file copy')`
  | ok (dst : Bytes)
deriving Repr, DecidableEq

/-- `if self._bytes_copied != self._total_bytes and not self._sparse: raise` -/
def sizeCheckFails (copied total : Nat) (sparse : Bool) : Bool := copied != total && !sparse

def coutcome (total : Nat) (sparse : Bool) (s : CState) : COutcome :=
  if s.g.io.raised = true then .raised
  else if s.g.io.idle ∧ s.ranges = [] then
    if sizeCheckFails s.g.copied total sparse then .shortSource else .ok s.g.buf
  else .running

/-- `range_end`: the largest end of the ranges handed to the copier -/
def rangesEnd (rs : List (Nat × Nat)) : Nat := rs.foldl (fun m rg => max m (rg.1 + rg.2)) 0

/-- A copier that gives a sparse destination its full length when the source ends in a hole
    (`if self._sparse and range_end < self._total_bytes: await self._dst.write(b'\0', total_bytes - 1)`);
    `ext = false` is the copier without that step. -/
def extendSparse (ext sparse : Bool) (total : Nat) (ranges : List (Nat × Nat)) (dst : Bytes) : Bytes :=
  if ext = true ∧ sparse = true ∧ rangesEnd ranges < total then pwrite dst (total - 1) [0] else dst

def coutcomeX (ext : Bool) (total : Nat) (sparse : Bool) (ranges : List (Nat × Nat)) (s : CState) : COutcome :=
  match coutcome total sparse s with
  | .ok dst => .ok (extendSparse ext sparse total ranges dst)
  | o => o

/-- the ranges of a non-sparse copy (`_request_nonsparse_range(0, total_bytes)`) -/
def nonsparseRanges (total : Nat) : List (Nat × Nat) := [(0, total)]

/-- the data ranges a SEEK_DATA/SEEK_HOLE walk reports for a file whose allocated extents are `ext`
    (list of (offset,length), increasing): each extent clipped to `[0,limit)`; nothing after the last
    extent — a trailing hole produces no range (sftp.py `_request_ranges`). -/
def dataRanges (ext : List (Nat × Nat)) (limit : Nat) : List (Nat × Nat) :=
  (ext.filter fun e => e.1 < limit).map fun e => (e.1, min (e.1 + e.2) limit - e.1)

/-- server-side `copy-data` (`_process_copy_data`) of one range, abstractly: `length = 0` means to EOF -/
def copyData (src dst : Bytes) (off len : Nat) : Bytes :=
  pwrite dst off (if len = 0 then src.drop off else (src.drop off).take len)

def remoteCopy (src : Bytes) (ranges : List (Nat × Nat)) : Bytes :=
  ranges.foldl (fun dst rg => copyData src dst rg.1 rg.2) []

/-! ### `SFTPClientFile` offset tracking (sftp.py `read`, `write`, `seek`, `tell`) -/

structure FObj where
  appending : Bool
  offset : Option Int           -- `self._offset` (None: appending, no position yet)
  readLen : Nat                 -- `self.read_len`
  writeLen : Nat
  maxReadLen : Nat              -- `handler.limits.max_read_len`
  toEndReader : Bool            -- does `read()` to the end of the file always use `_SFTPFileReader`? (Gen.C12)
deriving Repr

structure FWorld where
  content : Bytes               -- the file on the server
  obj : FObj
deriving Repr

inductive FOp where
  | read (size : Option Int) (offset : Option Int)
  | write (d : Bytes) (offset : Option Int)
  | seekSet (n : Int)
  | seekCur (n : Int)
  | seekEnd (n : Int)
  | tell
deriving Repr

inductive FRes where
  | bytes (b : Bytes)
  | num (n : Int)
  | exc                          -- OverflowError from UInt64/UInt32 of a negative number
deriving Repr, DecidableEq

/-- `read_to_end = size is None or size < 0` -/
def readToEnd : Option Int → Bool
  | none => true
  | some n => decide (n < 0)

/-- does `read` take the `_SFTPFileReader` path?
    (`self.read_len and (read_to_end or size > min(read_len, max_read_len))`; before the repair of the
    short-read defect, `toEndReader = false`: `self.read_len and size > min(read_len, max_read_len)`) -/
def readParallel (o : FObj) (toEnd : Bool) (size : Int) : Bool :=
  o.readLen ≠ 0 && ((o.toEndReader && toEnd) || size > (min o.readLen o.maxReadLen : Nat))

/-- does `write` take the `_SFTPFileWriter` path? (`self.write_len and datalen > self.write_len`) -/
def writeParallel (o : FObj) (datalen : Nat) : Bool := o.writeLen ≠ 0 && datalen > o.writeLen

def slice (b : Bytes) (off len : Nat) : Bytes := (b.drop off).take len

/-- `if size is None or size < 0: size = (await self._end()) - offset` -/
def effSize (size : Option Int) (endp off : Int) : Int :=
  match size with
  | some n => if n < 0 then endp - off else n
  | none => endp - off

/-- POSIX: a negative/absent size means "to the end" -/
def posixSize (size : Option Int) (len pos : Nat) : Nat :=
  match size with
  | some n => if n < 0 then len - pos else n.toNat
  | none => len - pos

/-- One call on the file object against an ideal server (transfers themselves are `read_correct` /
    `write_correct`).  `endp` is what `fstat` reports. -/
def fstep (w : FWorld) : FOp → FWorld × FRes
  | .read size offset =>
    match (match offset with | some o => some o | none => w.obj.offset) with
    | none => (w, .bytes [])
    | some off =>
      let toEnd := readToEnd size
      let size := effSize size w.content.length off
      if off < 0 ∨ size < 0 then (w, .exc)
      else
        let data := slice w.content off.toNat size.toNat
        -- single request at/after EOF: SFTPEOFError is swallowed and `_offset` is left alone
        if data = [] ∧ readParallel w.obj toEnd size = false then (w, .bytes [])
        else ({ w with obj := { w.obj with offset := some (off + data.length) } }, .bytes data)
  | .write d offset =>
    let off : Int := match offset with
      | some o => o
      | none => w.obj.offset.getD 0
    if off < 0 then (w, .exc)
    else
      let content := if w.obj.appending then w.content ++ d else pwrite w.content off.toNat d
      ({ content := content,
         obj := { w.obj with offset := if w.obj.appending then none else some (off + d.length) } },
       .num d.length)
  | .seekSet n => ({ w with obj := { w.obj with offset := some n } }, .num n)
  | .seekCur n =>
    let new := (match w.obj.offset with
      | none => (w.content.length : Int)
      | some o => o) + n
    ({ w with obj := { w.obj with offset := some new } }, .num new)
  | .seekEnd n =>
    let new := (w.content.length : Int) + n
    ({ w with obj := { w.obj with offset := some new } }, .num new)
  | .tell =>
    match w.obj.offset with
    | none => ({ w with obj := { w.obj with offset := some w.content.length } }, .num w.content.length)
    | some o => (w, .num o)

/-- `SFTPClientFile.read`'s single-request path: one `handler.read(offset, size)` whose reply is returned as
    it is; `SFTPEOFError` is swallowed (empty result); batch ends mean nothing here. -/
def singleRead (off size : Nat) (evs : List Ev) : Outcome :=
  match evs.filter (fun e => match e with | .endBatch => false | _ => true) with
  | [.complete r (.data d)] => if r = ⟨off, size⟩ then .ok d else .running
  | [.complete r .eof] => if r = ⟨off, size⟩ then .ok [] else .running
  | [.complete r .err] => if r = ⟨off, size⟩ then .raised else .running
  | _ => .running

/-- the transfer part of `SFTPClientFile.read(size, offset)`: path choice, then the reader or one request.
    `size` is the effective size (`_end() - offset` when reading to the end: `toEnd`). -/
def fread (strict : Bool) (o : FObj) (mr : Nat) (toEnd : Bool) (off size : Nat) (evs : List Ev) : Outcome :=
  if readParallel o toEnd size then goutcome (rrunS strict o.readLen mr off size evs)
  else singleRead off size evs

def frun (w : FWorld) : List FOp → FWorld × List FRes
  | [] => (w, [])
  | op :: ops =>
    let (w', r) := fstep w op
    let (w'', rs) := frun w' ops
    (w'', r :: rs)

/-! POSIX reference: a file, a position, O_APPEND or not (initial position of an append-mode file is its
    end, as for Python's `open(..., 'a')`). -/
structure PFile where
  content : Bytes
  pos : Nat
  append : Bool
deriving Repr

def pstep (f : PFile) : FOp → PFile × FRes
  | .read size _ =>
    let data := slice f.content f.pos (posixSize size f.content.length f.pos)
    ({ f with pos := f.pos + data.length }, .bytes data)
  | .write d _ =>
    if f.append then
      -- O_APPEND: the position moves to the end before the data is written; a zero-length write is a no-op
      if d = [] then (f, .num 0)
      else ({ f with content := f.content ++ d, pos := (f.content ++ d).length }, .num d.length)
    else ({ f with content := pwrite f.content f.pos d, pos := f.pos + d.length }, .num d.length)
  | .seekSet n => ({ f with pos := n.toNat }, .num n)
  | .seekCur n => ({ f with pos := ((f.pos : Int) + n).toNat }, .num ((f.pos : Int) + n))
  | .seekEnd n => ({ f with pos := ((f.content.length : Int) + n).toNat }, .num ((f.content.length : Int) + n))
  | .tell => (f, .num f.pos)

def prun (f : PFile) : List FOp → PFile × List FRes
  | [] => (f, [])
  | op :: ops =>
    let (f', r) := pstep f op
    let (f'', rs) := prun f' ops
    (f'', r :: rs)

end AsyncsshModel.SftpIO
