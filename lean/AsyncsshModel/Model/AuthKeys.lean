import AsyncsshModel.Model.KnownHosts
/-
  C17 — model of the authorized_keys side:
  * `OptionsParser._parse_options` / `_add_option` (misc.py:535-596): the quote / backslash / comma tokenizer;
  * `_SSHAuthorizedKeyEntry` (auth_keys.py:46-196): option handlers (`command`, `environment`, `from`,
    `permitopen`, `principals`, `subject`), key import before and after the options, `match_options`;
  * `SSHAuthorizedKeys.load` / `validate` (auth_keys.py:199-250).
  The key importer is the same three-valued parameter as in KnownHosts.lean.
-/
namespace AsyncsshModel.AuthKeys
open AsyncsshModel AsyncsshModel.Pattern AsyncsshModel.KnownHosts

/-! ### tokenizer (`_parse_options`) -/

structure TokResult where
  opts : List Str            -- every string handed to `_add_option`, in order (the last one after the loop)
  quoted : Bool
  escaped : Bool
  rest : Option Str          -- `some line[idx:]` when the loop stopped at white space, `none` when it ran out
  deriving Repr, DecidableEq

/-- the `for idx, ch in enumerate(line)` loop; `cur` is `option` reversed, `acc` the options so far reversed -/
def tokLoop : Str → Bool → Bool → Str → List Str → TokResult
  | [], q, e, cur, acc => ⟨(cur.reverse :: acc).reverse, q, e, none⟩
  | ch :: r, q, e, cur, acc =>
    if e then tokLoop r q false (ch :: cur) acc
    else if ch = '\\' then tokLoop r q true cur acc
    else if ch = '"' then tokLoop r (!q) false cur acc
    else if q then tokLoop r q false (ch :: cur) acc
    else if Gen.C17.optTerminators.contains ch then ⟨(cur.reverse :: acc).reverse, q, e, some (ch :: r)⟩
    else if ch = ',' then tokLoop r q false [] (cur.reverse :: acc)
    else tokLoop r q false (ch :: cur) acc

def tokenize (line : Str) : TokResult := tokLoop line false false [] []

/-- `line[idx:].strip()`: from the terminating white space, or the last character when the loop ran out -/
def restOf (line : Str) (t : TokResult) : Str :=
  match t.rest with
  | some r => strip r
  | none => strip (match line.getLast? with | some c => [c] | none => [])

/-! ### option store -/

inductive OptVal where
  | flag                                        -- `True`
  | str (s : Str)                               -- `command`
  | strs (l : List Str)                         -- any other `name=value`: list of values
  | env (kv : List (Str × Str))                 -- `environment`
  | froms (l : List (PatList HostPat))          -- `from`
  | names (l : List (PatList Str))              -- `principals`
  | opens (l : List (Str × Option Int))         -- `permitopen` (a set)
  | subjects (l : List Str)                     -- `subject` (only with X.509 support)
  deriving Repr

/-- a Python dict in insertion order -/
abbrev Opts := List (Str × OptVal)

def optGet (o : Opts) (k : Str) : Option OptVal := (o.find? (·.1 = k)).map (·.2)

def optSet (o : Opts) (k : Str) (v : OptVal) : Opts :=
  if o.any (·.1 = k) then o.map (fun kv => if kv.1 = k then (k, v) else kv) else o ++ [(k, v)]

def kvSet (o : List (Str × Str)) (k v : Str) : List (Str × Str) :=
  if o.any (·.1 = k) then o.map (fun kv => if kv.1 = k then (k, v) else kv) else o ++ [(k, v)]

/-- `s.split('=', 1)` when `=` occurs -/
def splitEq : Str → Str × Str
  | [] => ([], [])
  | c :: s => if c = '=' then ([], s) else let (a, b) := splitEq s; (c :: a, b)

/-- `s.rsplit(':', 1)`; `none` when there is no colon -/
def rsplitColon (s : Str) : Option (Str × Str) :=
  let r := s.reverse
  if r.contains ':' then
    some ((r.dropWhile (· ≠ ':')).drop 1 |>.reverse, (r.takeWhile (· ≠ ':')).reverse)
  else none

/-- digits with single underscores between them (`int()` literal syntax) -/
def intDigits : Str → Bool → Option Nat → Option Nat
  | [], lastUnderscore, acc => if lastUnderscore then none else acc
  | c :: s, lastUnderscore, acc =>
    if isAsciiDigit c then intDigits s false (some ((acc.getD 0) * 10 + digitVal c))
    else if c = '_' then
      if lastUnderscore ∨ acc.isNone then none else intDigits s true acc
    else none

/-- Python `int(s)` for ASCII text: surrounding white space, optional sign, digits (`none` = ValueError) -/
def pyInt (s : Str) : Option Int :=
  let t := strip s
  match t with
  | '-' :: d => (intDigits d false none).map fun n => - (Int.ofNat n)
  | '+' :: d => (intDigits d false none).map Int.ofNat
  | d => (intDigits d false none).map Int.ofNat

/-- `_add_permitopen` value parsing; `none` = ValueError -/
def parsePermitopen (value : Str) : Option (Str × Option Int) :=
  match rsplitColon value with
  | none => none
  | some (host, portStr) =>
    let host := if host.head? = some '[' ∧ host.getLast? = some ']' then (host.drop 1).dropLast else host
    if portStr = ['*'] then some (host, none)
    else (pyInt portStr).map fun p => (host, some p)

def handlerOf (name : Str) : Option String :=
  (Gen.C17.akHandlers.find? (·.1.toList = name)).map (·.2)

/-- `option.lower()` on an option name (ASCII letters; the generated names hold no other cased letters) -/
def lowerName (name : Str) : Str := name.map Char.toLower

/-- the name an option is stored and looked up under.  After the fix "match authorized_keys option names
    case-insensitively" `_add_option` folds the name with `.lower()` (OpenSSH compares option names with
    `strncasecmp`); `Gen.C17.optNamesFolded` is read from the tree under check. -/
def foldName (name : Str) : Str := if Gen.C17.optNamesFolded then lowerName name else name

/-- `OptionsParser._add_option` with the handlers of `_SSHAuthorizedKeyEntry`, for a given name folding -/
def addOptionWith (fold : Str → Str) (x509 : Bool) (o : Opts) (option : Str) : Except String Opts :=
  if option.head? = some '=' then .error "ValueError"
  else if option.contains '=' then
    let (name, value) := splitEq option
    let name := fold name
    -- `if self.options.get(option) is True: raise ValueError` (an option given as a flag and then with a value)
    if (match optGet o name with | some .flag => true | _ => false) then .error "ValueError" else
    match handlerOf name with
    | none =>
      match optGet o name with
      | none => .ok (optSet o name (.strs [value]))
      | some (.strs l) => .ok (optSet o name (.strs (l ++ [value])))
      | some _ => .error "AttributeError"
    | some h =>
      if h = "_set_string" then .ok (optSet o name (.str value))
      else if h = "_add_environment" then
        if value.head? = some '=' ∨ !value.contains '=' then .error "ValueError"
        else
          let (n, v) := splitEq value
          match optGet o name with
          | none => .ok (optSet o name (.env [(n, v)]))
          | some (.env kv) => .ok (optSet o name (.env (kvSet kv n v)))
          | some _ => .error "TypeError"
      else if h = "_add_from" then
        match optGet o name with
        | none => .ok (optSet o name (.froms [parseHostList value]))
        | some (.froms l) => .ok (optSet o name (.froms (l ++ [parseHostList value])))
        | some _ => .error "AttributeError"
      else if h = "_add_permitopen" then
        match parsePermitopen value with
        | none => .error "ValueError"
        | some x =>
          match optGet o name with
          | none => .ok (optSet o name (.opens [x]))
          | some (.opens l) => .ok (optSet o name (.opens (if l.contains x then l else l ++ [x])))
          | some _ => .error "AttributeError"
      else if h = "_add_principals" then
        match optGet o name with
        | none => .ok (optSet o name (.names [parsePatList id value]))
        | some (.names l) => .ok (optSet o name (.names (l ++ [parsePatList id value])))
        | some _ => .error "AttributeError"
      else if h = "_add_subject" then
        if !x509 then .ok o
        else match optGet o name with
          | none => .ok (optSet o name (.subjects [value]))
          | some (.subjects l) => .ok (optSet o name (.subjects (l ++ [value])))
          | some _ => .error "AttributeError"
      else .error "model:unknown-handler"
  else
    -- `if option in self._handlers: raise ValueError('Missing value ...')`
    if (handlerOf (fold option)).isSome then .error "ValueError"
    else .ok (optSet o (fold option) .flag)

/-- `OptionsParser._add_option` as it is in the tree under check -/
def addOption (x509 : Bool) (o : Opts) (option : Str) : Except String Opts :=
  addOptionWith foldName x509 o option

/-- before the fix: names stored exactly as written, so `From=`, `No-Pty`, `Command=` missed their handlers -/
def addOptionPreFix (x509 : Bool) (o : Opts) (option : Str) : Except String Opts :=
  addOptionWith id x509 o option

def addOptions (x509 : Bool) : Opts → List Str → Except String Opts
  | o, [] => .ok o
  | o, x :: xs => match addOption x509 o x with
    | .error c => .error c
    | .ok o' => addOptions x509 o' xs

/-- `_parse_options(line)`: the options and the remaining text; errors in the order the code raises them -/
def parseOptions (x509 : Bool) (line : Str) : Except String (Opts × Str) :=
  let t := tokenize line
  match addOptions x509 [] t.opts with
  | .error c => .error c
  | .ok o => if t.quoted ∨ t.escaped then .error "ValueError" else .ok (o, restOf line t)

/-! ### entries -/

/-- the importer of KnownHosts.lean plus, for a certificate, whether subject = issuer -/
structure AKImporter extends Importer where
  certSelfIssued : Str → Bool

structure AKEntry where
  key : Option Nat
  cert : Option (Nat × Bool)
  options : Opts
  deriving Repr

def ckey : Str := "cert-authority".toList

/-- the tests made on an imported certificate when `cert-authority` is among the options:
    `ok true` = keep it, `ok false` = `KeyImportError` (an OpenSSH certificate, fix 1aba53a),
    error = `ValueError` (an X.509 certificate that is not a root CA) -/
def certAuthorityCheck (ca isX selfIssued : Bool) : Except String Bool :=
  if !ca then .ok true
  else if !isX then .ok false
  else if !selfIssued then .error "ValueError"
  else .ok true

/-- the same before fix 1aba53a: `self.cert.subject` on an OpenSSH certificate raised `AttributeError` -/
def certAuthorityCheckOld (ca isX selfIssued : Bool) : Except String Bool :=
  if !ca then .ok true
  else if !isX then .error "AttributeError"
  else if !selfIssued then .error "ValueError"
  else .ok true

/-- `_import_key_or_cert(line)` with the options parsed so far; `ok none` = `KeyImportError` -/
def importKeyOrCert (x509 : Bool) (imp : AKImporter) (o : Opts) (line : Str) :
    Except String (Option AKEntry) :=
  match imp.key line with
  | .ok k => .ok (some ⟨some k, none, o⟩)
  | .exc c => .error c
  | .importError =>
    let trySubject : Except String (Option AKEntry) :=
      if (optGet o ckey).isNone then
        match imp.subject line with
        | .ok _ =>
          -- `_add_subject('subject', text)`: stores a pattern only with X.509 support
          if !x509 then .ok (some ⟨none, none, o⟩)
          else match optGet o "subject".toList with
            | none => .ok (some ⟨none, none, optSet o "subject".toList (.subjects [line])⟩)
            | some (.subjects l) => .ok (some ⟨none, none, optSet o "subject".toList (.subjects (l ++ [line]))⟩)
            | some _ => .error "AttributeError"
        | .exc c => .error c
        | .importError => .ok none
      else .ok none
    match imp.cert line with
    | .ok (c, isX) =>
      match certAuthorityCheck (optGet o ckey).isSome isX (imp.certSelfIssued line) with
      | .error e => .error e
      | .ok true => .ok (some ⟨none, some (c, isX), o⟩)
      | .ok false => trySubject          -- `KeyImportError` raised inside the `try`: falls through
    | .exc c => .error c
    | .importError => trySubject

/-- `_SSHAuthorizedKeyEntry(line)`; `ok none` = `KeyImportError` (the line is skipped) -/
def parseEntry (x509 : Bool) (imp : AKImporter) (line : Str) : Except String (Option AKEntry) :=
  match importKeyOrCert x509 imp [] line with
  | .error c => .error c
  | .ok (some e) => .ok (some e)
  | .ok none =>
    match parseOptions x509 line with
    | .error c => .error c
    | .ok (o, rest) => importKeyOrCert x509 imp o rest

/-- what a raw line contributes to the three entry lists -/
def lineEntry (x509 : Bool) (imp : AKImporter) (raw : Str) : Except String (Option AKEntry) :=
  let line := strip raw
  if line = [] ∨ line.head? = some '#' then .ok none else parseEntry x509 imp line

def loadLines (x509 : Bool) (imp : AKImporter) : List Str → Except String (List AKEntry)
  | [] => .ok []
  | l :: ls =>
    match lineEntry x509 imp l with
    | .error c => .error c
    | .ok e =>
      match loadLines x509 imp ls with
      | .error c => .error c
      | .ok rest => .ok (e.toList ++ rest)

/-- `import_authorized_keys(text)`; an empty text loads nothing, a text without any valid entry is refused -/
def load (x509 : Bool) (imp : AKImporter) (text : Str) : Except String (List AKEntry) :=
  if text = [] then .ok [] else
  match loadLines x509 imp (splitLines text) with
  | .error c => .error c
  | .ok [] => .error "ValueError"
  | .ok es => .ok es

/-! ### validation -/

/-- `match_options(client_host, client_addr, cert_principals)` (the X.509 subject test is not reachable
    from `validate`) -/
def matchOptions (o : Opts) (host addr : Str) (principals : Option (List Str)) : Except String Bool :=
  let fromOk : Except String Bool :=
    match optGet o "from".toList with
    | none => .ok true
    | some (.froms l) =>
      if l.isEmpty then .ok true else
      match parseAddress addr with
      | none => .error "ValueError"
      | some ip => .ok (l.all fun pl => hostListMatches pl host addr (some ip))
    | some _ =>                             -- `ip_address(client_addr)`, then `all(... for pattern in True)`
      match parseAddress addr with
      | none => .error "ValueError"
      | some _ => .error "TypeError"
  match fromOk with
  | .error c => .error c
  | .ok false => .ok false
  | .ok true =>
    match principals, optGet o "principals".toList with
    | some ps, some (.names l) =>
      .ok (l.all fun pl => ps.any fun p => pl.matchesWith (globMatch · p))
    | some _, some _ => .error "TypeError"
    | _, _ => .ok true

/-- user entries (`ca = false`) are keys without `cert-authority`, CA entries those with it -/
def AKEntry.isCA (e : AKEntry) : Bool := (optGet e.options ckey).isSome

/-- `SSHAuthorizedKeys.validate(key, client_host, client_addr, cert_principals, ca)`:
    the options of the first entry of the right kind with this key whose restrictions all match -/
def validate (es : List AKEntry) (key : Nat) (host addr : Str) (principals : Option (List Str)) (ca : Bool) :
    Except String (Option Opts) :=
  match es with
  | [] => .ok none
  | e :: rest =>
    if e.key.isSome ∧ e.isCA = ca ∧ e.key = some key then
      match matchOptions e.options host addr principals with
      | .error c => .error c
      | .ok true => .ok (some e.options)
      | .ok false => validate rest key host addr principals ca
    else validate rest key host addr principals ca

end AsyncsshModel.AuthKeys
