import AsyncsshModel.Model.ChannelCodec
/-
  The receive-side text layer of ONE channel endpoint, composed with the byte-level endpoint of
  `Model/Channel.lean` (asyncssh/channel.py, tree with the repairs afe8b9e "partial character discarded by close"
  and 98283c0 "each data type on its own"):

  * `set_encoding` keeps `self._decoders: Dict[DataType, IncrementalDecoder]` — ONE incremental decoder PER DATA
    TYPE, created in its initial state by `_deliver_data` the first time data of that type is delivered
    (`Decs`, `deliverText`).  The encoders are kept per data type in the same way (`write`), so each data type
    is a text stream of its own (`Model/ChannelText.lean` describes one such stream).
  * `_flush_recv_buf` runs `decoder.decode(b'', True)` for EVERY decoder right before `eof_received()` and right
    before the channel is cleaned up after the peer's CLOSE (`decsFinalOk`; a failure is `ProtocolError`).
  * `_discard_recv` — run by the application's `close()` (and `abort()`) — resets every decoder: data which
    arrives afterwards is dropped by `_accept_data` without being decoded, so a partial character must not
    survive until the peer's EOF / CLOSE (`decsReset`).  The application's own `close()` performs no final decode.

  `Variant` selects the behaviour of the code BEFORE those repairs, for the witness theorems only:
  `perType = false` is the single decoder shared by stdout and stderr (audit finding D1), `resetOnDiscard = false`
  the decoder that keeps its partial character across `close()` (D3).

  Mathlib-free.
-/
namespace AsyncsshModel.ChannelCodec
open AsyncsshModel AsyncsshModel.Channel

/-- `self._decoders`: data type ↦ state of its incremental decoder.  A data type without an entry has no decoder
    yet; its first chunk is decoded from the initial state. -/
abbrev Decs := List (DType × St)

/-- state of the decoder of a data type (`.s0` if none was created yet) -/
def decsGet : Decs → DType → St
  | [], _ => .s0
  | (t, st) :: rest, dt => if t = dt then st else decsGet rest dt

/-- `self._decoders[datatype] = decoder` / the decoder's state after a `decode` call -/
def decsSet : Decs → DType → St → Decs
  | [], dt, st => [(dt, st)]
  | (t, s) :: rest, dt, st => if t = dt then (t, st) :: rest else (t, s) :: decsSet rest dt st

/-- `for decoder in self._decoders.values(): decoder.reset()` in `_discard_recv` -/
def decsReset (ds : Decs) : Decs := ds.map (fun p => (p.1, St.s0))

/-- `for decoder in self._decoders.values(): decoder.decode(b'', True)` in `_flush_recv_buf`: no decoder holds
    an incomplete sequence -/
def decsFinalOk (ds : Decs) : Bool := ds.all (fun p => finalOk (decsGet ds p.1))

/-- which code is modelled -/
structure Variant where
  /-- one decoder per data type (since 98283c0) / one per channel (before) -/
  perType : Bool
  /-- `_discard_recv` resets the decoders (since afe8b9e) -/
  resetOnDiscard : Bool
  deriving DecidableEq, Repr, Inhabited

/-- the code as it is -/
def Variant.now : Variant := { perType := true, resetOnDiscard := true }
/-- the code before both repairs -/
def Variant.preFix : Variant := { perType := false, resetOnDiscard := false }

/-- the decoder `_deliver_data` picks for a chunk -/
def Variant.key (v : Variant) (dt : DType) : DType := if v.perType then dt else none

/-- the text part of `_deliver_data`: the chunk goes through the decoder of its data type; `none` =
    `UnicodeDecodeError` → `ProtocolError` -/
def deliverTextV (v : Variant) (ds : Decs) (dt : DType) (bs : Bytes) : Option (Decs × List Nat) :=
  match decode (decsGet ds (v.key dt)) bs with
  | none => none
  | some (st, cps) => some (decsSet ds (v.key dt) st, cps)

def deliverText : Decs → DType → Bytes → Option (Decs × List Nat) := deliverTextV .now

/-- feed the chunks of successive `_deliver_data` calls, each through the decoder of its data type; every callback
    gets the text completed by its chunk (possibly empty) -/
def decodeChunksV (v : Variant) (ds : Decs) : Buf → Option (Decs × List (List Nat × DType))
  | [] => some (ds, [])
  | (bs, dt) :: rest =>
    match deliverTextV v ds dt bs with
    | none => none
    | some (ds1, cps) =>
      match decodeChunksV v ds1 rest with
      | none => none
      | some (ds2, outs) => some (ds2, (cps, dt) :: outs)

/-- the code as it is: one decoder per data type -/
def decodeChunksPer : Decs → Buf → Option (Decs × List (List Nat × DType)) := decodeChunksV .now

/-- what the session of a text channel sees -/
inductive TOut where
  | text (dt : DType) (cps : List Nat)   -- `data_received(str, datatype)`
  | eof
  | lost
  deriving DecidableEq, Repr, Inhabited

/-- the callbacks of one atomic block of the endpoint, through the text layer.  `flush = true`: the block is
    driven by `_flush_recv_buf` (a packet handler, `resume_reading`, `_start_reading`), which runs the final decode
    before `eof_received()` and before the cleanup after the peer's CLOSE; `flush = false`: the application's own
    `close()` (`_discard_recv`), which does not.  Result: the callbacks made, and the decoders afterwards — `none`
    if a decode raised (the callbacks made before it stand). -/
def feedOutsV (v : Variant) (flush : Bool) : Decs → List Out → List TOut × Option Decs
  | ds, [] => ([], some ds)
  | ds, .data dt bs :: rest =>
    match deliverTextV v ds dt bs with
    | none => ([], none)
    | some (ds1, cps) =>
      let r := feedOutsV v flush ds1 rest
      (.text dt cps :: r.1, r.2)
  | ds, .eof :: rest =>
    if decsFinalOk ds then
      let r := feedOutsV v flush ds rest
      (.eof :: r.1, r.2)
    else ([], none)
  | ds, .lost :: rest =>
    if decsFinalOk ds || !flush then
      let r := feedOutsV v flush ds rest
      (.lost :: r.1, r.2)
    else ([], none)

/-- a text channel endpoint: the byte-level endpoint and its decoders -/
structure TChan where
  c : Chan
  ds : Decs
  deriving Repr, Inhabited

inductive TRes where
  | ok (tc : TChan) (ms : List Msg) (outs : List TOut)
  /-- `ProtocolError(str(unicode_exc))` out of `_deliver_data` / `_flush_recv_buf`: the connection is closed -/
  | decodeError (outs : List TOut)
  | error (e : Err)
  deriving Repr, Inhabited

/-- the decoders a block starts from: the application's `close()` calls `_discard_recv` unless the receive half
    is closed already, and `_discard_recv` resets them -/
def discardDecs (v : Variant) (c : Chan) (ev : Ev) (ds : Decs) : Decs :=
  if ev = .close ∧ c.recvState ≠ .closed ∧ v.resetOnDiscard = true then decsReset ds else ds

/-- one atomic block of a text endpoint -/
def tstepV (v : Variant) (tc : TChan) (ev : Ev) : TRes :=
  match step tc.c ev with
  | .error e => .error e
  | .ok (c', ms, os) =>
    match feedOutsV v (decide (ev ≠ .close)) (discardDecs v tc.c ev tc.ds) os with
    | (outs, some ds') => .ok { c := c', ds := ds' } ms outs
    | (outs, none) => .decodeError outs

/-- the code as it is -/
def tstep : TChan → Ev → TRes := tstepV .now

/-- does a run of events end in a decode error?  An API error leaves the state unchanged, any other error ends
    the run. -/
def trunDecodeErrorV (v : Variant) : TChan → List Ev → Bool
  | _, [] => false
  | tc, ev :: rest =>
    match tstepV v tc ev with
    | .ok tc' _ _ => trunDecodeErrorV v tc' rest
    | .decodeError _ => true
    | .error e => if e.isApi then trunDecodeErrorV v tc rest else false

def trunDecodeError : TChan → List Ev → Bool := trunDecodeErrorV .now

/-- all callbacks of a run (stops at the first fatal error) -/
def trunOutsV (v : Variant) : TChan → List Ev → List TOut
  | _, [] => []
  | tc, ev :: rest =>
    match tstepV v tc ev with
    | .ok tc' _ outs => outs ++ trunOutsV v tc' rest
    | .decodeError outs => outs
    | .error e => if e.isApi then trunOutsV v tc rest else []

end AsyncsshModel.ChannelCodec
