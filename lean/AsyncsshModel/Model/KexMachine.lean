import AsyncsshModel.Model.KexHash
/-
  C03 model, part 3: the first key exchange of a connection as a three-party machine.

  Client and server are step functions over the *payloads delivered to them* (first the version line, then
  cleartext packets); each returns its new state and the payloads it puts on the wire.  The on-path editor is
  the environment: `World.step` lets it deliver **any** byte string to either party at any time
  (relay, replace, inject, reorder, drop = never deliver).

  Code mirrored (asyncssh/connection.py unless noted):
    `_recv_version` 1566-1611, dispatch in `_recv_packet` 1667-1743 (kex range, strict-kex rule, "before kex
    complete"), `_process_kexinit` 2357-2471, `_process_newkeys` 2473-2491, `_process_disconnect` 2209-2231,
    `send_newkeys` 1914-2031 (session id = first H);
    kex_dh.py: `_KexDHBase._process_init/_process_reply/_perform_reply/_verify_reply` 225-276,
    `_KexDHGex._send_request/_process_request/_process_group` 323-392, `_KexECDH` 409-474,
    `_KexHybridECDH` 477-526 (same messages as ECDH; the shared secret is abstract);
    kex_rsa.py: `start/_process_pubkey/_process_secret/_process_done` 67-164.

  Cryptography is a parameter (`Crypto`): hash per kex method, host-key signature, the client's host-key
  trust decision, and the results of the DH / ECDH / KEM / RSA computations.  No law about them is built in;
  the theorems state the laws they need as hypotheses.
  The server host key algorithm is the eighth negotiated name: a server signs with the algorithm chosen for
  *its own connection* (`choose_server_host_key` works on a private copy of the listener's key pair), puts
  that algorithm's signature name in front of the signature (`SSHKey.sign`), and a client refuses a host key
  that cannot be used with the negotiated algorithm (`_validate_host_key(.., key_alg)`) or a signature made
  with another one (`validate_server_host_key`).  The behaviour before these repairs is kept as
  `serverStepPreFix` (signature algorithm read from the key pair object all connections of a listener share)
  and `clientVerifyPreFix` (no comparison with the negotiation).
  Cleartext packet framing (length, padding) is not part of this model (C02 covers it): messages are payloads.
-/
namespace AsyncsshModel.Kex
open AsyncsshModel AsyncsshModel.KexWire

inductive Form | dh | gex | ecdh | hybrid | rsa
  deriving DecidableEq, Repr

structure KexInfo where
  form : Form
  g : Int
  p : Int
  deriving DecidableEq, Repr

def formOfString : String → Option Form
  | "dh" => some .dh
  | "gex" => some .gex
  | "ecdh" => some .ecdh
  | "hybrid" => some .hybrid
  | "rsa" => some .rsa
  | _ => none

/-- `get_kex(conn, alg)` for the non-GSS registry: message form and, for fixed-group DH, the group -/
def kexInfo (alg : Name) : Option KexInfo :=
  match Gen.C03.kexTable.find? (fun r => strBytes r.1 == alg) with
  | none => none
  | some (_, f, _, gi, _) =>
    match formOfString f with
    | none => none
    | some .dh => some ⟨.dh, (groupAt gi).1, (groupAt gi).2⟩
    | some form => some ⟨form, 0, 0⟩

/-- the hashed body of a view belongs to a message form -/
def BodyForm : Form → KexBody → Prop
  | .dh, .dh _ _ => True
  | .gex, .gex _ _ _ _ _ => True
  | .ecdh, .ecdh _ _ => True
  | .hybrid, .ecdh _ _ => True
  | .rsa, .rsa _ _ => True
  | _, _ => False

/-- the abstract primitives and the outcomes of the secret computations -/
structure Crypto where
  /-- exchange hash of a kex method -/
  hashOf : Name → Bytes → Bytes
  /-- `key.verify(h, sig)` for the key decoded from a host key blob -/
  verify : Bytes → Bytes → Bytes → Bool
  /-- `_validate_host_key(.., key_data)` succeeds (the client's trust decision, property C04) -/
  trusted : Bytes → Bool
  /-- the host key algorithms a host key blob can be used with: `cert.host_key_algorithms` of the decoded
      certificate, `key.sig_algorithms` of the decoded plain key -/
  keyAlgs : Bytes → List Name
  /-- server: `public_data` of the key chosen for a host key algorithm -/
  hostKeyOf : Name → Bytes
  /-- server: `sign_ssh(h, sig_algorithm)`, the part of `host_key.sign(h)` after the algorithm name -/
  signRaw : Name → Bytes → Bytes
  /-- client: `DH(g, p).get_public()`; `none` = the constructor raised -/
  dhClientPub : Int → Int → Option Int
  /-- client: `MPInt(dh.get_shared(f))`; `none` = the library raised -/
  dhClientShared : Int → Int → Int → Option Bytes
  /-- server: `(f, MPInt(shared))` for a client value `e` -/
  dhServer : Int → Int → Int → Option (Int × Bytes)
  /-- client public blob of an ECDH / hybrid method -/
  ecClientPub : Name → Bytes
  /-- client: shared secret for the server blob; `none` = `ValueError` (→ ProtocolError) -/
  ecClientShared : Name → Bytes → Option Bytes
  /-- server: `(server blob, shared secret)` for the client blob; `none` = `ValueError` -/
  ecServer : Name → Bytes → Option (Bytes × Bytes)
  /-- server: transient RSA key blob -/
  rsaTransKey : Bytes
  /-- client: `(encrypted_k, MPInt(k))`, or what `_process_pubkey` raises: ProtocolError when the transient
      key blob does not decode or is not an RSA key, KeyExchangeFailed when the encryption fails -/
  rsaEncrypt : Bytes → Except Err (Bytes × Bytes)
  /-- server: `MPInt(k)` recovered from the ciphertext, or the error raised -/
  rsaDecrypt : Bytes → Except Err Bytes

/-- one endpoint's configuration -/
structure Cfg where
  /-- `b'SSH-2.0-' + self._version` -/
  version : Bytes
  cookie : Bytes
  algs : LocalAlgs
  deriving Repr

/-- what an endpoint hashed when it finished the exchange -/
structure Accept where
  view : HashFields
  neg : Negotiated
  sig : Bytes
  deriving DecidableEq, Repr

def mkMsg (t : Nat) (body : Bytes) : Bytes := msgByte t :: body
def newkeysMsg : Bytes := [msgByte Gen.C03.MSG_NEWKEYS]
def versionLineOut (v : Bytes) : Bytes := v ++ [13, 10]
def inKexRange (t : Nat) : Bool := Gen.C03.MSG_KEX_FIRST ≤ t && t ≤ Gen.C03.MSG_KEX_LAST
def isTransportGeneric (t : Nat) : Bool := Gen.C03.MSG_IGNORE ≤ t && t ≤ Gen.C03.MSG_DEBUG
/-- message numbers below the kex range for which `SSHConnection._packet_handlers` has no entry -/
def isUnknownType (t : Nat) : Bool := t = 0 || (8 ≤ t && t ≤ 19) || (22 ≤ t && t ≤ 29)
/-- `send_packet(MSG_UNIMPLEMENTED, UInt32(seq))` -/
def unimplMsg (seq : Nat) : Bytes := mkMsg Gen.C03.MSG_UNIMPLEMENTED (beBytes 4 seq)

/-- the KEXINIT payload an endpoint sends -/
def ownKexInit (isClient : Bool) (cfg : Cfg) : Option Bytes := (sentKexInit isClient cfg.cookie cfg.algs).encode?

/-- `_process_disconnect`: the error the receiver ends with -/
def onDisconnect (body : Bytes) : Err :=
  match getUInt32 body with
  | none => .proto
  | some (code, b) =>
    match getString b with
    | none => .proto
    | some (reason, b) =>
      match getString b with
      | none => .proto
      | some (lang, b) =>
        if !b.isEmpty then .proto
        else if validUtf8 reason && isAscii lang then .disconnect code
        else .proto                 -- 'Invalid disconnect message'

/-- `_process_ignore`, `_process_unimplemented`, `_process_debug`: the body of a transport-generic message is
    decoded (`cisco` = `b'Cisco' in self._server_version`, the one case in which IGNORE is not);
    `false` = PacketDecodeError / 'Invalid debug message', both reported as ProtocolError -/
def genericBodyOk (cisco : Bool) (t : Nat) (body : Bytes) : Bool :=
  if t = Gen.C03.MSG_IGNORE then
    cisco || (match getString body with
      | some (_, b) => b.isEmpty
      | none => false)
  else if t = Gen.C03.MSG_UNIMPLEMENTED then
    match getUInt32 body with
    | some (_, b) => b.isEmpty
    | none => false
  else
    match getBoolean body with
    | none => false
    | some (_, b) =>
      match getString b with
      | none => false
      | some (msg, b) =>
        match getString b with
        | none => false
        | some (lang, b) => b.isEmpty && validUtf8 msg && isAscii lang

def mentionsCisco (serverVersion : Bytes) : Bool := hasInfix (strBytes "Cisco") serverVersion

/-! ### client -/

inductive CPhase
  | version | kexinit | gexGroup | reply | rsaPubkey | rsaDone
  | accepted          -- signature verified, NEWKEYS sent ("NEWKEYS accepted")
  | done              -- the server's NEWKEYS arrived as well
  | outOfScope        -- a new KEXINIT after the first exchange (re-keying is C11's subject)
  | failed (e : Err)
  deriving DecidableEq, Repr

structure CState where
  phase : CPhase := .version
  banners : Nat := 0
  seq : Nat := 0
  strict : Bool := false
  ignoreFirst : Bool := false
  vs : Bytes := []
  is : Bytes := []
  negInfo : Option (Negotiated × KexInfo) := none
  p : Int := 0
  g : Int := 0
  e : Int := 0
  qc : Bytes := []
  hostKey : Bytes := []
  trans : Bytes := []
  encK : Bytes := []
  k : Bytes := []
  acc : Option Accept := none
  deriving Repr

abbrev COut := CState × List Bytes

def CState.fail (st : CState) (e : Err) : COut := ({ st with phase := .failed e }, [])

/-- `connection_made`: the client sends its version line -/
def clientInit (cfg : Cfg) : COut := ({}, [versionLineOut cfg.version])

/-- `_recv_version` on the client, then `_send_kexinit` -/
def clientOnLine (cfg : Cfg) (st : CState) (line : Bytes) : COut :=
  match classifyVersionLine true line with
  | .reject e => st.fail e
  | .banner =>
    if st.banners + 1 > Gen.C03.MAX_BANNER_LINES then st.fail .proto
    else ({ st with banners := st.banners + 1 }, [])
  | .version v =>
    match ownKexInit true cfg with
    | none => st.fail .internal
    | some ic => ({ st with phase := .kexinit, vs := v }, [ic])

/-- start of the negotiated method on the client (`Kex.start`) -/
def clientStartKex (cr : Crypto) (st : CState) (n : Negotiated) (info : KexInfo) : COut :=
  match info.form with
  | .dh =>
    match cr.dhClientPub info.g info.p with
    | none => st.fail .proto          -- 'Invalid kex DH group' (`_perform_init`)
    | some e =>
      match encMPInt? e with
      | none => st.fail .internal
      | some eb => ({ st with phase := .reply, p := info.p, g := info.g, e := e },
                    [mkMsg Gen.C03.MSG_KEXDH_INIT eb])
  | .gex => ({ st with phase := .gexGroup, p := 0, g := 0 }, [mkMsg Gen.C03.MSG_KEX_DH_GEX_REQUEST clientGexReq])
  | .rsa => ({ st with phase := .rsaPubkey }, [])
  | _ =>
    let qc := cr.ecClientPub n.kex
    match encString? qc with
    | none => st.fail .internal
    | some qb => ({ st with phase := .reply, qc := qc }, [mkMsg Gen.C03.MSG_KEX_ECDH_INIT qb])

/-- `_process_kexinit` on the client (the payload `m = 20 :: body` is kept verbatim for the hash) -/
def clientOnKexInit (cr : Crypto) (cfg : Cfg) (st : CState) (m body : Bytes) : COut :=
  match st.phase with
  | .kexinit =>
    match parseKexInit body with
    | none => st.fail .proto        -- PacketDecodeError in the handler task is reported as ProtocolError
    | some peer =>
      let strict := peerStrict true peer
      if strict && st.seq != 0 then st.fail .proto
      else
        match negotiate true cfg.algs peer with
        | .error e => st.fail e
        | .ok n =>
          match kexInfo n.kex with
          | none => st.fail .internal
          | some info =>
            clientStartKex cr { st with is := m, strict := strict, negInfo := some (n, info),
                                        ignoreFirst := ignoreFirstKex peer n.kex } n info
  | .accepted => ({ st with phase := .outOfScope }, [])
  | _ => st.fail .proto                 -- 'Key exchange already in progress'

/-- the algorithm named at the front of a signature blob (`SSHPacket(sig).get_string()`) -/
def sigAlgName (sig : Bytes) : Option Name := (getString sig).map (·.1)

/-- shared secret, hash, signature, NEWKEYS: what follows `validate_server_host_key` in `_process_reply` /
    `_process_done` -/
def clientFinish (cr : Crypto) (cfg : Cfg) (st : CState) (n : Negotiated) (hostKey : Bytes)
    (shared : Except Err (KexBody × Bytes)) (sig : Bytes) : COut :=
  match shared with
  | .error e => st.fail e
  | .ok (body, k) =>
    match ownKexInit true cfg with
    | some ic =>
      let view : HashFields := { pre := ⟨cfg.version, st.vs, ic, st.is⟩, hostKey := hostKey, body := body, k := k }
      match hashInput? view with
      | none => st.fail .internal
      | some hi =>
        if cr.verify hostKey (cr.hashOf n.kex hi) sig then
          ({ st with phase := .accepted, hostKey := hostKey, k := k, acc := some ⟨view, n, sig⟩ }, [newkeysMsg])
        else st.fail .kexFailed
    | none => st.fail .internal

/-- the end of `_process_reply` / `_process_done`.  `validate_server_host_key(key_data, sig)`: the host key
    must be usable with the negotiated host key algorithm and trusted (HostKeyNotVerifiable), the signature
    must name the signature algorithm of the negotiated host key algorithm (KeyExchangeFailed); then the
    shared secret, the hash, the signature check and NEWKEYS -/
def clientVerify (cr : Crypto) (cfg : Cfg) (st : CState) (hostKey : Bytes)
    (shared : Except Err (KexBody × Bytes)) (sig : Bytes) : COut :=
  match st.negInfo with
  | none => st.fail .internal
  | some (n, _) =>
    if !(cr.keyAlgs hostKey).contains n.hostKey then st.fail .hostKey      -- 'Host key algorithm mismatch'
    else if !cr.trusted hostKey then st.fail .hostKey
    else if sigAlgName sig != some (sigAlgFor n.hostKey) then st.fail .kexFailed
    else clientFinish cr cfg st n hostKey shared sig

/-- the same before the repair: neither the key type nor the signature algorithm was compared with the
    negotiation (any algorithm the key class supports verified) -/
def clientVerifyPreFix (cr : Crypto) (cfg : Cfg) (st : CState) (hostKey : Bytes)
    (shared : Except Err (KexBody × Bytes)) (sig : Bytes) : COut :=
  match st.negInfo with
  | none => st.fail .internal
  | some (n, _) =>
    if !cr.trusted hostKey then st.fail .hostKey
    else clientFinish cr cfg st n hostKey shared sig

/-- the three-field reply `String(K_S) ‖ key ‖ String(sig)` with an mpint key -/
def parseDhReply (body : Bytes) : Option (Bytes × Int × Bytes) :=
  match getString body with
  | none => none
  | some (hk, b) =>
    match getMPInt b with
    | none => none
    | some (f, b) =>
      match getString b with
      | none => none
      | some (sig, b) => if b.isEmpty then some (hk, f, sig) else none

/-- the same with a string key (ECDH, hybrid) -/
def parseEcReply (body : Bytes) : Option (Bytes × Bytes × Bytes) :=
  match getString body with
  | none => none
  | some (hk, b) =>
    match getString b with
    | none => none
    | some (qs, b) =>
      match getString b with
      | none => none
      | some (sig, b) => if b.isEmpty then some (hk, qs, sig) else none

def optExcept {α : Type} (o : Option α) (e : Err) : Except Err α :=
  match o with
  | some a => .ok a
  | none => .error e

/-- `_compute_client_shared` of `_KexDHBase`: range check, then the library -/
def dhClientSecret (cr : Crypto) (g p f : Int) : Except Err Bytes :=
  if dhClientRangeOk f p then optExcept (cr.dhClientShared g p f) .internal else .error .proto

/-- kex-range message while a method is in progress, on the client -/
def clientOnKex (cr : Crypto) (cfg : Cfg) (st : CState) (n : Negotiated) (info : KexInfo) (t : Nat)
    (body : Bytes) : COut :=
  match info.form with
  | .dh =>
    if t = Gen.C03.MSG_KEXDH_INIT then st.fail .proto
    else if t = Gen.C03.MSG_KEXDH_REPLY then
      match parseDhReply body with
      | none => st.fail .proto
      | some (hk, f, sig) =>
        clientVerify cr cfg st hk
          ((dhClientSecret cr info.g info.p f).map fun k => (KexBody.dh st.e f, k)) sig
    else if st.strict then st.fail .proto else (st, [unimplMsg st.seq])
  | .gex =>
    if t = Gen.C03.MSG_KEX_DH_GEX_REQUEST_OLD || t = Gen.C03.MSG_KEX_DH_GEX_REQUEST then st.fail .proto
    else if t = Gen.C03.MSG_KEX_DH_GEX_INIT then st.fail .proto
    else if t = Gen.C03.MSG_KEX_DH_GEX_GROUP then
      if st.p ≠ 0 then st.fail .proto
      else
        match getMPInt body with
        | none => st.fail .proto
        | some (p, b) =>
          match getMPInt b with
          | none => st.fail .proto
          | some (g, b) =>
            if !b.isEmpty then st.fail .proto
            else
              match cr.dhClientPub g p with
              | none => st.fail .proto        -- the library refuses the group: 'Invalid kex DH group'
              | some e =>
                match encMPInt? e with
                | none => st.fail .internal
                | some eb => ({ st with phase := .reply, p := p, g := g, e := e },
                              [mkMsg Gen.C03.MSG_KEX_DH_GEX_INIT eb])
    else if t = Gen.C03.MSG_KEX_DH_GEX_REPLY then
      match getString body with
      | none => st.fail .proto
      | some _ =>
        if st.p = 0 then st.fail .proto        -- 'Kex DH p not specified'
        else
          match parseDhReply body with
          | none => st.fail .proto
          | some (hk, f, sig) =>
            clientVerify cr cfg st hk
              ((dhClientSecret cr st.g st.p f).map fun k => (KexBody.gex clientGexReq st.p st.g st.e f, k)) sig
    else if st.strict then st.fail .proto else (st, [unimplMsg st.seq])
  | .rsa =>
    if t = Gen.C03.MSG_KEXRSA_PUBKEY then
      match getString body with
      | none => st.fail .proto
      | some (hk, b) =>
        match getString b with
        | none => st.fail .proto
        | some (trans, b) =>
          if !b.isEmpty then st.fail .proto
          else
            match cr.rsaEncrypt trans with
            | .error e => st.fail e
            | .ok (encK, k) =>
              match encString? encK with
              | none => st.fail .internal
              | some eb => ({ st with phase := .rsaDone, hostKey := hk, trans := trans, encK := encK, k := k },
                            [mkMsg Gen.C03.MSG_KEXRSA_SECRET eb])
    else if t = Gen.C03.MSG_KEXRSA_SECRET then st.fail .proto
    else if t = Gen.C03.MSG_KEXRSA_DONE then
      match getString body with
      | none => st.fail .proto
      | some (sig, b) =>
        if !b.isEmpty then st.fail .proto
        else clientVerify cr cfg st st.hostKey (.ok (KexBody.rsa st.trans st.encK, st.k)) sig
    else if st.strict then st.fail .proto else (st, [unimplMsg st.seq])
  | _ =>
    if t = Gen.C03.MSG_KEX_ECDH_INIT then st.fail .proto
    else if t = Gen.C03.MSG_KEX_ECDH_REPLY then
      match parseEcReply body with
      | none => st.fail .proto
      | some (hk, qs, sig) =>
        clientVerify cr cfg st hk
          ((optExcept (cr.ecClientShared n.kex qs) .proto).map fun k => (KexBody.ecdh st.qc qs, k)) sig
    else if st.strict then st.fail .proto else (st, [unimplMsg st.seq])

def bumpC (o : COut) : COut := ({ o.1 with seq := o.1.seq + 1 }, o.2)

/-- one delivery to the client -/
def clientStep (cr : Crypto) (cfg : Cfg) (st : CState) (m : Bytes) : COut :=
  match st.phase with
  | .failed _ => (st, [])
  | .outOfScope => (st, [])
  | .done => (st, [])               -- everything after the peer's NEWKEYS is read under the new keys (C01)
  | .version => clientOnLine cfg st m
  | _ =>
    match m with
    | [] => st.fail .proto          -- `packet.get_byte()` on an empty payload: PacketDecodeError
    | tb :: body =>
      let t := tb.toNat
      bumpC <|
      if t = Gen.C03.MSG_KEXINIT then clientOnKexInit cr cfg st m body
      else if inKexRange t then
        match st.phase, st.negInfo with
        | .gexGroup, some (n, info) | .reply, some (n, info) | .rsaPubkey, some (n, info)
        | .rsaDone, some (n, info) =>
          if st.ignoreFirst then ({ st with ignoreFirst := false }, [])
          else clientOnKex cr cfg st n info t body
        | _, _ => st.fail .proto          -- 'Key exchange not in progress'
      else if st.strict && isTransportGeneric t then st.fail .proto
      else if t = Gen.C03.MSG_DISCONNECT then st.fail (onDisconnect body)
      else if isTransportGeneric t then
        (if genericBodyOk (mentionsCisco st.vs) t body then (st, []) else st.fail .proto)
      else if t = Gen.C03.MSG_NEWKEYS then
        if !body.isEmpty then st.fail .proto
        else match st.phase with
          | .accepted => ({ st with phase := .done }, [])
          | _ => st.fail .proto           -- 'New keys not negotiated'
      else if isUnknownType t then (if st.strict then st.fail .proto else (st, [unimplMsg st.seq]))
      else st.fail .proto                 -- anything else before the keys are in use

/-! ### server -/

inductive SPhase
  | version | kexinit | gexRequest | init | rsaSecret
  | sentNewkeys       -- reply signed and sent, NEWKEYS sent
  | done
  | outOfScope
  | failed (e : Err)
  deriving DecidableEq, Repr

structure SState where
  phase : SPhase := .version
  seq : Nat := 0
  strict : Bool := false
  ignoreFirst : Bool := false
  vc : Bytes := []
  ic : Bytes := []
  negInfo : Option (Negotiated × KexInfo) := none
  /-- the host key algorithm `choose_server_host_key` selected on this connection's own copy of the key pair -/
  hostAlg : Name := []
  p : Int := 0
  g : Int := 0
  gexReq : Bytes := []
  acc : Option Accept := none
  /-- every record whose hash the host key has signed, with the hash input -/
  signedRecs : List (Accept × Bytes) := []
  deriving Repr

/-- every message the host key has signed -/
def SState.signed (cr : Crypto) (st : SState) : List Bytes :=
  st.signedRecs.map fun r => cr.hashOf r.1.neg.kex r.2

abbrev SOut := SState × List Bytes

def SState.fail (st : SState) (e : Err) : SOut := ({ st with phase := .failed e }, [])

def serverInit (cfg : Cfg) : SOut := ({}, [versionLineOut cfg.version])

def serverOnLine (cfg : Cfg) (st : SState) (line : Bytes) : SOut :=
  match classifyVersionLine false line with
  | .reject e => st.fail e
  | .banner => st.fail .proto
  | .version v =>
    match ownKexInit false cfg with
    | none => st.fail .internal
    | some is => ({ st with phase := .kexinit, vc := v }, [is])

/-- start of the negotiated method on the server (`Kex.__init__` / `Kex.start`) -/
def serverStartKex (cr : Crypto) (st : SState) (info : KexInfo) : SOut :=
  match info.form with
  | .dh => ({ st with phase := .init, p := info.p, g := info.g }, [])
  | .gex => ({ st with phase := .gexRequest, p := 0, g := 0 }, [])
  | .rsa =>
    match encString? (cr.hostKeyOf st.hostAlg), encString? cr.rsaTransKey with
    | some a, some b => ({ st with phase := .rsaSecret }, [mkMsg Gen.C03.MSG_KEXRSA_PUBKEY (a ++ b)])
    | _, _ => st.fail .internal
  | _ => ({ st with phase := .init }, [])

def serverOnKexInit (cr : Crypto) (cfg : Cfg) (st : SState) (m body : Bytes) : SOut :=
  match st.phase with
  | .kexinit =>
    match parseKexInit body with
    | none => st.fail .proto
    | some peer =>
      let strict := peerStrict false peer
      if strict && st.seq != 0 then st.fail .proto
      else
        match negotiate false cfg.algs peer with
        | .error e => st.fail e
        | .ok n =>
          match kexInfo n.kex with
          | none => st.fail .internal
          | some info =>
            serverStartKex cr { st with ic := m, strict := strict, negInfo := some (n, info), hostAlg := n.hostKey,
                                        ignoreFirst := ignoreFirstKex peer n.kex } info
  | .sentNewkeys => ({ st with phase := .outOfScope }, [])
  | _ => st.fail .proto

/-- `host_key.sign(h)` = `SSHKey.sign(h, sig_algorithm)`: the signature algorithm that belongs to the host key
    algorithm of the key pair, as a string, followed by the signature proper; `none` = not encodable -/
def hostKeySign (cr : Crypto) (hostAlg : Name) (h : Bytes) : Option Bytes :=
  (encString? (sigAlgFor hostAlg)).map (· ++ cr.signRaw (sigAlgFor hostAlg) h)

/-- `_perform_reply` / the end of `_process_secret`: hash, sign, reply, NEWKEYS -/
def serverSign (cr : Crypto) (cfg : Cfg) (st : SState) (body : KexBody) (k : Bytes)
    (reply : Bytes → Bytes → Option Bytes) : SOut :=
  match st.negInfo, ownKexInit false cfg with
  | some (n, _), some is =>
    let hostKey := cr.hostKeyOf st.hostAlg
    let view : HashFields := { pre := ⟨st.vc, cfg.version, st.ic, is⟩, hostKey := hostKey, body := body, k := k }
    match hashInput? view with
    | none => st.fail .internal
    | some hi =>
      let h := cr.hashOf n.kex hi
      match hostKeySign cr st.hostAlg h with
      | none => st.fail .internal
      | some sig =>
        match reply hostKey sig with
        | none => st.fail .internal
        | some r =>
          ({ st with phase := .sentNewkeys, acc := some ⟨view, n, sig⟩,
                      signedRecs := (⟨view, n, sig⟩, hi) :: st.signedRecs }, [r, newkeysMsg])
  | _, _ => st.fail .internal

/-- `_send_reply` of the DH family -/
def dhReplyMsg (t : Nat) (key : Option Bytes) (hostKey sig : Bytes) : Option Bytes :=
  match encString? hostKey, key, encString? sig with
  | some a, some b, some c => some (mkMsg t (a ++ (b ++ c)))
  | _, _, _ => none

/-- `_compute_server_shared` of `_KexDHBase` -/
def dhServerSecret (cr : Crypto) (g p e : Int) : Except Err (Int × Bytes) :=
  if dhServerRangeOk e p then optExcept (cr.dhServer g p e) .internal else .error .proto

/-- INIT of the DH family on the server -/
def serverOnDhInit (cr : Crypto) (cfg : Cfg) (st : SState) (replyType : Nat) (mkBody : Int → Int → KexBody)
    (body : Bytes) : SOut :=
  if st.p = 0 then st.fail .proto               -- 'Kex DH p not specified'
  else
    match getMPInt body with
    | none => st.fail .proto
    | some (e, b) =>
      if !b.isEmpty then st.fail .proto
      else
        match dhServerSecret cr st.g st.p e with
        | .error err => st.fail err
        | .ok (f, k) => serverSign cr cfg st (mkBody e f) k (dhReplyMsg replyType (encMPInt? f))

/-- the sizes of `_process_request`: `(preferred, max)`; the old request carries only the preferred size -/
def parseGexRequest (old : Bool) (body : Bytes) : Option (Nat × Nat) :=
  if old then
    match getUInt32 body with
    | some (pref, b) => if b.isEmpty then some (pref, Gen.C03.KEX_DH_GEX_MAX_SIZE) else none
    | none => none
  else
    match getUInt32 body with
    | none => none
    | some (_, b) =>
      match getUInt32 b with
      | none => none
      | some (pref, b) =>
        match getUInt32 b with
        | some (mx, b) => if b.isEmpty then some (pref, mx) else none
        | none => none

def serverOnKex (cr : Crypto) (cfg : Cfg) (st : SState) (n : Negotiated) (info : KexInfo) (t : Nat)
    (body : Bytes) : SOut :=
  match info.form with
  | .dh =>
    if t = Gen.C03.MSG_KEXDH_REPLY then st.fail .proto
    else if t = Gen.C03.MSG_KEXDH_INIT then
      serverOnDhInit cr cfg st Gen.C03.MSG_KEXDH_REPLY (fun e f => .dh e f) body
    else if st.strict then st.fail .proto else (st, [unimplMsg st.seq])
  | .gex =>
    if t = Gen.C03.MSG_KEX_DH_GEX_GROUP || t = Gen.C03.MSG_KEX_DH_GEX_REPLY then st.fail .proto
    else if t = Gen.C03.MSG_KEX_DH_GEX_REQUEST_OLD || t = Gen.C03.MSG_KEX_DH_GEX_REQUEST then
      if st.p ≠ 0 then st.fail .proto           -- 'Kex DH group already requested'
      else
        match parseGexRequest (t = Gen.C03.MSG_KEX_DH_GEX_REQUEST_OLD) body with
        | none => st.fail .proto
        | some (pref, mx) =>
          let gp := groupAt (selectGroup pref mx)
          match encMPInt? gp.2, encMPInt? gp.1 with
          | some pb, some gb =>
            ({ st with phase := .init, p := gp.2, g := gp.1, gexReq := body },
             [mkMsg Gen.C03.MSG_KEX_DH_GEX_GROUP (pb ++ gb)])
          | _, _ => st.fail .internal
    else if t = Gen.C03.MSG_KEX_DH_GEX_INIT then
      serverOnDhInit cr cfg st Gen.C03.MSG_KEX_DH_GEX_REPLY (fun e f => .gex st.gexReq st.p st.g e f) body
    else if st.strict then st.fail .proto else (st, [unimplMsg st.seq])
  | .rsa =>
    if t = Gen.C03.MSG_KEXRSA_PUBKEY || t = Gen.C03.MSG_KEXRSA_DONE then st.fail .proto
    else if t = Gen.C03.MSG_KEXRSA_SECRET then
      match getString body with
      | none => st.fail .proto
      | some (encK, b) =>
        if !b.isEmpty then st.fail .proto
        else
          match cr.rsaDecrypt encK with
          | .error e => st.fail e
          | .ok k =>
            serverSign cr cfg st (.rsa cr.rsaTransKey encK) k
              (fun _ sig => (encString? sig).map (mkMsg Gen.C03.MSG_KEXRSA_DONE))
    else if st.strict then st.fail .proto else (st, [unimplMsg st.seq])
  | _ =>
    if t = Gen.C03.MSG_KEX_ECDH_REPLY then st.fail .proto
    else if t = Gen.C03.MSG_KEX_ECDH_INIT then
      match getString body with
      | none => st.fail .proto
      | some (qc, b) =>
        if !b.isEmpty then st.fail .proto
        else
          match cr.ecServer n.kex qc with
          | none => st.fail .proto
          | some (qs, k) =>
            serverSign cr cfg st (.ecdh qc qs) k (dhReplyMsg Gen.C03.MSG_KEX_ECDH_REPLY (encString? qs))
    else if st.strict then st.fail .proto else (st, [unimplMsg st.seq])

def bumpS (o : SOut) : SOut := ({ o.1 with seq := o.1.seq + 1 }, o.2)

/-- one delivery to the server -/
def serverStep (cr : Crypto) (cfg : Cfg) (st : SState) (m : Bytes) : SOut :=
  match st.phase with
  | .failed _ => (st, [])
  | .outOfScope => (st, [])
  | .done => (st, [])
  | .version => serverOnLine cfg st m
  | _ =>
    match m with
    | [] => st.fail .proto          -- `packet.get_byte()` on an empty payload: PacketDecodeError
    | tb :: body =>
      let t := tb.toNat
      bumpS <|
      if t = Gen.C03.MSG_KEXINIT then serverOnKexInit cr cfg st m body
      else if inKexRange t then
        match st.phase, st.negInfo with
        | .gexRequest, some (n, info) | .init, some (n, info) | .rsaSecret, some (n, info) =>
          if st.ignoreFirst then ({ st with ignoreFirst := false }, [])
          else serverOnKex cr cfg st n info t body
        | _, _ => st.fail .proto
      else if st.strict && isTransportGeneric t then st.fail .proto
      else if t = Gen.C03.MSG_DISCONNECT then st.fail (onDisconnect body)
      else if isTransportGeneric t then
        (if genericBodyOk (mentionsCisco cfg.version) t body then (st, []) else st.fail .proto)
      else if t = Gen.C03.MSG_NEWKEYS then
        if !body.isEmpty then st.fail .proto
        else match st.phase with
          | .sentNewkeys => ({ st with phase := .done }, [])
          | _ => st.fail .proto
      else if isUnknownType t then (if st.strict then st.fail .proto else (st, [unimplMsg st.seq]))
      else st.fail .proto

/-! ### several connections of one listener

  Every connection a listener accepts is created with the same options object, hence the same host key pair
  objects.  After the repair nothing a connection does touches them: `Listener.step` moves one connection and
  leaves the other alone.  Before the repair `choose_server_host_key` stored the chosen algorithm in the shared
  key pair (`set_sig_algorithm`) at KEXINIT time and the signature, made when the client's INIT arrives, read it
  from there: `serverStepPreFix` runs a step with `hostAlg` taken from, and written back to, that shared cell. -/

/-- two connections accepted by one listener (any two of them) -/
structure Listener where
  a : SState
  b : SState

inductive LEv
  | toA (m : Bytes)
  | toB (m : Bytes)
  deriving Repr

def Listener.init (cfg : Cfg) : Listener := { a := (serverInit cfg).1, b := (serverInit cfg).1 }

def Listener.step (cr : Crypto) (cfg : Cfg) (l : Listener) : LEv → Listener
  | .toA m => { l with a := (serverStep cr cfg l.a m).1 }
  | .toB m => { l with b := (serverStep cr cfg l.b m).1 }

def Listener.run (cr : Crypto) (cfg : Cfg) (evs : List LEv) : Listener :=
  evs.foldl (Listener.step cr cfg) (Listener.init cfg)

/-- one delivery before the repair: the signature algorithm lives in the key pair object shared by all
    connections (`shared`), whatever this connection chose earlier -/
def serverStepPreFix (cr : Crypto) (cfg : Cfg) (shared : Name) (st : SState) (m : Bytes) : Name × SOut :=
  let o := serverStep cr cfg { st with hostAlg := shared } m
  (o.1.hostAlg, o)

structure ListenerPreFix where
  shared : Name
  a : SState
  b : SState

def ListenerPreFix.step (cr : Crypto) (cfg : Cfg) (l : ListenerPreFix) : LEv → ListenerPreFix
  | .toA m => let r := serverStepPreFix cr cfg l.shared l.a m; { l with shared := r.1, a := r.2.1 }
  | .toB m => let r := serverStepPreFix cr cfg l.shared l.b m; { l with shared := r.1, b := r.2.1 }

def ListenerPreFix.run (cr : Crypto) (cfg : Cfg) (shared0 : Name) (evs : List LEv) : ListenerPreFix :=
  evs.foldl (ListenerPreFix.step cr cfg) { shared := shared0, a := (serverInit cfg).1, b := (serverInit cfg).1 }

/-! ### the three parties -/

/-- client, server, and everything each has put on the wire so far (what the editor has seen) -/
structure World where
  c : CState
  s : SState
  c2s : List Bytes
  s2c : List Bytes

/-- the editor's moves: deliver any byte string to either endpoint -/
inductive Ev
  | toServer (m : Bytes)
  | toClient (m : Bytes)
  deriving Repr

def World.init (ccfg scfg : Cfg) : World :=
  { c := (clientInit ccfg).1, s := (serverInit scfg).1, c2s := (clientInit ccfg).2, s2c := (serverInit scfg).2 }

def World.step (cr : Crypto) (ccfg scfg : Cfg) (w : World) : Ev → World
  | .toServer m => let o := serverStep cr scfg w.s m; { w with s := o.1, s2c := w.s2c ++ o.2 }
  | .toClient m => let o := clientStep cr ccfg w.c m; { w with c := o.1, c2s := w.c2s ++ o.2 }

def World.run (cr : Crypto) (ccfg scfg : Cfg) (evs : List Ev) : World :=
  evs.foldl (World.step cr ccfg scfg) (World.init ccfg scfg)

end AsyncsshModel.Kex
