import AsyncsshModel.Base.Hex
/-
  base64 as used by the key containers:
  * `b2a` = `binascii.b2a_base64(data)[:-1]` (standard alphabet, `=` padding, no newline),
  * `a2b` = `binascii.a2b_base64(data)` in its default non-strict mode (CPython 3.12
    Modules/binascii.c `binascii_a2b_base64_impl`): characters outside the alphabet are skipped,
    a complete pad sequence ends the parse, `binascii.Error` (`none`) when the number of data
    characters is not a multiple of four at the end,
  * `wrapJoin` = `b'\n'.join(data[i:i+wrap] for i in range(0, len(data), wrap))`
    (asyncssh/misc.py `wrap_base64`).
-/
namespace AsyncsshModel.KeyFmt
open AsyncsshModel

def padChar : UInt8 := 61      -- '='
def nl : UInt8 := 10

/-- the base64 character of a 6-bit value -/
def b64Char (n : Nat) : UInt8 :=
  if n < 26 then UInt8.ofNat (65 + n)
  else if n < 52 then UInt8.ofNat (97 + (n - 26))
  else if n < 62 then UInt8.ofNat (48 + (n - 52))
  else if n = 62 then 43 else 47

/-- `table_a2b_base64`: the 6-bit value of an alphabet character -/
def b64Val (c : UInt8) : Option Nat :=
  let n := c.toNat
  if 65 ≤ n ∧ n ≤ 90 then some (n - 65)
  else if 97 ≤ n ∧ n ≤ 122 then some (n - 97 + 26)
  else if 48 ≤ n ∧ n ≤ 57 then some (n - 48 + 52)
  else if n = 43 then some 62
  else if n = 47 then some 63
  else none

/-- `binascii.b2a_base64(data, newline=False)` -/
def b2a : Bytes → Bytes
  | [] => []
  | [a] => [b64Char (a.toNat / 4), b64Char (a.toNat % 4 * 16), padChar, padChar]
  | [a, b] => [b64Char (a.toNat / 4), b64Char (a.toNat % 4 * 16 + b.toNat / 16),
               b64Char (b.toNat % 16 * 4), padChar]
  | a :: b :: c :: rest =>
    b64Char (a.toNat / 4) :: b64Char (a.toNat % 4 * 16 + b.toNat / 16) ::
    b64Char (b.toNat % 16 * 4 + c.toNat / 64) :: b64Char (c.toNat % 64) :: b2a rest

/-- the decoding loop: `quad` = `quad_pos`, `left` = `leftchar`, `pads` = `pads` -/
def a2bGo (quad left pads : Nat) : Bytes → Option Bytes
  | [] => if quad = 0 then some [] else none
  | ch :: rest =>
    if ch = padChar then
      if 2 ≤ quad ∧ 4 ≤ quad + (pads + 1) then some []          -- complete pad sequence: `goto done`
      else a2bGo quad left (if 2 ≤ quad then pads + 1 else pads) rest
    else match b64Val ch with
      | none => a2bGo quad left pads rest                        -- not in the alphabet: skipped
      | some v =>
        if quad = 0 then a2bGo 1 v 0 rest
        else if quad = 1 then (a2bGo 2 (v % 16) 0 rest).map (UInt8.ofNat (left * 4 + v / 16) :: ·)
        else if quad = 2 then (a2bGo 3 (v % 4) 0 rest).map (UInt8.ofNat (left * 16 + v / 4) :: ·)
        else (a2bGo 0 0 0 rest).map (UInt8.ofNat (left * 64 + v) :: ·)

/-- `binascii.a2b_base64(data)`; `none` = `binascii.Error` -/
def a2b (data : Bytes) : Option Bytes := a2bGo 0 0 0 data

/-- `b'\n'.join(data[i:i+wrap] for i in range(0, len(data), wrap))`;
    `none` = `ValueError` from `range(…, 0)` -/
def wrapJoinAux (w : Nat) : Nat → Bytes → Bytes
  | 0, s => s
  | fuel + 1, s => if s.length ≤ w then s else s.take w ++ nl :: wrapJoinAux w fuel (s.drop w)

def wrapJoin? (w : Nat) (s : Bytes) : Option Bytes :=
  if w = 0 then none else some (wrapJoinAux w s.length s)

end AsyncsshModel.KeyFmt
