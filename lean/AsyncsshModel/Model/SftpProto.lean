import AsyncsshModel.Model.SftpAttrs
/-
  SFTP request/reply processing.

  Server: `SFTPServerHandler._process_packet` (asyncssh/sftp.py:5974–6129) with the body grammar of every
  `_process_*` handler (6131–6845) and the packet loop `SFTPHandler.recv_packets` (2577–2595), as a function
  request packet ↦ at most one reply packet.  What the application-level `SFTPServer` object does (return a
  value, raise `OSError(errno)`, raise an `SFTPError`, raise `NotImplementedError`, raise anything else), which
  handles are open and which handle the allocator would hand out are *environment inputs* (`Env`).

  Client: `SFTPClientHandler` request-id allocation, waiter table, reply dispatch and `_cleanup`
  (2634–2696) as a state machine over events (a caller issues a request, a packet arrives, the channel ends),
  and the caller-side reply check / parsing of `_make_request` and `_process_status/handle/data/name/attrs`
  (2678–2775).

  All numbers (`FXP_*`, `FX_*`), `_return_types`, the handler key sets, the errno chain and the status-code
  rewrite of `SFTPError.encode` are the generated definitions of `Gen/C14.lean`.
-/
namespace AsyncsshModel.Sftp
open AsyncsshModel.Gen.C14

/-- the key of `_packet_handlers` / `_return_types`: a packet type, or the name of an extended request -/
inductive ReqKey where
  | num (n : Nat)
  | ext (name : Bytes)
  deriving DecidableEq, Repr

/-- `self._return_types.get(key)` -/
def returnType? : ReqKey → Option Nat
  | .num n => returnTypesNum.lookup n
  | .ext e => returnTypesExt.lookup e

/-- `self._packet_handlers.get(key)` is not `None` (server) -/
def hasHandler : ReqKey → Bool
  | .num n => serverHandlersNum.contains n
  | .ext e => serverHandlersExt.contains e

/-- reply types a request of this key may legally receive: `FXP_STATUS` or its `_return_types` entry -/
def legalTypes (k : ReqKey) : List Nat := FXP_STATUS :: (returnType? k).toList

/-! ## server: body grammar of each handler -/

inductive Fld where
  | str | u32 | u64 | u8 | bool | attrs
  | strs          -- strings until the end of the packet (`while packet: get_string()`, realpath v6)
  deriving DecidableEq, Repr

inductive Val where
  | str (b : Bytes)
  | num (n : Nat)
  | bool (b : Bool)
  | attrs (a : Attrs)
  | strs (l : List Bytes)
  deriving Repr

/-- when the handler calls `packet.check_end()` -/
inductive Tail where
  | always        -- unconditionally
  | lt6           -- `if self._version < 6`
  | never         -- not at all (trailing bytes are ignored)
  deriving DecidableEq, Repr

/-- what the handler does after parsing -/
inductive Kind where
  | path          -- calls the application with path arguments
  | file          -- first field is a handle that must be an open file
  | file2         -- copy-data: fields 0 and 3 must be open files
  | close         -- file or directory handle
  | readdir       -- first field must be an open directory handle
  | opendir       -- allocates a directory handle, no application call yet
  | open          -- (v ≥ 5: access/flag mask checks), application call, allocates a file handle
  | realpath      -- (v ≥ 6: check byte validity), application call(s)
  | limits        -- answered by the handler itself
  deriving DecidableEq, Repr

structure Spec where
  fields : List Fld
  tail : Tail
  kind : Kind
  deriving Repr

def extName (s : String) : Bytes := strBytes s

/-- body grammar of the numeric request types (the `packet.get_*` calls of each `_process_*`, in order) -/
def specNum (v n : Nat) : Option Spec :=
  if n = FXP_OPEN then some ⟨[.str] ++ (if v ≥ 5 then [.u32, .u32] else [.u32]) ++ [.attrs], .lt6, .open⟩
  else if n = FXP_CLOSE then some ⟨[.str], .lt6, .close⟩
  else if n = FXP_READ then some ⟨[.str, .u64, .u32], .lt6, .file⟩
  else if n = FXP_WRITE then some ⟨[.str, .u64, .str], .lt6, .file⟩
  else if n = FXP_LSTAT then some ⟨[.str] ++ (if v ≥ 4 then [.u32] else []), .lt6, .path⟩
  else if n = FXP_FSTAT then some ⟨[.str] ++ (if v ≥ 4 then [.u32] else []), .lt6, .file⟩
  else if n = FXP_SETSTAT then some ⟨[.str, .attrs], .lt6, .path⟩
  else if n = FXP_FSETSTAT then some ⟨[.str, .attrs], .lt6, .file⟩
  else if n = FXP_OPENDIR then some ⟨[.str], .lt6, .opendir⟩
  else if n = FXP_READDIR then some ⟨[.str], .lt6, .readdir⟩
  else if n = FXP_REMOVE then some ⟨[.str], .lt6, .path⟩
  else if n = FXP_MKDIR then some ⟨[.str, .attrs], .lt6, .path⟩
  else if n = FXP_RMDIR then some ⟨[.str], .lt6, .path⟩
  else if n = FXP_REALPATH then some ⟨[.str] ++ (if v ≥ 6 then [.u8, .strs] else []), .never, .realpath⟩
  else if n = FXP_STAT then some ⟨[.str] ++ (if v ≥ 4 then [.u32] else []), .lt6, .path⟩
  else if n = FXP_RENAME then some ⟨[.str, .str] ++ (if v ≥ 5 then [.u32] else []), .lt6, .path⟩
  else if n = FXP_READLINK then some ⟨[.str], .lt6, .path⟩
  else if n = FXP_SYMLINK then some ⟨[.str, .str], .always, .path⟩
  else if n = FXP_LINK then some ⟨[.str, .str, .bool], .never, .path⟩
  else if n = FXP_BLOCK then some ⟨[.str, .u64, .u64, .u32], .never, .file⟩
  else if n = FXP_UNBLOCK then some ⟨[.str, .u64, .u64], .never, .file⟩
  else none

/-- body grammar of the extended requests (after the request name) -/
def specExt (e : Bytes) : Option Spec :=
  if e = extName "posix-rename@openssh.com" then some ⟨[.str, .str], .always, .path⟩
  else if e = extName "statvfs@openssh.com" then some ⟨[.str], .always, .path⟩
  else if e = extName "fstatvfs@openssh.com" then some ⟨[.str], .always, .file⟩
  else if e = extName "hardlink@openssh.com" then some ⟨[.str, .str], .always, .path⟩
  else if e = extName "fsync@openssh.com" then some ⟨[.str], .always, .file⟩
  else if e = extName "lsetstat@openssh.com" then some ⟨[.str, .attrs], .lt6, .path⟩
  else if e = extName "limits@openssh.com" then some ⟨[], .always, .limits⟩
  else if e = extName "copy-data" then some ⟨[.str, .u64, .u64, .str, .u64], .always, .file2⟩
  else if e = extName "ranges@asyncssh.com" then some ⟨[.str, .u64, .u64], .always, .file⟩
  else none

def specOf (v : Nat) : ReqKey → Option Spec
  | .num n => specNum v n
  | .ext e => specExt e

/-- `while packet: l.append(packet.get_string())` -/
def getStrs : Nat → Bytes → Except DecErr (List Bytes)
  | 0, inp => if inp.isEmpty then .ok [] else .error .short
  | fuel + 1, inp =>
    if inp.isEmpty then .ok []
    else match getStr inp with
      | .error e => .error e
      | .ok (s, r) => match getStrs fuel r with
        | .error e => .error e
        | .ok l => .ok (s :: l)

def parseFld (v : Nat) (f : Fld) (inp : Bytes) : Except DecErr (Val × Bytes) :=
  match f with
  | .str => match getStr inp with
    | .ok (b, r) => .ok (.str b, r)
    | .error e => .error e
  | .u32 => match getU32 inp with
    | .ok (n, r) => .ok (.num n, r)
    | .error e => .error e
  | .u64 => match getU64 inp with
    | .ok (n, r) => .ok (.num n, r)
    | .error e => .error e
  | .u8 => match getU8 inp with
    | .ok (n, r) => .ok (.num n, r)
    | .error e => .error e
  | .bool => match getBool inp with
    | .ok (b, r) => .ok (.bool b, r)
    | .error e => .error e
  | .attrs => match decode v inp with
    | .ok (a, r) => .ok (.attrs a, r)
    | .error e => .error e
  | .strs => match getStrs inp.length inp with
    | .ok l => .ok (.strs l, [])
    | .error e => .error e

def parseFields (v : Nat) : List Fld → Bytes → Except DecErr (List Val × Bytes)
  | [], inp => .ok ([], inp)
  | f :: fs, inp =>
    match parseFld v f inp with
    | .error e => .error e
    | .ok (x, r) =>
      match parseFields v fs r with
      | .error e => .error e
      | .ok (xs, r') => .ok (x :: xs, r')

def tailCheck (v : Nat) (t : Tail) (rest : Bytes) : Except DecErr Unit :=
  match t with
  | .always => checkEnd rest
  | .lt6 => if v < 6 then checkEnd rest else .ok ()
  | .never => .ok ()

/-- the parsed arguments of a request body, or the decode error the handler raises -/
def parseBody (v : Nat) (sp : Spec) (body : Bytes) : Except DecErr (List Val) :=
  match parseFields v sp.fields body with
  | .error e => .error e
  | .ok (vals, rest) =>
    match tailCheck v sp.tail rest with
    | .error e => .error e
    | .ok () => .ok vals

/-! ## server: exceptions and the status code they become -/

/-- what `_process_packet`'s `try` block can raise, as classified by its `except` clauses -/
inductive Exc where
  | packetDecode            -- PacketDecodeError
  | sftp (code : Nat)       -- SFTPError with this code
  | notImpl                 -- NotImplementedError
  | os (errno : Nat)        -- OSError
  | other                   -- any other Exception
  deriving DecidableEq, Repr

/-- the code in the `FXP_STATUS` reply for each except clause (sftp.py:6045–6127) -/
def excCode (v : Nat) : Exc → Nat
  | .packetDecode => codeOnPacketDecodeError
  | .sftp c => statusCodeFor c v
  | .notImpl => codeOnNotImplemented
  | .os e => statusCodeFor (errnoToStatus e) v
  | .other => codeOnOtherException

/-- the exception a decode error surfaces as inside a server handler -/
def decErrExc : DecErr → Exc
  | .short => .packetDecode
  | .trailing => .packetDecode
  | .badFlags _ => .sftp FX_BAD_MESSAGE
  | .badMime => .sftp FX_BAD_MESSAGE
  | .ownerInvalid => .sftp FX_OWNER_INVALID
  | .groupInvalid => .sftp FX_GROUP_INVALID

/-- outcome of the application-level work of one handler invocation (environment input) -/
inductive App where
  | unit                                        -- returned None / a value that is not sent
  | data (b : Bytes) (size : Nat)               -- `read` result, and the file size `fstat` reports (v6 at-end)
  | names (l : List Name)                       -- what the directory iterator yields now
  | attrs (a : Attrs)                           -- stat-like result
  | path (b : Bytes) (st : Option Attrs)        -- realpath/readlink result (and stat of it, if obtained)
  | ext                                         -- value of an extended reply (not modelled further)
  | raise (e : Exc)
  deriving Repr

inductive HK where
  | file | dir | none
  deriving DecidableEq, Repr

structure Env where
  files : List Bytes          -- open file handles
  dirs : List Bytes           -- open directory handles
  fresh : Bytes               -- what `_get_next_handle` would return
  app : App

def Env.kind (env : Env) (h : Bytes) : HK :=
  if env.files.contains h then .file else if env.dirs.contains h then .dir else .none

inductive Body where
  | status (code : Nat)
  | handle (h : Bytes)
  | data (payload : Bytes)          -- `String(data) + end`
  | names (payload : Bytes)         -- `UInt32(count) + names + end`
  | attrs (payload : Bytes)
  | ext
  deriving DecidableEq, Repr

structure Reply where
  type : Nat
  id : Nat
  body : Body
  deriving DecidableEq, Repr

/-- supported access mask / open flags of `_process_open` for v ≥ 5 (sftp.py:5899–5905):
    ACE4_READ_DATA|WRITE_DATA|APPEND_DATA|READ_ATTRIBUTES|WRITE_ATTRIBUTES, FXF_ACCESS_DISPOSITION|FXF_APPEND_DATA -/
def supportedAccessMask : Nat := 0x00000001 ||| 0x00000002 ||| 0x00000004 ||| 0x00000080 ||| 0x00000100
def supportedOpenFlags : Nat := 0x00000007 ||| 0x00000008

def MAX_READDIR_NAMES : Nat := 128

def encodeNames? (v : Nat) : List Name → Option Bytes
  | [] => some []
  | n :: r => match encodeName? v n, encodeNames? v r with
    | some a, some b => some (a ++ b)
    | _, _ => none

def endMark (v : Nat) (atEnd : Bool) : Bytes := if atEnd ∧ v ≥ 6 then putBool true else []

/-- the handle named by the first field of a request (`b''` if there is none) -/
def firstHandle : List Val → Bytes
  | .str h :: _ => h
  | _ => []

/-- the checks a handler makes after parsing and before it calls the application: handle look-ups
    (`SFTPInvalidHandle`), the v5/v6 open masks and the v6 realpath control byte (`SFTPInvalidParameter`) -/
def preCheck (v : Nat) (sp : Spec) (vals : List Val) (env : Env) : Except Exc Unit :=
  match sp.kind with
  | .file => if env.kind (firstHandle vals) = .file then .ok () else .error (.sftp FX_INVALID_HANDLE)
  | .file2 =>
    match vals with
    | [.str h1, _, _, .str h2, _] =>
      if env.kind h1 = .file ∧ env.kind h2 = .file then .ok () else .error (.sftp FX_INVALID_HANDLE)
    | _ => .error .other
  | .readdir => if env.kind (firstHandle vals) = .dir then .ok () else .error (.sftp FX_INVALID_HANDLE)
  | .close => if env.kind (firstHandle vals) = .none then .error (.sftp FX_INVALID_HANDLE) else .ok ()
  | .open =>
    if v ≥ 5 then
      match vals with
      | [_, .num access, .num flags, _] =>
        if andNot access supportedAccessMask ≠ 0 then .error (.sftp FX_INVALID_PARAMETER)
        else if andNot flags supportedOpenFlags ≠ 0 then .error (.sftp FX_INVALID_PARAMETER)
        else .ok ()
      | _ => .error .other
    else .ok ()
  | .realpath =>
    if v ≥ 6 then
      match vals with
      | [_, .num check, _] =>
        if check = FXRP_NO_CHECK ∨ check = FXRP_STAT_IF_EXISTS ∨ check = FXRP_STAT_ALWAYS then .ok ()
        else .error (.sftp FX_INVALID_PARAMETER)
      | _ => .error .other
    else .ok ()
  | _ => .ok ()

/-- the names a NAME-returning handler sends, and whether the listing is at its end -/
def namesOf (sp : Spec) (vals : List Val) (app : App) : Option (List Name × Bool) :=
  match app with
  | .names l =>
    if sp.kind = .readdir then some (l.take MAX_READDIR_NAMES, l.length < MAX_READDIR_NAMES) else none
  | .path b st =>
    if sp.kind = .realpath then
      let useStat : Bool := match vals with
        | [_, .num check, _] => check != FXRP_NO_CHECK
        | _ => false
      some ([{ filename := b, longname := some [], attrs := if useStat then st.getD {} else {} }], false)
    else if sp.kind = .path then some ([{ filename := b, longname := some [], attrs := {} }], false)
    else none
  | _ => none

/-- the response body built for return type `rt` from the application's result (sftp.py:5992–6044);
    an exception while encoding it lands in `except Exception` -/
def typedBody (v : Nat) (sp : Spec) (vals : List Val) (env : Env) (rt : Nat) : Except Exc Body :=
  if rt = FXP_HANDLE then .ok (.handle env.fresh)
  else if rt = FXP_DATA then
    match env.app, vals with
    | .data b size, [_, .num off, _] =>
      if b.isEmpty then .error (.sftp FX_EOF)
      else if b.length < 2^32 then .ok (.data (putStr b ++ endMark v (off + b.length == size)))
      else .error .other
    | _, _ => .error .other
  else if rt = FXP_NAME then
    match namesOf sp vals env.app with
    | none => .error .other
    | some (l, atEnd) =>
      if sp.kind = .readdir ∧ l.isEmpty then .error (.sftp FX_EOF)
      else match encodeNames? v l with
        | some bs => .ok (.names (putU32 l.length ++ bs ++ endMark v atEnd))
        | none => .error .other
  else if rt = FXP_ATTRS then
    match env.app with
    | .attrs a => match encode? v a with
      | some bs => .ok (.attrs bs)
      | none => .error .other
    | _ => .error .other
  else match env.app with
    | .ext => .ok .ext
    | _ => .error .other

/-- the `try` block after a successful parse: `Except.error` is the exception raised, `ok` the typed result -/
def handlerResult (v : Nat) (k : ReqKey) (sp : Spec) (vals : List Val) (env : Env) : Except Exc Body :=
  match preCheck v sp vals env with
  | .error e => .error e
  | .ok () =>
    -- handlers that never call the application
    if sp.kind = .opendir then .ok (.handle env.fresh)
    else if sp.kind = .limits then .ok .ext
    else if sp.kind = .close ∧ env.kind (firstHandle vals) = .dir then .ok (.status FX_OK)
    else
    match env.app with
    | .raise e => .error e
    | _ =>
      match returnType? k with
      | none => .ok (.status FX_OK)
      | some rt => typedBody v sp vals env rt

def bodyType : Body → Nat
  | .status _ => FXP_STATUS
  | .handle _ => FXP_HANDLE
  | .data _ => FXP_DATA
  | .names _ => FXP_NAME
  | .attrs _ => FXP_ATTRS
  | .ext => FXP_EXTENDED_REPLY

/-- `if pkttype == FXP_EXTENDED: handler_type = packet.get_string() else: handler_type = pkttype`:
    the handler key and the request body -/
def splitKey (pkttype : Nat) (payload : Bytes) : Except DecErr (ReqKey × Bytes) :=
  if pkttype = FXP_EXTENDED then
    match getStr payload with
    | .ok (name, r) => .ok (.ext name, r)
    | .error e => .error e
  else .ok (.num pkttype, payload)

/-- the `try` block of `_process_packet`: the handler key and the typed result, or the exception raised -/
def processResult (v : Nat) (env : Env) (pkttype : Nat) (payload : Bytes) : Except Exc (ReqKey × Body) :=
  match splitKey pkttype payload with
  | .error e => .error (decErrExc e)
  | .ok (k, body) =>
    if ¬ hasHandler k then .error (.sftp codeOnNoHandler)
    else match specOf v k with
      | none => .error .other                 -- a handler the model has no grammar for
      | some sp =>
        match parseBody v sp body with
        | .error e => .error (decErrExc e)
        | .ok vals =>
          match handlerResult v k sp vals env with
          | .ok b => .ok (k, b)
          | .error e => .error e

/-- `_process_packet(pkttype, pktid, packet)`: always exactly one reply, with the request's id; its type is
    `self._return_types.get(handler_type, FXP_STATUS)` on success and `FXP_STATUS` in every `except` clause -/
def processPacket (v : Nat) (env : Env) (pkttype pktid : Nat) (payload : Bytes) : Reply :=
  match processResult v env pkttype payload with
  | .ok (k, b) => ⟨(returnType? k).getD FXP_STATUS, pktid, b⟩
  | .error e => ⟨FXP_STATUS, pktid, .status (excCode v e)⟩

/-- the request key `_process_packet` dispatches on, when it can be determined -/
def requestKey (pkttype : Nat) (payload : Bytes) : Option ReqKey :=
  match splitKey pkttype payload with
  | .ok (k, _) => some k
  | .error _ => none

/-- `pkttype = packet.get_byte(); pktid = packet.get_uint32()` in `recv_packets`: `none` is the
    `PacketDecodeError` that ends the loop -/
def header? (pkt : Bytes) : Option (Nat × Nat × Bytes) :=
  match getU8 pkt with
  | .error _ => none
  | .ok (t, r) =>
    match getU32 r with
    | .error _ => none
    | .ok (id, payload) => some (t, id, payload)

/-- one iteration of `recv_packets` on a framed packet (the bytes after the length word):
    `none` = the packet has no type/id (`PacketDecodeError` in the loop) and the session is cleaned up -/
def serverStep (v : Nat) (env : Env) (pkt : Bytes) : Option Reply :=
  match header? pkt with
  | none => none
  | some (t, id, payload) => some (processPacket v env t id payload)

/-- a whole session after version negotiation: the packet loop stops at the first unframed packet -/
def serverRun (v : Nat) : List (Bytes × Env) → List Reply
  | [] => []
  | (pkt, env) :: rest =>
    match serverStep v env pkt with
    | none => []
    | some r => r :: serverRun v rest

/-! ## client: request ids, waiter table, dispatch, cleanup -/

/-- exceptions a waiting caller can receive -/
inductive CExc where
  | badMessage          -- SFTPBadMessage (invalid response id, unexpected type, malformed status, …)
  | connectionLost      -- SFTPConnectionLost('Connection closed')
  | noConnection        -- SFTPNoConnection('Connection not open')
  deriving DecidableEq, Repr

structure CState where
  nextId : Nat := 0
  table : List (Nat × Nat) := []      -- `_requests`: pktid ↦ caller, in insertion order, keys unique
  isOpen : Bool := true               -- `_writer`/`_reader` still set (cleared by `_cleanup`)
  deriving DecidableEq, Repr

inductive CEvent where
  | request (caller : Nat)            -- `_make_request` up to `await waiter`
  | packet (pkt : Bytes)              -- a framed packet arrives (`recv_packet` returned)
  | eof                               -- `recv_packet` raised EOF / connection lost
  deriving Repr

inductive COut where
  | sent (caller id : Nat)                          -- request on the wire with this id
  | deliver (caller type : Nat) (payload : Bytes)   -- `waiter.set_result((pkttype, packet))`
  | fail (caller : Nat) (e : CExc)                  -- `waiter.set_exception` / raised in `_send_request`
  | closed                                          -- `_cleanup` ran: writer closed
  deriving DecidableEq, Repr

/-- `self._requests[pktid] = waiter` -/
def tableInsert (t : List (Nat × Nat)) (id caller : Nat) : List (Nat × Nat) :=
  (t.filter fun p => p.1 != id) ++ [(id, caller)]

/-- `_cleanup(exc)`: every waiter gets the exception, the table is emptied, the writer closed -/
def cleanup (s : CState) (e : CExc) : CState × List COut :=
  ({ s with table := [], isOpen := false }, s.table.map (fun p => COut.fail p.2 e) ++ [COut.closed])

def clientStep (s : CState) : CEvent → CState × List COut
  | .request caller =>
    let id := s.nextId
    let next := (s.nextId + 1) % 2^32
    if s.isOpen then
      ({ s with nextId := next, table := tableInsert s.table id caller }, [.sent caller id])
    else
      -- `send_packet` raises SFTPNoConnection; the caller never awaits the registered future
      ({ s with nextId := next }, [.fail caller .noConnection])
  | .packet pkt =>
    if ¬ s.isOpen then (s, [])            -- the receive loop has ended
    else
      match header? pkt with
      | none => cleanup s .badMessage           -- PacketDecodeError in `recv_packets`
      | some (t, id, payload) =>
        match s.table.lookup id with
        | some caller => ({ s with table := s.table.filter fun p => p.1 != id }, [.deliver caller t payload])
        | none => cleanup s .badMessage         -- 'Invalid response id'
  | .eof => if s.isOpen then cleanup s .connectionLost else (s, [])

def clientRun : CState → List CEvent → CState × List COut
  | s, [] => (s, [])
  | s, e :: es =>
    let (s1, o1) := clientStep s e
    let (s2, o2) := clientRun s1 es
    (s2, o1 ++ o2)

/-! ## client: what the caller makes of the reply it was handed (`_make_request` after `await waiter`) -/

inductive Outcome where
  | none                                            -- FX_OK for a request that returns nothing
  | handle (h : Bytes)
  | data (b : Bytes) (atEnd : Bool)
  | names (l : List Name) (atEnd : Bool)
  | attrs (a : Attrs)
  | ext (payload : Bytes)
  | sftpError (code : Nat)                          -- the SFTPError subclass for this status code
  | badMessage                                      -- SFTPBadMessage raised by the client itself
  | packetDecode                                    -- PacketDecodeError escaping to the caller
  deriving DecidableEq, Repr

def isAscii (b : Bytes) : Bool := b.all fun x => x.toNat < 0x80

def decErrOutcome : DecErr → Outcome
  | .short => .packetDecode
  | .trailing => .packetDecode
  | .badFlags _ => .badMessage
  | .badMime => .badMessage
  | .ownerInvalid => .sftpError FX_OWNER_INVALID
  | .groupInvalid => .sftpError FX_GROUP_INVALID

def endOk (v : Nat) (rest : Bytes) (o : Outcome) : Outcome :=
  if v < 6 ∧ ¬ rest.isEmpty then .packetDecode else o

/-- `at_end = packet.get_boolean() if packet and v >= 6 else False` -/
def getAtEnd (v : Nat) (rest : Bytes) : Except DecErr (Bool × Bytes) :=
  if ¬ rest.isEmpty ∧ v ≥ 6 then getBool rest else .ok (false, rest)

def getNames (v : Nat) : Nat → Bytes → Except DecErr (List Name × Bytes)
  | 0, inp => .ok ([], inp)
  | n + 1, inp =>
    match decodeName v inp with
    | .error e => .error e
    | .ok (x, r) =>
      match getNames v n r with
      | .error e => .error e
      | .ok (l, r') => .ok (x :: l, r')

/-- `SFTPUnknownPrincipal.decode`: `while packet: names.append(packet.get_string().decode('utf-8'))` -/
def principalNames : Nat → Bytes → Nat → Outcome
  | 0, inp, code => if inp.isEmpty then .sftpError code else .packetDecode
  | fuel + 1, inp, code =>
    if inp.isEmpty then .sftpError code
    else match getStr inp with
      | .error _ => .packetDecode
      | .ok (s, r) => if validUtf8 s then principalNames fuel r code else .badMessage

/-- `SFTPError.construct` + `_process_status` -/
def parseStatus (v : Nat) (payload : Bytes) : Outcome :=
  match getU32 payload with
  | .error _ => .packetDecode
  | .ok (code, r) =>
    -- reason and language tag, when present
    let strings : Except Outcome Bytes :=
      if r.isEmpty then .ok r
      else match getStr r with
        | .error _ => .error .packetDecode
        | .ok (reason, r1) =>
          if ¬ validUtf8 reason then .error .badMessage
          else match getStr r1 with
            | .error _ => .error .packetDecode
            | .ok (lang, r2) => if isAscii lang then .ok r2 else .error .badMessage
    match strings with
    | .error o => o
    | .ok rest =>
      if code = FX_OK then endOk v rest .none
      else if code = FX_UNKNOWN_PRINCIPAL then
        -- SFTPUnknownPrincipal.decode consumes the rest as UTF-8 strings
        principalNames rest.length rest code
      else endOk v rest (.sftpError code)

/-- `_make_request` after the waiter completes: reply-type check, reply parsing, FX_OK check -/
def finish (v : Nat) (k : ReqKey) (type : Nat) (payload : Bytes) : Outcome :=
  let rt := returnType? k
  if type ≠ FXP_STATUS ∧ some type ≠ rt then .badMessage        -- 'Unexpected response type'
  else if type = FXP_STATUS then
    match parseStatus v payload with
    | .none => if rt.isNone then .none else .badMessage          -- 'Unexpected FX_OK response'
    | o => o
  else if type = FXP_HANDLE then
    match getStr payload with
    | .error e => decErrOutcome e
    | .ok (h, r) => endOk v r (.handle h)
  else if type = FXP_DATA then
    match getStr payload with
    | .error e => decErrOutcome e
    | .ok (b, r) => match getAtEnd v r with
      | .error e => decErrOutcome e
      | .ok (atEnd, r') => endOk v r' (.data b atEnd)
  else if type = FXP_NAME then
    match getU32 payload with
    | .error e => decErrOutcome e
    | .ok (count, r) => match getNames v count r with
      | .error e => decErrOutcome e
      | .ok (l, r1) => match getAtEnd v r1 with
        | .error e => decErrOutcome e
        | .ok (atEnd, r2) => endOk v r2 (.names l atEnd)
  else if type = FXP_ATTRS then
    match decode v payload with
    | .error e => decErrOutcome e
    | .ok (a, r) => endOk v r (.attrs a)
  else if type = FXP_EXTENDED_REPLY then .ext payload
  else .badMessage    -- unreachable for the generated table: every return type has a parser

end AsyncsshModel.Sftp
