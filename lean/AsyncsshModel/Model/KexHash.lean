import AsyncsshModel.Model.KexInit
/-
  C03 model, part 2: what is fed to the exchange hash, and the Diffie-Hellman range checks.

  * `hashPrefix?`  — `SSHConnection.get_hash_prefix` (connection.py:1240-1252)
  * `hashInput?`   — `_KexDHBase._compute_hash` (kex_dh.py:148-158) for the DH, DH group exchange, ECDH /
                     Curve25519 / Curve448 and hybrid post-quantum forms (they differ in `_gex_data` and in
                     `_format_client_key`/`_format_server_key`), and `_KexRSA._compute_hash` (kex_rsa.py:83-92).
                     The order of the pieces is read from the regenerated `Gen/C03.lean`
                     (`hashPrefixOrder`, `dhHashOrder`, `rsaHashOrder`), so the theorems are about the order the
                     code has now.
  * `dhClientRangeOk` / `dhServerRangeOk` — the tests of `_compute_client_shared` / `_compute_server_shared`
                     (kex_dh.py:205-223), translated from the AST.
  * `selectGroup`  — the group choice of `_KexDHGex._process_request` (kex_dh.py:361-370).
-/
namespace AsyncsshModel.Kex
open AsyncsshModel AsyncsshModel.KexWire

/-- `V_C, V_S, I_C, I_S` as one endpoint holds them (`_client_version`, `_server_version`,
    `_client_kexinit`, `_server_kexinit`) -/
structure Prefix where
  vc : Bytes
  vs : Bytes
  ic : Bytes
  is : Bytes
  deriving DecidableEq, Repr

/-- the method-specific hashed values -/
inductive KexBody
  /-- fixed-group DH: `e`, `f` -/
  | dh (e f : Int)
  /-- group exchange: the request payload as received/sent, `p`, `g`, then `e`, `f` -/
  | gex (req : Bytes) (p g e f : Int)
  /-- ECDH, Curve25519, Curve448 and the hybrid PQ methods: both public blobs as strings -/
  | ecdh (qc qs : Bytes)
  /-- RSA: transient key blob and the encrypted secret -/
  | rsa (trans encK : Bytes)
  deriving DecidableEq, Repr

/-- everything one endpoint feeds to the exchange hash; `k` is the byte string passed as `k`
    (`MPInt(shared)`, `String(hash)` for the hybrid methods, `MPInt(k)` for RSA) -/
structure HashFields where
  pre : Prefix
  hostKey : Bytes
  body : KexBody
  k : Bytes
  deriving DecidableEq, Repr

def prefixPiece (p : Prefix) : String → Option Bytes
  | "String(client_version)" => encString? p.vc
  | "String(server_version)" => encString? p.vs
  | "String(client_kexinit)" => encString? p.ic
  | "String(server_kexinit)" => encString? p.is
  | "Raw(client_version)" => some p.vc
  | "Raw(server_version)" => some p.vs
  | "Raw(client_kexinit)" => some p.ic
  | "Raw(server_kexinit)" => some p.is
  | _ => none

/-- `get_hash_prefix()` -/
def hashPrefix? (p : Prefix) : Option Bytes :=
  concatPieces (Gen.C03.hashPrefixOrder.map (prefixPiece p))

/-- `self._gex_data`: empty except for group exchange, where it is the request payload followed by
    `MPInt(p) + MPInt(g)` -/
def gexData? : KexBody → Option Bytes
  | .gex req p g _ _ => do
    let a ← encMPInt? p
    let b ← encMPInt? g
    pure (req ++ (a ++ b))
  | _ => some []

/-- `_format_client_key()` -/
def clientKey? : KexBody → Option Bytes
  | .dh e _ => encMPInt? e
  | .gex _ _ _ e _ => encMPInt? e
  | .ecdh qc _ => encString? qc
  | .rsa _ _ => none

/-- `_format_server_key()` -/
def serverKey? : KexBody → Option Bytes
  | .dh _ f => encMPInt? f
  | .gex _ _ _ _ f => encMPInt? f
  | .ecdh _ qs => encString? qs
  | .rsa _ _ => none

def dhPiece (h : HashFields) : String → Option Bytes
  | "prefix" => hashPrefix? h.pre
  | "String(host_key)" => encString? h.hostKey
  | "Raw(host_key)" => some h.hostKey
  | "gex_data" => gexData? h.body
  | "client_key" => clientKey? h.body
  | "server_key" => serverKey? h.body
  | "k" => some h.k
  | _ => none

def rsaPiece (h : HashFields) : String → Option Bytes
  | "prefix" => hashPrefix? h.pre
  | "String(host_key)" => encString? h.hostKey
  | "Raw(host_key)" => some h.hostKey
  | "String(trans_key)" => match h.body with | .rsa t _ => encString? t | _ => none
  | "String(encrypted_k)" => match h.body with | .rsa _ c => encString? c | _ => none
  | "MPInt(k)" => some h.k
  | _ => none

/-- the byte string hashed into `H` (`none`: an encoder raised, i.e. a field of 2^32 bytes or more) -/
def hashInput? (h : HashFields) : Option Bytes :=
  match h.body with
  | .rsa _ _ => concatPieces (Gen.C03.rsaHashOrder.map (rsaPiece h))
  | _ => concatPieces (Gen.C03.dhHashOrder.map (dhPiece h))

/-- two bodies are of the same message form (for group exchange: same request form, old 4-byte or new
    12-byte payload) -/
def SameForm : KexBody → KexBody → Prop
  | .dh _ _, .dh _ _ => True
  | .gex r _ _ _ _, .gex r' _ _ _ _ => r.length = r'.length
  | .ecdh _ _, .ecdh _ _ => True
  | .rsa _ _, .rsa _ _ => True
  | _, _ => False

/-! ### Diffie-Hellman range checks and group choice -/

def dhClientRangeOk (f p : Int) : Bool := decide (Gen.C03.dhClientRangeOk f p)
def dhServerRangeOk (e p : Int) : Bool := decide (Gen.C03.dhServerRangeOk e p)

/-- the loop of `_process_request` over `_dh_gex_groups`; `cur` is the group chosen so far -/
def selectGroupAux (pref max : Nat) : List (Nat × Nat) → Nat → Nat
  | [], cur => cur
  | (size, idx) :: rest, cur =>
    if size > max then cur
    else if size ≥ pref then idx
    else selectGroupAux pref max rest idx

/-- index into `Gen.C03.dhGroups` of the group a server offers for (preferred, max) -/
def selectGroup (pref max : Nat) : Nat :=
  selectGroupAux pref max Gen.C03.gexGroups Gen.C03.gexFallbackGroup

def groupAt (i : Nat) : Int × Int :=
  match Gen.C03.dhGroups[i]? with
  | some (g, p) => (g, p)
  | none => (0, 0)

/-- the request a client sends (`_send_request` with the registry's empty argument tuple):
    `UInt32(MIN) + UInt32(PREFERRED) + UInt32(MAX)` -/
def clientGexReq : Bytes :=
  beBytes 4 Gen.C03.KEX_DH_GEX_MIN_SIZE ++ (beBytes 4 Gen.C03.KEX_DH_GEX_PREFERRED_SIZE ++
    beBytes 4 Gen.C03.KEX_DH_GEX_MAX_SIZE)

end AsyncsshModel.Kex
