import AsyncsshModel.Model.HostTrust
/-
  C04 — the client side of the handshake as a trace machine.

  Mirrors, for a client connection with a host-key based (non-GSS) key exchange:
    * connection.py `_recv_packet` dispatch guards (which packets are accepted before keys are in effect),
      `_process_kexinit` (`Key exchange already in progress`), `_process_newkeys`, `_process_service_accept`,
      `_process_userauth_failure`, `send_packet`'s deferral rule, `send_newkeys`
      (NEWKEYS, then on the first exchange `send_service_request(ssh-userauth)`, then the deferred packets);
    * kex_dh.py `_process_reply` / kex_rsa.py `_process_done`: `validate_server_host_key(blob, sig)` FIRST
      (the blob must fit the negotiated host key algorithm and be trusted, the signature must name that
      algorithm's signature algorithm), then `key.verify(h, sig)` with the key it returned, and only then
      `send_newkeys`.
  One `step` is one packet handler run to completion (no await inside these handlers).

  The signature scheme is a parameter (`verify`); the exchange hash `h` the client computes and the blob's
  classification are part of the event (C03 says what goes into `h`).
-/
namespace AsyncsshModel.HostTrust

/-- What the environment (the server / the network attacker / the clock) decides. -/
inductive Ev (Hash Sig : Type) where
  /-- server KEXINIT: a key exchange begins -/
  | kexInit
  /-- the kex reply carrying the host key blob and the signature; `h` is the exchange hash the client computed,
      `now4` the clock (quarter seconds) at that moment -/
  | kexReply (p : Presented) (h : Hash) (sg : Sig) (now4 : Nat)
  | newkeys
  /-- SERVICE_ACCEPT; `userauth` = the service name equals the requested `ssh-userauth` -/
  | serviceAccept (userauth : Bool)
  /-- USERAUTH_FAILURE; `more` = the client has another method to try -/
  | userauthFailure (more : Bool)
  /-- a packet that is consumed without any reply relevant here (IGNORE, DEBUG, EXT_INFO, banner);
      accepting it in every state over-approximates the code (strict kex rejects some of them) -/
  | benign
  /-- any other packet that is not valid at this point / not understood -/
  | other
  deriving Repr

inductive Err where
  | hostKeyNotVerifiable (r : Reject) | keyExchangeFailed | protocolError | serviceNotAvailable | permissionDenied
  /-- KeyExchangeFailed('Key exchange signature algorithm mismatch') -/
  | sigAlgMismatch
  deriving Repr, DecidableEq

/-- Trace: decisions taken and packets put on the wire by the client. -/
inductive Out (Hash : Type) where
  | hostKeyAccepted (k : KeyId)
  | hostKeyRejected (r : Reject)
  | sigVerified (k : KeyId) (h : Hash)
  | sigBad (k : KeyId)
  | sendNewkeys
  | sendServiceRequest
  | sendUserauthRequest
  | disconnect (e : Err)
  deriving Repr, DecidableEq

def Out.isAuthTraffic {Hash : Type} : Out Hash → Bool
  | .sendServiceRequest | .sendUserauthRequest => true
  | _ => false

structure St where
  kex : Bool := false            -- `self._kex` is set (an exchange is in progress, reply not yet processed)
  kexComplete : Bool := false    -- `self._kex_complete`
  haveSession : Bool := false    -- `self._session_id` is set
  nextRecvEnc : Bool := false    -- `self._next_recv_encryption` is set
  recvEnc : Bool := false        -- `self._recv_encryption` is set
  nextService : Bool := false    -- `self._next_service == ssh-userauth`
  auth : Bool := false           -- `self._auth` is set (authentication running)
  deferredAuth : Nat := 0        -- USERAUTH_REQUESTs parked in `_deferred_packets` during a re-exchange
  closed : Bool := false
  deriving Repr, DecidableEq

def St.init : St := {}

/-- the connection configuration that does not change during the run -/
structure Cfg (Hash Sig : Type) where
  trust : Option Trust
  app : App
  host : String                  -- `lookupHost alias host`
  addr : String
  port : Nat
  verify : KeyId → Hash → Sig → Bool
  /-- the decoded blob can be used with the host key algorithm this connection negotiated -/
  keyAlgOk : Presented → Bool
  /-- the signature names the signature algorithm of the host key algorithm this connection negotiated -/
  sigAlgOk : Sig → Bool

def fail {Hash : Type} (s : St) (e : Err) (pre : List (Out Hash) := []) : St × List (Out Hash) :=
  ({ s with closed := true, kex := false }, pre ++ [.disconnect e])

/-- `validate_server_host_key(key_data)`: `_validate_host_key(.., key_data, self._host_key_alg)` — decode,
    compare with the negotiated host key algorithm, trust decision; the error is the exception raised together
    with the reason recorded in the trace.  The key it returns accepts only signatures that name the signature
    algorithm of the negotiated host key algorithm (`host_key.all_sig_algorithms = {get_signature_alg(..)}`): in
    `step` the verification `host_key.verify(h, sig)` therefore succeeds only if `sigAlgOk sg` as well (`sg` is
    kept as a parameter here so that callers read the same as before) -/
def validateServerHostKey {Hash Sig : Type} (cfg : Cfg Hash Sig) (now4 : Nat) (p : Presented) (sg : Sig) :
    Except (Err × Reject) KeyId :=
  if p ≠ .garbage ∧ cfg.keyAlgOk p = false then .error (.hostKeyNotVerifiable .algMismatch, .algMismatch)
  else
    match validateHostKey cfg.trust cfg.app cfg.host cfg.addr cfg.port now4 p with
    | .error r => .error (.hostKeyNotVerifiable r, r)
    | .ok k => .ok k

def step {Hash Sig : Type} (cfg : Cfg Hash Sig) (s : St) (ev : Ev Hash Sig) : St × List (Out Hash) :=
  if s.closed then (s, []) else
  match ev with
  | .kexInit =>
    if s.kex then fail s .protocolError       -- 'Key exchange already in progress'
    else ({ s with kex := true, kexComplete := false }, [])
  | .kexReply p h sg now4 =>
    if !s.kex then fail s .protocolError      -- 'Key exchange not in progress'
    else
      match validateServerHostKey cfg now4 p sg with
      | .error (e, r) => fail s e [.hostKeyRejected r]
      | .ok k =>
        if cfg.verify k h sg && cfg.sigAlgOk sg then
          -- send_newkeys
          let first := !s.haveSession
          let s' := { s with kex := false, kexComplete := true, haveSession := true, nextRecvEnc := true,
                             nextService := s.nextService || first, deferredAuth := 0 }
          (s', [.hostKeyAccepted k, .sigVerified k h, .sendNewkeys]
                ++ (if first then [.sendServiceRequest] else [])
                ++ List.replicate s.deferredAuth .sendUserauthRequest)
        else fail s .keyExchangeFailed [.hostKeyAccepted k, .sigBad k]
  | .newkeys =>
    if s.nextRecvEnc then ({ s with nextRecvEnc := false, recvEnc := true }, [])
    else fail s .protocolError                -- 'New keys not negotiated'
  | .serviceAccept ua =>
    if !s.recvEnc then fail s .protocolError  -- 'Service accept received before kex complete'
    else if !(ua && s.nextService) then fail s .serviceNotAvailable
    else
      -- begin_auth, try_next_auth: the first USERAUTH_REQUEST (deferred while a re-exchange is running)
      if s.kexComplete then ({ s with nextService := false, auth := true }, [.sendUserauthRequest])
      else ({ s with nextService := false, auth := true, deferredAuth := s.deferredAuth + 1 }, [])
  | .userauthFailure more =>
    if !s.recvEnc then fail s .protocolError  -- 'Invalid request before key exchange was complete'
    else if !s.auth then fail s .protocolError -- 'Unexpected userauth failure response'
    else if !more then fail s .permissionDenied
    else if s.kexComplete then (s, [.sendUserauthRequest])
    else ({ s with deferredAuth := s.deferredAuth + 1 }, [])
  | .benign => (s, [])
  | .other => fail s .protocolError

def run {Hash Sig : Type} (cfg : Cfg Hash Sig) : St → List (Ev Hash Sig) → List (Out Hash)
  | _, [] => []
  | s, e :: es => (step cfg s e).2 ++ run cfg (step cfg s e).1 es

def final {Hash Sig : Type} (cfg : Cfg Hash Sig) : St → List (Ev Hash Sig) → St
  | s, [] => s
  | s, e :: es => final cfg (step cfg s e).1 es

end AsyncsshModel.HostTrust
