import AsyncsshModel.Base.Wire
import AsyncsshModel.Gen.C15
/-
  The OpenSSH `openssh-key-v1` private key container as written by
  `SSHKey.export_private_key('openssh')` (public_key.py:1167-1220) and read by
  `_decode_openssh_private` / `_decode_openssh_public` (2518-2639).

  Container level only: the key itself is its algorithm name plus a list of opaque fields (every
  private-key field of the supported algorithms is a length-prefixed string or mpint on the wire, the
  security-key types add one flags byte).  Ciphers and the KDF are abstract (`Cipher`): what the proofs
  use is `open (encrypt x) = x`, stated as a hypothesis where needed.  The magic string, the block size used
  without a cipher and the padding expressions come from the generated `Gen/C15.lean`.
-/
namespace AsyncsshModel.KeyFmt
open AsyncsshModel AsyncsshModel.Wire

inductive FieldKind where
  | str     -- String / MPInt: 4-byte length + content
  | byte    -- a single byte
  deriving DecidableEq, Repr

/-- field layout after the algorithm name in `private_data` (rsa.py, dsa.py, ecdsa.py, eddsa.py,
    sk_ecdsa.py, sk_eddsa.py: `encode_ssh_private`) -/
def keyLayout (alg : Bytes) : Option (List FieldKind) :=
  if alg = strBytes "ssh-rsa" then some [.str, .str, .str, .str, .str, .str]       -- n e d iqmp p q
  else if alg = strBytes "ssh-dss" then some [.str, .str, .str, .str, .str]        -- p q g y x
  else if alg = strBytes "ecdsa-sha2-nistp256" ∨ alg = strBytes "ecdsa-sha2-nistp384" ∨
          alg = strBytes "ecdsa-sha2-nistp521" ∨ alg = strBytes "ecdsa-sha2-1.3.132.0.10"
    then some [.str, .str, .str]                                                    -- curve point d
  else if alg = strBytes "ssh-ed25519" ∨ alg = strBytes "ssh-ed448" then some [.str, .str]   -- pub priv
  else if alg = strBytes "sk-ecdsa-sha2-nistp256@openssh.com"
    then some [.str, .str, .str, .byte, .str, .str]               -- curve point application flags handle reserved
  else if alg = strBytes "sk-ssh-ed25519@openssh.com"
    then some [.str, .str, .byte, .str, .str]                     -- pub application flags handle reserved
  else none

structure OpensshKey where
  alg : Bytes
  fields : List Bytes      -- content of each field (a `.byte` field is a one-byte list)
  comment : Bytes
  pub : Bytes              -- the public key blob stored unencrypted
  deriving Repr, DecidableEq

/-- abstract cipher + KDF selected by the passphrase -/
structure Cipher where
  name : Bytes
  kdf : Bytes
  kdfData : Bytes
  blockSize : Nat
  /-- `cipher.encrypt_packet(0, b'', data)` → (ciphertext, mac) -/
  encrypt : Bytes → Bytes × Bytes
  /-- `cipher.decrypt_packet(0, b'', data, 0, mac)`; `none` = MAC/tag failure -/
  decrypt : Bytes → Bytes → Option Bytes

def sNone : Bytes := strBytes "none"

/-- no passphrase: `alg = kdf = b'none'`, `kdf_data = b''`, block size 8, no MAC -/
def noCipher : Cipher :=
  { name := sNone, kdf := sNone, kdfData := [], blockSize := Gen.C15.opensshNoneBlockSize,
    encrypt := fun d => (d, []), decrypt := fun d _ => some d }

deriving instance DecidableEq for Except

inductive OpensshErr where
  | keyImport        -- KeyImportError('Invalid OpenSSH private key' / unknown algorithm / …)
  | passphrase       -- KeyEncryptionError('Incorrect passphrase') / passphrase needed
  | cipher           -- KeyEncryptionError('Unknown cipher' / 'Unknown kdf')
  | overflow         -- OverflowError / ValueError while exporting (sizes ≥ 2^32, pad byte ≥ 256)
  deriving DecidableEq, Repr

/-- `bytes(range(lo, hi))`: `ValueError` (`none`) when a value is outside `range(256)` -/
def rangeBytes? (lo hi : Int) : Option Bytes :=
  if hi ≤ lo then some []
  else if 0 ≤ lo ∧ hi ≤ 256 then
    some ((List.range (hi - lo).toNat).map fun i => UInt8.ofNat (lo.toNat + i))
  else none

/-- one field on the wire -/
def encField? : FieldKind → Bytes → Option Bytes
  | .str, b => encString? b
  | .byte, b => if b.length = 1 then some b else none

def encFields? : List FieldKind → List Bytes → Option Bytes
  | [], [] => some []
  | k :: ks, f :: fs => do
    let a ← encField? k f
    let r ← encFields? ks fs
    pure (a ++ r)
  | _, _ => none

/-- `self.private_data`: `String(algorithm) + encode_ssh_private()` -/
def privateData? (k : OpensshKey) : Option Bytes := do
  let layout ← keyLayout k.alg
  let a ← encString? k.alg
  let fs ← encFields? layout k.fields
  pure (a ++ fs)

/-- the padding of public_key.py:1208-1210 with the generated expressions -/
def addPadding? (blockSize : Nat) (data : Bytes) : Option Bytes :=
  if blockSize = 0 then none      -- ZeroDivisionError
  else
    let pad := data.length % blockSize
    if pad = 0 then some data
    else (rangeBytes? Gen.C15.padFirst (Gen.C15.padStop blockSize pad)).map (data ++ ·)

/-- `b''.join((check, check, self.private_data, String(self._comment or b'')))` -/
def plainSection? (check : Nat) (k : OpensshKey) : Option Bytes := do
  let chk ← encUInt32? check
  let priv ← privateData? k
  let cmt ← encString? k.comment
  pure (chk ++ (chk ++ (priv ++ cmt)))

/-- the outer container around the (possibly encrypted) key section -/
def container? (c : Cipher) (pub ct mac : Bytes) : Option Bytes := do
  let sName ← encString? c.name
  let sKdf ← encString? c.kdf
  let sKdfData ← encString? c.kdfData
  let one ← encUInt32? 1
  let sPub ← encString? pub
  let sCt ← encString? ct
  pure (Gen.C15.opensshKeyV1 ++ (sName ++ (sKdf ++ (sKdfData ++ (one ++ (sPub ++ (sCt ++ mac)))))))

/-- block size used for the padding: 8 without a cipher, `max(block_size, 8)` with one -/
def padBlockSize (c : Cipher) : Nat := if c.name = sNone then c.blockSize else max c.blockSize 8

/-- `export_private_key('openssh')` before base64 wrapping as it was BEFORE the repair "refuse a comment that
    contains a NUL": every comment is written; `check` = `os.urandom(4)` as an integer -/
def encodeOpensshPreFix? (c : Cipher) (check : Nat) (k : OpensshKey) : Option Bytes := do
  let plain ← plainSection? check k
  let padded ← addPadding? (padBlockSize c) plain
  if c.name = sNone then container? c k.pub padded []
  else container? c k.pub (c.encrypt padded).1 (c.encrypt padded).2

/-- what OpenSSH requires of the comment of a private key: it is read with `sshbuf_get_cstring`, which fails
    (and with it the load of the whole file) when a NUL occurs anywhere but at the very end -/
def cstringOk (comment : Bytes) : Bool := !(comment.dropLast.contains 0)

/-- `if self._comment and b'\0' in self._comment: raise KeyExportError(...)` (public_key.py, first statement
    of the `openssh` branch of `export_private_key`); the flag is probed on the tree under check -/
def commentRefused (comment : Bytes) : Bool := Gen.C15.exportRefusesNulComment && comment.contains 0

/-- `export_private_key('openssh')` before base64 wrapping; `none` = `KeyExportError` / `OverflowError` -/
def encodeOpenssh? (c : Cipher) (check : Nat) (k : OpensshKey) : Option Bytes :=
  if commentRefused k.comment then none else encodeOpensshPreFix? c check k

def getField : FieldKind → Getter Bytes
  | .str => getString
  | .byte => getBytes 1

def getFields : List FieldKind → Getter (List Bytes)
  | [], b => some ([], b)
  | k :: ks, b =>
    match getField k b with
    | none => none
    | some (f, r) =>
      match getFields ks r with
      | none => none
      | some (fs, r') => some (f :: fs, r')

/-- the padding check of `_decode_openssh_private` (public_key.py:2603) -/
def padOk (pad : Bytes) : Bool :=
  !(decide (Gen.C15.padRejectLen ≤ pad.length)) &&
    (rangeBytes? Gen.C15.padCheckFirst (Gen.C15.padCheckStop pad.length) == some pad)

def bcryptName : Bytes := strBytes "bcrypt"

/-- the fields of the outer container (public_key.py:2530-2536) -/
def parseContainer (data : Bytes) : Option (Bytes × Bytes × Bytes × Nat × Bytes × Bytes × Bytes) :=
  match getString data with
  | none => none
  | some (cipherName, r) =>
  match getString r with
  | none => none
  | some (kdf, r) =>
  match getString r with
  | none => none
  | some (kdfData, r) =>
  match getUInt32 r with
  | none => none
  | some (nkeys, r) =>
  match getString r with
  | none => none
  | some (pub, r) =>
  match getString r with
  | none => none
  | some (keyData, mac) => some (cipherName, kdf, kdfData, nkeys, pub, keyData, mac)

/-- decoding of the decrypted key section (public_key.py:2586-2613) -/
def decodePlain (encrypted : Bool) (pub plain : Bytes) : Except OpensshErr OpensshKey :=
  match getUInt32 plain with
  | none => .error .keyImport
  | some (c1, r) =>
  match getUInt32 r with
  | none => .error .keyImport
  | some (c2, r) =>
    if c1 ≠ c2 then (if encrypted then .error .passphrase else .error .keyImport) else
    match getString r with
    | none => .error .keyImport
    | some (alg, r) =>
      match keyLayout alg with
      | none => .error .keyImport                -- 'Unknown OpenSSH private key algorithm'
      | some layout =>
        match getFields layout r with
        | none => .error .keyImport
        | some (fields, r) =>
          match getString r with
          | none => .error .keyImport
          | some (comment, pad) =>
            if padOk pad then .ok { alg := alg, fields := fields, comment := comment, pub := pub }
            else .error .keyImport

/-- `_decode_openssh_private(data, passphrase, …)`; `c = none` means no passphrase was supplied,
    `some c` the cipher/KDF the passphrase selects (for an unencrypted file it is not used). -/
def decodeOpenssh (c : Option Cipher) (data : Bytes) : Except OpensshErr OpensshKey :=
  let magic := Gen.C15.opensshKeyV1
  if !magic.isPrefixOf data then .error .keyImport else
  match parseContainer (data.drop magic.length) with
  | none => .error .keyImport                      -- PacketDecodeError
  | some (cipherName, kdf, kdfData, nkeys, pub, keyData, mac) =>
    if nkeys ≠ 1 then .error .keyImport else
    if cipherName = sNone then decodePlain false pub keyData
    else match c with
      | none => .error .passphrase                -- 'Passphrase must be specified…' (KeyImportError)
      | some c =>
        if cipherName ≠ c.name then .error .cipher
        else if kdf ≠ bcryptName then .error .cipher
        else if kdfData ≠ c.kdfData then .error .passphrase    -- other salt/rounds: other key
        else match c.decrypt keyData mac with
          | none => .error .passphrase
          | some p => decodePlain true pub p

/-- `_decode_openssh_public(data)`: the unencrypted public blob -/
def decodeOpensshPublic (data : Bytes) : Option Bytes :=
  let magic := Gen.C15.opensshKeyV1
  if !magic.isPrefixOf data then none else do
    let (_, r) ← getString (data.drop magic.length)
    let (_, r) ← getString r
    let (_, r) ← getString r
    let (nkeys, r) ← getUInt32 r
    let (pub, _) ← getString r
    if nkeys ≠ 1 then none else pure pub

end AsyncsshModel.KeyFmt
