import AsyncsshModel.Base.Hex
import AsyncsshModel.Gen.C10
/-
  C10 — the version / banner receive step of /repo/asyncssh/connection.py

    `data_received` (1434-1445)  : input is discarded once the connection was force-closed, else appended
    `_recv_data`    (1551-1564)  : `while self._inpbuf and self._recv_handler(): pass`
    `_recv_version` (1566-1611)  : one line per call

  while `_recv_handler` is `_recv_version`.  The three limits and the comparisons that use them are the
  generated definitions of `Gen/C10.lean` (translated from the AST of the current tree), so the theorems in
  Props/C10.lean are about what the code says now.

  The loop is defined by well-founded recursion on the length of the input buffer: a call that returns `True`
  has removed the line and its newline (`recvVersion_consumes`), which is the whole termination argument.
-/
namespace AsyncsshModel.Hostile
open AsyncsshModel

inductive VErr where
  | bannerLineTooLong     -- ProtocolError('Banner line too long')
  | versionTooLong        -- ProtocolError('Version too long')
  | tooManyBannerLines    -- ProtocolError('Too many banner lines')
  | unsupportedVersion    -- ProtocolNotSupported('Unsupported SSH version')
  deriving Repr, DecidableEq, Inhabited

inductive VPhase where
  | version                 -- `_recv_handler = _recv_version`
  | accepted (v : Bytes)    -- version line taken, `_recv_handler = _recv_pkthdr`
  | closed (e : VErr)       -- `_force_close` was called (`_transport is None`)
  deriving Repr, DecidableEq, Inhabited

structure VState where
  buf : Bytes               -- `_inpbuf`
  bannerLines : Nat         -- `_banner_lines`
  phase : VPhase
  deriving Repr, DecidableEq, Inhabited

def VState.init : VState := { buf := [], bannerLines := 0, phase := .version }

inductive VEvent where
  | banner (line : Bytes)   -- a non-version line was skipped (client only)
  | version (v : Bytes)     -- remote version recorded, KEXINIT sent
  | close (e : VErr)
  deriving Repr, DecidableEq, Inhabited

/-- `buf.find(b'\n', 0, limit)` -/
def findNL : Nat → Bytes → Option Nat
  | 0, _ => none
  | _, [] => none
  | lim + 1, b :: bs => if b = 10 then some 0 else (findNL lim bs).map (· + 1)

/-- `if version.endswith(b'\r'): version = version[:-1]` -/
def stripCR (l : Bytes) : Bytes := if l.getLast? = some 13 then l.dropLast else l

def pfxSSH20 : Bytes := [83, 83, 72, 45, 50, 46, 48, 45]          -- b'SSH-2.0-'
def pfxSSH199 : Bytes := [83, 83, 72, 45, 49, 46, 57, 57, 45]     -- b'SSH-1.99-'
def pfxSSH : Bytes := [83, 83, 72, 45]                             -- b'SSH-'

/-- One call of `_recv_version`: new state, the handler's return value, what happened. -/
def recvVersion (isClient : Bool) (st : VState) : VState × Bool × List VEvent :=
  match findNL Gen.C10.findLimit.toNat st.buf with
  | none =>
    if Gen.C10.bannerLineTooLong st.buf.length then
      ({ st with phase := .closed .bannerLineTooLong }, false, [.close .bannerLineTooLong])
    else (st, false, [])
  | some idx =>
    let version := stripCR (st.buf.take idx)
    let buf := st.buf.drop (idx + 1)
    if pfxSSH20.isPrefixOf version || pfxSSH199.isPrefixOf version then
      if Gen.C10.versionTooLong version.length then
        -- `_force_close(ProtocolError('Version too long'))`; the code then still switches handlers, but nothing
        -- it does afterwards is visible: the transport is gone
        ({ buf := buf, bannerLines := st.bannerLines, phase := .closed .versionTooLong }, true,
         [.close .versionTooLong])
      else
        ({ buf := buf, bannerLines := st.bannerLines, phase := .accepted version }, true, [.version version])
    else if isClient && !pfxSSH.isPrefixOf version then
      let n := st.bannerLines + 1
      if Gen.C10.tooManyBannerLines n then
        ({ buf := buf, bannerLines := n, phase := .closed .tooManyBannerLines }, false, [.close .tooManyBannerLines])
      else
        ({ buf := buf, bannerLines := n, phase := .version }, true, [.banner version])
    else
      ({ buf := buf, bannerLines := st.bannerLines, phase := .closed .unsupportedVersion }, false,
       [.close .unsupportedVersion])

theorem findNL_lt : ∀ (lim : Nat) (b : Bytes) (i : Nat), findNL lim b = some i → i < b.length ∧ i < lim
  | 0, _, _, h => by simp [findNL] at h
  | _ + 1, [], _, h => by simp [findNL] at h
  | lim + 1, x :: bs, i, h => by
    unfold findNL at h
    split at h
    · cases h; simp
    · cases hr : findNL lim bs with
      | none => simp [hr] at h
      | some j =>
        simp [hr] at h
        have := findNL_lt lim bs j hr
        subst h
        simp
        omega

/-- a call of `_recv_version` that returns `True` has consumed at least one byte -/
theorem recvVersion_consumes (c : Bool) (st st' : VState) (ev : List VEvent)
    (h : recvVersion c st = (st', true, ev)) : st'.buf.length < st.buf.length := by
  unfold recvVersion at h
  split at h
  · split at h <;> simp at h
  · rename_i idx hidx
    have hlt := (findNL_lt _ _ _ hidx).1
    have hd : (st.buf.drop (idx + 1)).length < st.buf.length := by simp; omega
    simp only at h
    split at h
    · split at h <;> (simp only [Prod.mk.injEq] at h; obtain ⟨rfl, _, _⟩ := h; exact hd)
    · split at h
      · split at h
        · simp at h
        · simp only [Prod.mk.injEq] at h; obtain ⟨rfl, _, _⟩ := h; exact hd
      · simp at h

/-- `while self._inpbuf and self._recv_handler(): pass` while the handler is `_recv_version`.
    Returns the state, the events and the number of handler invocations. -/
def versionLoop (isClient : Bool) (st : VState) : VState × List VEvent × Nat :=
  if st.buf.isEmpty then (st, [], 0)
  else if st.phase ≠ .version then (st, [], 0)
  else
    match h : recvVersion isClient st with
    | (st', true, ev) =>
      let r := versionLoop isClient st'
      (r.1, ev ++ r.2.1, r.2.2 + 1)
    | (st', false, ev) => (st', ev, 1)
termination_by st.buf.length
decreasing_by exact recvVersion_consumes isClient st st' ev h

/-- `data_received(chunk)` during the version exchange.  A closed connection discards its input;
    after the version line the packet layer owns the buffer (Model/Transport.lean). -/
def feedVersion (isClient : Bool) (st : VState) (chunk : Bytes) : VState × List VEvent × Nat :=
  match st.phase with
  | .closed _ => (st, [], 0)
  | .accepted _ => ({ st with buf := st.buf ++ chunk }, [], 0)
  | .version => versionLoop isClient { st with buf := st.buf ++ chunk }

/-- a whole sequence of `data_received` calls; events concatenated, invocations summed -/
def feedVersionAll (isClient : Bool) : VState → List Bytes → VState × List VEvent × Nat
  | st, [] => (st, [], 0)
  | st, c :: cs =>
    let r1 := feedVersion isClient st c
    let r2 := feedVersionAll isClient r1.1 cs
    (r2.1, r1.2.1 ++ r2.2.1, r1.2.2 + r2.2.2)

def bannerCount : List VEvent → Nat
  | [] => 0
  | .banner _ :: es => bannerCount es + 1
  | _ :: es => bannerCount es

end AsyncsshModel.Hostile
