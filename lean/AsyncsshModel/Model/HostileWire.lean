import AsyncsshModel.Base.Wire
/-
  C10 — packet-field decoders as total functions with an explicit error.

  Mirrors `class SSHPacket` of /repo/asyncssh/packet.py (lines 96-181).  A packet position is the list of
  bytes still unread; every getter returns `Except DecErr (value × bytes still unread)`:
    `.error .incomplete` = `PacketDecodeError('Incomplete packet')`              (get_bytes, packet.py:128-129)
    `.error .trailing`   = `PacketDecodeError('Unexpected data at end of packet')` (check_end, packet.py:104-108)
  No getter can fail in any other way and none reads past the end: both facts are theorems
  (Lemmas/HostileWire.lean), the first one by construction of the result type.

  `decodeFields` interprets a *schema* (the sequence of getter calls a message handler makes), so the
  statement "the handler's decoding is total and consumes a prefix of the payload" is one theorem for all
  handlers that decode with getters only.
-/
namespace AsyncsshModel.Hostile
open AsyncsshModel

inductive DecErr where
  | incomplete
  | trailing
  deriving Repr, DecidableEq, Inhabited

/-- a getter: unread bytes ↦ value and the bytes still unread, or the decode error -/
abbrev Dec (α : Type) := Bytes → Except DecErr (α × Bytes)

/-- `get_bytes(size)`: `if self._idx + size > self._len: raise PacketDecodeError('Incomplete packet')` -/
def getBytes (size : Nat) : Dec Bytes := fun b =>
  if size ≤ b.length then .ok (b.take size, b.drop size) else .error .incomplete

/-- `get_byte()` = `get_bytes(1)[0]` -/
def getByte : Dec Nat := fun b =>
  match getBytes 1 b with
  | .error e => .error e
  | .ok (x, r) => .ok ((x.headD 0).toNat, r)

/-- `get_boolean()` = `bool(get_byte())` -/
def getBoolean : Dec Bool := fun b =>
  match getByte b with
  | .error e => .error e
  | .ok (x, r) => .ok (x != 0, r)

/-- `int.from_bytes(get_bytes(size), 'big')` -/
def getUInt (size : Nat) : Dec Nat := fun b =>
  match getBytes size b with
  | .error e => .error e
  | .ok (x, r) => .ok (Wire.beNat x, r)

def getUInt16 : Dec Nat := getUInt 2
def getUInt32 : Dec Nat := getUInt 4
def getUInt64 : Dec Nat := getUInt 8

/-- `get_string()` = `get_bytes(get_uint32())`: the length field is compared with what is left -/
def getString : Dec Bytes := fun b =>
  match getUInt32 b with
  | .error e => .error e
  | .ok (n, r) => getBytes n r

/-- `get_mpint()` = `int.from_bytes(get_string(), 'big', signed=True)` -/
def getMPInt : Dec Int := fun b =>
  match getString b with
  | .error e => .error e
  | .ok (s, r) => .ok (Wire.fromBytesSigned s, r)

/-- `get_namelist()`: `namelist.split(b',') if namelist else []` -/
def getNameList : Dec (List Bytes) := fun b =>
  match getString b with
  | .error e => .error e
  | .ok (s, r) => .ok (if s.isEmpty then [] else Wire.splitComma s, r)

/-- `check_end()` -/
def checkEnd (b : Bytes) : Except DecErr Unit :=
  if b.isEmpty then .ok () else .error .trailing

/-! ### schemas -/

inductive FieldTy where
  | byte | bool | u16 | u32 | u64 | str | mpint | names
  | rest          -- `get_remaining_payload()` (never fails, consumes everything)
  | fin           -- `check_end()`
  deriving Repr, DecidableEq, Inhabited

inductive Val where
  | nat (n : Nat)
  | bool (b : Bool)
  | bytes (b : Bytes)
  | int (v : Int)
  | names (l : List Bytes)
  | unit
  deriving Repr, Inhabited

def decodeField : FieldTy → Dec Val
  | .byte, b => (getByte b).map fun (x, r) => (.nat x, r)
  | .bool, b => (getBoolean b).map fun (x, r) => (.bool x, r)
  | .u16, b => (getUInt16 b).map fun (x, r) => (.nat x, r)
  | .u32, b => (getUInt32 b).map fun (x, r) => (.nat x, r)
  | .u64, b => (getUInt64 b).map fun (x, r) => (.nat x, r)
  | .str, b => (getString b).map fun (x, r) => (.bytes x, r)
  | .mpint, b => (getMPInt b).map fun (x, r) => (.int x, r)
  | .names, b => (getNameList b).map fun (x, r) => (.names x, r)
  | .rest, b => .ok (.bytes b, [])
  | .fin, b => (checkEnd b).map fun _ => (.unit, b)

/-- run the getters of a schema in order; stops at the first error exactly as the exception does -/
def decodeFields : List FieldTy → Bytes → Except DecErr (List Val × Bytes)
  | [], b => .ok ([], b)
  | t :: ts, b =>
    match decodeField t b with
    | .error e => .error e
    | .ok (v, r) =>
      match decodeFields ts r with
      | .error e => .error e
      | .ok (vs, r') => .ok (v :: vs, r')

/-- number of getter calls made before the decode stops (work done on a payload) -/
def decodeSteps : List FieldTy → Bytes → Nat
  | [], _ => 0
  | t :: ts, b =>
    match decodeField t b with
    | .error _ => 1
    | .ok (_, r) => 1 + decodeSteps ts r

/-! ### schemas of the handlers whose numeric fields a peer controls -/

/-- `_process_channel_open` (connection.py:2718-2725): type, sender channel, window, max packet size -/
def channelOpenSchema : List FieldTy := [.str, .u32, .u32, .u32]
/-- `_process_channel_open_confirmation` (connection.py:2758-2765) -/
def channelOpenConfirmationSchema : List FieldTy := [.u32, .u32, .u32, .u32]
/-- `_process_window_adjust` (channel.py:554-562), after the recipient channel was read by `_recv_packet` -/
def windowAdjustSchema : List FieldTy := [.u32, .fin]
/-- `_process_data` (channel.py:571-578) -/
def channelDataSchema : List FieldTy := [.str, .fin]
/-- `_process_userauth_request` (connection.py:2497-2499): user, service, method; the rest is method specific -/
def userauthRequestSchema : List FieldTy := [.str, .str, .str]
/-- `_process_kexinit` (connection.py): cookie is `get_bytes(16)`, modelled by the caller; ten name lists,
    first_kex_follows, reserved, end -/
def kexinitSchema : List FieldTy :=
  [.names, .names, .names, .names, .names, .names, .names, .names, .names, .names, .bool, .u32, .fin]

end AsyncsshModel.Hostile
