import AsyncsshModel.Model.CertWire
/-
  C16 model, part 1: signature verification wrapper and OpenSSH certificates.
  Mirrors /repo/asyncssh/public_key.py:
    SSHKey.verify                      (algorithm-name check, PacketDecodeError ⇒ False)
    <key>.verify_ssh                   (rsa.py / eddsa.py: one string; dsa.py: one 40-byte string;
                                        ecdsa.py: one string holding two mpints)
    decode_ssh_certificate, SSHOpenSSHCertificate.construct, SSHOpenSSHCertificateV01._decode
    SSHOpenSSHCertificate._decode_options / _decode_bool / _decode_force_cmd / _decode_source_addr
    SSHOpenSSHCertificate.validate
  Cryptographic primitives and stdlib parsers the code calls are *parameters* (oracles):
  raw signature verification, "these key parameters make a key", `ipaddress.ip_network`.
  Tables (algorithm names, option decoders, whether the value of an unknown extension is consumed)
  are parameters too; Props/C16.lean instantiates them with the tables regenerated from the code.
-/
namespace AsyncsshModel.Cert
open AsyncsshModel AsyncsshModel.CertWire

/-! ### time: `time.time()` is a non-negative rational `num/den` -/

structure Q where
  num : Nat
  den : Nat
deriving Repr

/-- `q < n`, `q <= n`, `q > n`, `q >= n` for an integer `n` (needs `den > 0`) -/
def Q.lt (q : Q) (n : Nat) : Bool := q.num < n * q.den
def Q.le (q : Q) (n : Nat) : Bool := q.num ≤ n * q.den
def Q.gt (q : Q) (n : Nat) : Bool := n * q.den < q.num
def Q.ge (q : Q) (n : Nat) : Bool := n * q.den ≤ q.num

/-! ### signature blobs -/

/-- what is handed to the cryptographic primitive -/
inductive RawSig where
  | bytes (b : Bytes)
  | pair (r s : Int)
deriving DecidableEq, Repr

/-- shape of the key-type specific part of a signature blob (`verify_ssh`) -/
inductive SigFmt where
  | plain       -- rsa.py, eddsa.py:  sig = get_string(); check_end()
  | fixed40     -- dsa.py:            same, then len(sig) must be 40, r = sig[:20], s = sig[20:]
  | mpintPair   -- ecdsa.py:          same, then a sub-packet of two mpints
  | unsupported -- security-key types (need flags/counter/application hash; not modelled)
deriving DecidableEq, Repr

/-- what asyncssh's key class knows statically: `all_sig_algorithms` (with the scheme = hash each name
    selects, e.g. rsa.py `_hash_algs`) and the blob shape -/
structure KeyDesc where
  algs : List (Bytes × Bytes)
  fmt : SigFmt

/-- `verify_ssh` up to the call of the primitive; `none` = PacketDecodeError or `return False` -/
def decodeRaw : SigFmt → Bytes → Option RawSig
  | .plain, rest =>
    match getString rest with
    | some (s, []) => some (.bytes s)
    | _ => none
  | .fixed40, rest =>
    match getString rest with
    | some (s, []) =>
      if s.length = 40 then some (.pair (natOfBytes (s.take 20)) (natOfBytes (s.drop 20))) else none
    | _ => none
  | .mpintPair, rest =>
    match getString rest with
    | some (blob, []) =>
      match getMpint blob with
      | some (r, t) =>
        match getMpint t with
        | some (s, []) => some (.pair r s)
        | _ => none
      | none => none
    | _ => none
  | .unsupported, _ => none

/-- everything `SSHKey.verify` does before the primitive is called: the scheme selected by the algorithm
    name and the raw signature, or `none` when the wrapper answers False by itself -/
def verifyQuery (kd : KeyDesc) (sig : Bytes) : Option (Bytes × RawSig) :=
  match getString sig with
  | none => none                                    -- PacketDecodeError ⇒ False
  | some (alg, rest) =>
    match kd.algs.lookup alg with
    | none => none                                  -- sig_algorithm not in self.all_sig_algorithms
    | some scheme =>
      match decodeRaw kd.fmt rest with
      | none => none
      | some raw => some (scheme, raw)

/-- `SSHKey.verify(data, sig)`.  `rawVerify scheme data raw` is the primitive of *this* key. -/
def verifyWrap (kd : KeyDesc) (rawVerify : Bytes → Bytes → RawSig → Bool) (data sig : Bytes) : Bool :=
  match verifyQuery kd sig with
  | none => false
  | some (scheme, raw) => rawVerify scheme data raw

/-- the blob `SSHKey.sign` builds for formats whose raw signature is a byte string -/
def signBlobPlain (alg sigma : Bytes) : Bytes := sshString alg ++ sshString sigma

/-! ### certificate options -/

inductive OptKind where
  | flag | forceCmd | sourceAddr
deriving DecidableEq, Repr

inductive OptVal where
  | flag
  | text (cp : List Nat)
  | addrs (a : List Bytes)
deriving DecidableEq, Repr

abbrev OptTable := List (Bytes × OptKind)

/-- the decoder applied to `SSHPacket(packet.get_string())` followed by `check_end()`.
    `ipNet a` is `str(ipaddress.ip_network(a))` or `none` when it raises. -/
def decodeOptVal (ipNet : Bytes → Option Bytes) : OptKind → Bytes → Option OptVal
  | .flag, d => if d = [] then some .flag else none
  | .forceCmd, d =>
    match getString d with
    | some (s, []) =>
      match utf8Decode s with
      | some cp => some (.text cp)
      | none => none
    | _ => none
  | .sourceAddr, d =>
    match getString d with
    | some (s, []) =>
      match (nameList s).mapM (fun a => if isAscii a then ipNet a else none) with
      | some l => some (.addrs l)
      | none => none
    | _ => none

/-- `_decode_options` as coded: `consume` says whether the loop reads the value of an unknown
    non-critical entry (the code at 817b931 does not — candidate F9).  `fuel ≥ length` suffices. -/
def decodeLoop (ipNet : Bytes → Option Bytes) (consume : Bool) (tbl : OptTable) (critical : Bool) :
    Nat → Bytes → Option (List (Bytes × OptVal))
  | _, [] => some []
  | 0, _ :: _ => none
  | f + 1, b@(_ :: _) =>
    match getString b with
    | none => none
    | some (name, r) =>
      match tbl.lookup name with
      | some kind =>
        match getString r with
        | none => none
        | some (d, r') =>
          match decodeOptVal ipNet kind d with
          | none => none
          | some v =>
            match decodeLoop ipNet consume tbl critical f r' with
            | some rest => some ((name, v) :: rest)
            | none => none
      | none =>
        if critical then none
        else if consume then
          match getString r with
          | none => none
          | some (_, r') => decodeLoop ipNet consume tbl critical f r'
        else decodeLoop ipNet consume tbl critical f r

def decodeOptions (ipNet : Bytes → Option Bytes) (consume : Bool) (tbl : OptTable) (critical : Bool)
    (b : Bytes) : Option (List (Bytes × OptVal)) :=
  decodeLoop ipNet consume tbl critical b.length b

/-- The same loop over an already split list of strings (every read of the loop is a `get_string`
    on the same packet); `Lemmas/Cert.lean` proves `decodeOptions = splitStrings >>= codeWalk`. -/
def codeWalk (ipNet : Bytes → Option Bytes) (consume : Bool) (tbl : OptTable) (critical : Bool) :
    List Bytes → Option (List (Bytes × OptVal))
  | [] => some []
  | name :: rest =>
    match tbl.lookup name with
    | some kind =>
      match rest with
      | [] => none
      | d :: rest' =>
        match decodeOptVal ipNet kind d with
        | none => none
        | some v =>
          match codeWalk ipNet consume tbl critical rest' with
          | some l => some ((name, v) :: l)
          | none => none
    | none =>
      if critical then none
      else if consume then
        match rest with
        | [] => none
        | _ :: rest' => codeWalk ipNet consume tbl critical rest'
      else codeWalk ipNet consume tbl critical rest

/-- PROTOCOL.certkeys reading of an options/extensions field: a sequence of (name, data) pairs;
    known names are decoded, unknown ones reject (critical) or are skipped *with their data*. -/
def specWalk (ipNet : Bytes → Option Bytes) (tbl : OptTable) (critical : Bool) :
    List Bytes → Option (List (Bytes × OptVal))
  | [] => some []
  | [_] => none
  | name :: d :: rest =>
    match tbl.lookup name with
    | some kind =>
      match decodeOptVal ipNet kind d with
      | none => none
      | some v =>
        match specWalk ipNet tbl critical rest with
        | some l => some ((name, v) :: l)
        | none => none
    | none => if critical then none else specWalk ipNet tbl critical rest

def specDecode (ipNet : Bytes → Option Bytes) (tbl : OptTable) (critical : Bool) (b : Bytes) :
    Option (List (Bytes × OptVal)) :=
  match splitStrings b with
  | some ss => specWalk ipNet tbl critical ss
  | none => none

/-- names at the name positions of a (name, data, name, data, …) list -/
def pairNames : List Bytes → List Bytes
  | [] => []
  | [n] => [n]
  | n :: _ :: rest => n :: pairNames rest

/-- no unknown entry carries a known name as its data (the condition under which the decoder that does
    not consume unknown values still decodes faithfully) -/
def CleanPairs (tbl : OptTable) : List Bytes → Prop
  | [] => True
  | [_] => True
  | n :: d :: rest => (tbl.lookup n = none → tbl.lookup d = none) ∧ CleanPairs tbl rest

/-! ### certificate blob -/

structure CertTables where
  /-- `_certificate_alg_map`: certificate algorithm ↦ (key algorithm, number of fields read by the
      key handler's `decode_ssh_public`) -/
  certAlgs : List (Bytes × (Bytes × Nat))
  userOpts : OptTable
  userExts : OptTable
  hostOpts : OptTable
  hostExts : OptTable
  consume : Bool

structure CertOracle where
  /-- `key_handler.make_public(key_handler.decode_ssh_public(packet))` on these fields: the identity
      (`public_data`) of the resulting key, `none` when it raises -/
  keyOf : Bytes → List Bytes → Option Bytes
  /-- `decode_ssh_public_key(blob)` succeeds -/
  caOk : Bytes → Bool
  /-- `decode_ssh_public_key(blob).verify(data, sig)` -/
  verify : Bytes → Bytes → Bytes → Bool
  ipNet : Bytes → Option Bytes

/-- `SSHOpenSSHCertificateV01._decode` followed by the CA key string of `construct` -/
def layoutV01 (k : Nat) : List FK :=
  .str :: (List.replicate k .str ++ [.u64, .u32, .str, .str, .u64, .u64, .str, .str, .str, .str])

def Val.bytes? : Val → Option Bytes
  | .bytes b => some b
  | _ => none

structure CertRaw where
  alg : Bytes
  keyAlg : Bytes
  nonce : Bytes
  keyFields : List Bytes
  serial : Nat
  ctype : Nat
  keyId : Bytes
  principals : Bytes
  validAfter : Nat
  validBefore : Nat
  options : Bytes
  exts : Bytes
  reserved : Bytes
  ca : Bytes
  /-- `packet.get_consumed_payload()` taken just before the signature is read -/
  region : Bytes
  signature : Bytes
deriving Repr

/-- the bytes a certificate's fields occupy before the signature -/
def encRegion (alg : Bytes) (vs : List Val) : Bytes := sshString alg ++ encVals vs

/-- structure of the blob: everything `decode_ssh_certificate`/`construct` read with `get_*` -/
def parseCertRaw (T : CertTables) (blob : Bytes) : Option CertRaw :=
  match getString blob with
  | none => none
  | some (alg, r0) =>
    match T.certAlgs.lookup alg with
    | none => none                                      -- Unknown certificate algorithm
    | some (keyAlg, k) =>
      match parseFields (layoutV01 k) r0 with
      | none => none
      | some (vs, r1) =>
        let region := blob.take (blob.length - r1.length)
        match getString r1 with
        | some (sig, []) =>                              -- get_string(); check_end()
          match vs.drop (k + 1) with
          | [.num64 serial, .num32 ctype, .bytes keyId, .bytes princ, .num64 va, .num64 vb,
             .bytes opts, .bytes exts, .bytes reserved, .bytes ca] =>
            some { alg := alg, keyAlg := keyAlg,
                   nonce := ((vs.head?).bind Val.bytes?).getD [],
                   keyFields := ((vs.drop 1).take k).filterMap Val.bytes?,
                   serial := serial, ctype := ctype, keyId := keyId, principals := princ,
                   validAfter := va, validBefore := vb, options := opts, exts := exts,
                   reserved := reserved, ca := ca, region := region, signature := sig }
          | _ => none
        | _ => none

structure Cert where
  alg : Bytes
  keyAlg : Bytes
  keyFields : List Bytes
  serial : Nat
  ctype : Nat
  keyId : List Nat
  principals : List (List Nat)
  validAfter : Nat
  validBefore : Nat
  options : List (Bytes × OptVal)
  ca : Bytes
  blob : Bytes
  keyData : Bytes

/-- `decode_ssh_certificate(blob)` for OpenSSH certificate algorithms; `none` = KeyImportError -/
def certConstruct (T : CertTables) (O : CertOracle) (blob : Bytes) : Option Cert :=
  match parseCertRaw T blob with
  | none => none
  | some raw =>
    if !O.caOk raw.ca then none
    else if !O.verify raw.ca raw.region raw.signature then none     -- Invalid certificate signature
    else
      match O.keyOf raw.keyAlg raw.keyFields, utf8Decode raw.keyId with
      | some keyData, some keyId =>
        match (splitStrings raw.principals).bind (fun ps => ps.mapM utf8Decode) with
        | none => none
        | some principals =>
          let tabs : Option (OptTable × OptTable) :=
            if raw.ctype = 1 then some (T.userOpts, T.userExts)
            else if raw.ctype = 2 then some (T.hostOpts, T.hostExts)
            else none                                                 -- Unknown certificate type
          match tabs with
          | none => none
          | some (ot, et) =>
            match decodeOptions O.ipNet T.consume ot true raw.options with
            | none => none
            | some o1 =>
              match decodeOptions O.ipNet T.consume et false raw.exts with
              | none => none
              | some o2 =>
                some { alg := raw.alg, keyAlg := raw.keyAlg, keyFields := raw.keyFields,
                       serial := raw.serial, ctype := raw.ctype, keyId := keyId,
                       principals := principals, validAfter := raw.validAfter,
                       validBefore := raw.validBefore, options := o1 ++ o2, ca := raw.ca, blob := blob,
                       keyData := keyData }
      | _, _ => none

/-! ### validate -/

/-- `SSHOpenSSHCertificate.validate` is a sequence of `if cond: raise ValueError(msg)`;
    the conditions are regenerated from the source (Gen/C16.lean `validateSteps`). -/
def firstFailure : List (Bool × String) → Option String
  | [] => none
  | (c, m) :: rest => if c then some m else firstFailure rest

end AsyncsshModel.Cert
