import AsyncsshModel.Model.ChannelCodec
/-
  The text layer of a channel for encodings whose codec is stateful across writes: the byte order mark family
  (`utf-8-sig`, `utf-16`, `utf-32`).

  Sender (`SSHChannel.write`, channel.py:965-969): every non-empty `str` goes through ONE incremental encoder per
  channel (`codecs.getincrementalencoder(encoding)(errors)`, created in `set_encoding`), shared by all datatypes.
  For the mark family that encoder puts the mark in front of the first text it encodes and never again.
  Receiver (`_deliver_data`, channel.py:405-411): every delivered chunk goes through ONE incremental decoder per
  channel, which strips the mark at the start of the stream only.

  Everything here is a *byte machine* (`ByteDec`): a state, and a step function consuming one byte value and
  producing code points.  Running a machine over a chunk is a fold, so chunk independence holds for every machine
  (`Lemmas/ChannelText.lean: run_append`).  `bomMachine` wraps a body machine with the mark handling; the body
  codecs UTF-8 (from `ChannelCodec`), UTF-16-LE and UTF-32-LE are given executably, so that the whole layer runs in
  the driver against CPython's `codecs` incremental encoders / decoders.  CPython's decoders are not written as byte
  machines (they buffer incomplete input and re-decode); that they compute the same function on the streams
  generated — encoder output in arbitrary chunkings, per-write-encoded streams, mark-less streams — is checked by
  the correspondence run, not proved.

  Mathlib-free.
-/
namespace AsyncsshModel.ChannelText
open AsyncsshModel AsyncsshModel.Channel AsyncsshModel.ChannelCodec

/-- an incremental decoder as a byte machine; `none` = `UnicodeDecodeError` -/
structure ByteDec where
  σ : Type
  init : σ
  step : σ → Nat → Option (σ × List Nat)

/-- feed the byte values of one chunk -/
def run (m : ByteDec) (st : m.σ) : List Nat → Option (m.σ × List Nat)
  | [] => some (st, [])
  | b :: rest =>
    match m.step st b with
    | none => none
    | some (st1, o) =>
      match run m st1 rest with
      | none => none
      | some (st2, os) => some (st2, o ++ os)

/-- feed successive chunks (`decoder.decode(chunk)` per `_deliver_data` call); one output per chunk -/
def runChunks (m : ByteDec) (st : m.σ) : List (List Nat) → Option (m.σ × List (List Nat))
  | [] => some (st, [])
  | c :: rest =>
    match run m st c with
    | none => none
    | some (st1, o) =>
      match runChunks m st1 rest with
      | none => none
      | some (st2, os) => some (st2, o :: os)

/-! ### body codecs -/

/-- UTF-8 (`ChannelCodec.stepByte`) -/
def utf8Dec : ByteDec :=
  { σ := St, init := .s0,
    step := fun st b => (stepByte st b).map (fun r => (r.1, r.2.toList)) }

def utf8Enc (cp : Nat) : List Nat := (encCp cp).map UInt8.toNat

/-- UTF-32 little endian: four bytes per code point -/
inductive St32 where
  | s0 | s1 (b0 : Nat) | s2 (b0 b1 : Nat) | s3 (b0 b1 b2 : Nat)
  deriving DecidableEq, Repr, Inhabited

def step32 (st : St32) (b : Nat) : Option (St32 × List Nat) :=
  match st with
  | .s0 => some (.s1 b, [])
  | .s1 b0 => some (.s2 b0 b, [])
  | .s2 b0 b1 => some (.s3 b0 b1 b, [])
  | .s3 b0 b1 b2 =>
    let cp := b0 + 256 * b1 + 65536 * b2 + 16777216 * b
    if cp < 0xD800 ∨ (0xE000 ≤ cp ∧ cp < 0x110000) then some (.s0, [cp]) else none

def utf32Dec : ByteDec := { σ := St32, init := .s0, step := step32 }

def utf32Enc (cp : Nat) : List Nat := [cp % 256, cp / 256 % 256, cp / 65536 % 256, cp / 16777216 % 256]

/-- UTF-16 little endian: one code unit, or a surrogate pair -/
inductive St16 where
  | s0 | s1 (b0 : Nat) | hi (u : Nat) | hi1 (u b0 : Nat)
  deriving DecidableEq, Repr, Inhabited

def step16 (st : St16) (b : Nat) : Option (St16 × List Nat) :=
  match st with
  | .s0 => some (.s1 b, [])
  | .s1 b0 =>
    let u := b0 + 256 * b
    if 0xD800 ≤ u ∧ u < 0xDC00 then some (.hi u, [])
    else if 0xDC00 ≤ u ∧ u < 0xE000 then none            -- lone low surrogate
    else some (.s0, [u])
  | .hi u => some (.hi1 u b, [])
  | .hi1 u b0 =>
    let lo := b0 + 256 * b
    if 0xDC00 ≤ lo ∧ lo < 0xE000 then some (.s0, [0x10000 + (u - 0xD800) * 1024 + (lo - 0xDC00)])
    else none                                             -- high surrogate not followed by a low one

def utf16Dec : ByteDec := { σ := St16, init := .s0, step := step16 }

def utf16Enc (cp : Nat) : List Nat :=
  if cp < 0x10000 then [cp % 256, cp / 256]
  else
    let hi := 0xD800 + (cp - 0x10000) / 1024
    let lo := 0xDC00 + (cp - 0x10000) % 1024
    [hi % 256, hi / 256, lo % 256, lo / 256]

/-! ### the byte order mark around a body codec -/

/-- decoder state: still matching the mark (`k` bytes of it seen), in the body, or `k` bytes seen that are not
    the mark of an encoding that requires one (the error is raised once as many bytes as the mark has are there) -/
inductive BomSt (α : Type) where
  | start (k : Nat)
  | body (st : α)
  | bad (k : Nat)

/-- The decoder of a mark-framed encoding.  At the start of the stream the bytes are compared with the mark; once
    it is complete the body decoder takes over.  A byte that does not continue the mark means there is no mark:
    the bytes seen so far belong to the body (`optional`, as for `utf-8-sig`) or the stream is rejected
    (`utf-16` / `utf-32`: "stream does not start with BOM", raised by CPython when as many bytes as the mark has
    have arrived). -/
def bomMachine (m : ByteDec) (bom : List Nat) (optional : Bool) : ByteDec :=
  { σ := BomSt m.σ, init := .start 0,
    step := fun st b =>
      match st with
      | .body s => (m.step s b).map (fun r => (.body r.1, r.2))
      | .start k =>
        if bom[k]? = some b then
          (if k + 1 = bom.length then some (.body m.init, []) else some (.start (k + 1), []))
        else if optional then
          (run m m.init (bom.take k ++ [b])).map (fun r => (.body r.1, r.2))
        else if k + 1 < bom.length then some (.bad (k + 1), []) else none
      | .bad k => if k + 1 < bom.length then some (.bad (k + 1), []) else none }

/-- a text codec of the mark family: a body codec and its mark -/
structure TextCodec where
  dec : ByteDec
  enc : Nat → List Nat
  bom : List Nat
  optional : Bool

def TextCodec.machine (t : TextCodec) : ByteDec := bomMachine t.dec t.bom t.optional

def encAll (enc : Nat → List Nat) (cps : List Nat) : List Nat := cps.flatMap enc

/-- `self._encoder.encode(data)` for one non-empty write: the incremental encoder puts the mark in front of the
    first text only (`sent` = the mark has been sent).  `write('')` returns before the encoder is reached. -/
def encodeWrite (t : TextCodec) (sent : Bool) (cps : List Nat) : Bool × List Nat :=
  if cps.isEmpty then (sent, [])
  else (true, (if sent then [] else t.bom) ++ encAll t.enc cps)

/-- the bytes of successive writes through ONE incremental encoder -/
def encodeWrites (t : TextCodec) (sent : Bool) : List (List Nat) → List (List Nat)
  | [] => []
  | w :: rest => (encodeWrite t sent w).2 :: encodeWrites t (encodeWrite t sent w).1 rest

/-- what `data.encode(encoding, errors)` per write does instead (the defective variant): a fresh mark every time -/
def encodeFresh (t : TextCodec) (cps : List Nat) : List Nat :=
  if cps.isEmpty then [] else t.bom ++ encAll t.enc cps

/-- The receiver seen write by write: `css[i]` are the packets carrying the bytes of write `i` (a packet never
    carries bytes of two writes, channel.py `_flush_send_buf`), each packet goes through the decoder as it is
    delivered; the result is the text delivered out of the packets of each write. -/
def runWrites (m : ByteDec) (st : m.σ) : List (List (List Nat)) → Option (m.σ × List (List Nat))
  | [] => some (st, [])
  | cs :: rest =>
    match runChunks m st cs with
    | none => none
    | some (st1, os) =>
      match runWrites m st1 rest with
      | none => none
      | some (st2, oss) => some (st2, os.flatten :: oss)

/-- the decoder state that belongs to an encoder state: mark not yet sent / mark consumed, nothing pending -/
def stOf (t : TextCodec) (sent : Bool) : BomSt t.dec.σ :=
  if sent then BomSt.body t.dec.init else BomSt.start 0

/-- nothing is buffered in the decoder: `decoder.decode(b'', True)` at EOF (channel.py:366) does not raise -/
def Clean (t : TextCodec) (st : BomSt t.dec.σ) : Prop := st = BomSt.start 0 ∨ st = BomSt.body t.dec.init

/-- the text a mark-stripping decoder sees when every write is encoded on its own (`freshTail ws` minus its first
    code point): U+FEFF in front of every non-empty write but the first -/
def freshTail (ws : List (List Nat)) : List Nat :=
  ws.flatMap (fun w => if w.isEmpty then [] else 0xFEFF :: w)

def utf8sig : TextCodec := { dec := utf8Dec, enc := utf8Enc, bom := [0xEF, 0xBB, 0xBF], optional := true }
def utf16 : TextCodec := { dec := utf16Dec, enc := utf16Enc, bom := [0xFF, 0xFE], optional := false }
def utf32 : TextCodec := { dec := utf32Dec, enc := utf32Enc, bom := [0xFF, 0xFE, 0x00, 0x00], optional := false }
/-- mark-less encodings fit the same frame with an empty mark (`utf-16-le`, `utf-32-le`, `utf-8`) -/
def utf16le : TextCodec := { dec := utf16Dec, enc := utf16Enc, bom := [], optional := true }
def utf8 : TextCodec := { dec := utf8Dec, enc := utf8Enc, bom := [], optional := true }

end AsyncsshModel.ChannelText
