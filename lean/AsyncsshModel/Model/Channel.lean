import AsyncsshModel.Base.Hex
/-
  One endpoint of an SSH channel: the send half and the receive half of `class SSHChannel`
  (/repo/asyncssh/channel.py, tree with the fixes de5c08f, 53cd2ff, 024eb80, d334dad, ae15f0e), transcribed between
  awaits as total functions.

  send half    : `write` (896-950), `_flush_send_buf` (305-335), `write_eof` (981-997), `close` (768-786),
                 `_close_send` (250-260), `send_packet` (718-727: silently drops when `_send_chan is None`),
                 `_process_window_adjust` (554-569)
  receive half : `_process_data` (571-588), `_process_extended_data` (590-614), `_accept_data` (391-412),
                 `_deliver_data` (365-389), `_flush_recv_buf` (337-363), `_process_eof` (616-628),
                 `_process_close` (630-644), `_discard_recv` (262-274), `pause_reading`/`resume_reading`
                 (999-1035), `_start_reading` (276-286)

  What is *not* in this file: the text layer (`Model/ChannelCodec.lean`: the decoder; `Model/ChannelDecode.lean`: one
  decoder per data type composed with this endpoint, final decode, reset by `close()`), the
  `pause_writing`/`resume_writing` high/low-water callbacks to the session (`_pause_resume_writing`, no influence on
  what is sent), `abort()`, and channel requests — of which only `shell` / `exec` / `subsystem` touch the data path
  (`_report_response` resumes reading): the first one runs before any data flows (it ends the `'starting'` phase
  together with `_start_reading`), a later one is refused since repair e7dbee0 and does nothing
  (`Model/ChannelVariants.lean`, which also has the `_accept_data` override of the layer-3 tunnel channel).

  The only loop whose termination is not structural, `while self._send_buf and self._send_window` in
  `_flush_send_buf`, is modelled with fuel (`flushData`): `none` means the fuel ran out.  `Lemmas/Channel.lean`
  proves that the fuel used by `flushSend` ALWAYS suffices (since fix de5c08f the loop breaks when the packet size
  is `<= 0`).  The loop as it was before that fix is kept as `flushDataOld`: for `sendPktsize = 0` no amount of
  fuel suffices (defect F2).  Likewise `recvDataOld` is the receive-side window check before fix 53cd2ff (F3) and
  `closeStepOld` / `recvCloseOld` the CLOSE handling before fix 024eb80 (F13), `flushTailOld` the tail of
  `_flush_send_buf` before fix d334dad (EOF forgotten when `close()` follows `write_eof()`).

  `_recv_buf_len` (53cd2ff) is not a field: it is incremented when data is buffered, decremented when it is popped
  and reset when the buffer is discarded, i.e. it always equals `bufBytes recvBuf`, which the model uses.

  Mathlib-free.
-/
namespace AsyncsshModel.Channel
open AsyncsshModel

/-- `None` = CHANNEL_DATA, `some t` = CHANNEL_EXTENDED_DATA of type `t` (1 = stderr) -/
abbrev DType := Option Nat
/-- `_send_buf` / `_recv_buf`: list of (bytes, datatype) -/
abbrev Buf := List (Bytes × DType)

/-- the channel messages that matter for data transfer (recipient channel number stripped) -/
inductive Msg where
  | data (dt : DType) (bs : Bytes)
  | adjust (n : Nat)
  | eof
  | close
  deriving DecidableEq, Repr, Inhabited

inductive SendState where
  | opn | eofPending | eof | closePending | closed
  deriving DecidableEq, Repr, Inhabited

inductive RecvState where
  | opn | eofPending | eof | closePending | closed
  deriving DecidableEq, Repr, Inhabited

/-- `_recv_paused`: `False`, `True` or `'starting'` -/
inductive Paused where
  | no | yes | starting
  deriving DecidableEq, Repr, Inhabited

/-- callbacks into the session object (what the receiving application sees) -/
inductive Out where
  | data (dt : DType) (bs : Bytes)   -- `session.data_received(data, datatype)` (bytes before decoding)
  | eof                              -- `session.eof_received()`
  | lost                             -- `_cleanup` → `session.connection_lost(None)`
  deriving DecidableEq, Repr, Inhabited

inductive Err where
  | brokenPipe       -- `BrokenPipeError('Channel not open for sending')`   (API error, state unchanged)
  | badDatatype      -- `OSError('Invalid extended data type')`             (API error, state unchanged)
  | notOpen          -- `ProtocolError('Channel not open …')`
  | badExtType       -- `ProtocolError('Invalid extended data type')`
  | windowExceeded   -- `ProtocolError('Window exceeded')`
  | spin             -- `_flush_send_buf` does not terminate
  deriving DecidableEq, Repr, Inhabited

def Err.isApi : Err → Bool
  | .brokenPipe | .badDatatype => true
  | _ => false

structure Chan where
  /-- `_init_recv_window` -/
  initWindow : Nat
  /-- `_read_datatypes` / `_write_datatypes` -/
  readTypes : List Nat
  writeTypes : List Nat
  /-- what `session.eof_received()` returns (True keeps the channel half-open) -/
  eofKeep : Bool
  sendState : SendState
  /-- `_send_chan is not None` -/
  sendChanOpen : Bool
  sendWindow : Nat
  sendPktsize : Nat
  sendBuf : Buf
  /-- `_send_eof_pending`: `write_eof()` was called before `close()` and the EOF is still owed to the peer -/
  sendEofPending : Bool := false
  recvState : RecvState
  /-- `_recv_window` (can go negative transiently, see `deliverData`) -/
  recvWindow : Int
  recvPaused : Paused
  recvBuf : Buf
  /-- `_recv_eof_pending`: the peer's EOF was still pending when its CLOSE arrived -/
  recvEofPending : Bool := false
  /-- application behaviour: `some k` = the session will call `pause_reading()` from inside its `(k+1)`-th next
      `data_received` callback (what `SSHStreamSession.data_received` does when its buffer is full) -/
  pauseAfter : Option Nat
  deriving Repr, Inhabited

/-- total number of bytes in a buffer -/
def bufBytes : Buf → Nat
  | [] => 0
  | (b, _) :: rest => b.length + bufBytes rest

/-- `send_packet`: nothing is sent once `_send_chan` is `None` -/
def sendPkt (c : Chan) (m : Msg) : List Msg :=
  if c.sendChanOpen then [m] else []

/-- `_close_send` -/
def closeSend (c : Chan) : Chan × List Msg :=
  if c.sendState ≠ .closed then
    ({ c with sendBuf := [], sendChanOpen := false, sendState := .closed }, sendPkt c .close)
  else
    ({ c with sendBuf := [] }, [])

/-- the packet-size choice of `_flush_send_buf`: `min(self._send_window, self._send_pktsize)` -/
def pktSize (window pktsize : Nat) : Nat := min window pktsize

/-- one iteration of the `while` loop of `_flush_send_buf` on a non-empty buffer with a non-zero window:
    the data to send and the buffer that remains -/
def splitHead (pktsize : Nat) (buf : Bytes) (dt : DType) (rest : Buf) : Bytes × Buf :=
  if buf.length > pktsize then (buf.take pktsize, (buf.drop pktsize, dt) :: rest) else (buf, rest)

/-- the `while self._send_buf and self._send_window:` loop; `none` = out of fuel -/
def flushData : Nat → Chan → Option (Chan × List Msg)
  | 0, _ => none
  | fuel + 1, c =>
    match c.sendBuf with
    | [] => some (c, [])
    | (buf, dt) :: rest =>
      if c.sendWindow = 0 then some (c, [])
      else if pktSize c.sendWindow c.sendPktsize = 0 then some (c, [])     -- `if pktsize <= 0: break`
      else
        let r := splitHead (pktSize c.sendWindow c.sendPktsize) buf dt rest
        let c' := { c with sendBuf := r.2, sendWindow := c.sendWindow - r.1.length }
        match flushData fuel c' with
        | none => none
        | some (c'', ms) => some (c'', sendPkt c (.data dt r.1) ++ ms)

/-- the loop as it was before fix de5c08f (no `if pktsize <= 0: break`); kept for the witness theorem of F2 -/
def flushDataOld : Nat → Chan → Option (Chan × List Msg)
  | 0, _ => none
  | fuel + 1, c =>
    match c.sendBuf with
    | [] => some (c, [])
    | (buf, dt) :: rest =>
      if c.sendWindow = 0 then some (c, [])
      else
        let r := splitHead (pktSize c.sendWindow c.sendPktsize) buf dt rest
        let c' := { c with sendBuf := r.2, sendWindow := c.sendWindow - r.1.length }
        match flushDataOld fuel c' with
        | none => none
        | some (c'', ms) => some (c'', sendPkt c (.data dt r.1) ++ ms)

/-- fuel that always suffices (`Lemmas/Channel.lean: flushData_terminates`) -/
def flushFuel (c : Chan) : Nat := bufBytes c.sendBuf + c.sendBuf.length + 1

/-- the tail of `_flush_send_buf`: EOF / CLOSE deferred until the buffer has drained -/
def flushTail (c : Chan) : Chan × List Msg :=
  match c.sendBuf with
  | [] =>
    match c.sendState with
    | .eofPending => ({ c with sendState := .eof }, sendPkt c .eof)
    | .closePending =>
      -- `if self._send_eof_pending:` … `self.send_packet(MSG_CHANNEL_EOF)` (fix d334dad), then `_close_send()`
      let r := closeSend { c with sendEofPending := false }
      (r.1, (if c.sendEofPending then sendPkt c .eof else []) ++ r.2)
    | _ => (c, [])
  | _ :: _ => (c, [])

/-- the same before fix d334dad: `close()` after `write_eof()` forgets the EOF -/
def flushTailOld (c : Chan) : Chan × List Msg :=
  match c.sendBuf with
  | [] =>
    match c.sendState with
    | .eofPending => ({ c with sendState := .eof }, sendPkt c .eof)
    | .closePending => closeSend c
    | _ => (c, [])
  | _ :: _ => (c, [])

/-- `_flush_send_buf`; `none` = the loop does not terminate -/
def flushSend (c : Chan) : Option (Chan × List Msg) :=
  match flushData (flushFuel c) c with
  | none => none
  | some (c1, ms) =>
    let r := flushTail c1
    some (r.1, ms ++ r.2)

/-- the window-replenish test of `_deliver_data`: `self._recv_window < self._init_recv_window / 2`
    (true division in Python, hence `2 * w < init`) -/
def needAdjust (w : Int) (init : Nat) : Bool := decide (2 * w < (init : Int))

/-- `_deliver_data` (bytes level): window accounting, replenish, callback; the application may pause from inside
    the callback (`pauseAfter`) -/
def deliverData (c : Chan) (data : Bytes) (dt : DType) : Chan × List Msg × List Out :=
  let w : Int := c.recvWindow - data.length
  let adj := needAdjust w c.initWindow
  let ms := if adj then sendPkt c (.adjust ((c.initWindow : Int) - w).toNat) else []
  let w' : Int := if adj then c.initWindow else w
  let pa : Paused × Option Nat := match c.pauseAfter with
    | none => (c.recvPaused, none)
    | some 0 => (.yes, none)
    | some (k + 1) => (c.recvPaused, some k)
  ({ c with recvWindow := w', recvPaused := pa.1, pauseAfter := pa.2 }, ms, [.data dt data])

/-- the `while self._recv_buf and not self._recv_paused` loop of `_flush_recv_buf`, over an explicit buffer;
    returns the endpoint, what is left in the buffer, the messages sent and the callbacks made -/
def drainRecv (c : Chan) : Buf → Chan × Buf × List Msg × List Out
  | [] => (c, [], [], [])
  | (d, dt) :: rest =>
    if c.recvPaused ≠ .no then (c, (d, dt) :: rest, [], [])
    else
      let r1 := deliverData c d dt
      let r2 := drainRecv r1.1 rest
      (r2.1, r2.2.1, r1.2.1 ++ r2.2.2.1, r1.2.2 ++ r2.2.2.2)

/-- `write_eof` -/
def writeEof (c : Chan) : Option (Chan × List Msg) :=
  if c.sendState = .opn then flushSend { c with sendState := .eofPending } else some (c, [])

/-- `_flush_recv_buf`, second part: `if not self._recv_buf and self._recv_paused != 'starting'` …
    `if self._recv_state == 'eof_pending'`: deliver EOF; write EOF back unless the session keeps the channel
    half-open -/
def eofStep (c : Chan) : Option (Chan × List Msg × List Out) :=
  if c.recvBuf.isEmpty ∧ c.recvPaused ≠ .starting ∧ c.recvState = .eofPending then
    let c2 := { c with recvState := .eof }
    if ¬ c2.eofKeep ∧ c2.sendState = .opn then
      match writeEof c2 with
      | none => none
      | some (c3, ms) => some (c3, ms, [.eof])
    else some (c2, [], [.eof])
  else some (c, [], [])

/-- `_flush_recv_buf`, third part: `if not self._recv_buf and self._recv_state == 'close_pending'` -/
def closeStep (c : Chan) : Chan × List Out :=
  if c.recvBuf.isEmpty ∧ c.recvState = .closePending then
    -- `if self._recv_eof_pending:` … `self._session.eof_received()` (fix 024eb80), then cleanup
    ({ c with recvState := .closed, recvEofPending := false }, if c.recvEofPending then [.eof, .lost] else [.lost])
  else (c, [])

/-- the same before fix 024eb80: a pending EOF is forgotten (F13) -/
def closeStepOld (c : Chan) : Chan × List Out :=
  if c.recvBuf.isEmpty ∧ c.recvState = .closePending then ({ c with recvState := .closed }, [.lost]) else (c, [])

/-- `_flush_recv_buf` (no `exc`) -/
def flushRecv (c : Chan) : Option (Chan × List Msg × List Out) :=
  let r := drainRecv c c.recvBuf
  match eofStep { r.1 with recvBuf := r.2.1 } with
  | none => none
  | some (c2, ms2, os2) =>
    let r3 := closeStep c2
    some (r3.1, r.2.2.1 ++ ms2, r.2.2.2 ++ os2 ++ r3.2)

/-- `_accept_data`.  Data that arrives after the local `close()` is dropped, and (since fix ae15f0e) the window it
    used is given back at once: `self.send_packet(MSG_CHANNEL_WINDOW_ADJUST, UInt32(len(data)))` — which reaches the
    wire only while the own CLOSE has not been sent (`send_packet` is a no-op once `_send_chan` is None).
    `_recv_window` is NOT touched: it was never decremented for this data. -/
def acceptData (c : Chan) (data : Bytes) (dt : DType) : Chan × List Msg × List Out :=
  if data.isEmpty then (c, [], [])
  else if c.sendState = .closePending ∨ c.sendState = .closed then (c, sendPkt c (.adjust data.length), [])
  else if c.recvPaused ≠ .no then ({ c with recvBuf := c.recvBuf ++ [(data, dt)] }, [], [])
  else deliverData c data dt

/-- the same before fix ae15f0e: the window used by dropped data is lost to the peer -/
def acceptDataPreCredit (c : Chan) (data : Bytes) (dt : DType) : Chan × List Msg × List Out :=
  if data.isEmpty then (c, [], [])
  else if c.sendState = .closePending ∨ c.sendState = .closed then (c, [], [])
  else if c.recvPaused ≠ .no then ({ c with recvBuf := c.recvBuf ++ [(data, dt)] }, [], [])
  else deliverData c data dt

/-- `if self._recv_buf_len: self.send_packet(MSG_CHANNEL_WINDOW_ADJUST, UInt32(self._recv_buf_len))` in
    `_discard_recv` (fix ae15f0e): the window used by the buffered data that is about to be discarded -/
def discardCredit (c : Chan) : List Msg :=
  if bufBytes c.recvBuf ≠ 0 then sendPkt c (.adjust (bufBytes c.recvBuf)) else []

/-- `_discard_recv` -/
def discardRecv (c : Chan) : Chan × List Msg × List Out :=
  let c1 := { c with recvBuf := [], recvPaused := .no }
  if c1.recvState = .closePending then ({ c1 with recvState := .closed }, discardCredit c, [.lost])
  else (c1, discardCredit c, [])

/-- the same before fix ae15f0e -/
def discardRecvPreCredit (c : Chan) : Chan × List Msg × List Out :=
  let c1 := { c with recvBuf := [], recvPaused := .no }
  if c1.recvState = .closePending then ({ c1 with recvState := .closed }, [], [.lost]) else (c1, [], [])

/-- what the environment can do to one endpoint -/
inductive Ev where
  | write (dt : DType) (bs : Bytes)
  | writeEof
  | close
  | pause
  | resume
  | armPause (k : Nat)
  | startReading
  | recv (m : Msg)
  deriving DecidableEq, Repr, Inhabited

abbrev StepRes := Except Err (Chan × List Msg × List Out)

/-- bytes an event makes the endpoint give up without delivering them, whose window it gives back instead (fix
    ae15f0e): data dropped after the local `close()`, and the buffer `close()` discards -/
def evCredit (ev : Ev) (c : Chan) : Nat :=
  match ev with
  | .recv (.data _ bs) => if c.sendState = .closePending ∨ c.sendState = .closed then bs.length else 0
  | .close => bufBytes c.recvBuf
  | _ => 0

def liftSend (r : Option (Chan × List Msg)) : StepRes :=
  match r with
  | none => .error .spin
  | some (c, ms) => .ok (c, ms, [])

def liftRecv (r : Option (Chan × List Msg × List Out)) : StepRes :=
  match r with
  | none => .error .spin
  | some x => .ok x

def recvOpenish (s : RecvState) : Bool :=
  s = .opn ∨ s = .eofPending ∨ s = .eof

/-- `datatype is None or datatype in types` -/
def typeOk (types : List Nat) : DType → Bool
  | none => true
  | some t => decide (t ∈ types)

/-- the packet handlers (`_process_data`, `_process_extended_data`, `_process_window_adjust`, `_process_eof`,
    `_process_close`) -/
def recvMsg (c : Chan) : Msg → StepRes
  | .data dt bs =>
    if c.recvState ≠ .opn then .error .notOpen
    else if ¬ typeOk c.readTypes dt then .error .badExtType
    else if (bs.length : Int) > c.recvWindow - bufBytes c.recvBuf then .error .windowExceeded
    else .ok (acceptData c bs dt)
  | .adjust n =>
    if ¬ recvOpenish c.recvState then .error .notOpen
    else liftSend (flushSend { c with sendWindow := c.sendWindow + n })
  | .eof =>
    if c.recvState ≠ .opn then .error .notOpen
    else liftRecv (flushRecv { c with recvState := .eofPending })
  | .close =>
    if ¬ recvOpenish c.recvState then .error .notOpen
    else
      let r := closeSend c
      match flushRecv { r.1 with recvEofPending := decide (c.recvState = .eofPending), recvState := .closePending } with
      | none => .error .spin
      | some (c2, ms, os) => .ok (c2, r.2 ++ ms, os)

/-- one atomic block of the endpoint -/
def step (c : Chan) : Ev → StepRes
  | .write dt bs =>
    if c.sendState ≠ .opn then .error .brokenPipe
    else if ¬ typeOk c.writeTypes dt then .error .badDatatype
    else if bs.isEmpty then .ok (c, [], [])
    else liftSend (flushSend { c with sendBuf := c.sendBuf ++ [(bs, dt)] })
  | .writeEof => liftSend (writeEof c)
  | .close =>
    let r1 : Option (Chan × List Msg) :=
      if c.sendState ≠ .closePending ∧ c.sendState ≠ .closed then
        flushSend { c with sendEofPending := decide (c.sendState = .eofPending), sendState := .closePending }
      else some (c, [])
    match r1 with
    | none => .error .spin
    | some (c1, ms) =>
      if c1.recvState ≠ .closed then
        let r2 := discardRecv c1
        .ok (r2.1, ms ++ r2.2.1, r2.2.2)
      else .ok (c1, ms, [])
  | .pause => .ok ({ c with recvPaused := .yes }, [], [])
  | .resume =>
    if c.recvPaused ≠ .no then liftRecv (flushRecv { c with recvPaused := .no }) else .ok (c, [], [])
  | .armPause k => .ok ({ c with pauseAfter := some k }, [], [])
  | .startReading =>
    if c.recvPaused = .starting then liftRecv (flushRecv { c with recvPaused := .no }) else .ok (c, [], [])
  | .recv m => recvMsg c m

/-! ### the code before the fixes de5c08f / 53cd2ff / 024eb80 (witness theorems only) -/

/-- `_process_data` / `_process_extended_data` before fix 53cd2ff: buffered bytes are not counted (F3) -/
def recvDataOld (c : Chan) (dt : DType) (bs : Bytes) : StepRes :=
  if c.recvState ≠ .opn then .error .notOpen
  else if ¬ typeOk c.readTypes dt then .error .badExtType
  else if (bs.length : Int) > c.recvWindow then .error .windowExceeded
  else .ok (acceptData c bs dt)

/-- `_flush_recv_buf` before fix 024eb80 -/
def flushRecvOld (c : Chan) : Option (Chan × List Msg × List Out) :=
  let r := drainRecv c c.recvBuf
  match eofStep { r.1 with recvBuf := r.2.1 } with
  | none => none
  | some (c2, ms2, os2) =>
    let r3 := closeStepOld c2
    some (r3.1, r.2.2.1 ++ ms2, r.2.2.2 ++ os2 ++ r3.2)

/-- `_process_close` before fix 024eb80: `'eof_pending'` is overwritten by `'close_pending'` (F13) -/
def recvCloseOld (c : Chan) : StepRes :=
  if ¬ recvOpenish c.recvState then .error .notOpen
  else
    let r := closeSend c
    match flushRecvOld { r.1 with recvState := .closePending } with
    | none => .error .spin
    | some (c2, ms, os) => .ok (c2, r.2 ++ ms, os)

/-- `_flush_send_buf` before the fixes de5c08f and d334dad -/
def flushSendOld (c : Chan) : Option (Chan × List Msg) :=
  match flushDataOld (flushFuel c) c with
  | none => none
  | some (c1, ms) =>
    let r := flushTailOld c1
    some (r.1, ms ++ r.2)

/-- the endpoint as it was before the three fixes, for the events the fixes touch -/
def stepOld (c : Chan) : Ev → StepRes
  | .write dt bs =>
    if c.sendState ≠ .opn then .error .brokenPipe
    else if ¬ typeOk c.writeTypes dt then .error .badDatatype
    else if bs.isEmpty then .ok (c, [], [])
    else liftSend (flushSendOld { c with sendBuf := c.sendBuf ++ [(bs, dt)] })
  | .writeEof =>
    if c.sendState = .opn then liftSend (flushSendOld { c with sendState := .eofPending }) else .ok (c, [], [])
  | .close =>
    let r1 : Option (Chan × List Msg) :=
      if c.sendState ≠ .closePending ∧ c.sendState ≠ .closed then flushSendOld { c with sendState := .closePending }
      else some (c, [])
    match r1 with
    | none => .error .spin
    | some (c1, ms) =>
      if c1.recvState ≠ .closed then
        let r2 := discardRecv c1
        .ok (r2.1, ms ++ r2.2.1, r2.2.2)
      else .ok (c1, ms, [])
  | .recv (.adjust n) =>
    if ¬ recvOpenish c.recvState then .error .notOpen
    else liftSend (flushSendOld { c with sendWindow := c.sendWindow + n })
  | .resume =>
    if c.recvPaused ≠ .no then liftRecv (flushRecvOld { c with recvPaused := .no }) else .ok (c, [], [])
  | .startReading =>
    if c.recvPaused = .starting then liftRecv (flushRecvOld { c with recvPaused := .no }) else .ok (c, [], [])
  | .recv (.data dt bs) => recvDataOld c dt bs
  | .recv .eof =>
    if c.recvState ≠ .opn then .error .notOpen
    else liftRecv (flushRecvOld { c with recvState := .eofPending })
  | .recv .close => recvCloseOld c
  | ev => step c ev

/-- the endpoint as it was before fix ae15f0e (no window credit for data dropped after `close()` or discarded by
    it), for the two events the fix touches; witness theorems only -/
def stepPreCredit (c : Chan) : Ev → StepRes
  | .recv (.data dt bs) =>
    if c.recvState ≠ .opn then .error .notOpen
    else if ¬ typeOk c.readTypes dt then .error .badExtType
    else if (bs.length : Int) > c.recvWindow - bufBytes c.recvBuf then .error .windowExceeded
    else .ok (acceptDataPreCredit c bs dt)
  | .close =>
    let r1 : Option (Chan × List Msg) :=
      if c.sendState ≠ .closePending ∧ c.sendState ≠ .closed then
        flushSend { c with sendEofPending := decide (c.sendState = .eofPending), sendState := .closePending }
      else some (c, [])
    match r1 with
    | none => .error .spin
    | some (c1, ms) =>
      if c1.recvState ≠ .closed then
        let r2 := discardRecvPreCredit c1
        .ok (r2.1, ms ++ r2.2.1, r2.2.2)
      else .ok (c1, ms, [])
  | ev => step c ev

/-- a freshly opened channel endpoint: `window`/`max_pktsize` are what the *peer* advertised in
    CHANNEL_OPEN / OPEN_CONFIRMATION (`process_open`, `process_open_confirmation`: taken as is — the zero
    packet size check in connection.py is commented out), `initWindow` what this side advertised -/
def Chan.opened (initWindow : Nat) (readTypes writeTypes : List Nat) (eofKeep : Bool)
    (peerWindow peerPktsize : Nat) (paused : Paused) : Chan :=
  { initWindow, readTypes, writeTypes, eofKeep,
    sendState := .opn, sendChanOpen := true, sendWindow := peerWindow, sendPktsize := peerPktsize, sendBuf := [],
    sendEofPending := false, recvState := .opn, recvWindow := initWindow, recvPaused := paused, recvBuf := [], recvEofPending := false,
    pauseAfter := none }

end AsyncsshModel.Channel
