import AsyncsshModel.Base.Hex
/-
  SSH wire primitives used by the C16 models (certificates, signature blobs, SSHSIG).
  Mirrors /repo/asyncssh/packet.py:
    UInt32/UInt64/String  (encoders, `int.to_bytes(k, 'big')`)
    SSHPacket.get_bytes / get_uint32 / get_uint64 / get_string / get_mpint / get_namelist / check_end
  A packet being decoded is represented by its *remaining* bytes; `get_consumed_payload()` is recovered
  as "everything before the remaining bytes" (see `Cert.consumed`).
  Also: CPython's strict UTF-8 decoder (`bytes.decode('utf-8')`) as a total function to `Option`.
-/
namespace AsyncsshModel.CertWire
open AsyncsshModel

/-- `int.from_bytes(b, 'big')` -/
def natOfBytes (b : Bytes) : Nat := b.foldl (fun a x => a * 256 + x.toNat) 0

/-- `n.to_bytes(k, 'big')` (for `n < 256^k`; Python raises OverflowError otherwise, callers carry the bound) -/
def beBytes : Nat → Nat → Bytes
  | 0, _ => []
  | k + 1, n => beBytes k (n / 256) ++ [UInt8.ofNat (n % 256)]

/-- packet.py `UInt32` -/
def u32 (n : Nat) : Bytes := beBytes 4 n
/-- packet.py `UInt64` -/
def u64 (n : Nat) : Bytes := beBytes 8 n
/-- packet.py `String` on bytes -/
def sshString (s : Bytes) : Bytes := u32 s.length ++ s

/-- `SSHPacket.get_bytes(size)`: `none` is `PacketDecodeError('Incomplete packet')` -/
def getBytes (n : Nat) (b : Bytes) : Option (Bytes × Bytes) :=
  if n ≤ b.length then some (b.take n, b.drop n) else none

def getU32 (b : Bytes) : Option (Nat × Bytes) :=
  match getBytes 4 b with
  | some (x, r) => some (natOfBytes x, r)
  | none => none

def getU64 (b : Bytes) : Option (Nat × Bytes) :=
  match getBytes 8 b with
  | some (x, r) => some (natOfBytes x, r)
  | none => none

/-- `SSHPacket.get_string()` = `get_bytes(get_uint32())` -/
def getString (b : Bytes) : Option (Bytes × Bytes) :=
  match getU32 b with
  | some (n, r) => getBytes n r
  | none => none

/-- `int.from_bytes(b, 'big', signed=True)` (the conversion inside `get_mpint`) -/
def intOfBytesSigned (b : Bytes) : Int :=
  match b with
  | [] => 0
  | x :: _ => if x.toNat < 128 then (natOfBytes b : Int) else (natOfBytes b : Int) - (256 ^ b.length : Nat)

/-- `SSHPacket.get_mpint()` -/
def getMpint (b : Bytes) : Option (Int × Bytes) :=
  match getString b with
  | some (s, r) => some (intOfBytesSigned s, r)
  | none => none

/-- The maximal decomposition of a byte string into consecutive SSH strings
    (`while packet: packet.get_string()`); `none` when a `get_string` fails.
    `fuel` only has to be at least the length (every step consumes ≥ 4 bytes). -/
def splitStringsAux : Nat → Bytes → Option (List Bytes)
  | _, [] => some []
  | 0, _ :: _ => none
  | f + 1, b@(_ :: _) =>
    match getString b with
    | none => none
    | some (s, r) =>
      match splitStringsAux f r with
      | some ss => some (s :: ss)
      | none => none

def splitStrings (b : Bytes) : Option (List Bytes) := splitStringsAux b.length b

/-- concatenation of `String(s)` for each `s` -/
def encStrings (ss : List Bytes) : Bytes := ss.flatMap sshString

/-- `bytes.split(b',')` (never returns the empty list) -/
def splitComma : Bytes → List Bytes
  | [] => [[]]
  | c :: cs =>
    if c = 44 then [] :: splitComma cs
    else match splitComma cs with
      | [] => [[c]]
      | h :: t => (c :: h) :: t

/-- `SSHPacket.get_namelist()` applied to an already extracted string -/
def nameList (s : Bytes) : List Bytes := if s = [] then [] else splitComma s

/-! ### field-list parser: a record layout is a list of field kinds -/

inductive FK where
  | str | u32 | u64
deriving DecidableEq, Repr

inductive Val where
  | bytes (b : Bytes)
  | num32 (n : Nat)
  | num64 (n : Nat)
deriving DecidableEq, Repr

def Val.kind : Val → FK
  | .bytes _ => .str
  | .num32 _ => .u32
  | .num64 _ => .u64

def encVal : Val → Bytes
  | .bytes b => sshString b
  | .num32 n => u32 n
  | .num64 n => u64 n

def encVals (vs : List Val) : Bytes := vs.flatMap encVal

def parseField : FK → Bytes → Option (Val × Bytes)
  | .str, b => match getString b with
    | some (s, r) => some (.bytes s, r)
    | none => none
  | .u32, b => match getU32 b with
    | some (n, r) => some (.num32 n, r)
    | none => none
  | .u64, b => match getU64 b with
    | some (n, r) => some (.num64 n, r)
    | none => none

/-- read the fields of a layout in order; returns the values and the remaining bytes -/
def parseFields : List FK → Bytes → Option (List Val × Bytes)
  | [], b => some ([], b)
  | k :: ks, b =>
    match parseField k b with
    | none => none
    | some (v, r) =>
      match parseFields ks r with
      | none => none
      | some (vs, r') => some (v :: vs, r')

/-! ### CPython strict UTF-8 decoding (`bytes.decode('utf-8')`) -/

def isCont (x : UInt8) : Bool := 128 ≤ x.toNat && x.toNat ≤ 191

/-- Decode to a list of code points; `none` is `UnicodeDecodeError`.  Rejects overlong forms,
    surrogates (ED A0..BF) and code points above U+10FFFF exactly as CPython does. -/
def utf8DecodeAux : Nat → Bytes → Option (List Nat)
  | _, [] => some []
  | 0, _ :: _ => none
  | f + 1, b0 :: rest =>
    let n0 := b0.toNat
    if n0 < 128 then (utf8DecodeAux f rest).map (n0 :: ·)
    else if 194 ≤ n0 ∧ n0 ≤ 223 then
      match rest with
      | b1 :: r =>
        if isCont b1 then (utf8DecodeAux f r).map (((n0 - 192) * 64 + (b1.toNat - 128)) :: ·) else none
      | _ => none
    else if 224 ≤ n0 ∧ n0 ≤ 239 then
      match rest with
      | b1 :: b2 :: r =>
        let lo := if n0 = 224 then 160 else 128
        let hi := if n0 = 237 then 159 else 191
        if lo ≤ b1.toNat ∧ b1.toNat ≤ hi ∧ isCont b2 then
          (utf8DecodeAux f r).map (((n0 - 224) * 4096 + (b1.toNat - 128) * 64 + (b2.toNat - 128)) :: ·)
        else none
      | _ => none
    else if 240 ≤ n0 ∧ n0 ≤ 244 then
      match rest with
      | b1 :: b2 :: b3 :: r =>
        let lo := if n0 = 240 then 144 else 128
        let hi := if n0 = 244 then 143 else 191
        if lo ≤ b1.toNat ∧ b1.toNat ≤ hi ∧ isCont b2 ∧ isCont b3 then
          (utf8DecodeAux f r).map
            (((n0 - 240) * 262144 + (b1.toNat - 128) * 4096 + (b2.toNat - 128) * 64 + (b3.toNat - 128)) :: ·)
        else none
      | _ => none
    else none

def utf8Decode (b : Bytes) : Option (List Nat) := utf8DecodeAux b.length b

def validUtf8 (b : Bytes) : Bool := (utf8Decode b).isSome

/-- `bytes.decode('ascii')` succeeds -/
def isAscii (b : Bytes) : Bool := b.all fun x => x.toNat < 128

end AsyncsshModel.CertWire
