/-
  Model of the server side of user authentication (property C05):
  `SSHConnection._process_userauth_request`, `_finish_userauth`, `send_userauth_success/failure`
  (asyncssh/connection.py), `lookup_server_auth` and the `ServerAuth` classes (asyncssh/auth.py).
  asyncio is made explicit: a request is processed synchronously up to its first real suspension; the
  application-owned futures (`begin_auth`, the validators) complete whenever the environment says so, in any
  order relative to further requests.  The application's decisions are parameters (`App`).
-/
namespace AsyncsshModel.Auth

inductive Method where
  | none
  | password
  | pwChange                    -- password with the change flag: `change_password(user, old, new)`
  | pkProbe                     -- publickey without signature
  | pkSig (sigOK : Bool)        -- publickey with a signature; `sigOK`: it verifies over session id ‖ this request
  | hostSig (sigOK : Bool) (key : Nat)
                                -- hostbased, presenting host key `key`; `sigOK` as above (the signed request names
                                -- the client host - `Req.cred` - and the client user)
  | kbdint                      -- keyboard-interactive
  | unknown
  deriving Repr, DecidableEq

/-- what the application answers to a keyboard-interactive step (`get_kbdint_challenge` /
    `validate_kbdint_response`): `True`, `False` or another challenge -/
inductive KbdAns where
  | accept | reject | challenge
  deriving Repr, DecidableEq

structure Req where
  user : Nat
  method : Method
  cred : Nat                    -- password or key identity; hostbased: the client host the request names
  deriving Repr, DecidableEq

/-- the application's (deterministic) decisions -/
structure App where
  needsAuth : Nat → Bool              -- `begin_auth(user)`
  beginAsync : Bool                   -- `begin_auth` returns an awaitable
  pwOK : Nat → Nat → Bool             -- `validate_password(user, password)`
  keyOK : Nat → Nat → Bool            -- key authorised for user (`authorized_keys` / `validate_public_key`)
  perUserKeys : Bool                  -- the application installs the user's authorized keys in `begin_auth`
                                      -- (`conn.set_authorized_keys`): a key check consults the keys of the user
                                      -- for whom `begin_auth` last completed
  pwExpired : Nat → Nat → Bool := fun _ _ => false    -- `validate_password` raises PasswordChangeRequired
  chpwOK : Nat → Nat → Bool := fun _ _ => false       -- `change_password(user, old, _)`
  chpwExpired : Nat → Nat → Bool := fun _ _ => false  -- `change_password` raises PasswordChangeRequired
  hostKeyOK : Nat → Nat → Bool := fun _ _ => false    -- host key `k` is trusted for client host `h`: an entry of
                                                      -- `known_client_hosts` matching h, or `validate_host_public_key`
  hostUserOK : Nat → Nat → Bool := fun _ _ => false   -- `validate_host_based_user(user, client host, client user)`
  trustClientHost : Bool := true                      -- option `trust_client_host`
  resolvedHost : Nat := 0                             -- what the reverse lookup of the peer address gives
  kbdStart : Nat → KbdAns := fun _ => .reject         -- `get_kbdint_challenge(user)`
  kbdNext : Nat → Nat → KbdAns := fun _ _ => .reject  -- `validate_kbdint_response(user, responses)`

inductive Reply where
  | success | failure | pkOk
  | changeReq                   -- USERAUTH_PASSWD_CHANGEREQ
  | infoReq                     -- USERAUTH_INFO_REQUEST
  | unimpl                      -- UNIMPLEMENTED: a method-specific message the current auth object has no handler for
  deriving Repr, DecidableEq

/-- calls into the application / credential checks, in order -/
inductive Call where
  | begin (user : Nat)
  | checkPw (user cred : Nat) (ok : Bool)
  | checkKey (ctx user key : Nat) (keyOk : Bool) (sig : Option Bool)   -- `ctx`: whose authorized keys were consulted
  | checkChPw (user cred : Nat) (ok : Bool)
  | checkHost (user keyHost userHost key : Nat) (keyOk sigOk : Bool) (userOk : Option Bool)
                                -- `keyHost`: the host the key was looked up for; `userHost`: the host the application
                                -- was asked about
  | kbd (user : Nat) (resp : Option Nat) (ans : KbdAns)
  deriving Repr, DecidableEq

/-- a `_finish_userauth` task parked on the `begin_auth` awaitable -/
structure Task where
  seq : Nat
  calledUser : Nat              -- the argument `begin_auth` was called with
  beginIdx : Nat                -- which `begin_auth` call it waits for
  req : Req
  deriving Repr, DecidableEq

/-- the current `ServerAuth` object -/
structure AuthObj where
  user : Nat                    -- `ServerAuth._username`, fixed at creation
  req : Req
  valIdx : Nat                  -- which validator call it waits for
  awaiting : Bool
  resp : Option Nat := none     -- keyboard-interactive: the response being validated (none: the first challenge)
  deriving Repr, DecidableEq

structure St where
  username : Option Nat := none
  seq : Nat := 0
  tasks : List Task := []
  auth : Option AuthObj := none
  begun : Option Nat := none             -- user for whom `begin_auth` last completed (`_auth_begun_username`)
  complete : Option Nat := none          -- authenticated as this user (`get_extra_info('username')`)
  final : Bool := false
  closed : Bool := false
  out : List Reply := []
  log : List Call := []
  nBegin : Nat := 0
  nVal : Nat := 0
  keyOpts : Option Nat := none           -- whose options `_key_options` holds: those of key k's authorized_keys entry
  hostsSeen : List Nat := []             -- pre-repair code only: client hosts looked up in `known_client_hosts` so far
  deriving Repr

inductive Ev where
  | req (r : Req)
  | beginDone (k : Nat)        -- the k-th `begin_auth` awaitable completes
  | valDone (k : Nat)          -- the k-th validator awaitable completes
  | other                      -- a non-authentication message arrives
  | info (resp : Nat)          -- USERAUTH_INFO_RESPONSE carrying response `resp`
  | authMsg                    -- another method-specific message (60, 62..79)
  deriving Repr

def sendSuccess (s : St) : St :=
  match s.username with
  | some u => { s with out := s.out ++ [.success], complete := some u, auth := none }
  | none => s

def sendFailure (s : St) : St := { s with out := s.out ++ [.failure], auth := none }

/-- `validate_host_based_auth`: the client host a hostbased request is decided for — the name in the request only
    when `trust_client_host` is set, else the reverse lookup of the peer address.  The host key is looked up for this
    host and (since the repair of A-C05 D3) the application is asked about this host. -/
def effHost (app : App) (r : Req) : Nat := if app.trustClientHost then r.cred else app.resolvedHost

/-- `lookup_server_auth(conn, conn._username, method, packet)` and the start of the new auth object's task,
    up to its validator call -/
def createAuth (app : App) (s : St) (r : Req) : St :=
  if s.complete.isSome then s
  else
    match s.username with
    | none => s
    | some u =>
      match r.method with
      | .none | .unknown => sendFailure s
      | .hostSig sigOK key =>
        -- host key and signature are checked synchronously, before the application is asked about the user; the
        -- keys trusted are those of THIS request's client host only (`_match_known_hosts` rebuilds the set)
        if app.hostKeyOK (effHost app r) key && sigOK then
          { s with auth := some ⟨u, r, s.nVal, true, none⟩, nVal := s.nVal + 1 }
        else sendFailure { s with log := s.log ++ [.checkHost u (effHost app r) (effHost app r) key
                                                      (app.hostKeyOK (effHost app r) key) sigOK none] }
      | _ => { s with auth := some ⟨u, r, s.nVal, true, none⟩, nVal := s.nVal + 1 }

/-- continuation of `_finish_userauth` after `begin_auth` answered -/
def afterBegin (app : App) (s : St) (calledUser : Nat) (r : Req) : St :=
  let s := { s with begun := some calledUser }
  if app.needsAuth calledUser then createAuth app s r else sendSuccess s

/-- the user whose authorized keys a key check consults -/
def keyCtx (app : App) (s : St) (a : AuthObj) : Nat :=
  if app.perUserKeys then s.begun.getD a.user else a.user

/-- `_process_userauth_request` in the repaired code: a new request aborts what is in progress and forgets the
    options of whatever key an earlier request looked at (`reset_key_options`) -/
def onReq (app : App) (s : St) (r : Req) : St :=
  if s.closed then s
  else if s.complete.isSome then
    (if s.final then { s with closed := true } else s)
  else
    let beginAuth := s.begun != some r.user
    let s1 := { s with username := some r.user, seq := s.seq + 1, auth := none, keyOpts := none }
    if beginAuth then
      -- the configuration (and authorized keys) are reloaded for this user: authentication is no longer begun for
      -- anybody until begin_auth has answered
      let s2 := { s1 with begun := none, log := s1.log ++ [.begin r.user], nBegin := s1.nBegin + 1 }
      if app.beginAsync then { s2 with tasks := s2.tasks ++ [⟨s1.seq, r.user, s1.nBegin, r⟩] }
      else afterBegin app s2 r.user r
    else createAuth app s1 r

def onBeginDone (app : App) (s : St) (k : Nat) : St :=
  if s.closed then s else         -- the connection is gone: its tasks were cancelled
  match s.tasks.find? (·.beginIdx = k) with
  | none => s
  | some t =>
    let s1 := { s with tasks := s.tasks.filter (·.beginIdx ≠ k) }
    if t.seq ≠ s1.seq then s1            -- stale: a newer request arrived meanwhile
    else afterBegin app s1 t.calledUser t.req

def onValDone (app : App) (s : St) (k : Nat) : St :=
  if s.closed then s else
  match s.auth with
  | none => s
  | some a =>
    if a.valIdx ≠ k ∨ a.awaiting = false then s      -- a cancelled object's validator: nothing happens
    else
      match a.req.method with
      | .password =>
        if app.pwExpired a.user a.req.cred then
          { s with out := s.out ++ [.changeReq], auth := some { a with awaiting := false } }
        else
          let ok := app.pwOK a.user a.req.cred
          let s1 := { s with log := s.log ++ [.checkPw a.user a.req.cred ok] }
          if ok then sendSuccess s1 else sendFailure s1
      | .pwChange =>
        if app.chpwExpired a.user a.req.cred then
          { s with out := s.out ++ [.changeReq], auth := some { a with awaiting := false } }
        else
          let ok := app.chpwOK a.user a.req.cred
          let s1 := { s with log := s.log ++ [.checkChPw a.user a.req.cred ok] }
          if ok then sendSuccess s1 else sendFailure s1
      | .hostSig sigOK key =>
        -- the application is asked about the host the key was validated for
        let h := effHost app a.req
        let ok := app.hostUserOK a.user h
        let s1 := { s with log := s.log ++ [.checkHost a.user h h key (app.hostKeyOK h key) sigOK (some ok)] }
        if app.hostKeyOK h key && sigOK && ok then sendSuccess s1 else sendFailure s1
      | .kbdint =>
        let ans := match a.resp with
          | none => app.kbdStart a.user
          | some c => app.kbdNext a.user c
        let s1 := { s with log := s.log ++ [.kbd a.user a.resp ans] }
        match ans with
        | .accept => sendSuccess s1
        | .reject => sendFailure s1
        | .challenge => { s1 with out := s1.out ++ [.infoReq], auth := some { a with awaiting := false } }
      -- publickey: the key's options are stored as soon as the key is found acceptable, before the signature is
      -- looked at (`_validate_client_public_key`)
      | .pkProbe =>
        let ok := app.keyOK (keyCtx app s a) a.req.cred
        let s1 : St := { s with log := s.log ++ [.checkKey (keyCtx app s a) a.user a.req.cred ok none] }
        if ok then { s1 with out := s1.out ++ [.pkOk], auth := some { a with awaiting := false },
                             keyOpts := some a.req.cred }
        else sendFailure s1
      | .pkSig sigOK =>
        let ok := app.keyOK (keyCtx app s a) a.req.cred
        let s1 : St := { s with log := s.log ++ [.checkKey (keyCtx app s a) a.user a.req.cred ok (some sigOK)] }
        if ok && sigOK then sendSuccess { s1 with keyOpts := some a.req.cred }
        else sendFailure { s1 with keyOpts := if ok then some a.req.cred else s.keyOpts }
      | _ => s

/-- a method-specific message (60..79): handed to the current auth object, fatal without one -/
def onInfo (s : St) (c : Nat) : St :=
  if s.closed then s
  else
    match s.auth with
    | none => { s with closed := true }                 -- "Authentication not in progress"
    | some a =>
      match a.req.method with
      | .kbdint =>
        -- a response is only legal as the answer to an INFO_REQUEST (`_info_requested`): while the challenge or
        -- the validation of an earlier response is still pending it is a protocol error
        if a.awaiting then { s with closed := true }
        else { s with auth := some { a with valIdx := s.nVal, awaiting := true, resp := some c }, nVal := s.nVal + 1 }
      | _ => { s with out := s.out ++ [.unimpl] }

def onAuthMsg (s : St) : St :=
  if s.closed then s
  else
    match s.auth with
    | none => { s with closed := true }
    | some _ => { s with out := s.out ++ [.unimpl] }

def step (app : App) (s : St) : Ev → St
  | .req r => onReq app s r
  | .beginDone k => onBeginDone app s k
  | .valDone k => onValDone app s k
  | .other => if s.complete.isSome then { s with final := true } else { s with closed := true }
  | .info c => onInfo s c
  | .authMsg => onAuthMsg s

def run (app : App) (evs : List Ev) : St := evs.foldl (step app) {}

/-! ### the code before the repairs of the audit findings A-C05 D1, D2, D3 and A-C06 #1

`Quirks` switches the four pre-repair behaviours on one by one; `stepQ {}` is `step` (Props/C05.lean,
`stepQ_none`), the witnesses there run `stepQ` with one quirk each. -/

structure Quirks where
  /-- D2: `_match_known_hosts` ADDED the keys matching the named host to `_trusted_host_keys` -/
  trustedKeysAccumulate : Bool := false
  /-- D3: `validate_host_based_user` was passed the host name written in the request -/
  claimedHostToApp : Bool := false
  /-- A-C06 #1: `_process_info_response` accepted a response whenever keyboard-interactive was in progress,
      cancelling the pending challenge or validation -/
  earlyInfoResponse : Bool := false
  /-- D1: `_key_options` was never reset -/
  staleKeyOptions : Bool := false
  deriving Repr, DecidableEq

/-- is `key` trusted for host `h`: pre-repair, also when it matched any host looked up earlier on the connection -/
def keyTrustedQ (q : Quirks) (app : App) (s : St) (h key : Nat) : Bool :=
  app.hostKeyOK h key || (q.trustedKeysAccumulate && s.hostsSeen.any (fun h' => app.hostKeyOK h' key))

def createAuthQ (q : Quirks) (app : App) (s : St) (r : Req) : St :=
  match r.method with
  | .hostSig sigOK key =>
    if s.complete.isSome then s
    else
      match s.username with
      | none => s
      | some u =>
        let h := effHost app r
        let s := if q.trustedKeysAccumulate then { s with hostsSeen := s.hostsSeen ++ [h] } else s
        if keyTrustedQ q app s h key && sigOK then
          { s with auth := some ⟨u, r, s.nVal, true, none⟩, nVal := s.nVal + 1 }
        else sendFailure { s with log := s.log ++ [.checkHost u h h key (keyTrustedQ q app s h key) sigOK none] }
  | _ => createAuth app s r

def afterBeginQ (q : Quirks) (app : App) (s : St) (calledUser : Nat) (r : Req) : St :=
  let s := { s with begun := some calledUser }
  if app.needsAuth calledUser then createAuthQ q app s r else sendSuccess s

def onReqQ (q : Quirks) (app : App) (s : St) (r : Req) : St :=
  if s.closed then s
  else if s.complete.isSome then
    (if s.final then { s with closed := true } else s)
  else
    let beginAuth := s.begun != some r.user
    let s1 := { s with username := some r.user, seq := s.seq + 1, auth := none,
                       keyOpts := if q.staleKeyOptions then s.keyOpts else none }
    if beginAuth then
      let s2 := { s1 with begun := none, log := s1.log ++ [.begin r.user], nBegin := s1.nBegin + 1 }
      if app.beginAsync then { s2 with tasks := s2.tasks ++ [⟨s1.seq, r.user, s1.nBegin, r⟩] }
      else afterBeginQ q app s2 r.user r
    else createAuthQ q app s1 r

def onBeginDoneQ (q : Quirks) (app : App) (s : St) (k : Nat) : St :=
  if s.closed then s else
  match s.tasks.find? (·.beginIdx = k) with
  | none => s
  | some t =>
    let s1 := { s with tasks := s.tasks.filter (·.beginIdx ≠ k) }
    if t.seq ≠ s1.seq then s1
    else afterBeginQ q app s1 t.calledUser t.req

def onValDoneQ (q : Quirks) (app : App) (s : St) (k : Nat) : St :=
  match s.auth with
  | some a =>
    match a.req.method with
    | .hostSig sigOK key =>
      if s.closed then s
      else if a.valIdx ≠ k ∨ a.awaiting = false then s
      else
        let h := effHost app a.req
        let hu := if q.claimedHostToApp then a.req.cred else h
        let ok := app.hostUserOK a.user hu
        let s1 := { s with log := s.log ++ [.checkHost a.user h hu key (keyTrustedQ q app s h key) sigOK (some ok)] }
        if keyTrustedQ q app s h key && sigOK && ok then sendSuccess s1 else sendFailure s1
    | _ => onValDone app s k
  | none => onValDone app s k

/-- pre-repair `_process_info_response`: `create_task` cancels the object's running task (a pending challenge or
    validation) and validates this response -/
def onInfoPreFix (s : St) (c : Nat) : St :=
  if s.closed then s
  else
    match s.auth with
    | none => { s with closed := true }
    | some a =>
      match a.req.method with
      | .kbdint =>
        { s with auth := some { a with valIdx := s.nVal, awaiting := true, resp := some c }, nVal := s.nVal + 1 }
      | _ => { s with out := s.out ++ [.unimpl] }

def stepQ (q : Quirks) (app : App) (s : St) : Ev → St
  | .req r => onReqQ q app s r
  | .beginDone k => onBeginDoneQ q app s k
  | .valDone k => onValDoneQ q app s k
  | .other => if s.complete.isSome then { s with final := true } else { s with closed := true }
  | .info c => if q.earlyInfoResponse then onInfoPreFix s c else onInfo s c
  | .authMsg => onAuthMsg s

def runQ (q : Quirks) (app : App) (evs : List Ev) : St := evs.foldl (stepQ q app) {}

/-! ### the request handling before the repairs of F1 (kept to state the witnesses of defect F1 and of its second
form; everything but the request handling is shared with the current code) -/

/-- `_process_userauth_request` after the first repair (1ef8311) only: requests abort what is in progress, but
    `begin_auth` is still skipped whenever the user name did not change — even if `begin_auth` never completed
    for it -/
def onReqMid (app : App) (s : St) (r : Req) : St :=
  if s.closed then s
  else if s.complete.isSome then
    (if s.final then { s with closed := true } else s)
  else
    let beginAuth := s.username != some r.user
    let s1 := { s with username := some r.user, seq := s.seq + 1, auth := none }
    if beginAuth then
      let s2 := { s1 with log := s1.log ++ [.begin r.user], nBegin := s1.nBegin + 1 }
      if app.beginAsync then { s2 with tasks := s2.tasks ++ [⟨s1.seq, r.user, s1.nBegin, r⟩] }
      else afterBegin app s2 r.user r
    else createAuth app s1 r

def stepMid (app : App) (s : St) : Ev → St
  | .req r => onReqMid app s r
  | .beginDone k => onBeginDone app s k
  | .valDone k => onValDone app s k
  | .other => if s.complete.isSome then { s with final := true } else { s with closed := true }
  | .info c => onInfo s c
  | .authMsg => onAuthMsg s

def runMid (app : App) (evs : List Ev) : St := evs.foldl (stepMid app) {}


/-- pre-fix `_process_userauth_request`: the user name is switched at once, nothing is aborted, and the
    parked tasks and the live auth object go on; success reports the connection's *current* user name -/
def onReqOld (app : App) (s : St) (r : Req) : St :=
  if s.closed then s
  else if s.complete.isSome then
    (if s.final then { s with closed := true } else s)
  else
    let beginAuth := s.username != some r.user
    let s1 := { s with username := some r.user, seq := s.seq + 1 }
    if beginAuth then
      let s2 := { s1 with log := s1.log ++ [.begin r.user], nBegin := s1.nBegin + 1 }
      if app.beginAsync then { s2 with tasks := s2.tasks ++ [⟨s1.seq, r.user, s1.nBegin, r⟩] }
      else afterBegin app s2 r.user r
    else createAuth app s1 r

def onBeginDoneOld (app : App) (s : St) (k : Nat) : St :=
  if s.closed then s else
  match s.tasks.find? (·.beginIdx = k) with
  | none => s
  | some t => afterBegin app { s with tasks := s.tasks.filter (·.beginIdx ≠ k) } t.calledUser t.req

def stepOld (app : App) (s : St) : Ev → St
  | .req r => onReqOld app s r
  | .beginDone k => onBeginDoneOld app s k
  | .valDone k => onValDone app s k
  | .other => if s.complete.isSome then { s with final := true } else { s with closed := true }
  | .info c => onInfo s c
  | .authMsg => onAuthMsg s

def runOld (app : App) (evs : List Ev) : St := evs.foldl (stepOld app) {}

end AsyncsshModel.Auth
