/-
  Model of the server side of user authentication (property C05):
  `SSHConnection._process_userauth_request`, `_finish_userauth`, `send_userauth_success/failure`
  (asyncssh/connection.py), `lookup_server_auth` and the `ServerAuth` classes (asyncssh/auth.py).
  asyncio is made explicit: a request is processed synchronously up to its first real suspension; the
  application-owned futures (`begin_auth`, the validators) complete whenever the environment says so, in any
  order relative to further requests.  The application's decisions are parameters (`App`).
-/
namespace AsyncsshModel.Auth

inductive Method where
  | none
  | password
  | pkProbe                     -- publickey without signature
  | pkSig (sigOK : Bool)        -- publickey with a signature; `sigOK`: it verifies over session id ‖ this request
  | unknown
  deriving Repr, DecidableEq

structure Req where
  user : Nat
  method : Method
  cred : Nat                    -- password or key identity
  deriving Repr, DecidableEq

/-- the application's (deterministic) decisions -/
structure App where
  needsAuth : Nat → Bool              -- `begin_auth(user)`
  beginAsync : Bool                   -- `begin_auth` returns an awaitable
  pwOK : Nat → Nat → Bool             -- `validate_password(user, password)`
  keyOK : Nat → Nat → Bool            -- key authorised for user (`authorized_keys` / `validate_public_key`)
  perUserKeys : Bool                  -- the application installs the user's authorized keys in `begin_auth`
                                      -- (`conn.set_authorized_keys`): a key check consults the keys of the user
                                      -- for whom `begin_auth` last completed

inductive Reply where
  | success | failure | pkOk
  deriving Repr, DecidableEq

/-- calls into the application / credential checks, in order -/
inductive Call where
  | begin (user : Nat)
  | checkPw (user cred : Nat) (ok : Bool)
  | checkKey (ctx user key : Nat) (keyOk : Bool) (sig : Option Bool)   -- `ctx`: whose authorized keys were consulted
  deriving Repr, DecidableEq

/-- a `_finish_userauth` task parked on the `begin_auth` awaitable -/
structure Task where
  seq : Nat
  calledUser : Nat              -- the argument `begin_auth` was called with
  beginIdx : Nat                -- which `begin_auth` call it waits for
  req : Req
  deriving Repr, DecidableEq

/-- the current `ServerAuth` object -/
structure AuthObj where
  user : Nat                    -- `ServerAuth._username`, fixed at creation
  req : Req
  valIdx : Nat                  -- which validator call it waits for
  awaiting : Bool
  deriving Repr, DecidableEq

structure St where
  username : Option Nat := none
  seq : Nat := 0
  tasks : List Task := []
  auth : Option AuthObj := none
  begun : Option Nat := none             -- user for whom `begin_auth` last completed (`_auth_begun_username`)
  complete : Option Nat := none          -- authenticated as this user (`get_extra_info('username')`)
  final : Bool := false
  closed : Bool := false
  out : List Reply := []
  log : List Call := []
  nBegin : Nat := 0
  nVal : Nat := 0
  deriving Repr

inductive Ev where
  | req (r : Req)
  | beginDone (k : Nat)        -- the k-th `begin_auth` awaitable completes
  | valDone (k : Nat)          -- the k-th validator awaitable completes
  | other                      -- a non-authentication message arrives
  deriving Repr

def sendSuccess (s : St) : St :=
  match s.username with
  | some u => { s with out := s.out ++ [.success], complete := some u, auth := none }
  | none => s

def sendFailure (s : St) : St := { s with out := s.out ++ [.failure], auth := none }

/-- `lookup_server_auth(conn, conn._username, method, packet)` and the start of the new auth object's task,
    up to its validator call -/
def createAuth (s : St) (r : Req) : St :=
  if s.complete.isSome then s
  else
    match s.username with
    | none => s
    | some u =>
      match r.method with
      | .none | .unknown => sendFailure s
      | _ => { s with auth := some ⟨u, r, s.nVal, true⟩, nVal := s.nVal + 1 }

/-- continuation of `_finish_userauth` after `begin_auth` answered -/
def afterBegin (app : App) (s : St) (calledUser : Nat) (r : Req) : St :=
  let s := { s with begun := some calledUser }
  if app.needsAuth calledUser then createAuth s r else sendSuccess s

/-- the user whose authorized keys a key check consults -/
def keyCtx (app : App) (s : St) (a : AuthObj) : Nat :=
  if app.perUserKeys then s.begun.getD a.user else a.user

/-- `_process_userauth_request` in the repaired code: a new request aborts what is in progress -/
def onReq (app : App) (s : St) (r : Req) : St :=
  if s.closed then s
  else if s.complete.isSome then
    (if s.final then { s with closed := true } else s)
  else
    let beginAuth := s.begun != some r.user
    let s1 := { s with username := some r.user, seq := s.seq + 1, auth := none }
    if beginAuth then
      let s2 := { s1 with log := s1.log ++ [.begin r.user], nBegin := s1.nBegin + 1 }
      if app.beginAsync then { s2 with tasks := s2.tasks ++ [⟨s1.seq, r.user, s1.nBegin, r⟩] }
      else afterBegin app s2 r.user r
    else createAuth s1 r

def onBeginDone (app : App) (s : St) (k : Nat) : St :=
  if s.closed then s else         -- the connection is gone: its tasks were cancelled
  match s.tasks.find? (·.beginIdx = k) with
  | none => s
  | some t =>
    let s1 := { s with tasks := s.tasks.filter (·.beginIdx ≠ k) }
    if t.seq ≠ s1.seq then s1            -- stale: a newer request arrived meanwhile
    else afterBegin app s1 t.calledUser t.req

def onValDone (app : App) (s : St) (k : Nat) : St :=
  if s.closed then s else
  match s.auth with
  | none => s
  | some a =>
    if a.valIdx ≠ k ∨ a.awaiting = false then s      -- a cancelled object's validator: nothing happens
    else
      match a.req.method with
      | .password =>
        let ok := app.pwOK a.user a.req.cred
        let s1 := { s with log := s.log ++ [.checkPw a.user a.req.cred ok] }
        if ok then sendSuccess s1 else sendFailure s1
      | .pkProbe =>
        let ok := app.keyOK (keyCtx app s a) a.req.cred
        let s1 := { s with log := s.log ++ [.checkKey (keyCtx app s a) a.user a.req.cred ok none] }
        if ok then { s1 with out := s1.out ++ [.pkOk], auth := some { a with awaiting := false } } else sendFailure s1
      | .pkSig sigOK =>
        let ok := app.keyOK (keyCtx app s a) a.req.cred
        let s1 := { s with log := s.log ++ [.checkKey (keyCtx app s a) a.user a.req.cred ok (some sigOK)] }
        if ok && sigOK then sendSuccess s1 else sendFailure s1
      | _ => s

def step (app : App) (s : St) : Ev → St
  | .req r => onReq app s r
  | .beginDone k => onBeginDone app s k
  | .valDone k => onValDone app s k
  | .other => if s.complete.isSome then { s with final := true } else { s with closed := true }

def run (app : App) (evs : List Ev) : St := evs.foldl (step app) {}

/-! ### the code before the repairs (kept to state the witnesses of defect F1 and of its second form) -/

/-- `_process_userauth_request` after the first repair (1ef8311) only: requests abort what is in progress, but
    `begin_auth` is still skipped whenever the user name did not change — even if `begin_auth` never completed
    for it -/
def onReqMid (app : App) (s : St) (r : Req) : St :=
  if s.closed then s
  else if s.complete.isSome then
    (if s.final then { s with closed := true } else s)
  else
    let beginAuth := s.username != some r.user
    let s1 := { s with username := some r.user, seq := s.seq + 1, auth := none }
    if beginAuth then
      let s2 := { s1 with log := s1.log ++ [.begin r.user], nBegin := s1.nBegin + 1 }
      if app.beginAsync then { s2 with tasks := s2.tasks ++ [⟨s1.seq, r.user, s1.nBegin, r⟩] }
      else afterBegin app s2 r.user r
    else createAuth s1 r

def stepMid (app : App) (s : St) : Ev → St
  | .req r => onReqMid app s r
  | .beginDone k => onBeginDone app s k
  | .valDone k => onValDone app s k
  | .other => if s.complete.isSome then { s with final := true } else { s with closed := true }

def runMid (app : App) (evs : List Ev) : St := evs.foldl (stepMid app) {}


/-- pre-fix `_process_userauth_request`: the user name is switched at once, nothing is aborted, and the
    parked tasks and the live auth object go on; success reports the connection's *current* user name -/
def onReqOld (app : App) (s : St) (r : Req) : St :=
  if s.closed then s
  else if s.complete.isSome then
    (if s.final then { s with closed := true } else s)
  else
    let beginAuth := s.username != some r.user
    let s1 := { s with username := some r.user, seq := s.seq + 1 }
    if beginAuth then
      let s2 := { s1 with log := s1.log ++ [.begin r.user], nBegin := s1.nBegin + 1 }
      if app.beginAsync then { s2 with tasks := s2.tasks ++ [⟨s1.seq, r.user, s1.nBegin, r⟩] }
      else afterBegin app s2 r.user r
    else createAuth s1 r

def onBeginDoneOld (app : App) (s : St) (k : Nat) : St :=
  if s.closed then s else
  match s.tasks.find? (·.beginIdx = k) with
  | none => s
  | some t => afterBegin app { s with tasks := s.tasks.filter (·.beginIdx ≠ k) } t.calledUser t.req

def stepOld (app : App) (s : St) : Ev → St
  | .req r => onReqOld app s r
  | .beginDone k => onBeginDoneOld app s k
  | .valDone k => onValDone app s k
  | .other => if s.complete.isSome then { s with final := true } else { s with closed := true }

def runOld (app : App) (evs : List Ev) : St := evs.foldl (stepOld app) {}

end AsyncsshModel.Auth
