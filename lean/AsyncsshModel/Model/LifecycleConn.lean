import AsyncsshModel.Model.Lifecycle
/-
  One SSH connection endpoint after authentication (asyncssh/connection.py): the channel table, the global
  request waiters, `_force_close` / `_cleanup`, packet dispatch, and asyncio's FIFO ready queue carrying the
  callbacks and task steps whose order matters (`call_soon(self._cleanup)`, the wake-up of `create()` after a
  waiter was resolved, `_finish_open_request`, `_start_reading`).  Two endpoints joined by FIFO links make
  the system the harness drives (`Sys`).
-/
namespace AsyncsshModel.Lifecycle

/-- packets between the endpoints -/
inductive Msg where
  | chan (rc : Nat) (m : CMsg)
  | open_ (sc win : Nat)                 -- CHANNEL_OPEN "session"
  | openConf (rc sc win : Nat)
  | openFail (rc : Nat)
  | greq                                 -- GLOBAL_REQUEST tcpip-forward, want_reply
  | gsuccess | gfailure
  | disconnect (e : Exc)                 -- exception class the receiver builds from the reason code
  deriving DecidableEq, Repr, Inhabited

/-- entries of the event loop's ready queue that belong to this connection -/
inductive Item where
  | chanCleanup (k : Nat) (e : Exc)      -- `call_soon(chan._cleanup, e)`
  | connCleanup (e : Exc)                -- `call_soon(self._cleanup, e)`
  | transportAbort                       -- `call_soon(self._transport.abort)`
  | createStart (i : Nat)                -- first step of the task running `create_session` for the i-th open
  | createWake (k : Nat)                 -- `create()` of channel k resumes (the future it awaits is done)
  | startReading (k : Nat)               -- task `_start_reading`
  | finishOpen (k : Nat)                 -- task `_finish_open_request` of channel k
  | finishOpenResume (k : Nat) (grant : Bool)
  | greqStart (i : Nat)                  -- task running `create_server` (tcpip-forward) for the i-th request
  | finishPF (j : Nat)                   -- task `_finish_port_forward`
  | finishPFResume (j : Nat)
  deriving DecidableEq, Repr, Inhabited

/-- how the server application answers the j-th `session_requested()` / `server_requested()` -/
inductive OpenMode where
  | accept | refuse | later
  deriving DecidableEq, Repr, Inhabited

/-- arguments of one client `create_session` call -/
structure OpenCfg where
  nenv : Nat := 0
  pty : Bool := false
  kind : ReqKind := .exec
  eofRet : Bool := true
  armed : Bool := false
  deriving DecidableEq, Repr, Inhabited

/-- the i-th `create_session` call of the client application -/
structure CliSess where
  cfg : OpenCfg
  started : Bool := false
  slot : Option Nat := none       -- channel number once the channel object exists
  early : Bool := false           -- `add_channel` raised: ChannelOpenError('SSH connection closed')
  deriving DecidableEq, Repr, Inhabited

/-- behaviour of the j-th server session object -/
structure SrvCfg where
  mode : OpenMode := .accept
  ptyOK : Bool := true
  reqOK : Bool := true
  eofRet : Bool := true
  armed : Bool := false
  deriving DecidableEq, Repr, Inhabited

structure PF where
  awaiting : Bool := false
  decided : Bool := false
  deriving DecidableEq, Repr, Inhabited

inductive OCb where
  | made | sessionRequested | serverRequested | lost (e : Exc)
  deriving DecidableEq, Repr, Inhabited

structure Conn where
  isClient : Bool
  win : Nat := 4                          -- receive window given to new channels
  transport : Bool := true                -- `_transport is not None`
  abortDone : Bool := false               -- `transport.abort()` ran
  chans : List Chan := []                 -- every channel object created; index = its `_recv_chan`
  ready : List Item := []
  out : List Msg := []                    -- packets written to the transport since last collected
  owner : Bool := true                    -- `_owner is not None`
  ownerTrace : List OCb := [.made]
  closeEvent : Bool := false
  wcPending : Nat := 0
  wcDone : Nat := 0
  gwaiters : List Nat := []               -- `_global_request_waiters` (index of the awaiting request task)
  gqueue : Nat := 0                       -- `_global_request_queue` length (server)
  establishing : Bool := false            -- `self._wait` set: `connect()` still waits on `_waiter`
  connectOutcome : Outcome := .ok
  cli : List CliSess := []
  srvCfg : List SrvCfg := []
  srv : List (Option Nat) := []           -- channel of the j-th `session_requested()` call, if one was made
  greqs : List Outcome := []
  pfModes : List OpenMode := []
  pfs : List PF := []
  deriving Repr

def Conn.send (s : Conn) (m : Msg) : Conn :=
  if s.transport then { s with out := s.out ++ [m] } else s

def Conn.enq (s : Conn) (it : Item) : Conn := { s with ready := s.ready ++ [it] }

/-- carry out the actions a channel method returned, for channel `k` -/
def applyAct (k : Nat) (s : Conn) : Act → Conn
  | .send rc m => s.send (.chan rc m)
  | .sendConf rc win => s.send (.openConf rc k win)
  | .sendFail rc => s.send (.openFail rc)
  | .sched e => s.enq (.chanCleanup k e)
  | .wake => s.enq (.createWake k)
  | .spawnRead => s.enq (.startReading k)

def applyActs (k : Nat) (s : Conn) (acts : List Act) : Conn := acts.foldl (applyAct k) s

def setChan (s : Conn) (k : Nat) (c : Chan) : Conn := { s with chans := s.chans.set k c }

/-- `_force_close(exc)` (connection.py:1181) -/
def forceClose (s : Conn) (e : Exc) : Conn :=
  if s.transport then
    { s with transport := false, ready := s.ready ++ [.transportAbort, .connCleanup e] }
  else s

/-- what the connection does with an exception that escaped packet processing or a task:
    DisconnectError → `_send_disconnect` + `_force_close(exc)`; anything else → `internal_error` -/
def raised (s : Conn) (e : Exc) : Conn :=
  if e = .proto then forceClose (s.send (.disconnect .proto)) .proto else forceClose s e

def ignoreErr (s : Conn) (_ : Exc) : Conn := s

/-- run a channel method on channel `k` and apply its actions; an exception goes to `onErr` -/
def withChan (s : Conn) (k : Nat) (f : Chan → R) (onErr : Conn → Exc → Conn) : Conn :=
  match s.chans[k]? with
  | none => s
  | some c =>
    let r := f c
    let s1 := applyActs k (setChan s k r.c) r.acts
    match r.err with
    | none => s1
    | some e => onErr s1 e

/-- `for chan in list(self._channels.values()): chan.process_connection_close(exc)` -/
def closeChans (e : Exc) : Nat → Conn → Conn
  | 0, s => s
  | n + 1, s =>
    let s1 := closeChans e n s
    match s1.chans[n]? with
    | some c => if c.reg then withChan s1 n (fun c => processConnectionClose c e) ignoreErr else s1
    | none => s1

/-- `SSHConnection._cleanup(exc)` (connection.py:1070): close every channel; fail the global request waiters
    (`while self._global_request_waiters: self._process_global_response(MSG_REQUEST_FAILURE, ...)`); resolve
    the connect waiter; tell the owner once; set `_close_event` -/
def connCleanup (s : Conn) (e : Exc) : Conn :=
  let s1 := closeChans e s.chans.length s
  { s1 with
    greqs := s1.gwaiters.foldl (fun g i => g.set i .listenErr) s1.greqs
    gwaiters := []
    connectOutcome := if s1.establishing then (if e = .clean then .ok else .exc e) else s1.connectOutcome
    establishing := false
    ownerTrace := if s1.owner then s1.ownerTrace ++ [.lost e] else s1.ownerTrace
    owner := false
    closeEvent := true
    wcDone := s1.wcDone + s1.wcPending
    wcPending := 0 }

/-- `connection_lost(exc)` from the transport (connection.py:1409); `reset = true`: an OSError is given -/
def connectionLost (s : Conn) (reset : Bool) : Conn :=
  if s.transport then forceClose s (if reset then .reset else .connLost) else s

/-- first step of `create_session`: the channel object (`add_channel` raises when the connection is closed),
    then `_open` sends CHANNEL_OPEN and waits -/
def createStart (s : Conn) (i : Nat) : Conn :=
  match s.cli[i]? with
  | none => s
  | some cs =>
    if cs.started then s
    else if s.transport = false then
      { s with cli := s.cli.set i { cs with started := true, early := true } }
    else
      let k := s.chans.length
      let c : Chan := { server := false, recvWin := s.win, initWin := s.win, openWaiter := true,
                        stage := .waitOpen, nenv := cs.cfg.nenv, wantPty := cs.cfg.pty, kind := cs.cfg.kind,
                        eofRet := cs.cfg.eofRet, armed := cs.cfg.armed }
      let s1 : Conn := { s with chans := s.chans ++ [c], cli := s.cli.set i { cs with started := true, slot := some k } }
      s1.send (.open_ k s.win)

def modeOf (s : Conn) (j : Nat) : OpenMode := ((s.srvCfg[j]?).map (·.mode)).getD .accept

/-- `_process_channel_open` on the server (connection.py:2718, 6319) -/
def processOpen (s : Conn) (sc win : Nat) : Conn :=
  if s.isClient then s.send (.openFail sc)       -- clients refuse session opens
  else if s.owner = false then raised s .attr
  else
    let j := s.srv.length
    let s0 : Conn := { s with ownerTrace := s.ownerTrace ++ [.sessionRequested] }
    match modeOf s0 j with
    | .refuse => ({ s0 with srv := s0.srv ++ [none] } : Conn).send (.openFail sc)
    | m =>
      let k := s0.chans.length
      let cfg : SrvCfg := (s0.srvCfg[j]?).getD {}
      let c : Chan := { server := true, recvWin := s0.win, initWin := s0.win, sendChan := some sc, sendWin := win,
                        later := decide (m = .later), fo := .start, eofRet := cfg.eofRet, ptyOK := cfg.ptyOK, reqOK := cfg.reqOK,
                        armed := cfg.armed }
      let s1 : Conn := { s0 with chans := s0.chans ++ [c], srv := s0.srv ++ [some k] }
      s1.enq (.finishOpen k)

/-- `_report_global_response(False)` + `_service_next_global_request` (connection.py:2180) -/
def reportGlobalFalse (s : Conn) : Conn :=
  let s1 := ({ s with gqueue := s.gqueue - 1 } : Conn).send .gfailure
  if s1.gqueue > 0 then s1.enq (.finishPF s1.pfs.length) else s1

/-- task `_finish_port_forward` (connection.py:6454): asks the owner, which refuses now or later -/
def finishPF (s : Conn) (j : Nat) : Conn :=
  if s.owner = false then s      -- AttributeError inside the task: reported by `_reap_task`, connection already closed
  else
    let s0 : Conn := { s with ownerTrace := s.ownerTrace ++ [.serverRequested], pfs := s.pfs ++ [({} : PF)] }
    match (s0.pfModes[j]?).getD .refuse with
    | .later => { s0 with pfs := s0.pfs.modify j (fun p => { p with awaiting := true }) }
    | _ => reportGlobalFalse s0

/-- run a channel handler for a packet addressed to channel `rc` (`self._channels[recv_chan]`) -/
def toChan (s : Conn) (rc : Nat) (f : Chan → R) : Conn :=
  match s.chans[rc]? with
  | some c => if c.reg then withChan s rc f raised else raised s .proto
  | none => raised s .proto

/-- dispatch of one received packet (`_recv_packet`, connection.py:1633); nothing once `_transport` is gone -/
def recvMsg (s : Conn) (m : Msg) : Conn :=
  if s.transport = false then s
  else
    match m with
    | .disconnect e => forceClose s (if e = .clean ∧ s.establishing then .byApp else e)
    | .chan rc cm => toChan s rc (fun c => processMsg c cm)
    | .open_ sc win => processOpen s sc win
    | .openConf rc sc win => toChan s rc (fun c => processOpenConf c sc win)
    | .openFail rc => toChan s rc processOpenFailure
    | .greq =>
      if s.isClient then s.send .gfailure
      else
        let s1 : Conn := { s with gqueue := s.gqueue + 1 }
        if s1.gqueue = 1 then s1.enq (.finishPF s1.pfs.length) else s1
    | .gsuccess =>
      (match s.gwaiters with
       | i :: rest => { s with gwaiters := rest, greqs := s.greqs.set i .ok }
       | [] => raised s .proto)
    | .gfailure =>
      (match s.gwaiters with
       | i :: rest => { s with gwaiters := rest, greqs := s.greqs.set i .listenErr }
       | [] => raised s .proto)

/-- execute one entry of the ready queue -/
def runItem (s : Conn) : Item → Conn
  | .chanCleanup k e => withChan s k (fun c => cleanup c e) ignoreErr
  | .connCleanup e => connCleanup s e
  | .transportAbort => { s with abortDone := true }
  | .createStart i => createStart s i
  | .createWake k => withChan s k createWake ignoreErr
  | .startReading k => withChan s k startReading forceClose      -- `_reap_task` → `internal_error`
  | .finishOpen k => withChan s k finishOpen ignoreErr
  | .finishOpenResume k g => withChan s k (fun c => finishOpenResume c g) ignoreErr
  | .greqStart i =>
    if s.transport = false then { s with greqs := s.greqs.set i .listenErr }
    else ({ s with gwaiters := s.gwaiters ++ [i] } : Conn).send .greq
  | .finishPF j => finishPF s j
  | .finishPFResume _ => reportGlobalFalse s

/-- run the head of the ready queue -/
def runHead (s : Conn) : Conn :=
  match s.ready with
  | [] => s
  | it :: rest => runItem { s with ready := rest } it

def runN : Nat → Conn → Conn
  | 0, s => s
  | n + 1, s => runN n (runHead s)

/-- one iteration of the event loop: the entries that were ready when it started -/
def tick (s : Conn) : Conn := runN s.ready.length s

/-- application-level operations on a connection endpoint -/
inductive ConnOp where
  | open_ (cfg : OpenCfg)                 -- `ensure_future(conn.create_session(...))`
  | chanOp (i : Nat) (op : AppOp)         -- on the channel of this endpoint's i-th session object
  | waitClosed (i : Nat)                  -- `ensure_future(chan.wait_closed())`
  | connWaitClosed
  | greq                                  -- `ensure_future(conn.create_server(...))`
  | grant (j : Nat) (g : Bool)            -- server application resolves the j-th session awaitable
  | pfDecide (j : Nat)                    -- server application refuses the j-th forward request (later mode)
  | connClose                             -- `conn.close()`
  | connAbort                             -- `conn.abort()`
  deriving DecidableEq, Repr, Inhabited

/-- channel number of the i-th session object of this endpoint, once its `connection_made` ran -/
def sessSlot (s : Conn) (i : Nat) : Option Nat :=
  let slot := if s.isClient then (s.cli[i]?).bind (·.slot) else (s.srv[i]?).bind id
  match slot with
  | some k => (match s.chans[k]? with
               | some c => if c.trace ≠ [] then some k else none
               | none => none)
  | none => none

/-- `disconnect()` (connection.py:2891): close every channel, send DISCONNECT, force close -/
def closeAll : Nat → Conn → Conn
  | 0, s => s
  | n + 1, s =>
    let s1 := closeAll n s
    match s1.chans[n]? with
    | some c => if c.reg then withChan s1 n close ignoreErr else s1
    | none => s1

/-- result line of an operation: `ok`, `nochan`, or the exception raised to the caller -/
inductive OpRes where
  | ok | nochan | raised (e : Exc)
  deriving DecidableEq, Repr, Inhabited

def connOp (s : Conn) : ConnOp → Conn × OpRes
  | .open_ cfg =>
    let i := s.cli.length
    (({ s with cli := s.cli ++ [{ cfg := cfg }] } : Conn).enq (.createStart i), .ok)
  | .chanOp i op =>
    (match sessSlot s i with
     | none => (s, .nochan)
     | some k =>
       (match s.chans[k]? with
        | none => (s, .nochan)
        | some c =>
          let r := appOp c op
          let s1 := applyActs k (setChan s k r.c) r.acts
          (s1, match r.err with | none => .ok | some e => .raised e)))
  | .waitClosed i =>
    (match sessSlot s i with
     | none => (s, .nochan)
     | some k => (match s.chans[k]? with
                  | some c => (setChan s k (waitClosed c), .ok)
                  | none => (s, .nochan)))
  | .connWaitClosed =>
    (if s.closeEvent then { s with wcDone := s.wcDone + 1 } else { s with wcPending := s.wcPending + 1 }, .ok)
  | .greq =>
    let i := s.greqs.length
    (({ s with greqs := s.greqs ++ [.pending] } : Conn).enq (.greqStart i), .ok)
  | .grant j g =>
    (match (s.srv[j]?).bind id with
     | some k =>
       (match s.chans[k]? with
        | some c =>
          if c.decided.isSome ∨ c.later = false then (s, .nochan)
          else
            let s1 := setChan s k { c with decided := some g }
            if c.fo = .awaiting then (s1.enq (.finishOpenResume k g), .ok) else (s1, .ok)
        | none => (s, .nochan))
     | none => (s, .nochan))
  | .pfDecide j =>
    (match s.pfs[j]? with
     | some p =>
       if p.decided ∨ p.awaiting = false then (s, .nochan)
       else
         let s1 : Conn := { s with pfs := s.pfs.modify j (fun p => { p with decided := true, awaiting := false }) }
         (s1.enq (.finishPFResume j), .ok)
     | none => (s, .nochan))
  | .connClose =>
    let s1 := closeAll s.chans.length s
    (forceClose (s1.send (.disconnect .clean)) .clean, .ok)
  | .connAbort => (forceClose s .clean, .ok)

/-! ### one endpoint against an arbitrary environment -/

/-- what can happen to one endpoint: any packet arrives, the event loop runs its next ready entry, the
    application calls an API, the transport reports `connection_lost` -/
inductive CEv where
  | recv (m : Msg)
  | run
  | op (o : ConnOp)
  | lose (reset : Bool)
  deriving Repr, Inhabited

def Conn.stepEv (s : Conn) : CEv → Conn
  | .recv m => recvMsg s m
  | .run => runHead s
  | .op o => (connOp s o).1
  | .lose r => connectionLost s r

/-- a freshly authenticated connection: no channels, nothing queued; role, window and the behaviour of the
    application's callbacks are arbitrary -/
def Conn.fresh (isClient : Bool) (win : Nat) (srvCfg : List SrvCfg) (pfModes : List OpenMode) : Conn :=
  { isClient := isClient, win := win, srvCfg := srvCfg, pfModes := pfModes }

def Conn.runEvs (s : Conn) (evs : List CEv) : Conn := evs.foldl Conn.stepEv s

/-! ### two endpoints and the links between them -/

structure Sys where
  c : Conn := { isClient := true }
  s : Conn := { isClient := false }
  c2s : List Msg := []
  s2c : List Msg := []
  lostC : Bool := false      -- the transport of this side reported `connection_lost`
  lostS : Bool := false
  deriving Repr

/-- move what the endpoints wrote onto the links (dropped when the receiving transport is gone) -/
def Sys.collect (y : Sys) : Sys :=
  { y with c2s := if y.lostS then [] else y.c2s ++ y.c.out,
           s2c := if y.lostC then [] else y.s2c ++ y.s.out,
           c := { y.c with out := [] }, s := { y.s with out := [] } }

inductive Ev where
  | op (client : Bool) (o : ConnOp)
  | deliver (toServer : Bool)
  | tick
  | lose (client : Bool) (reset : Bool)
  deriving DecidableEq, Repr, Inhabited

def Sys.step (y : Sys) : Ev → Sys × OpRes
  | .op true o => let (c, r) := connOp y.c o; (({ y with c := c } : Sys).collect, r)
  | .op false o => let (s, r) := connOp y.s o; (({ y with s := s } : Sys).collect, r)
  | .deliver true =>
    (match y.c2s with
     | [] => (y, .nochan)
     | m :: rest => (({ y with c2s := rest, s := recvMsg y.s m } : Sys).collect, .ok))
  | .deliver false =>
    (match y.s2c with
     | [] => (y, .nochan)
     | m :: rest => (({ y with s2c := rest, c := recvMsg y.c m } : Sys).collect, .ok))
  | .tick => (({ y with c := tick y.c, s := tick y.s } : Sys).collect, .ok)
  | .lose true reset => (({ y with c := connectionLost y.c reset, lostC := true, s2c := [] } : Sys).collect, .ok)
  | .lose false reset => (({ y with s := connectionLost y.s reset, lostS := true, c2s := [] } : Sys).collect, .ok)

def Sys.quiet (y : Sys) : Bool := y.c.ready.isEmpty && y.s.ready.isEmpty

/-- ticks until both ready queues are empty (bounded by `fuel`); returns the number of iterations used -/
def Sys.settle : Nat → Sys → Sys × Nat
  | 0, y => (y, 0)
  | fuel + 1, y =>
    if y.quiet then (y, 0)
    else let (y', n) := Sys.settle fuel (y.step .tick).1; (y', n + 1)

end AsyncsshModel.Lifecycle
