import AsyncsshModel.Model.Cert
/-
  C16 model, part 2: SSHSIG detached signatures and allowed-signers data.
  Mirrors /repo/asyncssh/sshsig.py:
    _signed_data, create_sshsig (raw blob), validate_sshsig (raw blob path),
    SSHAllowedSignersEntry.__init__ / match_options, SSHAllowedSigners.load / validate
  /repo/asyncssh/misc.py:    OptionsParser._parse_options / _add_option
  /repo/asyncssh/pattern.py: WildcardPattern (fnmatch with `[`/`]` escaped, i.e. only `*` and `?` are
                             special), _PatternList (comma list, `!` negation)
  Text is a list of Unicode code points.  Oracles (parameters): hash functions, certificate decoding
  (instantiated with `Cert.certConstruct`), public-key decoding/import, `SSHKey.verify`,
  `misc.parse_time`.  PEM-style armour (`-----BEGIN SSH SIGNATURE-----` + base64) is not modelled;
  the oracle exercises it on the real code.
  `OptMode` carries what `_add_option` does with option names (lower-casing, flag-then-value, bare value
  options); its value for the code under test is probed into `Gen.C16.signerOptMode`, and the certificate type
  `validate_sshsig` asks for is `Gen.C16.sshsigCertType`.  `addOptionPreFix` keeps the parser of a16cedc.
  Unknown option names are kept silently (code and model; OpenSSH refuses them: recorded finding A-C16-1).
-/
namespace AsyncsshModel.SshSig
open AsyncsshModel AsyncsshModel.CertWire AsyncsshModel.Cert

/-! ### wildcard patterns -/

def suffixes : List Nat → List (List Nat)
  | [] => [[]]
  | x :: xs => (x :: xs) :: suffixes xs

/-- `fnmatch.fnmatch(value, pattern)` on POSIX for patterns whose brackets were escaped by
    `_BaseWildcardPattern.__init__`: `*` (42) matches any run, `?` (63) any one character. -/
def globMatch : List Nat → List Nat → Bool
  | [], t => t.isEmpty
  | c :: p, t =>
    if c = 42 then (suffixes t).any (globMatch p)
    else match t with
      | [] => false
      | x :: t' => (c = 63 || c = x) && globMatch p t'

/-- `str.split(sep)` for a one-character separator -/
def splitOn (sep : Nat) : List Nat → List (List Nat)
  | [] => [[]]
  | c :: cs =>
    if c = sep then [] :: splitOn sep cs
    else match splitOn sep cs with
      | [] => [[c]]
      | h :: t => (c :: h) :: t

structure Pat where
  neg : Bool
  pat : List Nat
deriving DecidableEq, Repr

/-- `_PatternList.__init__` -/
def parsePatList (s : List Nat) : List Pat :=
  (splitOn 44 s).map fun p =>
    match p with
    | 33 :: r => ⟨true, r⟩
    | _ => ⟨false, p⟩

/-- `_PatternList.matches` -/
def patListMatch (pl : List Pat) (v : List Nat) : Bool :=
  pl.any (fun p => !p.neg && globMatch p.pat v) && !pl.any (fun p => p.neg && globMatch p.pat v)

/-! ### allowed-signers entries -/

inductive NsOpt where
  | absent
  | flag                 -- `namespaces` given without a value: options['namespaces'] = True
  | pats (pl : List Pat)
deriving DecidableEq, Repr

structure Entry where
  principals : List Pat
  /-- identity of the entry's key (`entry.key == key` compares key material) -/
  key : Bytes
  ca : Bool
  namespaces : NsOpt
  validAfter : Option Int
  validBefore : Option Int
deriving Repr

def Q.ltI (q : Q) (n : Int) : Bool := (q.num : Int) < n * (q.den : Int)
def Q.geI (q : Q) (n : Int) : Bool := n * (q.den : Int) ≤ (q.num : Int)

/-- `SSHAllowedSignersEntry.match_options`; `none` = AttributeError (`True.matches`) -/
def Entry.matchOptions (e : Entry) (principal ns : List Nat) (now : Q) : Option Bool :=
  if !patListMatch e.principals principal then some false
  else
    match e.namespaces with
    | .flag => none
    | nsopt =>
      let nsOk := match nsopt with
        | .pats pl => patListMatch pl ns
        | _ => true
      if !nsOk then some false
      else if (match e.validAfter with | some a => Q.ltI now a | none => false) then some false
      else if (match e.validBefore with | some b => Q.geI now b | none => false) then some false
      else some true

/-- `SSHAllowedSigners.validate(key, principal, namespace, ca)` -/
def signersValidate (es : List Entry) (key : Bytes) (principal ns : List Nat) (ca : Bool) (now : Q) :
    Option Bool :=
  match es with
  | [] => some false
  | e :: rest =>
    if e.ca = ca ∧ e.key = key then
      match e.matchOptions principal ns now with
      | none => none
      | some true => some true
      | some false => signersValidate rest key principal ns ca now
    else signersValidate rest key principal ns ca now

/-! ### allowed-signers lines -/

/-- `str.isspace` -/
def isSpace (c : Nat) : Bool :=
  (9 ≤ c && c ≤ 13) || (28 ≤ c && c ≤ 32) || c = 133 || c = 160 || c = 5760 ||
  (8192 ≤ c && c ≤ 8202) || c = 8232 || c = 8233 || c = 8239 || c = 8287 || c = 12288

def lstrip (s : List Nat) : List Nat := s.dropWhile isSpace
def rstrip (s : List Nat) : List Nat := (s.reverse.dropWhile isSpace).reverse
def strip (s : List Nat) : List Nat := rstrip (lstrip s)

/-- `str.splitlines()` line boundaries (what the loader split at before the repair of F146) -/
def isLineBreak (c : Nat) : Bool :=
  c = 10 || c = 11 || c = 12 || c = 13 || c = 28 || c = 29 || c = 30 || c = 133 || c = 8232 || c = 8233

/-- `str.splitlines()`; `cur` is the current line reversed -/
def splitLinesAux : List Nat → List Nat → List (List Nat)
  | [], cur => if cur.isEmpty then [] else [cur.reverse]
  | 13 :: 10 :: rest, cur => cur.reverse :: splitLinesAux rest []
  | c :: rest, cur =>
    if isLineBreak c then cur.reverse :: splitLinesAux rest []
    else splitLinesAux rest (c :: cur)

/-- the loader before the repair of F146: `allowed_signers.splitlines()` -/
def splitLinesPreFix (s : List Nat) : List (List Nat) := splitLinesAux s []

/-- `str.split('\n')`; `cur` is the current line reversed -/
def splitNlAux : List Nat → List Nat → List (List Nat)
  | [], cur => [cur.reverse]
  | c :: rest, cur =>
    if c = 10 then cur.reverse :: splitNlAux rest []
    else splitNlAux rest (c :: cur)

/-- `allowed_signers.split('\n')`: a line ends at a newline and nowhere else, as in OpenSSH (a carriage return before
    the newline is removed by the `strip()` that follows) -/
def splitLines (s : List Nat) : List (List Nat) := splitNlAux s []

/-- `line.split(None, 1)` on an already stripped line: `none` when there is only one field -/
def splitFirst (line : List Nat) : Option (List Nat × List Nat) :=
  let l := lstrip line
  let tok := l.takeWhile (fun c => !isSpace c)
  let rest := lstrip (l.dropWhile (fun c => !isSpace c))
  if tok.isEmpty ∨ rest.isEmpty then none else some (tok, rest)

inductive RawOpt where
  | flag                       -- `name`        : options[name] = True
  | value (v : List Nat)       -- `name=value`  : handler(value) or list append
deriving DecidableEq, Repr

/-- How `OptionsParser._add_option` treats option names; regenerated from the code into
    `Gen.C16.signerOptMode` (before the repairs of audit findings 1 and 3 all three switches were off). -/
structure OptMode where
  /-- names are lower-cased as they are parsed (OpenSSH: option keywords are case-insensitive) -/
  lower : Bool
  /-- `name,name=value`: ValueError also when the name has a value handler (before the repair the handler
      silently replaced the stored True) -/
  flagThenValueRaises : Bool
  /-- a bare `name` whose name has a value handler: ValueError (before the repair: options[name] = True) -/
  bareValueOptRaises : Bool
  /-- the names with a value handler (`SSHAllowedSignersEntry._handlers`) -/
  valueOpts : List (List Nat)

/-- `str.lower()` on the letters A–Z; other code points are left alone (exact for text without cased
    non-ASCII letters, which is what option keywords are) -/
def lowerAscii (s : List Nat) : List Nat := s.map fun c => if 65 ≤ c ∧ c ≤ 90 then c + 32 else c

def OptMode.norm (M : OptMode) (s : List Nat) : List Nat := if M.lower then lowerAscii s else s

/-- `OptionsParser._add_option`, structure only (the handlers are applied in `lineEntry`);
    `none` = an exception out of the parser: ValueError('Missing option name in options'), and for a name
    stored as a flag that is now given a value, or a bare name that needs a value, the ValueError of the
    repaired code.  (Before the repair the first of these was an AttributeError from `True.append` for names
    without a handler — also an exception out of `load`; the exact class is kept in `addOptionPreFix`.) -/
def addOption (M : OptMode) (opts : List (List Nat × RawOpt)) (option : List Nat) :
    Option (List (List Nat × RawOpt)) :=
  match option with
  | 61 :: _ => none
  | _ =>
    if option.contains 61 then
      let name := M.norm (option.takeWhile (· ≠ 61))
      if opts.reverse.lookup name = some .flag ∧ (M.flagThenValueRaises ∨ ¬ M.valueOpts.contains name) then none
      else some (opts ++ [(name, .value ((option.dropWhile (· ≠ 61)).drop 1))])
    else
      let name := M.norm option
      if M.bareValueOptRaises ∧ M.valueOpts.contains name then none
      else some (opts ++ [(name, .flag)])

/-- outcome of `_add_option` with the exception class kept -/
inductive AddResult where
  | ok (opts : List (List Nat × RawOpt))
  | valueError
  | crash            -- AttributeError: 'bool' object has no attribute 'append'
deriving DecidableEq, Repr

/-- `OptionsParser._add_option` as it was before the repairs (a16cedc): names kept as written, a bare name
    always stored as True, and `setdefault(name, []).append(value)` applied to a stored True. -/
def addOptionPreFix (valueOpts : List (List Nat)) (opts : List (List Nat × RawOpt)) (option : List Nat) :
    AddResult :=
  match option with
  | 61 :: _ => .valueError
  | _ =>
    if option.contains 61 then
      let name := option.takeWhile (· ≠ 61)
      if opts.reverse.lookup name = some .flag ∧ ¬ valueOpts.contains name then .crash
      else .ok (opts ++ [(name, .value ((option.dropWhile (· ≠ 61)).drop 1))])
    else .ok (opts ++ [(option, .flag)])

structure PState where
  quoted : Bool := false
  escaped : Bool := false
  option : List Nat := []
  opts : List (List Nat × RawOpt) := []

/-- the character loop of `OptionsParser._parse_options`.  Returns the state at the end and the
    index the loop variable `idx` holds afterwards: the position of the unquoted blank that stopped the
    loop, or the index of the last character when the loop ran off the end. -/
def parseOptLoop (M : OptMode) : List Nat → Nat → PState → Option (PState × Nat)
  | [], i, st => some (st, i - 1)
  | ch :: rest, i, st =>
    if st.escaped then parseOptLoop M rest (i + 1) { st with option := st.option ++ [ch], escaped := false }
    else if ch = 92 then parseOptLoop M rest (i + 1) { st with escaped := true }
    else if ch = 34 then parseOptLoop M rest (i + 1) { st with quoted := !st.quoted }
    else if st.quoted then parseOptLoop M rest (i + 1) { st with option := st.option ++ [ch] }
    else if ch = 32 ∨ ch = 9 then some (st, i)
    else if ch = 44 then
      match addOption M st.opts st.option with
      | none => none
      | some o => parseOptLoop M rest (i + 1) { st with opts := o, option := [] }
    else parseOptLoop M rest (i + 1) { st with option := st.option ++ [ch] }

/-- `OptionsParser._parse_options(line)` without the handlers: options in order and the rest of the line;
    `none` = ValueError (missing name, unbalanced quote or backslash) -/
def parseOptions (M : OptMode) (line : List Nat) : Option (List (List Nat × RawOpt) × List Nat) :=
  match parseOptLoop M line 0 {} with
  | none => none
  | some (st, idx) =>
    match addOption M st.opts st.option with
    | none => none
    | some opts =>
      if st.quoted ∨ st.escaped then none
      else some (opts, strip (line.drop idx))

inductive LineResult where
  | entry (e : Entry)
  | skip          -- KeyImportError: `continue`
  | raises        -- ValueError out of `load`
deriving Repr

def nm (s : String) : List Nat := s.toList.map Char.toNat

/-- last binding of a name (dict semantics) -/
def lookupLast (name : String) (opts : List (List Nat × RawOpt)) : Option RawOpt :=
  opts.reverse.lookup (nm name)

/-- the `_set_time` handler runs for every `valid-after=`/`valid-before=` as it is parsed -/
def timesOk (parseTime : List Nat → Option Int) (opts : List (List Nat × RawOpt)) : Bool :=
  opts.all fun p =>
    match p.2 with
    | .value v => if p.1 = nm "valid-after" ∨ p.1 = nm "valid-before" then (parseTime v).isSome else true
    | .flag => true

/-- `SSHAllowedSignersEntry(line)` for a stripped, non-empty, non-comment line.
    `importKey s` is the identity of `import_public_key(s)` or `none` for KeyImportError;
    `parseTime v` is `misc.parse_time(v)` or `none` for ValueError. -/
def lineEntry (M : OptMode) (importKey : List Nat → Option Bytes) (parseTime : List Nat → Option Int)
    (line : List Nat) : LineResult :=
  match splitFirst line with
  | none => .raises                                        -- Missing public key in allowed_signers
  | some (princ, rest) =>
    let pl := parsePatList princ
    match importKey rest with
    | some k => .entry { principals := pl, key := k, ca := false, namespaces := .absent,
                         validAfter := none, validBefore := none }
    | none =>
      match parseOptions M rest with
      | none => .raises
      | some (opts, rest2) =>
        if !timesOk parseTime opts then .raises
        else
          match importKey rest2 with
          | none => .skip
          | some k =>
            let tm := fun (n : String) => match lookupLast n opts with
              | some (.value v) => parseTime v
              | some .flag => some 1                       -- options[name] = True compares as 1
              | none => none
            .entry { principals := pl, key := k,
                     ca := (lookupLast "cert-authority" opts).isSome,
                     namespaces := match lookupLast "namespaces" opts with
                       | some (.value v) => .pats (parsePatList v)
                       | some .flag => .flag
                       | none => .absent,
                     validAfter := tm "valid-after", validBefore := tm "valid-before" }

/-- `SSHAllowedSigners.load(text)`: `none` = ValueError (a raising line, or no valid entry) -/
def loadLines (M : OptMode) (importKey : List Nat → Option Bytes) (parseTime : List Nat → Option Int) :
    List (List Nat) → Option (List Entry)
  | [] => some []
  | l :: ls =>
    let line := strip l
    if line.isEmpty ∨ line.head? = some 35 then loadLines M importKey parseTime ls
    else match lineEntry M importKey parseTime line with
      | .raises => none
      | .skip => loadLines M importKey parseTime ls
      | .entry e => (loadLines M importKey parseTime ls).map (e :: ·)

def loadSignersWith (split : List Nat → List (List Nat)) (M : OptMode) (importKey : List Nat → Option Bytes)
    (parseTime : List Nat → Option Int) (text : List Nat) : Option (List Entry) :=
  match loadLines M importKey parseTime (split text) with
  | none => none
  | some [] => none                                         -- No valid entries found
  | some es => some es

def loadSigners (M : OptMode) (importKey : List Nat → Option Bytes) (parseTime : List Nat → Option Int)
    (text : List Nat) : Option (List Entry) :=
  loadSignersWith splitLines M importKey parseTime text

/-- `import_allowed_signers(text)` = `SSHAllowedSigners(text)`: the constructor only loads a non-empty
    string (`if allowed_signers:`), so the empty text gives an object without entries -/
def importSigners (M : OptMode) (importKey : List Nat → Option Bytes) (parseTime : List Nat → Option Int)
    (text : List Nat) : Option (List Entry) :=
  if text.isEmpty then some [] else loadSigners M importKey parseTime text

/-! ### SSHSIG blobs -/

/-- `_signed_data` after the digest has been computed -/
def signedData (magic ns hashName digest : Bytes) : Bytes :=
  magic ++ sshString ns ++ sshString [] ++ sshString hashName ++ sshString digest

/-- the raw blob `create_sshsig(..., raw=True)` returns -/
def encodeSigBlob (magic : Bytes) (version : Nat) (pub ns hashName sig : Bytes) : Bytes :=
  magic ++ u32 version ++ sshString pub ++ sshString ns ++ sshString [] ++ sshString hashName ++ sshString sig

structure SigBlob where
  pub : Bytes
  ns : Bytes
  reserved : Bytes
  hashName : Bytes
  sig : Bytes
deriving Repr, DecidableEq

/-- `validate_sshsig`, first reads: magic, version and the public-key string; `none` ⇒ `return False` -/
def parseSigHead (magic : Bytes) (version : Nat) (b : Bytes) : Option (Bytes × Bytes) :=
  match getBytes magic.length b with
  | none => none
  | some (m, r0) =>
    match getU32 r0 with
    | none => none
    | some (v, r1) =>
      if m ≠ magic ∨ v ≠ version then none
      else getString r1

/-- `validate_sshsig`, remaining reads (after the key was decoded): namespace, reserved, hash name,
    signature, `check_end()` -/
def parseSigTail (r : Bytes) : Option (Bytes × Bytes × Bytes × Bytes) :=
  match parseFields [.str, .str, .str, .str] r with
  | some ([.bytes ns, .bytes reserved, .bytes hashName, .bytes sig], []) => some (ns, reserved, hashName, sig)
  | _ => none

/-- all the `get_*` calls of `validate_sshsig` on a raw blob -/
def parseSigBlob (magic : Bytes) (version : Nat) (b : Bytes) : Option SigBlob :=
  match parseSigHead magic version b with
  | none => none
  | some (pub, rest) =>
    match parseSigTail rest with
    | none => none
    | some (ns, reserved, hashName, sig) =>
      some { pub := pub, ns := ns, reserved := reserved, hashName := hashName, sig := sig }

/-- outcome of a decoder of untrusted bytes: a value, KeyImportError, or any other exception (which the
    callers here do not catch) -/
inductive Dec (α : Type) where
  | ok (a : α)
  | importError
  | crash

structure SigEnv where
  magic : Bytes
  version : Nat
  /-- `_hashes`: name ↦ digest size -/
  hashes : List (Bytes × Nat)
  hash : Bytes → Bytes → Bytes
  /-- `decode_ssh_certificate(pubdata)` (OpenSSH certificates) -/
  decodeCert : Bytes → Dec Cert
  /-- identity of `decode_ssh_public_key(pubdata)` -/
  decodeKey : Bytes → Dec Bytes
  /-- `key.verify(data, sig)` for the key with this identity -/
  verify : Bytes → Bytes → Bytes → Bool
  /-- `cert.validate(t, principal)` does not raise, for the type `t` that `validate_sshsig` passes
      (`Gen.C16.sshsigCertType`: CERT_TYPE_USER; CERT_TYPE_ANY before the repair of audit finding 5) -/
  certValid : Cert → List Nat → Q → Bool

inductive Verdict where
  | valid | invalid | raises
deriving DecidableEq, Repr

/-- `_signed_data(data, is_hashed, hash_name, namespace)`; `none` = ValueError -/
def signedDataFor (E : SigEnv) (msg : Bytes) (isHashed : Bool) (hashName ns : Bytes) : Option Bytes :=
  match E.hashes.lookup hashName with
  | none => none                                            -- Unsupported hash algorithm
  | some size =>
    if ns = [] then none                                    -- Namespace must be a non-empty string
    else if isHashed then
      if msg.length ≠ size then none else some (signedData E.magic ns hashName msg)
    else some (signedData E.magic ns hashName (E.hash hashName msg))

/-- `validate_sshsig(data, sig, principal, allowed_signers, is_hashed=…)` on a raw blob.
    `signers = none` means loading the allowed-signers data raises. -/
def validateSshsig (E : SigEnv) (msg : Bytes) (isHashed : Bool) (sig : Bytes) (principal : List Nat)
    (signers : Option (List Entry)) (now : Q) : Verdict :=
  match parseSigHead E.magic E.version sig with
  | none => .invalid
  | some (pub, rest) =>
    -- certificate first, then plain key; exceptions other than KeyImportError are not caught
    let who : Dec (Option Cert × Bytes) :=
      match E.decodeCert pub with
      | .ok c => .ok (some c, c.keyData)
      | .crash => .crash
      | .importError =>
        match E.decodeKey pub with
        | .ok k => .ok (none, k)
        | .crash => .crash
        | .importError => .importError
    match who with
    | .crash => .raises
    | .importError => .invalid
    | .ok (cert, key) =>
      match parseSigTail rest with
      | none => .invalid
      | some (ns, _reserved, hashName, sigv) =>
        match utf8Decode ns with
        | none => .invalid
        | some nsText =>
          match signedDataFor E msg isHashed hashName ns with
          | none => .raises
          | some toVerify =>
            if !E.verify key toVerify sigv then .invalid
            else
              match signers with
              | none => .raises
              | some es =>
                match signersValidate es key principal nsText false now with
                | none => .raises
                | some true => .valid
                | some false =>
                  match cert with
                  | none => .invalid
                  | some c =>
                    match E.decodeKey c.ca with
                    | .ok caKey =>
                      match signersValidate es caKey principal nsText true now with
                      | none => .raises
                      | some false => .invalid
                      | some true => if E.certValid c principal now then .valid else .invalid
                    | _ => .invalid          -- unreachable: the certificate decoder checked the CA key

end AsyncsshModel.SshSig
