import AsyncsshModel.Model.KexWire
import AsyncsshModel.Gen.C03
/-
  C03 model, part 1: algorithm negotiation as /repo/asyncssh/connection.py does it.

  * `KexInit.encode?`   — the KEXINIT payload built by `_send_kexinit` (connection.py:1853-1898):
                          type byte, 16-byte cookie, ten name-lists, `first_kex_packet_follows`, reserved.
  * `parseKexInit`      — the getter sequence at the top of `_process_kexinit` (2364-2377) incl. `check_end()`.
  * `classifyVersionLine` — `_recv_version` (1566-1611) for one received line.
  * `chooseAlg`         — `_choose_alg` (1495-1516): first algorithm on the client's list the server has.
  * `negotiate`         — the sequence of `_choose_alg` calls of `_process_kexinit` (2433-2466), with the
                          server's host-key choice (`choose_server_host_key`, 5937-5956) and the rule that a
                          cipher which needs no MAC fixes the MAC name (2451-2461).
  Names are byte strings (`Bytes`); tables come from the regenerated `Gen/C03.lean`.
-/
namespace AsyncsshModel.Kex
open AsyncsshModel AsyncsshModel.KexWire

abbrev Name := Bytes

/-- exception classes of misc.py that end a handshake (`disconnect c` = the peer sent DISCONNECT with code `c`,
    `internal` = any other exception reaching `internal_error()`) -/
inductive Err
  | proto | kexFailed | hostKey | internal
  | disconnect (code : Nat)
  deriving DecidableEq, Repr

/-! ### KEXINIT -/

structure KexInit where
  cookie : Bytes
  kexAlgs : List Name
  hostKeyAlgs : List Name
  encCS : List Name
  encSC : List Name
  macCS : List Name
  macSC : List Name
  cmpCS : List Name
  cmpSC : List Name
  langCS : List Name
  langSC : List Name
  firstFollows : Bool
  reserved : Nat
  deriving DecidableEq, Repr

def msgByte (n : Nat) : UInt8 := UInt8.ofNat n

/-- all pieces present ↦ their concatenation (a missing piece = the Python expression raised) -/
def concatPieces : List (Option Bytes) → Option Bytes
  | [] => some []
  | none :: _ => none
  | some x :: r => (concatPieces r).map (x ++ ·)

/-- the bytes after the message type: cookie, ten name-lists, boolean, uint32 -/
def KexInit.encodeBody? (k : KexInit) : Option Bytes :=
  concatPieces [some k.cookie, encNameList? k.kexAlgs, encNameList? k.hostKeyAlgs, encNameList? k.encCS,
    encNameList? k.encSC, encNameList? k.macCS, encNameList? k.macSC, encNameList? k.cmpCS,
    encNameList? k.cmpSC, encNameList? k.langCS, encNameList? k.langSC,
    some (encBoolean k.firstFollows), encUInt32? k.reserved]

/-- the whole payload (`packet` in `_send_kexinit`), which is also what goes into the exchange hash -/
def KexInit.encode? (k : KexInit) : Option Bytes :=
  (k.encodeBody?).map (msgByte Gen.C03.MSG_KEXINIT :: ·)

/-- the getter sequence of `_process_kexinit` on the bytes after the type byte; `none` = PacketDecodeError -/
def parseKexInit (b : Bytes) : Option KexInit :=
  match getBytes 16 b with
  | none => none
  | some (cookie, b) =>
  match getNameList b with
  | none => none
  | some (l1, b) =>
  match getNameList b with
  | none => none
  | some (l2, b) =>
  match getNameList b with
  | none => none
  | some (l3, b) =>
  match getNameList b with
  | none => none
  | some (l4, b) =>
  match getNameList b with
  | none => none
  | some (l5, b) =>
  match getNameList b with
  | none => none
  | some (l6, b) =>
  match getNameList b with
  | none => none
  | some (l7, b) =>
  match getNameList b with
  | none => none
  | some (l8, b) =>
  match getNameList b with
  | none => none
  | some (l9, b) =>
  match getNameList b with
  | none => none
  | some (l10, b) =>
  match getBoolean b with
  | none => none
  | some (ff, b) =>
  match getUInt32 b with
  | none => none
  | some (res, b) =>
    if b.isEmpty then
      some { cookie := cookie, kexAlgs := l1, hostKeyAlgs := l2, encCS := l3, encSC := l4, macCS := l5,
             macSC := l6, cmpCS := l7, cmpSC := l8, langCS := l9, langSC := l10, firstFollows := ff,
             reserved := res }
    else none

/-! ### version line (`_recv_version`) -/

def isPrefixOf (p l : Bytes) : Bool := l.take p.length == p

/-- `if version.endswith(b'\r'): version = version[:-1]` -/
def stripCR (l : Bytes) : Bytes :=
  if l.getLast? = some 13 then l.dropLast else l

inductive VersionLine
  | version (v : Bytes)     -- recorded as the peer's version string (what goes into the hash)
  | banner                  -- ignored by a client
  | reject (e : Err)
  deriving DecidableEq, Repr

/-- one received line (the bytes before the LF) -/
def classifyVersionLine (isClient : Bool) (line : Bytes) : VersionLine :=
  if Gen.C03.MAX_BANNER_LINE_LEN ≤ line.length then .reject .proto        -- no LF within the limit
  else
    let v := stripCR line
    if isPrefixOf (strBytes "SSH-2.0-") v || isPrefixOf (strBytes "SSH-1.99-") v then
      if Gen.C03.MAX_VERSION_LINE_LEN < v.length then .reject .proto
      else if v.any (· ≥ 128) then .reject .internal     -- `version.decode('ascii')` raises UnicodeDecodeError
      else .version v
    else if isClient && !isPrefixOf (strBytes "SSH-") v then .banner
    else .reject .proto        -- ProtocolNotSupported is reported in the same class by the harness

/-! ### choice of one algorithm -/

/-- `for alg in client_algs: if alg in server_algs: return alg` -/
def firstIn : List Name → List Name → Option Name
  | [], _ => none
  | a :: r, s => if a ∈ s then some a else firstIn r s

/-- `_choose_alg(alg_type, local_algs, remote_algs)`; `none` = KeyExchangeFailed -/
def chooseAlg (isClient : Bool) (localAlgs remoteAlgs : List Name) : Option Name :=
  if isClient then firstIn localAlgs remoteAlgs else firstIn remoteAlgs localAlgs

/-! ### the whole negotiation -/

/-- the configured lists of one endpoint (`_kex_algs` after `expand_kex_algs`, `_server_host_key_algs`,
    `_enc_algs`, `_mac_algs`, `_cmp_algs`) -/
structure LocalAlgs where
  kex : List Name
  hostKey : List Name
  enc : List Name
  mac : List Name
  cmp : List Name
  deriving DecidableEq, Repr

structure Negotiated where
  kex : Name
  encCS : Name
  encSC : Name
  macCS : Name
  macSC : Name
  cmpCS : Name
  cmpSC : Name
  deriving DecidableEq, Repr

def names (l : List String) : List Name := l.map strBytes

/-- `encryption_needs_mac` from the regenerated cipher table -/
def needsMac (alg : Name) : Bool :=
  match Gen.C03.encTable.find? (fun r => strBytes r.1 == alg) with
  | some r => r.2.1
  | none => true

def extraKex (isClient : Bool) : List Name :=
  names (if isClient then Gen.C03.extraKexClient else Gen.C03.extraKexServer)

/-- what `_send_kexinit` puts on the wire for a configuration -/
def sentKexInit (isClient : Bool) (cookie : Bytes) (a : LocalAlgs) : KexInit :=
  { cookie := cookie
    kexAlgs := a.kex ++ extraKex isClient
    hostKeyAlgs := if a.hostKey.isEmpty then [strBytes "null"] else a.hostKey
    encCS := a.enc, encSC := a.enc, macCS := a.mac, macSC := a.mac, cmpCS := a.cmp, cmpSC := a.cmp
    langCS := [], langSC := [], firstFollows := false, reserved := 0 }

def optErr {α : Type} (o : Option α) (e : Err) : Except Err α :=
  match o with
  | some a => .ok a
  | none => .error e

/-- what `_choose_alg` raises when the lists are disjoint: KeyExchangeFailed, whose message is built with
    `b','.join(algs).decode('ascii')` for both lists — a name with a byte ≥ 0x80 makes that raise
    UnicodeDecodeError instead, which reaches `internal_error()` -/
def chooseErr (localAlgs remoteAlgs : List Name) : Err :=
  if localAlgs.any (·.any (· ≥ 128)) || remoteAlgs.any (·.any (· ≥ 128)) then .internal else .kexFailed

/-- `_choose_alg` with its exception -/
def chooseOrErr (isClient : Bool) (localAlgs remoteAlgs : List Name) : Except Err Name :=
  optErr (chooseAlg isClient localAlgs remoteAlgs) (chooseErr localAlgs remoteAlgs)

/-- the cipher, MAC and compression choices of `_process_kexinit` (2446-2466), in the code's order -/
def negotiateRest (isClient : Bool) (loc : LocalAlgs) (peer : KexInit) (kex : Name) : Except Err Negotiated := do
  let encCS ← chooseOrErr isClient loc.enc peer.encCS
  let encSC ← chooseOrErr isClient loc.enc peer.encSC
  let macCS ← if needsMac encCS then chooseOrErr isClient loc.mac peer.macCS else pure encCS
  let macSC ← if needsMac encSC then chooseOrErr isClient loc.mac peer.macSC else pure encSC
  let cmpCS ← chooseOrErr isClient loc.cmp peer.cmpCS
  let cmpSC ← chooseOrErr isClient loc.cmp peer.cmpSC
  pure { kex := kex, encCS := encCS, encSC := encSC, macCS := macCS, macSC := macSC,
         cmpCS := cmpCS, cmpSC := cmpSC }

/-- a server without a key for any host key algorithm of the client gives up, unless the exchange is a GSS
    one (`kex_alg.startswith(b'gss-')`) -/
def serverLacksHostKey (isClient : Bool) (loc : LocalAlgs) (peer : KexInit) (kex : Name) : Bool :=
  !isClient && (firstIn peer.hostKeyAlgs loc.hostKey).isNone && !isPrefixOf (strBytes "gss-") kex

/-- the part of `_process_kexinit` that picks algorithms (2433-2466) -/
def negotiate (isClient : Bool) (loc : LocalAlgs) (peer : KexInit) : Except Err Negotiated :=
  match chooseAlg isClient loc.kex peer.kexAlgs with
  | none => .error (chooseErr loc.kex peer.kexAlgs)
  | some kex =>
    if serverLacksHostKey isClient loc peer kex then .error .kexFailed
    else negotiateRest isClient loc peer kex

/-- `choose_server_host_key(peer_host_key_algs)`: the first client algorithm the server has a key for -/
def chooseHostKeyAlg (serverKeyAlgs clientAlgs : List Name) : Option Name :=
  firstIn clientAlgs serverKeyAlgs

/-- `self._ignore_first_kex = first_kex_follows and self._kex.algorithm != peer_kex_algs[0]` -/
def ignoreFirstKex (peer : KexInit) (kex : Name) : Bool :=
  peer.firstFollows && (peer.kexAlgs.head? != some kex)

/-- strict key exchange is switched on by the peer's marker (first exchange only) -/
def peerStrict (isClient : Bool) (peer : KexInit) : Bool :=
  strBytes (if isClient then Gen.C03.strictMarkerFromServer else Gen.C03.strictMarkerFromClient) ∈ peer.kexAlgs

end AsyncsshModel.Kex
