import AsyncsshModel.Model.KexWire
import AsyncsshModel.Gen.C03
/-
  C03 model, part 1: algorithm negotiation as /repo/asyncssh/connection.py does it.

  * `KexInit.encode?`   — the KEXINIT payload built by `_send_kexinit` (connection.py:1853-1898):
                          type byte, 16-byte cookie, ten name-lists, `first_kex_packet_follows`, reserved.
  * `parseKexInit`      — the getter sequence at the top of `_process_kexinit` (2364-2377) incl. `check_end()`.
  * `classifyVersionLine` — `_recv_version` (1566-1611) for one received line.
  * `chooseAlg`         — `_choose_alg` (1495-1516): first algorithm on the client's list the server has.
  * `negotiate`         — the sequence of `_choose_alg` calls of `_process_kexinit`, with the host key
                          algorithm (the server's `choose_server_host_key`, the client's
                          `_choose_alg('server host key', ...)`) and the rule that a cipher which needs no MAC
                          fixes the MAC name.
  * `sigAlgFor`         — `get_signature_alg` (public_key.py): the signature algorithm that belongs to a host
                          key algorithm.
  Names are byte strings (`Bytes`); tables come from the regenerated `Gen/C03.lean`.
-/
namespace AsyncsshModel.Kex
open AsyncsshModel AsyncsshModel.KexWire

abbrev Name := Bytes

/-- exception classes of misc.py that end a handshake (`disconnect c` = the peer sent DISCONNECT with code `c`,
    `internal` = any other exception reaching `internal_error()`) -/
inductive Err
  | proto | kexFailed | hostKey | internal
  | disconnect (code : Nat)
  deriving DecidableEq, Repr

/-! ### KEXINIT -/

structure KexInit where
  cookie : Bytes
  kexAlgs : List Name
  hostKeyAlgs : List Name
  encCS : List Name
  encSC : List Name
  macCS : List Name
  macSC : List Name
  cmpCS : List Name
  cmpSC : List Name
  langCS : List Name
  langSC : List Name
  firstFollows : Bool
  reserved : Nat
  deriving DecidableEq, Repr

def msgByte (n : Nat) : UInt8 := UInt8.ofNat n

/-- all pieces present ↦ their concatenation (a missing piece = the Python expression raised) -/
def concatPieces : List (Option Bytes) → Option Bytes
  | [] => some []
  | none :: _ => none
  | some x :: r => (concatPieces r).map (x ++ ·)

/-- the bytes after the message type: cookie, ten name-lists, boolean, uint32 -/
def KexInit.encodeBody? (k : KexInit) : Option Bytes :=
  concatPieces [some k.cookie, encNameList? k.kexAlgs, encNameList? k.hostKeyAlgs, encNameList? k.encCS,
    encNameList? k.encSC, encNameList? k.macCS, encNameList? k.macSC, encNameList? k.cmpCS,
    encNameList? k.cmpSC, encNameList? k.langCS, encNameList? k.langSC,
    some (encBoolean k.firstFollows), encUInt32? k.reserved]

/-- the whole payload (`packet` in `_send_kexinit`), which is also what goes into the exchange hash -/
def KexInit.encode? (k : KexInit) : Option Bytes :=
  (k.encodeBody?).map (msgByte Gen.C03.MSG_KEXINIT :: ·)

/-- the getter sequence of `_process_kexinit` on the bytes after the type byte; `none` = PacketDecodeError -/
def parseKexInit (b : Bytes) : Option KexInit :=
  match getBytes 16 b with
  | none => none
  | some (cookie, b) =>
  match getNameList b with
  | none => none
  | some (l1, b) =>
  match getNameList b with
  | none => none
  | some (l2, b) =>
  match getNameList b with
  | none => none
  | some (l3, b) =>
  match getNameList b with
  | none => none
  | some (l4, b) =>
  match getNameList b with
  | none => none
  | some (l5, b) =>
  match getNameList b with
  | none => none
  | some (l6, b) =>
  match getNameList b with
  | none => none
  | some (l7, b) =>
  match getNameList b with
  | none => none
  | some (l8, b) =>
  match getNameList b with
  | none => none
  | some (l9, b) =>
  match getNameList b with
  | none => none
  | some (l10, b) =>
  match getBoolean b with
  | none => none
  | some (ff, b) =>
  match getUInt32 b with
  | none => none
  | some (res, b) =>
    if b.isEmpty then
      some { cookie := cookie, kexAlgs := l1, hostKeyAlgs := l2, encCS := l3, encSC := l4, macCS := l5,
             macSC := l6, cmpCS := l7, cmpSC := l8, langCS := l9, langSC := l10, firstFollows := ff,
             reserved := res }
    else none

/-! ### version line (`_recv_version`) -/

def isPrefixOf (p l : Bytes) : Bool := l.take p.length == p

/-- `if version.endswith(b'\r'): version = version[:-1]` -/
def stripCR (l : Bytes) : Bytes :=
  if l.getLast? = some 13 then l.dropLast else l

inductive VersionLine
  | version (v : Bytes)     -- recorded as the peer's version string (what goes into the hash)
  | banner                  -- ignored by a client
  | reject (e : Err)
  deriving DecidableEq, Repr

/-- one received line (the bytes before the LF) -/
def classifyVersionLine (isClient : Bool) (line : Bytes) : VersionLine :=
  if Gen.C03.MAX_BANNER_LINE_LEN ≤ line.length then .reject .proto        -- no LF within the limit
  else
    let v := stripCR line
    if isPrefixOf (strBytes "SSH-2.0-") v || isPrefixOf (strBytes "SSH-1.99-") v then
      if Gen.C03.MAX_VERSION_LINE_LEN < v.length then .reject .proto
      else .version v      -- non-ASCII bytes are kept (decoded with `backslashreplace` for the extra info only)
    else if isClient && !isPrefixOf (strBytes "SSH-") v then .banner
    else .reject .proto        -- ProtocolNotSupported is reported in the same class by the harness

/-! ### choice of one algorithm -/

/-- `for alg in client_algs: if alg in server_algs: return alg` -/
def firstIn : List Name → List Name → Option Name
  | [], _ => none
  | a :: r, s => if a ∈ s then some a else firstIn r s

/-- `_choose_alg(alg_type, local_algs, remote_algs)`; `none` = KeyExchangeFailed -/
def chooseAlg (isClient : Bool) (localAlgs remoteAlgs : List Name) : Option Name :=
  if isClient then firstIn localAlgs remoteAlgs else firstIn remoteAlgs localAlgs

/-! ### the whole negotiation -/

/-- the configured lists of one endpoint (`_kex_algs` after `expand_kex_algs`, `_server_host_key_algs`,
    `_enc_algs`, `_mac_algs`, `_cmp_algs`) -/
structure LocalAlgs where
  kex : List Name
  hostKey : List Name
  enc : List Name
  mac : List Name
  cmp : List Name
  deriving DecidableEq, Repr

structure Negotiated where
  kex : Name
  /-- the server host key algorithm (`[]` = none: GSS key exchange) -/
  hostKey : Name
  encCS : Name
  encSC : Name
  macCS : Name
  macSC : Name
  cmpCS : Name
  cmpSC : Name
  deriving DecidableEq, Repr

def names (l : List String) : List Name := l.map strBytes

/-- `encryption_needs_mac` from the regenerated cipher table -/
def needsMac (alg : Name) : Bool :=
  match Gen.C03.encTable.find? (fun r => strBytes r.1 == alg) with
  | some r => r.2.1
  | none => true

def extraKex (isClient : Bool) : List Name :=
  names (if isClient then Gen.C03.extraKexClient else Gen.C03.extraKexServer)

/-- what `_send_kexinit` puts on the wire for a configuration -/
def sentKexInit (isClient : Bool) (cookie : Bytes) (a : LocalAlgs) : KexInit :=
  { cookie := cookie
    kexAlgs := a.kex ++ extraKex isClient
    hostKeyAlgs := if a.hostKey.isEmpty then [strBytes "null"] else a.hostKey
    encCS := a.enc, encSC := a.enc, macCS := a.mac, macSC := a.mac, cmpCS := a.cmp, cmpSC := a.cmp
    langCS := [], langSC := [], firstFollows := false, reserved := 0 }

def optErr {α : Type} (o : Option α) (e : Err) : Except Err α :=
  match o with
  | some a => .ok a
  | none => .error e

/-- what `_choose_alg` raises when the lists are disjoint: KeyExchangeFailed (its message decodes the peer's
    names with `backslashreplace`, so a name with a byte ≥ 0x80 changes nothing) -/
def chooseErr (_localAlgs _remoteAlgs : List Name) : Err := .kexFailed

/-- `_choose_alg` with its exception -/
def chooseOrErr (isClient : Bool) (localAlgs remoteAlgs : List Name) : Except Err Name :=
  optErr (chooseAlg isClient localAlgs remoteAlgs) (chooseErr localAlgs remoteAlgs)

/-- the cipher, MAC and compression choices of `_process_kexinit` (2446-2466), in the code's order -/
def negotiateRest (isClient : Bool) (loc : LocalAlgs) (peer : KexInit) (kex hostKey : Name) :
    Except Err Negotiated := do
  let encCS ← chooseOrErr isClient loc.enc peer.encCS
  let encSC ← chooseOrErr isClient loc.enc peer.encSC
  let macCS ← if needsMac encCS then chooseOrErr isClient loc.mac peer.macCS else pure encCS
  let macSC ← if needsMac encSC then chooseOrErr isClient loc.mac peer.macSC else pure encSC
  let cmpCS ← chooseOrErr isClient loc.cmp peer.cmpCS
  let cmpSC ← chooseOrErr isClient loc.cmp peer.cmpSC
  pure { kex := kex, hostKey := hostKey, encCS := encCS, encSC := encSC, macCS := macCS, macSC := macSC,
         cmpCS := cmpCS, cmpSC := cmpSC }

/-- `kex_alg.startswith(b'gss-')` -/
def isGssKex (kex : Name) : Bool := isPrefixOf (strBytes "gss-") kex

/-- `choose_server_host_key(peer_host_key_algs)`: the first client algorithm the server has a key for -/
def chooseHostKeyAlg (serverKeyAlgs clientAlgs : List Name) : Option Name :=
  firstIn clientAlgs serverKeyAlgs

/-- the server host key algorithm of `_process_kexinit`.  A server runs `choose_server_host_key` and gives up
    (KeyExchangeFailed) without a key for any algorithm of the client; a client records
    `_choose_alg('server host key', self._server_host_key_algs, peer_host_key_algs)`.  A GSS exchange
    (`kex_alg.startswith(b'gss-')`) needs none: the server keeps a key if it has one, the client chooses nothing. -/
def chooseHostKey (isClient : Bool) (loc : LocalAlgs) (peer : KexInit) (kex : Name) : Except Err Name :=
  if isGssKex kex then
    .ok (if isClient then [] else (chooseHostKeyAlg loc.hostKey peer.hostKeyAlgs).getD [])
  else chooseOrErr isClient loc.hostKey peer.hostKeyAlgs

/-- the client before the repair: `peer_host_key_algs` was parsed and never used, nothing was chosen -/
def chooseHostKeyPreFix (isClient : Bool) (loc : LocalAlgs) (peer : KexInit) (kex : Name) : Except Err Name :=
  if isClient then .ok [] else chooseHostKey false loc peer kex

/-- the part of `_process_kexinit` that picks algorithms, in the code's order: key exchange method, server
    host key algorithm, then ciphers, MACs and compression -/
def negotiate (isClient : Bool) (loc : LocalAlgs) (peer : KexInit) : Except Err Negotiated :=
  match chooseAlg isClient loc.kex peer.kexAlgs with
  | none => .error (chooseErr loc.kex peer.kexAlgs)
  | some kex =>
    match chooseHostKey isClient loc peer kex with
    | .error e => .error e
    | .ok hostKey => negotiateRest isClient loc peer kex hostKey

/-- `get_signature_alg(host_key_alg)` (public_key.py): the signature algorithm that goes with a host key
    algorithm — certificate algorithms map through `_certificate_sig_alg_map`, and `SSHKey.sign` drops the
    `x509v3-` prefix.  It is what `SSHKeyPair.set_sig_algorithm` + `SSHKey.sign` put in front of a signature. -/
def sigAlgFor (hostKeyAlg : Name) : Name :=
  let a := match Gen.C03.certSigAlgMap.find? (fun r => strBytes r.1 == hostKeyAlg) with
    | some r => strBytes r.2
    | none => hostKeyAlg
  if isPrefixOf (strBytes "x509v3-") a then a.drop 7 else a

/-- `self._ignore_first_kex = first_kex_follows and self._kex.algorithm != peer_kex_algs[0]` -/
def ignoreFirstKex (peer : KexInit) (kex : Name) : Bool :=
  peer.firstFollows && (peer.kexAlgs.head? != some kex)

/-- strict key exchange is switched on by the peer's marker (first exchange only) -/
def peerStrict (isClient : Bool) (peer : KexInit) : Bool :=
  strBytes (if isClient then Gen.C03.strictMarkerFromServer else Gen.C03.strictMarkerFromClient) ∈ peer.kexAlgs

end AsyncsshModel.Kex
